-------------------------------- MODULE Exit --------------------------------
(***************************************************************************)
(* Exit status of `pint lint` and `pint ci` (property C05).                *)
(*                                                                         *)
(* Impl side : transcribes                                                 *)
(*    internal/checks/base.go      Severity (iota order), ParseSeverity    *)
(*    internal/reporter/reporter.go Summary.SortReports / Dedup /          *)
(*                                 CountBySeverity, Report.isSameIssue     *)
(*    internal/reporter/console.go ConsoleReporter.Submit (what is shown)  *)
(*    internal/reporter/json.go    JSONReporter.Submit (all reports)       *)
(*    cmd/pint/lint.go actionLint  parse --min-severity, --fail-on, sort,  *)
(*                                 dedup, submit, bySeverity loop          *)
(*    cmd/pint/ci.go   actionCI    parse --fail-on, problemsFound loop,    *)
(*                                 sort, dedup, submit                     *)
(*   as a staged machine (one action per statement group, named after it). *)
(* Doc side  : `--fail-on`: "Exit with non-zero code if there are problems *)
(*   with given severity (or higher) detected" (default bug), docs/index:  *)
(*   "Exit code will be one (1) if any issues were detected with severity  *)
(*   Bug or higher"; severities are Information < Warning < Bug < Fatal;   *)
(*   parse failures are Fatal; `--min-severity` only sets what is          *)
(*   displayed; duplicates are only folded for display.                    *)
(* Property  : at the end of a run  (exit # 0) <=> DocFails(failOn, sevs). *)
(***************************************************************************)
EXTENDS Naturals, Sequences, FiniteSets, TLC, Json

CONSTANTS MaxReports,   \* bound on the number of reported problems (one per rule)
          GenOnly       \* BOOLEAN: only grow cases (GEN), do not run them

-----------------------------------------------------------------------------
(* Vocabulary of a case                                                     *)
Cmds      == {"lint", "ci"}
SevFlags  == {"info", "warning", "bug", "fatal"}          \* the four spellings ParseSeverity accepts
BadFlags  == {"error", "Bug"}                              \* representatives of everything else
FailOnArg == SevFlags \cup BadFlags \cup {"UNSET"}         \* value given to --fail-on ("UNSET": flag absent)
MinSevArg == SevFlags \cup {"UNSET"}                       \* value given to --min-severity (lint only)
\* how a problem of a given severity is provoked
\*   report : rule { match{name} report { comment = "c<c>" severity = <sev> } }
\*   label  : rule { match{name} label "t<c>" { required = true severity = <sev> } }   (custom severity)
\*   syntax : the rule's expr does not parse (always Fatal); c selects one of three broken expressions
\*   owner  : the rule has no owner comment and the run uses --require-owner (always Bug); every other
\*            rule carries `# pint rule/owner`. The flag is given iff the case holds such a problem.
\*   twin   : two label blocks hit the same rule with the same message: a generic one (Warning) and a strict
\*            one (label "t<c>" { required = true value = "x.*" severity = <sev> }): two problems on one rule
\*            that differ in severity only (one problem when <sev> is warning: equal reports are merged)
Kinds     == {"report", "label", "syntax", "owner", "twin"}
Comments  == 1..3
ReportReq == [kind : {"report", "label", "twin"}, sev : SevFlags, c : Comments]
             \cup [kind : {"syntax"}, sev : {"fatal"}, c : Comments]
             \cup [kind : {"owner"}, sev : {"bug"}, c : {1}]

-----------------------------------------------------------------------------
(* Impl: internal/checks/base.go                                            *)
Information == 0
Warning     == 1
Bug         == 2
Fatal       == 3
SevString(s) == CASE s = Information -> "Information" [] s = Warning -> "Warning"
                  [] s = Bug -> "Bug" [] s = Fatal -> "Fatal" [] OTHER -> "Unknown"
ParseSeverity(str) ==
  CASE str = "fatal"   -> [sev |-> Fatal,       err |-> FALSE]
    [] str = "bug"     -> [sev |-> Bug,         err |-> FALSE]
    [] str = "warning" -> [sev |-> Warning,     err |-> FALSE]
    [] str = "info"    -> [sev |-> Information, err |-> FALSE]
    [] OTHER           -> [sev |-> Fatal,       err |-> TRUE]

\* cli flag defaults (cmd/pint/lint.go, ci.go): --fail-on "bug", --min-severity "warning"
FlagValue(arg, dflt) == IF arg = "UNSET" THEN dflt ELSE arg

(* Impl: what checkRules / verifyOwners leave in the summary for the requested problems. *)
\* One Report per produced problem; rule k occupies lines 3k-2..3k of the single rule file.
Reporter(kind) == CASE kind = "report" -> "rule/report" [] kind \in {"label", "twin"} -> "rule/label"
                    [] kind = "owner" -> "rule/owner" [] OTHER -> "promql/syntax"
Rep(k, sev, reporter, c) ==
  [rule |-> k, line |-> 3 * k - 1, sev |-> sev, reporter |-> reporter,
   msg  |-> c,                                 \* diagnostics message (comment text / label name / parser error)
   isDup |-> FALSE, dups |-> {}]
\* severity: ReportSettings.getSeverity / AnnotationSettings.getSeverity = ParseSeverity with the error dropped
MkReports(req, k) ==
  IF req.kind = "twin"
  THEN <<Rep(k, Warning, "rule/label", req.c), Rep(k, ParseSeverity(req.sev).sev, "rule/label", req.c)>>
  ELSE <<Rep(k, ParseSeverity(req.sev).sev, Reporter(req.kind), req.c)>>

(* Impl: internal/reporter/reporter.go                                      *)
\* Report.isEqual: same path, owner, lines, rule, reporter, summary, diagnostics and severity
IsEqual(a, b) == a.rule = b.rule /\ a.reporter = b.reporter /\ a.msg = b.msg /\ a.sev = b.sev
\* Summary.Report(reps...): append unless hasReport
SummaryReport(s, r) == IF \E x \in 1..Len(s) : IsEqual(s[x], r) THEN s ELSE Append(s, r)
RECURSIVE ReportAll(_, _, _)
ReportAll(s, rs, k) == IF k > Len(rs) THEN s ELSE ReportAll(SummaryReport(s, rs[k]), rs, k + 1)

\* isSameIssue: same reporter, summary (a function of the reporter here), severity, diagnostic messages
IsSameIssue(a, b) == a.reporter = b.reporter /\ a.sev = b.sev /\ a.msg = b.msg

\* SortReports: path, Lines.First, Lines.Last, Severity, Reporter, Summary, Diagnostics. One file; problems of
\* different rules differ in Lines.First, the two problems of a twin differ in Severity.
SortKeyLess(a, b) == a.line < b.line \/ (a.line = b.line /\ a.sev < b.sev)
IsSorted(s) == \A x, y \in 1..Len(s) : x < y => ~SortKeyLess(s[y], s[x])
Perms(n) == {p \in [1..n -> 1..n] : \A x, y \in 1..n : x # y => p[x] # p[y]}
SortReports(s) == LET p == CHOOSE q \in Perms(Len(s)) : IsSorted([k \in 1..Len(s) |-> s[q[k]]])
                  IN [k \in 1..Len(s) |-> s[p[k]]]

\* Dedup: for i { if s[i].IsDuplicate continue; for j { skip i==j, IsDuplicate, len(Duplicates)>0 ; ... } }
RECURSIVE DedupInner(_, _, _)
DedupInner(s, i, j) ==
  IF j > Len(s) THEN s
  ELSE IF i = j \/ s[j].isDup \/ s[j].dups # {} THEN DedupInner(s, i, j + 1)
  ELSE IF IsSameIssue(s[i], s[j])
       THEN DedupInner([s EXCEPT ![j].isDup = TRUE, ![i].dups = @ \cup {j}], i, j + 1)
       ELSE DedupInner(s, i, j + 1)
RECURSIVE DedupOuter(_, _)
DedupOuter(s, i) ==
  IF i > Len(s) THEN s
  ELSE IF s[i].isDup THEN DedupOuter(s, i + 1)
  ELSE DedupOuter(DedupInner(s, i, 1), i + 1)
Dedup(s) == DedupOuter(s, 1)

\* CountBySeverity: map severity -> number of reports, over ALL reports (duplicates included)
CountBySeverity(s) ==
  LET present == {s[k].sev : k \in 1..Len(s)} IN
  [v \in present |-> Cardinality({k \in 1..Len(s) : s[k].sev = v})]

(* Impl: reporters                                                           *)
\* ConsoleReporter.Submit: skip below minSeverity; skip duplicates unless showDuplicates
ConsoleShown(s, minSeverity, showDuplicates) ==
  LET vis(k) == s[k].sev >= minSeverity /\ (showDuplicates \/ ~s[k].isDup)
      idx == {k \in 1..Len(s) : vis(k)}
      RECURSIVE Walk(_)
      Walk(k) == IF k > Len(s) THEN <<>>
                 ELSE IF k \in idx
                      THEN <<[rule |-> s[k].rule, sev |-> SevString(s[k].sev),
                              dups |-> IF showDuplicates THEN 0 ELSE Cardinality(s[k].dups)]>> \o Walk(k + 1)
                      ELSE Walk(k + 1)
  IN Walk(1)
\* JSONReporter.Submit: every report, in summary order
JsonOut(s) == [k \in 1..Len(s) |-> [rule |-> s[k].rule, sev |-> SevString(s[k].sev), reporter |-> s[k].reporter]]

(* Impl: the loops deciding the exit status                                 *)
\* lint.go:  for s, c := range bySeverity { if s >= failOn { failProblems += c } ... }
RECURSIVE SumOver(_, _)
SumOver(m, dom) == IF dom = {} THEN 0 ELSE LET v == CHOOSE x \in dom : TRUE IN m[v] + SumOver(m, dom \ {v})
LintFailProblems(bySev, failOn) == SumOver(bySev, {v \in DOMAIN bySev : v >= failOn})
LintHidden(bySev, minSeverity)  == SumOver(bySev, {v \in DOMAIN bySev : v < minSeverity})
\* ci.go:    for s := range bySeverity { if s >= minSeverity { problemsFound = true; break } }
CIProblemsFound(bySev, failOn) == \E v \in DOMAIN bySev : v >= failOn

\* main(): any error returned by the action -> os.Exit(1)
ExitOf(failed) == IF failed THEN 1 ELSE 0

-----------------------------------------------------------------------------
(* Impl: the two actions as pure compositions (used by JUDGE and by         *)
(* Inv_FoldAgrees); `arr` is the order in which the reports reach           *)
(* Summary.Report (scan results, then verifyOwners).                        *)
NoOut == [written |-> FALSE, json |-> <<>>, shown |-> <<>>]
\* verifyOwners: a rule without an owner comment is "missing owner"; an owner that matches none of owners{allowed}
\* would be "invalid owner" (every rule that has an owner here is owned by "bob", and owners { allowed = ["bob"] })
OwnerProblems(c) == [k \in 1..Cardinality({x \in 1..Len(c.reports) : c.reports[x].kind = "owner"}) |-> "missing owner"]
LintRun(c, arr) ==
  LET minP  == ParseSeverity(FlagValue(c.minSev, "warning"))
      failP == ParseSeverity(FlagValue(c.failOn, "bug")) IN
  IF minP.err  THEN [exit |-> 1, why |-> "invalid --min-severity"] @@ NoOut
  ELSE IF failP.err THEN [exit |-> 1, why |-> "invalid --fail-on"] @@ NoOut
  ELSE LET s  == Dedup(SortReports(ReportAll(<<>>, arr, 1)))
           by == CountBySeverity(s)
           n  == LintFailProblems(by, failP.sev) IN
       [exit |-> ExitOf(n > 0), why |-> IF n > 0 THEN "found problems" ELSE "ok",
        written |-> TRUE, json |-> JsonOut(s), shown |-> ConsoleShown(s, minP.sev, c.showDup),
        \* "N problem(s) not visible because of --min-severity=X flag" (0: no such message)
        hidden |-> LintHidden(by, minP.sev)]
CIRun(c, arr) ==
  LET failP == ParseSeverity(FlagValue(c.failOn, "bug")) IN
  IF failP.err THEN [exit |-> 1, why |-> "invalid --fail-on"] @@ NoOut
  ELSE LET s0    == ReportAll(<<>>, arr, 1)
           found == CIProblemsFound(CountBySeverity(s0), failP.sev)    \* counted before sort/dedup
           s     == Dedup(SortReports(s0)) IN
       [exit |-> ExitOf(found), why |-> IF found THEN "problems found" ELSE "ok",
        written |-> TRUE, json |-> JsonOut(s), shown |-> ConsoleShown(s, Information, c.showDup)]
RECURSIVE AllFrom(_, _)
AllFrom(c, k) == IF k > Len(c.reports) THEN <<>> ELSE MkReports(c.reports[k], k) \o AllFrom(c, k + 1)
AllReports(c) == AllFrom(c, 1)
RECURSIVE PickSeq(_, _, _)
PickSeq(s, keep, k) == IF k > Len(s) THEN <<>>
                         ELSE (IF keep[k] THEN <<s[k]>> ELSE <<>>) \o PickSeq(s, keep, k + 1)
\* reports produced by the checks (scan workers) and by verifyOwners (appended afterwards, in entry order)
ReportsOf(c)   == LET a == AllReports(c) IN PickSeq(a, [k \in 1..Len(a) |-> a[k].reporter # "rule/owner"], 1)
OwnerReports(c) == LET a == AllReports(c) IN PickSeq(a, [k \in 1..Len(a) |-> a[k].reporter = "rule/owner"], 1)
RequireOwner(c) == \E k \in 1..Len(c.reports) : c.reports[k].kind = "owner"
ImplRun(c) == IF c.cmd = "lint" THEN LintRun(c, ReportsOf(c) \o OwnerReports(c))
                                ELSE CIRun(c, ReportsOf(c) \o OwnerReports(c))

-----------------------------------------------------------------------------
(* Doc side - written from the help texts and docs, in terms of names only. *)
DocOrder == <<"Information", "Warning", "Bug", "Fatal">>       \* lowest to highest
DocRank(name) == CHOOSE r \in 1..4 : DocOrder[r] = name
DocSevOfFlag(f) == CASE f = "info" -> "Information" [] f = "warning" -> "Warning"
                     [] f = "bug" -> "Bug" [] f = "fatal" -> "Fatal"
DocFlagValid(f) == f \in {"info", "warning", "bug", "fatal", "UNSET"}
DocThreshold(f) == IF f = "UNSET" THEN "Bug" ELSE DocSevOfFlag(f)    \* "--fail-on ... (default: bug)"
\* severity a requested problem is documented to have: the configured one; parse failures are Fatal
DocSevOfReq(req) == IF req.kind = "syntax" THEN "Fatal" ELSE IF req.kind = "owner" THEN "Bug" ELSE DocSevOfFlag(req.sev)
\* the run must fail iff some reported severity reaches the threshold; an unusable flag value is an error
DocFails(failOn, sevNames) == \E n \in sevNames : DocRank(n) >= DocRank(DocThreshold(failOn))
DocMustFail(failOn, sevNames) == IF DocFlagValid(failOn) THEN DocFails(failOn, sevNames) ELSE TRUE
\* the problems a case is documented to report: one per rule, two for a twin (the generic Warning and the
\* strict one) unless both are the very same problem; named by the check that reports them
DocReporter(req) == CASE req.kind = "report" -> "rule/report" [] req.kind = "syntax" -> "promql/syntax"
                      [] req.kind = "owner" -> "rule/owner" [] OTHER -> "rule/label"
DocProblems(req, k) ==
  {[rule |-> k, sev |-> DocSevOfReq(req), reporter |-> DocReporter(req)]}
  \cup (IF req.kind = "twin" THEN {[rule |-> k, sev |-> "Warning", reporter |-> "rule/label"]} ELSE {})
DocProblemSet(c) == UNION {DocProblems(c.reports[k], k) : k \in 1..Len(c.reports)}
DocSevNames(c) == {e.sev : e \in DocProblemSet(c)}

-----------------------------------------------------------------------------
(* State machine                                                            *)
VARIABLES case,      \* the chosen inputs: [cmd, failOn, minSev, showDup, reports]
          pc,        \* stage of the action
          summary,   \* reporter.Summary.reports
          minSeverity, failOn,   \* parsed flags (Go variables of the same name; ci calls failOn `minSeverity`)
          failed,    \* an error is being returned from the action
          out        \* what the reporters produced: [written, json, shown]
vars == <<case, pc, summary, minSeverity, failOn, failed, out>>

Init ==
  /\ case \in [cmd : {"lint"}, failOn : FailOnArg, minSev : MinSevArg, showDup : BOOLEAN, reports : {<<>>}]
           \cup [cmd : {"ci"}, failOn : FailOnArg, minSev : {"UNSET"}, showDup : BOOLEAN, reports : {<<>>}]
  /\ pc = "Args" /\ summary = <<>> /\ minSeverity = Warning /\ failOn = Bug /\ failed = FALSE /\ out = NoOut

\* GEN: one more rule with one problem. Comment/label numbers are introduced in order (c <= 1 + max used),
\* which removes renamings of the same duplicate structure.
HasTwin(rs) == \E k \in 1..Len(rs) : rs[k].kind = "twin"
AddReport(r) ==
  /\ pc = "Args" /\ Len(case.reports) < MaxReports
  /\ r.c <= 1 + Cardinality({case.reports[k].c : k \in 1..Len(case.reports)})
  \* a twin comes with at most one other rule (keeps the number of arrival orders small)
  /\ (r.kind = "twin" \/ HasTwin(case.reports)) => (Len(case.reports) <= 1 /\ ~(r.kind = "twin" /\ HasTwin(case.reports)))
  /\ case' = [case EXCEPT !.reports = Append(@, r)]
  /\ UNCHANGED <<pc, summary, minSeverity, failOn, failed, out>>

Start == /\ pc = "Args" /\ pc' = "CheckRules"
         /\ UNCHANGED <<case, summary, minSeverity, failOn, failed, out>>

\* checkRules: the workers deliver the reports in any order
CheckRules(p) ==
  /\ pc = "CheckRules" /\ ~GenOnly
  /\ LET rs == ReportsOf(case) IN summary' = ReportAll(<<>>, [k \in 1..Len(rs) |-> rs[p[k]]], 1)
  /\ pc' = "VerifyOwners"
  /\ UNCHANGED <<case, minSeverity, failOn, failed, out>>

\* if c.Bool(requireOwnerFlag) { summary.Report(verifyOwners(entries, allowedOwners)...) }
VerifyOwners ==
  /\ pc = "VerifyOwners"
  /\ summary' = IF RequireOwner(case) THEN ReportAll(summary, OwnerReports(case), 1) ELSE summary
  /\ pc' = IF case.cmd = "lint" THEN "ParseMinSeverity" ELSE "ParseFailOn"
  /\ UNCHANGED <<case, minSeverity, failOn, failed, out>>

ParseMinSeverity ==
  /\ pc = "ParseMinSeverity"
  /\ LET r == ParseSeverity(FlagValue(case.minSev, "warning")) IN
     /\ minSeverity' = r.sev /\ failed' = r.err
     /\ pc' = IF r.err THEN "Done" ELSE "ParseFailOn"
  /\ UNCHANGED <<case, summary, failOn, out>>

ParseFailOn ==
  /\ pc = "ParseFailOn"
  /\ LET r == ParseSeverity(FlagValue(case.failOn, "bug")) IN
     /\ failOn' = r.sev /\ failed' = r.err
     /\ pc' = IF r.err THEN "Done" ELSE IF case.cmd = "lint" THEN "SortReports" ELSE "Count"
  /\ UNCHANGED <<case, summary, minSeverity, out>>

DoSortReports ==
  /\ pc = "SortReports" /\ summary' = SortReports(summary) /\ pc' = "Dedup"
  /\ UNCHANGED <<case, minSeverity, failOn, failed, out>>

DoDedup ==
  /\ pc = "Dedup" /\ summary' = Dedup(summary) /\ pc' = "Submit"
  /\ UNCHANGED <<case, minSeverity, failOn, failed, out>>

Submit ==
  /\ pc = "Submit"
  /\ out' = [written |-> TRUE, json |-> JsonOut(summary),
             shown |-> ConsoleShown(summary, IF case.cmd = "lint" THEN minSeverity ELSE Information, case.showDup)]
  /\ pc' = IF case.cmd = "lint" THEN "Count" ELSE "Done"
  /\ UNCHANGED <<case, summary, minSeverity, failOn, failed>>

\* lint: after Submit; ci: before SortReports
Count ==
  /\ pc = "Count"
  /\ LET by == CountBySeverity(summary) IN
     IF case.cmd = "lint"
     THEN /\ failed' = (LintFailProblems(by, failOn) > 0) /\ pc' = "Done"
     ELSE /\ failed' = CIProblemsFound(by, failOn)        /\ pc' = "SortReports"
  /\ UNCHANGED <<case, summary, minSeverity, failOn, out>>

\* ci keeps `problemsFound` across sort/dedup/submit: `failed` is not touched by those stages.

Next == \/ \E r \in ReportReq : AddReport(r)
        \/ Start
        \/ \E p \in Perms(Len(ReportsOf(case))) : CheckRules(p)
        \/ VerifyOwners \/ ParseMinSeverity \/ ParseFailOn \/ DoSortReports \/ DoDedup \/ Submit \/ Count
Spec == Init /\ [][Next]_vars

-----------------------------------------------------------------------------
(* Properties                                                               *)
ExitCode == ExitOf(failed)

\* C05 at model level: exit status is non-zero exactly when the documentation says the run must fail
Inv_C05 == pc = "Done" => ((ExitCode # 0) <=> DocMustFail(case.failOn, DocSevNames(case)))

\* the staged machine and the composition used by JUDGE agree, whatever the arrival order
Inv_FoldAgrees == pc = "Done" =>
  LET r == ImplRun(case) IN r.exit = ExitCode /\ r.written = out.written /\ r.json = out.json /\ r.shown = out.shown

\* --min-severity and duplicate folding act on the display only: the JSON report always lists every
\* requested problem with its documented severity (this is also what binds EXEC cases to the model)
Inv_JsonComplete == (pc = "Done" /\ out.written) =>
  /\ {out.json[x] : x \in 1..Len(out.json)} = DocProblemSet(case)
  /\ Len(out.json) = Cardinality(DocProblemSet(case))

\* what is displayed is what the documentation of --min-severity / --show-duplicates describes
Inv_Display == (pc = "Done" /\ out.written) =>
  LET minName == IF case.cmd = "ci" THEN "Information"
                 ELSE IF case.minSev = "UNSET" THEN "Warning" ELSE DocSevOfFlag(case.minSev)
      visible == {e \in DocProblemSet(case) : DocRank(e.sev) >= DocRank(minName)} IN
  /\ \A x \in 1..Len(out.shown) : DocRank(out.shown[x].sev) >= DocRank(minName)
  /\ case.showDup => {[rule |-> out.shown[x].rule, sev |-> out.shown[x].sev] : x \in 1..Len(out.shown)}
                     = {[rule |-> e.rule, sev |-> e.sev] : e \in visible}
  /\ ~case.showDup => \* every visible problem is shown once, the rest are counted as its duplicates
       Len(out.shown) + SumOver([x \in 1..Len(out.shown) |-> out.shown[x].dups], 1..Len(out.shown))
       = Cardinality(visible)

\* GEN: one case per distinct choice of inputs, emitted when the inputs are complete
EmitCase == pc # "CheckRules" \/ PrintT(<<"CASE", ToJson(case)>>)
=============================================================================
