SPECIFICATION TraceSpec
CONSTANTS
  Callers <- TraceCallers
  Workers <- TraceWorkers
  Questions <- TraceQuestions
  LockKeyOf <- TraceLockKeyOf
  ReqsOf <- TraceReqsOf
  QueueCap = 1000000
  MaxFail = 1000000
  MaxExpire = 1000000
  TTLOf <- TraceTTLOf
  MaxStale = 3600
  Advances = {}
  TraceFile = "c14_trace.ndjson"
CHECK_DEADLOCK FALSE
