----------------------------- MODULE LayoutGen ------------------------------
(***************************************************************************)
(* GEN + MC for the Layout family (C06, C19).                              *)
(* Layouts are GROWN from a base document by edit actions (restyle one     *)
(* scalar, change indentation, insert comment / blank lines, reorder       *)
(* fields, add fields and map entries, flow mappings, switch to a bare     *)
(* rule list, add wrapper levels / siblings / documents / embedding).      *)
(* With Sim = FALSE the Next relation is explored exhaustively (BFS) up to *)
(* MaxEdits edits; with Sim = TRUE every choice is drawn with              *)
(* RandomElement, so `-simulate` walks random edit sequences.              *)
(* MC: the rendering arithmetic is internally consistent in every          *)
(* generated layout (the Inv_ invariants). GEN: EmitCase prints one CASE.  *)
(***************************************************************************)
EXTENDS Layout

CONSTANTS
  Steps,        \* indentation steps of continuation / block content lines relative to the parent key
  Leads,        \* extra leading blanks on the first block content line (needs an indentation indicator)
  TBs,          \* trailing blank lines after a block scalar
  Seps,         \* separations after "key:" ("sp", "tab")
  Props,        \* node properties in front of a value ("", "tag", "anc")
  GInds,        \* indentation of the group list under `groups:`
  RSteps,       \* indentation of the rule list relative to `rules:`
  GI0, RS0,     \* the two indentations in the base document
  CRLF0,        \* BOOLEAN: the base document is written with CR LF line endings
  Core,         \* BOOLEAN: restrict scalars to the core space (used for exhaustive PAIRS of fields)
  Wrap0,        \* wrapper of the base document: 0 none; 1 two parent keys, the inner one embedding the document (`|+`)
  BaseVar,      \* field order of the base document: 0 usual; 1 `for` / `expr` last; 2 `keep_firing_for` last
  MaxEdits,     \* number of edit actions applied to the base layout
  Acts,         \* enabled edit actions
  Focus,        \* field names whose scalar "scalar" edits may restyle
  Sim,          \* BOOLEAN: random choices (for -simulate)
  ReplayFile,   \* "" or the name of a JSON file holding one layout: the start layout of a replay
  Clean         \* BOOLEAN: leave out the scalar classes on which C06 has open findings (used by C19)

VARIABLES lay, n
vars == <<lay, n>>

\* scalars whose positions are right on the pinned tree (no open C06 finding): no escape spelling an unwritten
\* character, no comment on a block header, continuation lines indented by two or more, no leading blanks
CleanSc(r) == /\ r.cls \notin {"escnl", "esctab"} /\ r.lead = 0 /\ r.prop = ""
              /\ ~(r.style \in BlockStyles /\ r.hc)
              /\ (r.style \notin SingleStyles => r.step >= 2)

\* candidate scalars for a text kind (`key` only selects the words, i.e. their number)
ScalarSpace(tk, key) ==
  LET ok(r) == /\ StyleOK(r.style, r.cls) /\ ShapeOK(r.shape, Len(Words(tk, r.cls, key))) /\ (Clean => CleanSc(r))
               /\ Core => (r.cls \in {"one", "spaces"} /\ r.shape \in {"flat", "brk1"} /\ ~r.hc /\ ~r.ind)
      single == { r @@ ScDef : r \in [cls : Classes(tk), style : SingleStyles, shape : {"flat", "sp2"}, hc : BOOLEAN,
                                      sepk : Seps, prop : Props] }
      multi  == { r @@ ScDef : r \in [cls : Classes(tk), style : MultiStyles, shape : Shapes \ {"sp2"},
                                      step : Steps, own : BOOLEAN, sepk : Seps, prop : Props] }
      block  == { r @@ ScDef : r \in [cls : Classes(tk), style : BlockStyles, shape : Shapes,
                                      chomp : {"clip", "strip", "keep"}, ind : BOOLEAN, step : Steps,
                                      lead : Leads, hc : BOOLEAN, tb : TBs, sepk : Seps, prop : Props] }
  IN { r \in single : ok(r) }
     \cup { r \in multi : ok(r) /\ (r.shape = "flat" => r.own) /\ (r.own => r.sepk = "sp" /\ r.prop = "") }
     \cup { r \in block : ok(r) /\ (r.lead > 0 => r.ind) }

\* scalars usable as mapping keys and inside flow mappings: one line
KeySpace  == { r @@ ScDef : r \in [style : SingleStyles] }
FlowOK(r) == r.style \in SingleStyles /\ ~r.hc /\ r.sepk = "sp" /\ r.prop = "" /\ r.cls \notin {"tab", "esctab"} /\ (r.style = "plain" => r.cls \in {"one", "spaces", "rune", "repeat"})
FlowSpace(tk, key) == { r \in ScalarSpace(tk, key) : FlowOK(r) }

\* Sim: one random scalar drawn dimension by dimension (cheap); may be invalid -> the edit is disabled
RandScalar(tk) ==
  LET fam == RandomElement({"single", "multi", "block"})
      cls == RandomElement(Classes(tk))
      sp == [sepk |-> RandomElement(Seps), prop |-> RandomElement(Props)]
      r0 == CASE fam = "single" -> [cls |-> cls, style |-> RandomElement(SingleStyles), shape |-> RandomElement({"flat", "sp2"}),
                                   hc |-> RandomElement(BOOLEAN)] @@ ScDef
             [] fam = "multi"  -> [cls |-> cls, style |-> RandomElement(MultiStyles), shape |-> RandomElement(Shapes \ {"sp2"}),
                                   step |-> RandomElement(Steps), own |-> RandomElement(BOOLEAN)] @@ ScDef
             [] OTHER          -> [cls |-> cls, style |-> RandomElement(BlockStyles), shape |-> RandomElement(Shapes),
                                   chomp |-> RandomElement({"clip", "strip", "keep"}), ind |-> RandomElement(BOOLEAN),
                                   step |-> RandomElement(Steps), lead |-> RandomElement(Leads), hc |-> RandomElement(BOOLEAN),
                                   tb |-> RandomElement(TBs)] @@ ScDef
      r == IF r0.own THEN r0 ELSE sp @@ r0
  IN r
ScValid(tk, r) ==
  /\ StyleOK(r.style, r.cls) /\ ShapeOK(r.shape, Len(Words(tk, r.cls, "k")))
  /\ (r.style \in MultiStyles /\ r.shape = "flat") => r.own
  /\ r.lead > 0 => r.ind
  /\ r.own => (r.sepk = "sp" /\ r.prop = "")
  /\ Clean => CleanSc(r)
\* candidates for restyling a scalar of text kind tk (flow = inside a flow mapping)
Cand(tk, flow) ==
  IF Sim THEN { r \in {RandScalar(tk)} : ScValid(tk, r) /\ (flow => FlowOK(r)) }
  ELSE IF flow THEN FlowSpace(tk, "k") ELSE ScalarSpace(tk, "k")

Pick(S) == IF Sim /\ S # {} THEN {RandomElement(S)} ELSE S

-----------------------------------------------------------------------------
Sc(cls)  == [ScDef EXCEPT !.cls = cls]
FAlert == ScalarItem("alert", Sc("one"))
FExpr  == ScalarItem("expr", Sc("spaces"))
FFor   == ScalarItem("for", ScDef)
FKff   == ScalarItem("keep_firing_for", ScDef)
FLab1  == MapItem("labels", FALSE, 2, <<KV("severity", ScDef, Sc("one"))>>)
FAnn   == MapItem("annotations", FALSE, 2, <<KV("summary", ScDef, Sc("spaces"))>>)
FRec   == ScalarItem("record", Sc("one"))
FLab2  == MapItem("labels", FALSE, 2, <<KV("team", ScDef, Sc("one"))>>)
Rule1 == [RuleDef EXCEPT !.items = CASE BaseVar = 1 -> <<FAlert, FExpr, FLab1, FAnn, FFor>>
                      [] BaseVar = 2 -> <<FAlert, FExpr, FFor, FLab1, FAnn, FKff>>
                      [] OTHER       -> <<FAlert, FExpr, FFor, FLab1, FAnn>>]
Rule2 == [RuleDef EXCEPT !.items = IF BaseVar = 1 THEN <<FRec, FLab2, FExpr>> ELSE <<FRec, FExpr, FLab2>>]
Base  == [base |-> "doc", crlf |-> CRLF0, pre |-> <<>>, ghdr |-> <<>>, gi |-> GI0, rstep |-> RS0, rules |-> <<Rule1, Rule2>>,
          wrap |-> IF Wrap0 = 1 THEN [WrNone EXCEPT !.levels = <<[LvDef EXCEPT !.key = "data"], [LvDef EXCEPT !.key = "spec", !.step = 4]>>, !.embed = TRUE]
                   ELSE WrNone]

Init == lay = (IF ReplayFile = "" THEN Base ELSE JsonDeserialize(ReplayFile)) /\ n = 0

IsField(it) == it.kind \in {"scalar", "map", "aliasval"}
SetItem(r, i, it) == [lay EXCEPT !.rules[r].items[i] = it]

HasAliasVal == \E k \in DOMAIN lay.rules : \E i \in DOMAIN lay.rules[k].items : lay.rules[k].items[i].kind = "aliasval"

\* restyle one scalar: a scalar field, or key / value of a map entry
EditScalar ==
  \E r \in Pick(DOMAIN lay.rules) : \E i \in Pick({i \in DOMAIN lay.rules[r].items : IsField(lay.rules[r].items[i])}) :
    LET it == lay.rules[r].items[i] IN
    IF it.kind = "scalar"
    THEN /\ it.k \in Focus
         /\ \E sc0 \in Cand(TextKind(it.k), FALSE) :
              LET sc == IF HasAliasVal /\ r = 1 /\ it.k = "expr" THEN [sc0 EXCEPT !.prop = "anc"] ELSE sc0 IN
              sc # it.sc /\ ~(sc.own /\ sc.prop # "") /\ lay' = SetItem(r, i, [it EXCEPT !.sc = sc])
    ELSE \E j \in Pick(DOMAIN it.kvs) :
           \/ /\ (it.k \o ".v") \in Focus
              /\ \E sc \in Cand(ValKind(it.k), it.flow) :
                   sc # it.kvs[j].v /\ lay' = SetItem(r, i, [it EXCEPT !.kvs[j].v = sc])
           \/ /\ (it.k \o ".k") \in Focus
              /\ \E sc \in Pick(KeySpace) : sc # it.kvs[j].ks /\ lay' = SetItem(r, i, [it EXCEPT !.kvs[j].ks = sc])

EditIndent ==
  \E g \in Pick(GInds), s \in Pick(RSteps) : /\ <<g, s>> # <<lay.gi, lay.rstep>>
                                             /\ lay' = [lay EXCEPT !.gi = g, !.rstep = s]

InsertAt(s, i, e) == SubSeq(s, 1, i - 1) \o <<e>> \o SubSeq(s, i, Len(s))
EditFiller ==
  \E kind \in Pick({"cmt", "blank"}) :
    \/ /\ lay.base = "doc" /\ Len(lay.pre) < 2 /\ lay' = [lay EXCEPT !.pre = Append(@, kind)]
    \/ \E r \in Pick(DOMAIN lay.rules) : \E i \in Pick(2..(Len(lay.rules[r].items) + 1)) :
         /\ Len(lay.rules[r].items) < 8
         /\ lay' = [lay EXCEPT !.rules[r].items = InsertAt(@, i, IF kind = "cmt" THEN CmtItem ELSE BlankItem)]

EditSwap ==
  \E r \in Pick(DOMAIN lay.rules) : \E i \in Pick(1..(Len(lay.rules[r].items) - 1)) :
    LET a == lay.rules[r].items[i]
        b == lay.rules[r].items[i + 1] IN
    /\ IsField(a) /\ IsField(b)
    /\ lay' = [lay EXCEPT !.rules[r].items[i] = b, !.rules[r].items[i + 1] = a]

NoAlias == ~HasAliasVal /\ \A k \in DOMAIN lay.rules : lay.rules[k].alias = 0 /\ lay.rules[k].merge = 0 /\ ~lay.rules[k].anchor
ExprAt(k) == CHOOSE i \in DOMAIN lay.rules[k].items : lay.rules[k].items[i].k = "expr"
GroupKeys == {[k |-> "interval", t |-> "interval: 1m"], [k |-> "limit", t |-> "limit: 10"], [k |-> "limit", t |-> "limit: 1_000"],
              [k |-> "limit", t |-> "limit: 0x40"], [k |-> "query_offset", t |-> "query_offset: 30s"],
              \* Thanos rule schema (the harness then parses strict mode with parser.ThanosSchema)
              [k |-> "prs", t |-> "partial_response_strategy: warn"], [k |-> "prs", t |-> "partial_response_strategy: abort"]}
EditAdd ==
  \E r \in Pick({k \in DOMAIN lay.rules : lay.rules[k].alias = 0 /\ lay.rules[k].merge = 0}) :
    \* anchor rule r and add a rule that merges it (`<<: *r`) and sets only its own name
    \/ /\ ~lay.rules[r].anchor /\ Len(lay.rules) < 4
       /\ lay' = [lay EXCEPT !.rules = Append([@ EXCEPT ![r].anchor = TRUE],
                     [RuleDef EXCEPT !.merge = r, !.items = <<ScalarItem(lay.rules[r].items[NameItem(lay.rules[r])].k, Sc("one"))>>])]
    \* anchor the expr of the first rule (`expr: &expr ...`) and write the expr of the second as its alias (`expr: *expr`)
    \/ /\ r = 1 /\ Len(lay.rules) >= 2 /\ ~HasAliasVal /\ ~Clean /\ lay.rules[2].alias = 0 /\ lay.rules[2].merge = 0
       /\ lay.rules[1].items[ExprAt(1)].kind = "scalar" /\ ~lay.rules[1].items[ExprAt(1)].sc.own
       /\ lay' = [lay EXCEPT !.rules[1].items[ExprAt(1)].sc.prop = "anc", !.rules[2].items[ExprAt(2)] = AliasItem("expr")]
    \* anchor rule r and repeat it at the end of the list as an alias
    \/ /\ ~lay.rules[r].anchor /\ Len(lay.rules) < 4
       /\ lay' = [lay EXCEPT !.rules = Append([@ EXCEPT ![r].anchor = TRUE], [RuleDef EXCEPT !.alias = r])]
    \* one more key in the group header
    \/ /\ lay.base = "doc" /\ Len(lay.ghdr) < 2
       /\ \E g \in Pick(GroupKeys) : /\ \A k \in DOMAIN lay.ghdr : lay.ghdr[k].k # g.k
                                    /\ lay' = [lay EXCEPT !.ghdr = Append(@, g)]
    \/ /\ RuleType(lay.rules[r]) = "alerting"
       /\ \A i \in DOMAIN lay.rules[r].items : lay.rules[r].items[i].k # "keep_firing_for"
       /\ lay' = [lay EXCEPT !.rules[r].items = Append(@, ScalarItem("keep_firing_for", ScDef))]
    \/ \E i \in Pick({i \in DOMAIN lay.rules[r].items : lay.rules[r].items[i].kind = "map"}) :
         LET it == lay.rules[r].items[i] IN
         \/ /\ Len(it.kvs) = 1
            /\ lay' = SetItem(r, i, [it EXCEPT !.kvs = Append(@, KV(IF it.k = "labels" THEN "tier" ELSE "link", ScDef, Sc("spaces")))])
         \/ /\ ~it.flow /\ \A j \in DOMAIN it.kvs : FlowOK(it.kvs[j].v)
            /\ lay' = SetItem(r, i, [it EXCEPT !.flow = TRUE])
         \/ /\ ~it.flow /\ it.mstep = 2 /\ lay' = SetItem(r, i, [it EXCEPT !.mstep = 4])
    \/ /\ Len(lay.rules) = 2 /\ NoAlias /\ lay' = [lay EXCEPT !.rules = <<@[r]>>]

\* write the file with CR LF line endings (not inside an embedding block: there the embedded text is re-split on LF)
EditCrlf == ~lay.crlf /\ ~lay.wrap.embed /\ lay' = [lay EXCEPT !.crlf = TRUE]

EditBase ==
  /\ lay.base = "doc"
  /\ lay' = [lay EXCEPT !.base = "list", !.pre = <<>>, !.ghdr = <<>>, !.gi = 0, !.rstep = 0]

WrapKeys == {"spec", "rules", "data"}
\* YAML validity: a mapping under a key is indented more than the key; a sequence may sit at the key's column
WrapOK(b, w) ==
  /\ \A i \in DOMAIN w.levels :
       /\ w.levels[i].step = 0 => /\ i = Len(w.levels) /\ b = "list" /\ ~w.embed
       /\ w.levels[i].sibB => ~(i > 1 /\ w.levels[i - 1].step = 0)
       /\ w.levels[i].sl => (w.levels[i].sibB \/ w.levels[i].sibA)
  /\ w.embed => w.levels # <<>>
  /\ w.embed2 => (w.embed /\ Len(w.levels) >= 2)
EditWrap ==
  \E w \in Pick({ [lay.wrap EXCEPT !.levels = <<lv>> \o @] :
                    lv \in [seq : BOOLEAN, key : WrapKeys, step : {2, 4}, sibB : BOOLEAN, sibA : BOOLEAN, sl : BOOLEAN] })
          \cup Pick({ [lay.wrap EXCEPT !.levels = @ \o <<lv>>] :
                    lv \in [seq : BOOLEAN, key : WrapKeys, step : {0, 2, 4}, sibB : BOOLEAN, sibA : BOOLEAN, sl : BOOLEAN] })
          \cup { [lay.wrap EXCEPT !.embed = ~@], [lay.wrap EXCEPT !.docB = ~@], [lay.wrap EXCEPT !.docA = ~@],
                 [lay.wrap EXCEPT !.embed2 = ~@], [lay.wrap EXCEPT !.mix = ~@] }
          \cup { [lay.wrap EXCEPT !.docE = e] : e \in {"none", "cmt", "bare", "null"} \ {lay.wrap.docE} } :
    /\ Len(w.levels) <= 4
    /\ WrapOK(lay.base, w) /\ (w.embed => ~lay.crlf)
    /\ lay' = [lay EXCEPT !.wrap = w]

Next ==
  /\ n < MaxEdits
  /\ n' = n + 1
  /\ \/ "scalar" \in Acts /\ EditScalar
     \/ "indent" \in Acts /\ EditIndent
     \/ "filler" \in Acts /\ EditFiller
     \/ "swap"   \in Acts /\ EditSwap
     \/ "add"    \in Acts /\ EditAdd
     \/ "base"   \in Acts /\ EditBase /\ WrapOK("list", lay.wrap)
     \/ "wrap"   \in Acts /\ EditWrap
     \/ "crlf"   \in Acts /\ EditCrlf

Spec == Init /\ [][Next]_vars

-----------------------------------------------------------------------------
(* MC: internal consistency of the arithmetic on every generated layout.   *)
(* (operators take the rendering R as an argument: TLC evaluates it once)  *)

\* every expected region lies inside the file
InFile(R, cr) ==
  \A i \in DOMAIN R.rules : \A k \in DOMAIN R.rules[i].nodes : \A j \in DOMAIN R.rules[i].nodes[k].allow :
    LET a == R.rules[i].nodes[k].allow[j] IN
    /\ 1 <= a.l /\ a.l <= Len(R.lines)
    /\ 1 <= a.lo /\ a.lo <= a.hi /\ a.hi <= BL(R.lines[a.l]) + 1 + cr

\* the exact cells lie inside the expected span, line by line, in order
PosInSpan(R) ==
  \A i \in DOMAIN R.rules : \A k \in DOMAIN R.rules[i].nodes :
    LET nd == R.rules[i].nodes[k] IN
    /\ \A j \in DOMAIN nd.pos : \E a \in DOMAIN nd.allow :
         nd.allow[a].l = nd.pos[j].l /\ nd.allow[a].lo <= nd.pos[j].f /\ nd.pos[j].f <= nd.pos[j].t /\ nd.pos[j].t <= nd.allow[a].hi
    /\ \A j \in 1..(Len(nd.pos) - 1) : nd.pos[j].l < nd.pos[j + 1].l

\* spans of successive scalars of a rule are disjoint and ordered
Before(a, b) == a.l < b.l \/ (a.l = b.l /\ a.hi < b.lo)
Disjoint(R) ==
  \A i \in DOMAIN R.rules : \A k \in 1..(Len(R.rules[i].nodes) - 1) :
    LET x == R.rules[i].nodes[k].allow
        y == R.rules[i].nodes[k + 1].allow IN
    Before(x[Len(x)], y[1])

\* ExpectedLines: encloses every span that holds value characters, ordered, inside the file
LinesOK(R) ==
  /\ \A i \in DOMAIN R.rules :
       /\ 1 <= R.rules[i].first /\ R.rules[i].first <= R.rules[i].last /\ R.rules[i].last <= Len(R.lines)
       /\ \A k \in DOMAIN R.rules[i].nodes :
            /\ R.rules[i].first <= R.rules[i].nodes[k].allow[1].l
            /\ R.rules[i].nodes[k].lastc <= R.rules[i].last
  /\ \A i \in 1..(Len(R.rules) - 1) : R.rules[i + 1].alias \/ R.rules[i].last < R.rules[i + 1].first

\* displacement: line l of the unwrapped document is line l + dLine of the file, indented by dCol
Displaced(R, embed) ==
  /\ \A l \in DOMAIN R.baseLines :
       R.lines[l + R.dLine] = IF R.baseLines[l].t = "" /\ ~embed THEN Empty ELSE Cat(FSp(R.dCol), R.baseLines[l])
  /\ \A i \in DOMAIN R.rules : R.rules[i].first = R.baseRules[i].first + R.dLine

Checked(R) ==
  /\ InFile(R, IF lay.crlf THEN 1 ELSE 0) /\ PosInSpan(R) /\ Disjoint(R) /\ LinesOK(R) /\ Displaced(R, lay.wrap.embed)
  /\ PrintT(<<"CASE", ToJson([lay |-> lay, lines |-> LineT(R.lines), base |-> LineT(R.baseLines)])>>)

\* MC + GEN in one pass: consistency of the arithmetic, then one CASE line per state
Inv_Consistent == Checked(Render(lay))
=============================================================================
