SPECIFICATION SpecB
CONSTANTS
  Shapes <- MCShapes
  Ws = {1, 2, 3}
  MaxJobs = 0
  MaxPerJob = 0
  MaxReports = 0
INVARIANTS Inv_NoSendOnClosed Inv_Caps Inv_ArrivalIsInterleaving
