SPECIFICATION Spec
CONSTANTS
  MinProms = 0
  MaxProms = 1
  Layouts = {1}
  PreIds = {0}
  Pairs = FALSE
  Hists = {"added"}
  Commands = {"lint"}
INVARIANTS EmitCase
CHECK_DEADLOCK FALSE
