------------------------------ MODULE PintTrace ------------------------------
(***************************************************************************)
(* JUDGE for the end-to-end composition (spec/Pint.tla). One `Run` record  *)
(* per case of `vh exec-pint`: the abstract input, the entries with the    *)
(* checks the real binary dispatched (debug log), the problems of its      *)
(* --json report and its exit status. Records are independent: each one is *)
(* an initial state whose model variables are the recorded input.          *)
(*   verdict (VIOL): reports / exit status = the documented composition    *)
(*                   (Inv_ProblemIffLiveDispatched on the real outputs)    *)
(*   binding (DRIFT): entries = ParseFile, check lists = GetChecksForEntry,*)
(*                   reports / exit = Outcome of the one-worker order      *)
(***************************************************************************)
EXTENDS Pint

TraceLog == ndJsonDeserialize("pint_trace.ndjson")

VARIABLES l, judged
tvars == <<vars, l, judged>>
Rec == TraceLog[l]

TraceInit ==
  /\ l \in 1..Len(TraceLog) /\ judged = FALSE
  /\ pc = "read" /\ body = TraceLog[l].body /\ two = TraceLog[l].two /\ opts = TraceLog[l].opts
  /\ entries = <<>> /\ joblist = <<>> /\ result = [reports |-> {}, exit |-> 0]
  /\ shape = <<>> /\ W = TraceLog[l].w /\ next = 1 /\ jobsClosed = FALSE /\ jobsQ = <<>> /\ wk = <<>> /\ wgLeft = 0
  /\ resultsClosed = FALSE /\ resultsQ = <<>> /\ arrived = <<>> /\ done = FALSE /\ jobs = <<>>

ObsReports == {<<Rec.reports[k].file, Rec.reports[k].line, RepRank(Rec.reports[k].rep)>> : k \in DOMAIN Rec.reports}
KnownReporters == {"alerts/comparison", "ignore/file", "promql/series", "rule/report", "yaml/parse"}

ModelEntries == ParseFile(1) \o ParseFile(2)
ModelJobs    == JobsOf(ModelEntries, opts)
EntryLists ==
  [k \in DOMAIN ModelEntries |->
     [file |-> ModelEntries[k].file,
      line |-> IF ModelEntries[k].e.kind = "error" /\ ModelEntries[k].e.errReporter = "ignore/file" THEN 0 ELSE ModelEntries[k].line,
      list |-> Strs(GetChecksForEntry(ActionSetup(CfgOf(opts), FlagsOf(opts)), ModelEntries[k].e, "lint"))]]
SevName(n) == CASE n = E!Information -> "Information" [] n = E!Warning -> "Warning" [] n = E!Bug -> "Bug" [] n = E!Fatal -> "Fatal"

TJudge ==
  /\ ~judged /\ Rec.ev = "Run"
  /\ IF /\ \A k \in DOMAIN Rec.reports : Rec.reports[k].rep \in KnownReporters
        /\ ObsReports = DocAllReports(opts) /\ Rec.exit = DocExit(opts)
     THEN TRUE
     ELSE PrintT(<<"VIOL", Rec.id, ToJson([body |-> body, two |-> two, opts |-> opts, w |-> Rec.w, reports |-> Rec.reports, exit |-> Rec.exit,
                                           docexit |-> DocExit(opts)])>>)
  /\ LET oc == Outcome(ModelJobs, CanonicalOrder(ModelJobs)) IN
     IF /\ Rec.entries = EntryLists
        /\ (\A k \in DOMAIN Rec.reports : Rec.reports[k].rep \in KnownReporters) => ObsReports = oc.reports
        /\ Rec.exit = oc.exit
        /\ \A k \in DOMAIN Rec.reports : Rec.reports[k].rep \in KnownReporters => Rec.reports[k].sev = SevName(SevOf(Rec.reports[k].rep))
     THEN TRUE
     ELSE PrintT(<<"DRIFT", Rec.id, ToJson([body |-> body, two |-> two, opts |-> opts, entries |-> Rec.entries, expected |-> EntryLists,
                                            reports |-> Rec.reports, exit |-> Rec.exit])>>)
  /\ judged' = TRUE /\ UNCHANGED <<vars, l>>

TraceSpec == TraceInit /\ [][TJudge]_tvars
=============================================================================
