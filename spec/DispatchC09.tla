---------------------------- MODULE DispatchC09 ----------------------------
(***************************************************************************)
(* C09 - rule{} match/ignore blocks select rules by their documented       *)
(* boolean meaning.                                                        *)
(*                                                                         *)
(* Behaviour: a configuration is grown by actions - rule{} blocks made of  *)
(* match / ignore sub-blocks made of conditions over the nine kinds        *)
(* (path, name, kind, label, annotation, for, keep_firing_for, command,    *)
(* state) - and then evaluated against a fixed corpus of Prometheus rules, *)
(* every command and every change state.                                   *)
(*   Impl: Dispatch!IsMatchBlock / DefaultRuleMatch / DefaultMatchStates   *)
(*         (transcription of parsed_rule.go and match.go)                  *)
(*   Doc : DocApplies below, written from docs/configuration.md            *)
(*         ("Matching rules to checks", "Regexp matchers") and the         *)
(*         property statement.                                             *)
(* Every block carries a marker check; "block b applies to rule e" is      *)
(* observable as the marker's problem on e.                                *)
(***************************************************************************)
EXTENDS Dispatch

CONSTANTS MaxBlocks, MaxMatch, MaxIgnore,   \* blocks per configuration, sub-blocks per block
          MaxMatchConds, MaxIgnoreConds,    \* conditions per sub-block
          WithAlt,                          \* BOOLEAN: include regexps with a top-level alternation (a|b)
          Shared,                           \* BOOLEAN: every block carries the SAME marker check (identical definition, identical
                                            \*   String()) instead of one marker per block
          Reduced                           \* BOOLEAN: the reduced condition alphabet (4 atoms, one per kind) and canonical
                                            \*   (unordered, duplicate-free) sub-block lists: makes 2+2 sub-blocks and several
                                            \*   blocks exhaustively enumerable

-----------------------------------------------------------------------------
(* The rule corpus (rendered to YAML files by the harness).                 *)
Names  == <<"foo", "foo_bar", "bar_foo">>
Paths  == <<"rules/a.yml", "rules/sub/b.yml", "alerts/a.yml">>
L(k, v) == [k |-> k, v |-> v]
\* r = labels of the rule, g = labels of its group
LabelCfgs == << [r |-> <<>>, g |-> <<>>],
                [r |-> <<L("severity", "page")>>, g |-> <<>>],
                [r |-> <<>>, g |-> <<L("severity", "page")>>],
                [r |-> <<L("severity", "warn")>>, g |-> <<L("severity", "page")>>],   \* the rule overrides the group
                [r |-> <<>>, g |-> <<L("team", "db")>>] >>
Anns   == << <<>>, <<L("summary", "up")>>, <<L("summary", "down"), L("runbook", "up")>> >>
Fors   == <<-1, 60, 300>>       \* seconds; -1 = field absent
Kffs   == <<-1, 300>>

Alerting(i) ==
  LET n == ((i - 1) % 3) + 1   l == (((i - 1) \div 3) % 5) + 1   f == ((i - 1) \div 15) + 1 IN
  [kind |-> "rule", state |-> "noop", fileDisabled |-> <<>>, comments |-> <<>>, errReporter |-> "",
   rkind |-> "alerting", name |-> Names[n], path |-> Paths[(((i - 1) \div 2) % 3) + 1],
   labels |-> LabelCfgs[l].r, glabels |-> LabelCfgs[l].g, annotations |-> Anns[(((i - 1) \div 4) % 3) + 1],
   for |-> Fors[f], kff |-> Kffs[(((i - 1) \div 7) % 2) + 1]]
Recording(i) ==
  LET n == ((i - 1) % 3) + 1   l == (((i - 1) \div 3) % 5) + 1 IN
  [kind |-> "rule", state |-> "noop", fileDisabled |-> <<>>, comments |-> <<>>, errReporter |-> "",
   rkind |-> "recording", name |-> Names[n], path |-> Paths[(((i - 1) \div 2) % 3) + 1],
   labels |-> LabelCfgs[l].r, glabels |-> LabelCfgs[l].g, annotations |-> <<>>, for |-> -1, kff |-> -1]
Corpus == [i \in 1..45 |-> Alerting(i)] \o [i \in 1..15 |-> Recording(i)]

Cmds      == <<"lint", "ci", "watch">>
States    == <<"noop", "added", "modified", "moved">>     \* change states a checked rule can be in
AllStatesSeq == States \o <<"removed">>
\* (command, state) points the harness evaluates every configuration at
FullCombos  == [k \in 1..(Len(Cmds) * Len(States)) |-> <<Cmds[((k - 1) \div Len(States)) + 1], States[((k - 1) % Len(States)) + 1]>>]
QuickCombos == << <<"lint", "noop">>, <<"ci", "noop">>, <<"ci", "added">>, <<"ci", "moved">>, <<"watch", "modified">>, <<"lint", "moved">> >>

-----------------------------------------------------------------------------
(* Condition vocabulary.                                                    *)
Re(form, a, b) == [form |-> form, a |-> a, b |-> b]
AltOK(S) == IF WithAlt THEN S ELSE {r \in S : r.form # "alt"}
PathRes == AltOK({ Lit("rules/a.yml"), Re("pre", "rules/", ""), Re("suf", "a.yml", ""), Re("has", "sub", ""),
                   Lit("rules"), Re("any", "", ""), Re("alt", "rules/", "zzz") })
NameRes == AltOK({ Lit("foo"), Re("pre", "foo", ""), Re("suf", "foo", ""), Re("has", "o_b", ""), Lit("oo"),
                   Re("galt", "foo", "bar_foo"), Re("alt", "foo", "zzz") })
KV(k, v) == [set |-> TRUE, key |-> k, value |-> v]
LabelConds == { KV(Lit("severity"), Lit("page")), KV(Lit("severity"), Re("pre", "pa", "")), KV(Re("any", "", ""), Lit("db")),
                KV(Lit("sever"), Re("any", "", "")), KV(Re("galt", "severity", "team"), Re("some", "", "")) }
AnnConds   == { KV(Lit("summary"), Lit("up")), KV(Re("any", "", ""), Lit("up")), KV(Lit("summary"), Re("any", "", "")) }
Ops        == {"<", "<=", "=", "!=", ">=", ">"}
ForConds   == {[op |-> o, dur |-> d] : o \in Ops, d \in {60, 300}}
KffConds   == {[op |-> o, dur |-> 300] : o \in Ops}
StateLists == { <<"any">>, <<"added">>, <<"modified", "renamed">>, <<"unmodified">>, <<"added", "unmodified">>, <<"removed">> }

\* condition kinds in a fixed order (sub-blocks are built in this order: no permutations of the same set)
KindOrder == <<"path", "name", "kind", "label", "annotation", "for", "kff", "command", "state">>
KindIdx(k) == CHOOSE i \in DOMAIN KindOrder : KindOrder[i] = k
\* reduced alphabet: conditions that interact on the corpus (a name prefix, the kind, a label that 1/5 of the rules only get
\* from their group, a state)
ReducedAtoms == { [k |-> "name", v |-> Re("pre", "foo", "")], [k |-> "kind", v |-> "alerting"],
                  [k |-> "label", v |-> KV(Lit("severity"), Lit("page"))], [k |-> "state", v |-> <<"added", "unmodified">>] }
FullAtoms == {[k |-> "path", v |-> r] : r \in PathRes} \cup {[k |-> "name", v |-> r] : r \in NameRes}
         \cup {[k |-> "kind", v |-> x] : x \in {"alerting", "recording"}}
         \cup {[k |-> "label", v |-> c] : c \in LabelConds} \cup {[k |-> "annotation", v |-> c] : c \in AnnConds}
         \cup {[k |-> "for", v |-> c] : c \in ForConds} \cup {[k |-> "kff", v |-> c] : c \in KffConds}
         \cup {[k |-> "command", v |-> c] : c \in Range(Cmds)} \cup {[k |-> "state", v |-> s] : s \in StateLists}
Atoms == IF Reduced THEN ReducedAtoms ELSE FullAtoms

SetCond(m, at) ==
  CASE at.k = "path"       -> [m EXCEPT !.path = at.v]
    [] at.k = "name"       -> [m EXCEPT !.name = at.v]
    [] at.k = "kind"       -> [m EXCEPT !.kind = at.v]
    [] at.k = "label"      -> [m EXCEPT !.label = at.v]
    [] at.k = "annotation" -> [m EXCEPT !.annotation = at.v]
    [] at.k = "for"        -> [m EXCEPT !.for = at.v]
    [] at.k = "kff"        -> [m EXCEPT !.kff = at.v]
    [] at.k = "command"    -> [m EXCEPT !.command = at.v]
    [] at.k = "state"      -> [m EXCEPT !.state = at.v]

-----------------------------------------------------------------------------
(* Doc side.                                                                *)
\* labels a condition sees: the rule's labels plus the labels of its group the rule does not override
DocLabels(e) == Range(e.labels) \cup {g \in Range(e.glabels) : ~\E r \in Range(e.labels) : r.k = g.k}
DocStateName(s) == CASE s = "noop" -> "unmodified" [] s = "moved" -> "renamed" [] OTHER -> s
DocStateIn(list, s) == "any" \in Range(list) \/ DocStateName(s) \in Range(list)
\* "for `pint ci` the default value is ["added", "modified", "renamed"], for any other command ["any"]"
DocDefaultStates(command) == IF command = "ci" THEN <<"added", "modified", "renamed">> ELSE <<"any">>
DocCompare(op, x, y) ==
  CASE op = "<" -> x < y [] op = "<=" -> x <= y [] op = "=" -> x = y [] op = "!=" -> x # y [] op = ">=" -> x >= y [] op = ">" -> x > y

\* "both match and ignore require all defined filters to be satisfied"
DocSubHolds(m, e, command, defaultStates) ==
  /\ (m.path.form # "none" => FullMatch(m.path, e.path))
  /\ (m.name.form # "none" => FullMatch(m.name, e.name))
  /\ (m.kind # "" => e.rkind = m.kind)
  /\ (m.label.set => \E lb \in DocLabels(e) : FullMatch(m.label.key, lb.k) /\ FullMatch(m.label.value, lb.v))
  /\ (m.annotation.set => e.rkind = "alerting" /\ \E an \in Range(e.annotations) :
                             FullMatch(m.annotation.key, an.k) /\ FullMatch(m.annotation.value, an.v))
  /\ (m.for.op # "none" => e.rkind = "alerting" /\ e.for # -1 /\ DocCompare(m.for.op, e.for, m.for.dur))
  /\ (m.kff.op # "none" => e.rkind = "alerting" /\ e.kff # -1 /\ DocCompare(m.kff.op, e.kff, m.kff.dur))
  /\ (m.command # "" => command = m.command)
  /\ LET st == IF Len(m.state) = 0 THEN defaultStates ELSE m.state IN Len(st) = 0 \/ DocStateIn(st, e.state)

\* "If multiple match and/or ignore rules are present any of them needs to match for the rule to be matched / ignored";
\* ignore dominates. The command-dependent default belongs to `match:state`; an `ignore` sub-block is satisfied by
\* "any alerting or recording rule matching all conditions DEFINED ON ignore" - no implicit state condition.
DocApplies(block, e, command) ==
  /\ ~\E i \in DOMAIN block.ignore : DocSubHolds(block.ignore[i], e, command, <<>>)
  /\ IF Len(block.match) = 0 THEN DocStateIn(DocDefaultStates(command), e.state)
     ELSE \E i \in DOMAIN block.match : DocSubHolds(block.match[i], e, command, DocDefaultStates(command))
  /\ e.state # "removed"       \* removed rules are only looked at by rule/dependency
DocAccepts(obs, block, e, command) == obs = DocApplies(block, e, command)

-----------------------------------------------------------------------------
(* Impl side: the marker of block b is dispatched to e.                     *)
\* shortcut through GetChecksForEntry for a marker check (nothing disables markers in these configurations)
ImplApplies(block, e, command) ==
  /\ e.state \in Live
  /\ IsMatchBlock(e, command, block.ignore, DefaultRuleMatch(block.match, DefaultMatchStates(command)))
\* the full path, for the sanity invariant
ImplAppliesFull(c, b, e, command) ==
  \E pr \in Range(GetChecksForEntry(Load(c), e, command)) : pr.blk = b /\ pr.kind = "marker"

WithState(e, st) == [e EXCEPT !.state = st]

\* What is observable is the marker CHECK, not the block: a check defined (identically) in several blocks applies to a rule
\* iff some block that defines it selects the rule; pint runs it once (de-duplication by String() only concerns blocks that
\* BOTH select the rule).
SameMarker(bs, b) == {x \in DOMAIN bs : bs[x].marker = bs[b].marker}
DocMarkerApplies(bs, b, e, command)  == \E x \in SameMarker(bs, b) : DocApplies(bs[x], e, command)
ImplMarkerApplies(bs, b, e, command) == \E x \in SameMarker(bs, b) : ImplApplies(bs[x], e, command)

-----------------------------------------------------------------------------
(* State machine that grows a configuration.                                *)
VARIABLES blocks,   \* finished blocks
          cur,      \* block under construction: [match, ignore]
          sub,      \* sub-block under construction ([kind |-> "none"] when none): [kind, m, last, n]
          phase     \* "build" | "done"
vars == <<blocks, cur, sub, phase>>

NoSub  == [kind |-> "none", m |-> EmptyMatch, last |-> 0, n |-> 0, want |-> 0, first |-> 0]
\* lastM / lastI: kind index of the first condition of the previous match / ignore sub-block (canonical order)
NewCur == [match |-> <<>>, ignore |-> <<>>, lastM |-> -1, lastI |-> -1]
MarkerName(b) == IF b = 1 THEN "report" ELSE IF b = 2 THEN "mk2" ELSE IF b = 3 THEN "mk3" ELSE "mk4"
MkBlock(c, b) == [kinds |-> <<>>, enable |-> <<>>, disable |-> <<>>, locked |-> FALSE, match |-> c.match, ignore |-> c.ignore,
                  marker |-> IF Shared THEN "report" ELSE MarkerName(b)]

Init == blocks = <<>> /\ cur = NewCur /\ sub = NoSub /\ phase = "build"

\* a sub-block of kind k with `want` conditions is started (the size is chosen first so that simulation
\* produces small and large sub-blocks alike); a `match` sub-block may also be empty (want = 0)
StartSub(k, want) ==
  /\ phase = "build" /\ sub.kind = "none" /\ Len(blocks) < MaxBlocks
  /\ IF k = "match" THEN Len(cur.match) < MaxMatch /\ want <= MaxMatchConds
                     ELSE Len(cur.ignore) < MaxIgnore /\ want <= MaxIgnoreConds /\ want > 0
  /\ (k = "match" => Len(cur.ignore) = 0)          \* canonical order: match sub-blocks first
  /\ sub' = [NoSub EXCEPT !.kind = k, !.want = want]
  /\ UNCHANGED <<blocks, cur, phase>>

AddCond(at) ==
  /\ phase = "build" /\ sub.kind # "none" /\ sub.n < sub.want
  /\ KindIdx(at.k) > sub.last
  /\ Len(KindOrder) - KindIdx(at.k) >= sub.want - sub.n - 1      \* enough kinds left to reach the chosen size
  /\ ~(sub.kind = "ignore" /\ sub.want = 1 /\ at.k = "kff")     \* see EndSub
  \* canonical lists: the first conditions of the sub-blocks of one kind are strictly increasing
  /\ (Reduced /\ sub.n = 0 => KindIdx(at.k) > (IF sub.kind = "match" THEN cur.lastM ELSE cur.lastI))
  /\ sub' = [sub EXCEPT !.m = SetCond(sub.m, at), !.last = KindIdx(at.k), !.n = sub.n + 1,
                         !.first = IF sub.n = 0 THEN KindIdx(at.k) ELSE @]
  /\ UNCHANGED <<blocks, cur, phase>>

\* config validation: an ignore sub-block needs a condition, and keep_firing_for alone is not counted as one
\* (match.go validate) - such configurations are rejected by pint and are not part of the vocabulary.
EndSub ==
  /\ phase = "build" /\ sub.kind # "none" /\ sub.n = sub.want
  /\ (sub.kind = "ignore" => ~(sub.n = 1 /\ sub.m.kff.op # "none"))
  /\ (Reduced /\ sub.want = 0 => cur.lastM = -1)        \* an empty match sub-block only as the first one
  /\ cur' = IF sub.kind = "match" THEN [cur EXCEPT !.match = Append(cur.match, sub.m), !.lastM = sub.first]
                                  ELSE [cur EXCEPT !.ignore = Append(cur.ignore, sub.m), !.lastI = sub.first]
  /\ sub' = NoSub
  /\ UNCHANGED <<blocks, phase>>

EndBlock ==
  /\ phase = "build" /\ sub.kind = "none" /\ Len(blocks) < MaxBlocks
  /\ blocks' = Append(blocks, MkBlock(cur, Len(blocks) + 1)) /\ cur' = NewCur
  /\ UNCHANGED <<sub, phase>>

Finish ==
  /\ phase = "build" /\ sub.kind = "none" /\ cur = NewCur /\ Len(blocks) > 0
  /\ phase' = "done" /\ UNCHANGED <<blocks, cur, sub>>

Next == (\E k \in {"match", "ignore"}, w \in 0..3 : StartSub(k, w)) \/ (\E at \in Atoms : AddCond(at)) \/ EndSub \/ EndBlock \/ Finish
Spec == Init /\ [][Next]_vars

-----------------------------------------------------------------------------
Cfg(bs) == [proms |-> <<>>, blocks |-> bs, enabled |-> <<>>, disabled |-> <<>>]

\* C09 at model level: for every block, rule, command and state the implementation's decision is the documented one
Inv_C09 ==
  phase = "done" =>
    \A b \in DOMAIN blocks : \A i \in DOMAIN Corpus : \A c \in Range(Cmds) : \A st \in Range(AllStatesSeq) :
       ImplMarkerApplies(blocks, b, WithState(Corpus[i], st), c) = DocMarkerApplies(blocks, b, WithState(Corpus[i], st), c)

\* documented deviation (named, never a violation): for `pint ci` the code's default state list also contains
\* "removed" (config.CIStates) while the documentation lists added/modified/renamed. It is invisible to any check
\* but rule/dependency because all other checks skip removed rules (Meta().States).
Dev_CIDefaultHasRemoved == Range(DefaultMatchStates("ci")) \ Range(DocDefaultStates("ci")) = {"removed"}

\* the shortcut ImplApplies is what GetChecksForEntry does for marker checks (checked on a slice of the corpus)
Inv_Shortcut ==
  phase = "done" =>
    \A b \in DOMAIN blocks : \A i \in {1, 8, 23, 38, 47, 58} : \A c \in Range(Cmds) : \A st \in {"noop", "added", "removed"} :
       ImplMarkerApplies(blocks, b, WithState(Corpus[i], st), c)
         = (\E x \in SameMarker(blocks, b) : ImplAppliesFull(Cfg(blocks), x, WithState(Corpus[i], st), c))

\* GEN
EmitCase == phase # "done" \/ PrintT(<<"CASE", ToJson([blocks |-> blocks])>>)
\* the corpus, once, for the harness
EmitCorpus == PrintT(<<"CORPUS", ToJson([corpus |-> Corpus, full |-> FullCombos, quick |-> QuickCombos])>>)
=============================================================================
