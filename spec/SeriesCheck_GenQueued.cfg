SPECIFICATION Spec
CONSTANTS
  Stratum = "queued"
INVARIANTS EmitCase Inv_P1 Inv_P2
CHECK_DEADLOCK FALSE
