---------------------------- MODULE DispatchC07 ----------------------------
(***************************************************************************)
(* C07 - control comments suppress exactly the targeted check on the       *)
(* targeted rules.                                                         *)
(*                                                                         *)
(* Behaviour: choose a configuration scenario (Prometheus servers, rule{}  *)
(* block layout with locked / unlocked blocks), then one control comment   *)
(* (scope rule | file, disable | snooze with a past or future time, the    *)
(* spelling of the check it names) and where it is written (line above     *)
(* the rule, between two fields, trailing on a rule line; top / bottom of  *)
(* the file).                                                              *)
(*   Impl: Dispatch!GetChecksForEntry with Entry.comments (parser          *)
(*         parseRule: rule comments) / Entry.fileDisabled (discovery       *)
(*         readRules: file/disable, unexpired file/snooze) -               *)
(*         isDisabledForRule, isEnabled, locked.                           *)
(*   Doc : DocSuppresses - docs/ignoring.md, the "How to disable it" /     *)
(*         "How to snooze it" sections of docs/checks/*.md, `locked` in    *)
(*         docs/configuration.md.                                          *)
(* Property (relational, two runs): the checks run with the comment are    *)
(* the checks run without it minus the suppressed ones; on real code:      *)
(* reports(with) = shift(reports(without) minus the slice).                *)
(***************************************************************************)
EXTENDS Dispatch, C07Base

CONSTANTS NProms,        \* set of numbers of Prometheus servers (subset of 1..2)
          LayoutIds,     \* subset of 1..4
          Eols,          \* subset of {"lf", "crlf"}: line endings of the rule file
          Rules,         \* subset of DOMAIN FileRules: rules comments are written on
          Scopes,        \* subset of {"rule", "file"}
          Priors,        \* subset of {"none", "expired"}: an expired snooze for the same check already in front
          OnlyBasePairs, \* BOOLEAN: rule comments only for (rule, check) pairs with a problem in the base report (C07Base)
          AllPlacements, \* BOOLEAN: every trailing / between position, or one of each
          Slim           \* BOOLEAN: only `disable <check name>` written above the rule / on top of the file

-----------------------------------------------------------------------------
(* The rule file of the harness (text in harness/cmd/vh/exec_c07.go; EXEC   *)
(* verifies these line numbers against the real parser).                    *)
\* first/last line of the rule; fields = lines (after the first) on which a top-level field starts
FileRules == <<
  [name |-> "foo:sum", first |-> 4,  last |-> 7,  fields |-> {5, 6}],
  [name |-> "Down",    first |-> 8,  last |-> 16, fields |-> {9, 10, 11, 12, 14}],
  [name |-> "Always",  first |-> 17, last |-> 21, fields |-> {18, 19, 20}],
  [name |-> "Cmp",     first |-> 22, last |-> 23, fields |-> {23}],
  [name |-> "broken",  first |-> 24, last |-> 25, fields |-> {25}],
  [name |-> "Vec",     first |-> 26, last |-> 27, fields |-> {27}],
  [name |-> "Imp",     first |-> 28, last |-> 29, fields |-> {29}],
  [name |-> "Frag",    first |-> 30, last |-> 33, fields |-> {31, 32}],
  [name |-> "Tmpl",    first |-> 34, last |-> 37, fields |-> {35, 36}],
  [name |-> "dup:one", first |-> 38, last |-> 39, fields |-> {39}],
  [name |-> "dup:one", first |-> 40, last |-> 41, fields |-> {41}] >>
FileLines == 41

PromPool == << [name |-> "prom", tags |-> <<"t1">>], [name |-> "p2", tags |-> <<"t1", "t2">>] >>
KV(k, v) == [kind |-> k, v |-> v]
Blk(kinds, locked) == [kinds |-> kinds, enable |-> <<>>, disable |-> <<>>, locked |-> locked, match |-> <<>>, ignore |-> <<>>, marker |-> ""]
\* configurable kinds whose String() differs per kind (no two instances share a String() across blocks)
KindsA == <<KV("aggregate_keep", 1), KV("cost", 1), KV("annotation", 1), KV("label", 1), KV("alerts", 1), KV("reject_lv", 1)>>
KindsB == <<KV("link", 1), KV("for", 1), KV("keep_firing_for", 1), KV("name", 1), KV("range_query", 1), KV("report", 1)>>
Layout(n) ==
  CASE n = 1 -> <<Blk(KindsA \o KindsB, FALSE)>>                       \* everything in one unlocked block
    [] n = 2 -> <<Blk(KindsA, FALSE), Blk(KindsB, TRUE)>>              \* second block locked
    [] n = 3 -> <<Blk(KindsA, TRUE), Blk(KindsB, FALSE)>>              \* first block locked
    [] n = 4 -> <<Blk(KindsA \o KindsB, FALSE),                        \* plus a block that enables every check by name:
                  [Blk(<<>>, FALSE) EXCEPT !.enable = CheckNames]>>    \* "won't enable checks disabled ... via # pint disable comments"

-----------------------------------------------------------------------------
(* Comment vocabulary.                                                      *)
Future == [rfc |-> "2099-01-02T03:04:05Z", date |-> "2099-01-02"]
Past   == [rfc |-> "2001-01-02T03:04:05Z", date |-> "2001-01-02"]
\* [scope, type, when ("none" | "future" | "past"), tfmt ("rfc" | "date"), match]
CommentText(c) ==
  "# pint " \o (IF c.scope = "file" THEN "file/" ELSE "") \o c.type \o " "
  \o (IF c.type = "snooze" THEN (IF c.when = "future" THEN Future ELSE Past)[c.tfmt] \o " " ELSE "")
  \o c.match
Timing == { [type |-> "disable", when |-> "none", tfmt |-> "rfc"] }
          \cup { [type |-> "snooze", when |-> w, tfmt |-> f] : w \in {"future", "past"}, f \in {"rfc", "date"} }

\* kinds whose docs page documents the instance spelling that equals String()
DocInstanceKinds == {"aggregate_keep", "aggregate_strip", "cost", "annotation", "label", "link", "name", "range_query", "reject_lk", "reject_lv"}

\* spellings the documentation gives for an instance: the check name; name($prometheus) for the checks whose page
\* documents it (there String() is exactly name(server)); name(+tag); the documented per-instance form
DocSpellings(pr) ==
  {pr.rep}
  \cup (IF pr.prom # "" /\ pr.str = pr.rep \o "(" \o pr.prom \o ")" THEN {pr.str} ELSE {})
  \cup {pr.rep \o "(+" \o pr.tags[t] \o ")" : t \in DOMAIN pr.tags}
  \cup (IF pr.kind \in DocInstanceKinds THEN {pr.str} ELSE {})
\* docs/ignoring.md promises name($prometheus) in general while docs/checks/query/cost.md reserves query/cost($prometheus)
\* for blocks without maxSeries: for an instance whose String() is not the plain name(server) form that spelling is
\* ambiguous and never generated
AmbiguousSpellings(pr) ==
  IF pr.prom # "" /\ pr.str # pr.rep \o "(" \o pr.prom \o ")" THEN {pr.rep \o "(" \o pr.prom \o ")"} ELSE {}

\* spellings that name nothing present: another server, another tag, an unknown check
NegativeSpellings(pr) == {pr.rep \o "(nosuchprom)", pr.rep \o "(+nosuchtag)", "foo/bar"}

-----------------------------------------------------------------------------
(* Doc side.                                                                *)
DocSuppresses(c, pr) ==
  /\ c.match \in DocSpellings(pr)
  /\ (c.type = "snooze" => c.when = "future")       \* "disabled *until* that timestamp"
  /\ (c.scope = "rule" => ~pr.locked)              \* locked: cannot be disabled using disable / snooze comments

-----------------------------------------------------------------------------
VARIABLES phase,   \* "scen" | "comment" | "place" | "eval"
          cfg, layout, eol,
          insts,   \* every check instance pint creates for a rule under cfg (computed once per scenario)
          rule, cmt, prior, place, target
vars == <<phase, cfg, layout, eol, insts, rule, cmt, prior, place, target>>

Cfg0 == [proms |-> <<>>, blocks |-> <<>>, enabled |-> <<>>, disabled |-> <<>>]
NoCmt == [scope |-> "none", type |-> "none", when |-> "none", tfmt |-> "rfc", match |-> ""]
NoPlace == [at |-> "none", line |-> 0]
Init == /\ phase = "scen" /\ cfg = Cfg0 /\ layout = 0 /\ eol = "lf" /\ insts = {} /\ rule = 0 /\ cmt = NoCmt
        /\ prior = "none" /\ place = NoPlace /\ target = ""

InstancesOf(c) == Range(GetChecksForEntry(Load(c), PlainEntry("rule", "noop"), "lint"))

ChooseScenario(np, n, el) ==
  /\ phase = "scen"
  /\ LET c == [Cfg0 EXCEPT !.proms = SubSeq(PromPool, 1, np), !.blocks = Layout(n)] IN
     cfg' = c /\ insts' = InstancesOf(c)
  /\ layout' = n /\ eol' = el /\ phase' = "comment"
  /\ UNCHANGED <<rule, cmt, prior, place, target>>

\* (rule, instance) pairs a rule comment is generated for
Pairs == IF OnlyBasePairs
         THEN {p \in Rules \X insts : <<p[1], p[2].str>> \in BasePairsOf(Len(cfg.proms), layout)}
         ELSE Rules \X insts
\* instances a file comment is generated for
FileTargets == IF OnlyBasePairs
               THEN {pr \in insts : \E r \in DOMAIN FileRules : <<r, pr.str>> \in BasePairsOf(Len(cfg.proms), layout)}
               ELSE insts

\* the documentation is silent on file/disable for checks of a locked block: such combinations are not generated
ChooseComment(sc, tm, r, pr, m, pri) ==
  /\ phase = "comment"
  /\ ~\E q \in insts : m \in AmbiguousSpellings(q)
  /\ (Slim => tm.type = "disable" /\ m = pr.rep /\ pri = "none")
  /\ IF sc = "file" THEN r = 0 /\ pr \in FileTargets /\ ~\E q \in insts : q.locked /\ m \in DocSpellings(q)
                    ELSE <<r, pr>> \in Pairs
  /\ cmt' = [scope |-> sc, type |-> tm.type, when |-> tm.when, tfmt |-> tm.tfmt, match |-> m]
  /\ target' = pr.str /\ rule' = r /\ prior' = pri
  /\ phase' = "place"
  /\ UNCHANGED <<cfg, layout, eol, insts, place>>

TrailLines(r)   == IF AllPlacements THEN FileRules[r].first..FileRules[r].last ELSE {FileRules[r].first, FileRules[r].last}
BetweenLines(r) == IF AllPlacements THEN FileRules[r].fields ELSE {CHOOSE x \in FileRules[r].fields : \A y \in FileRules[r].fields : x <= y}

\* place.line is in the numbering of the committed file (FileRules)
ChoosePlace(p) ==
  /\ phase = "place"
  /\ (Slim => p.at \in {"above", "top"})
  /\ IF cmt.scope = "file" THEN p \in {[at |-> "top", line |-> 1], [at |-> "bottom", line |-> FileLines + 1]}
     ELSE \/ p = [at |-> "above", line |-> FileRules[rule].first]
          \/ \E x \in BetweenLines(rule) : p = [at |-> "between", line |-> x]
          \/ \E x \in TrailLines(rule) : p = [at |-> "trail", line |-> x]
  /\ place' = p /\ phase' = "eval"
  /\ UNCHANGED <<cfg, layout, eol, insts, cmt, prior, target, rule>>

PlaceSet == {[at |-> a, line |-> x] : a \in {"above", "between", "trail", "top", "bottom"}, x \in 1..(FileLines + 1)}

Next ==
  \/ \E np \in NProms, n \in LayoutIds, el \in Eols : ChooseScenario(np, n, el)
  \/ \E sc \in Scopes, tm \in Timing, r \in Rules \cup {0}, pr \in insts, pri \in Priors :
        \E m \in DocSpellings(pr) \cup NegativeSpellings(pr) : ChooseComment(sc, tm, r, pr, m, pri)
  \/ \E p \in PlaceSet : ChoosePlace(p)
Spec == Init /\ [][Next]_vars

-----------------------------------------------------------------------------
(* Impl: what the comments become for the entries of the file.              *)
\* the expired snooze that is already in the file in front of the new comment (same scope, same check)
PriorCmt(c) == [c EXCEPT !.type = "snooze", !.when = "past", !.tfmt = "rfc"]
CmtSeq(c, pri) == IF pri = "expired" THEN <<PriorCmt(c), c>> ELSE <<c>>

\* parser.parseRule keeps disable / snooze comments attached to the rule, in file order; discovery.readRules turns
\* file/disable and unexpired file/snooze comments into Entry.DisabledChecks of every rule of the file
EntryWithSeq(cs, targeted) ==
  LET e == PlainEntry("rule", "noop")
      live == SelectSeq(cs, LAMBDA c : c.type = "disable" \/ c.when = "future") IN
  IF Len(cs) > 0 /\ cs[1].scope = "file"
  THEN [e EXCEPT !.fileDisabled = [i \in DOMAIN live |-> live[i].match]]
  ELSE IF targeted
  THEN [e EXCEPT !.comments = [i \in DOMAIN cs |-> [type |-> cs[i].type, match |-> cs[i].match, future |-> (cs[i].when = "future")]]]
  ELSE e
EntryWith(c, pri, targeted) == EntryWithSeq(CmtSeq(c, pri), targeted)

ImplChecksWith(c, pri, targeted) == GetChecksForEntry(Load(cfg), EntryWith(c, pri, targeted), "lint")
Key(pr) == <<pr.str, pr.rep>>

\* C07 at model level: on the targeted rule(s) exactly the suppressed instances disappear (an expired snooze in front
\* changes nothing), elsewhere nothing changes
Inv_C07 ==
  phase = "eval" =>
    /\ {Key(pr) : pr \in Range(ImplChecksWith(cmt, prior, TRUE))} = {Key(pr) : pr \in {q \in insts : ~DocSuppresses(cmt, q)}}
    /\ (prior = "expired" => {Key(pr) : pr \in Range(GetChecksForEntry(Load(cfg), EntryWithSeq(<<PriorCmt(cmt)>>, TRUE), "lint"))}
                                = {Key(pr) : pr \in insts})
    /\ (cmt.scope = "rule" => Strs(ImplChecksWith(cmt, prior, FALSE)) = Strs(GetChecksForEntry(Load(cfg), PlainEntry("rule", "noop"), "lint")))

\* line arithmetic of the relational predicate: a comment on its own line moves everything from that line on
Inserted(p) == p.at \in {"above", "between", "top"}
ShiftLine(x, p) == IF Inserted(p) /\ x >= p.line THEN x + 1 ELSE x
\* where the expired snooze sits: directly above the rule / on the first line of the file
PriorPlace(c, r, pri) ==
  IF pri # "expired" THEN NoPlace
  ELSE IF c.scope = "file" THEN [at |-> "top", line |-> 1] ELSE [at |-> "above", line |-> FileRules[r].first]
\* where the new comment goes in the numbering of the file that already holds the expired snooze: always after it
\* ("above" = directly above the rule and below the expired snooze; "top" = second line)
EffPlace(p, pp) ==
  IF pp.at = "none" THEN p
  ELSE IF p.at \in {"above", "top"} THEN [p EXCEPT !.line = pp.line + 1]
  ELSE [p EXCEPT !.line = ShiftLine(p.line, pp)]

\* instance table for JUDGE: String() -> instance
InstanceTable(c) ==
  LET ins == InstancesOf(c) IN [s \in {pr.str : pr \in ins} |-> CHOOSE pr \in ins : pr.str = s]

\* MC: the placement does not enter the model-level property
MCView == <<phase, cfg, layout, rule, cmt, prior, target>>

\* scenarios, for the base probe of the harness
EmitScen == phase # "comment" \/ PrintT(<<"SCEN", ToJson([cfg |-> cfg, layout |-> layout, nproms |-> Len(cfg.proms), eol |-> eol])>>)

CaseRec ==
  LET pp == PriorPlace(cmt, rule, prior) IN
  [cfg |-> cfg, layout |-> layout, nproms |-> Len(cfg.proms), eol |-> eol, rule |-> rule, cmt |-> cmt, text |-> CommentText(cmt),
   prior |-> prior, priortext |-> IF prior = "expired" THEN CommentText(PriorCmt(cmt)) ELSE "", pplace |-> pp,
   place |-> place, eplace |-> EffPlace(place, pp), target |-> target]
EmitCase == phase # "eval" \/ PrintT(<<"CASE", ToJson(CaseRec)>>)
=============================================================================
