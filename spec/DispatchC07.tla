---------------------------- MODULE DispatchC07 ----------------------------
(***************************************************************************)
(* C07 - control comments suppress exactly the targeted check on the       *)
(* targeted rules.                                                         *)
(*                                                                         *)
(* Behaviour: choose a configuration scenario (Prometheus servers, rule{}  *)
(* block layout with locked / unlocked blocks), then one control comment   *)
(* (scope rule | file, disable | snooze with a past or future time, the    *)
(* spelling of the check it names) and where it is written (line above     *)
(* the rule, between two fields, trailing on a rule line; top / bottom of  *)
(* the file).                                                              *)
(*   Impl: Dispatch!GetChecksForEntry with Entry.comments (parser          *)
(*         parseRule: rule comments) / Entry.fileDisabled (discovery       *)
(*         readRules: file/disable, unexpired file/snooze) -               *)
(*         isDisabledForRule, isEnabled, locked.                           *)
(*   Doc : DocSuppresses - docs/ignoring.md, the "How to disable it" /     *)
(*         "How to snooze it" sections of docs/checks/*.md, `locked` in    *)
(*         docs/configuration.md.                                          *)
(* Property (relational, two runs): the checks run with the comment are    *)
(* the checks run without it minus the suppressed ones; on real code:      *)
(* reports(with) = shift(reports(without) minus the slice).                *)
(***************************************************************************)
EXTENDS Dispatch, C07Base

CONSTANTS NProms,        \* set of numbers of Prometheus servers (subset of 1..2)
          LayoutIds,     \* subset of 1..4
          Eols,          \* subset of {"lf", "crlf"}: line endings of the rule file
          Rules,         \* subset of DOMAIN FileRules: rules comments are written on
          Scopes,        \* subset of {"rule", "file"}
          Priors,        \* subset of {"none", "expired", "filefuture"}: a comment for the same check already in the file: an
                         \*   expired snooze in front, or (rule comments) a future file/snooze on the first line
          Extras,        \* BOOLEAN (binding only): rule/owner, file/owner and rule/set comments; the column-0 placement (F11)
          OnlyBasePairs, \* BOOLEAN: rule comments only for (rule, check) pairs with a problem in the base report (C07Base)
          AllPlacements, \* BOOLEAN: every trailing / between position, or one of each
          Slim           \* BOOLEAN: only `disable <check name>` written above the rule / on top of the file

-----------------------------------------------------------------------------
(* The rule file of the harness (text in harness/cmd/vh/exec_c07.go; EXEC   *)
(* verifies these line numbers against the real parser).                    *)
\* first/last line of the rule; fields = lines (after the first) on which a top-level field starts
FileRules == <<
  [name |-> "foo:sum", first |-> 4,  last |-> 7,  fields |-> {5, 6}],
  [name |-> "Down",    first |-> 8,  last |-> 16, fields |-> {9, 10, 11, 12, 14}],
  [name |-> "Always",  first |-> 17, last |-> 21, fields |-> {18, 19, 20}],
  [name |-> "Cmp",     first |-> 22, last |-> 23, fields |-> {23}],
  [name |-> "broken",  first |-> 24, last |-> 25, fields |-> {25}],
  [name |-> "Vec",     first |-> 26, last |-> 27, fields |-> {27}],
  [name |-> "Imp",     first |-> 28, last |-> 29, fields |-> {29}],
  [name |-> "Frag",    first |-> 30, last |-> 33, fields |-> {31, 32}],
  [name |-> "Tmpl",    first |-> 34, last |-> 37, fields |-> {35, 36}],
  [name |-> "dup:one", first |-> 38, last |-> 39, fields |-> {39}],
  [name |-> "dup:one", first |-> 40, last |-> 41, fields |-> {41}] >>
FileLines == 41

PromPool == << [name |-> "prom", tags |-> <<"t1">>], [name |-> "p2", tags |-> <<"t1", "t2">>] >>
KV(k, v) == [kind |-> k, v |-> v]
Blk(kinds, locked) == [kinds |-> kinds, enable |-> <<>>, disable |-> <<>>, locked |-> locked, match |-> <<>>, ignore |-> <<>>, marker |-> ""]
\* configurable kinds whose String() differs per kind (no two instances share a String() across blocks)
KindsA == <<KV("aggregate_keep", 1), KV("cost", 1), KV("annotation", 1), KV("label", 1), KV("alerts", 1), KV("reject_lv", 1)>>
KindsB == <<KV("link", 1), KV("for", 1), KV("keep_firing_for", 1), KV("name", 1), KV("range_query", 1), KV("report", 1)>>
Layout(n) ==
  CASE n = 1 -> <<Blk(KindsA \o KindsB, FALSE)>>                       \* everything in one unlocked block
    [] n = 2 -> <<Blk(KindsA, FALSE), Blk(KindsB, TRUE)>>              \* second block locked
    [] n = 3 -> <<Blk(KindsA, TRUE), Blk(KindsB, FALSE)>>              \* first block locked
    [] n = 4 -> <<Blk(KindsA \o KindsB, FALSE),                        \* plus a block that enables every check by name:
                  [Blk(<<>>, FALSE) EXCEPT !.enable = CheckNames]>>    \* "won't enable checks disabled ... via # pint disable comments"

-----------------------------------------------------------------------------
(* Comment vocabulary.                                                      *)
Future == [rfc |-> "2099-01-02T03:04:05Z", date |-> "2099-01-02"]
Past   == [rfc |-> "2001-01-02T03:04:05Z", date |-> "2001-01-02"]
\* [scope, type, when ("none" | "future" | "past"), tfmt ("rfc" | "date"), match]
OwnerName == "team-a"
SetText   == "promql/series min-age 1d"
CommentText(c) ==
  IF c.type = "owner" THEN "# pint " \o (IF c.scope = "file" THEN "file/" ELSE "rule/") \o "owner " \o c.match
  ELSE IF c.type = "set" THEN "# pint rule/set " \o c.match
  ELSE
  "# pint " \o (IF c.scope = "file" THEN "file/" ELSE "") \o c.type \o " "
  \o (IF c.type = "snooze" THEN (IF c.when = "future" THEN Future ELSE Past)[c.tfmt] \o " " ELSE "")
  \o c.match
Timing == { [type |-> "disable", when |-> "none", tfmt |-> "rfc"] }
          \cup { [type |-> "snooze", when |-> w, tfmt |-> f] : w \in {"future", "past"}, f \in {"rfc", "date"} }
\* comments that name no check: they must change no report (the property statement is silent: binding only)
ExtraForms == { [type |-> "owner", when |-> "none", tfmt |-> "rfc"], [type |-> "set", when |-> "none", tfmt |-> "rfc"] }
IsExtra(c) == c.type \in {"owner", "set"}

\* kinds whose docs page documents the instance spelling that equals String()
DocInstanceKinds == {"aggregate_keep", "aggregate_strip", "cost", "annotation", "label", "link", "name", "range_query", "reject_lk", "reject_lv"}

\* spellings the documentation gives for an instance: the check name; name($prometheus) for the checks whose page
\* documents it (there String() is exactly name(server)); name(+tag); the documented per-instance form
DocSpellings(pr) ==
  {pr.rep}
  \cup (IF pr.prom # "" /\ pr.str = pr.rep \o "(" \o pr.prom \o ")" THEN {pr.str} ELSE {})
  \cup {pr.rep \o "(+" \o pr.tags[t] \o ")" : t \in DOMAIN pr.tags}
  \cup (IF pr.kind \in DocInstanceKinds THEN {pr.str} ELSE {})
\* docs/ignoring.md promises name($prometheus) in general while docs/checks/query/cost.md reserves query/cost($prometheus)
\* for blocks without maxSeries: for an instance whose String() is not the plain name(server) form that spelling is
\* ambiguous and never generated
AmbiguousSpellings(pr) ==
  IF pr.prom # "" /\ pr.str # pr.rep \o "(" \o pr.prom \o ")" THEN {pr.rep \o "(" \o pr.prom \o ")"} ELSE {}

\* spellings that name nothing present: another server, another tag, an unknown check.
\* promql/series reads `promql/series(<anything>)` comments itself as selector comments and reports the ones that
\* match no selector of the rule (docs/checks/promql/series.md), so for it only the unknown check name is used.
NegativeSpellings(pr) ==
  IF pr.rep = "promql/series" THEN {"foo/bar"} ELSE {pr.rep \o "(nosuchprom)", pr.rep \o "(+nosuchtag)", "foo/bar"}

-----------------------------------------------------------------------------
(* Doc side.                                                                *)
DocSuppresses(c, pr) ==
  /\ ~IsExtra(c)
  /\ c.match \in DocSpellings(pr)
  /\ (c.type = "snooze" => c.when = "future")       \* "disabled *until* that timestamp"
  /\ (c.scope = "rule" => ~pr.locked)              \* locked: cannot be disabled using disable / snooze comments

-----------------------------------------------------------------------------
VARIABLES phase,   \* "scen" | "target" | "form" | "spell" | "place" | "eval"
          cfg, layout, eol,
          insts,   \* every check instance pint creates for a rule under cfg (computed once per scenario)
          pairs,   \* (rule, instance) pairs rule comments are generated for (computed once per scenario)
          rule, tinst, cmt, prior, place, target
vars == <<phase, cfg, layout, eol, insts, pairs, rule, tinst, cmt, prior, place, target>>

Cfg0 == [proms |-> <<>>, blocks |-> <<>>, enabled |-> <<>>, disabled |-> <<>>]
NoCmt == [scope |-> "none", type |-> "none", when |-> "none", tfmt |-> "rfc", match |-> ""]
NoPlace == [at |-> "none", line |-> 0]
NoInst == [str |-> ""]
Init == /\ phase = "scen" /\ cfg = Cfg0 /\ layout = 0 /\ eol = "lf" /\ insts = {} /\ pairs = {} /\ rule = 0 /\ tinst = NoInst
        /\ cmt = NoCmt /\ prior = "none" /\ place = NoPlace /\ target = ""

InstancesOf(c) == Range(GetChecksForEntry(Load(c), PlainEntry("rule", "noop"), "lint"))

\* 1. scenario
ChooseScenario(np, n, el) ==
  /\ phase = "scen"
  /\ LET c  == [Cfg0 EXCEPT !.proms = SubSeq(PromPool, 1, np), !.blocks = Layout(n)]
         is == InstancesOf(c) IN
     /\ cfg' = c /\ insts' = is
     /\ pairs' = IF OnlyBasePairs THEN {p \in (DOMAIN FileRules) \X is : <<p[1], p[2].str>> \in BasePairsOf(np, n)}
                                  ELSE {p \in (DOMAIN FileRules) \X is : TRUE}   \* enumerated (TLC cannot spill a lazy product to disk)
  /\ layout' = n /\ eol' = el /\ phase' = "target"
  /\ UNCHANGED <<rule, tinst, cmt, prior, place, target>>

\* 2. scope and target: a rule comment for a (rule, instance) pair, or a file comment for an instance
ChooseTarget(sc, r, pr) ==
  /\ phase = "target"
  /\ IF sc = "file" THEN r = 0 /\ \E q \in DOMAIN FileRules : <<q, pr>> \in pairs
                    ELSE r \in Rules /\ <<r, pr>> \in pairs
  /\ rule' = r /\ tinst' = pr /\ target' = pr.str /\ cmt' = [NoCmt EXCEPT !.scope = sc]
  /\ phase' = "form"
  /\ UNCHANGED <<cfg, layout, eol, insts, pairs, prior, place>>

\* 3. disable / snooze (past | future, two time formats); optionally an expired snooze already in front
ChooseForm(tm, pri) ==
  /\ phase = "form"
  /\ (Slim => tm.type = "disable" /\ pri = "none")
  /\ (pri = "filefuture" => cmt.scope = "rule")            \* interplay of a rule comment with a file/snooze
  /\ (tm \in ExtraForms => Extras /\ pri = "none" /\ (tm.type = "set" => cmt.scope = "rule"))
  /\ cmt' = [cmt EXCEPT !.type = tm.type, !.when = tm.when, !.tfmt = tm.tfmt]
  /\ prior' = pri /\ phase' = "spell"
  /\ UNCHANGED <<cfg, layout, eol, insts, pairs, rule, tinst, place, target>>

\* 4. how the check is named. Not generated: spellings the documentation is ambiguous about, and file comments naming
\* a check of a locked block (the documentation is silent on file/disable for locked blocks)
SpellingsFor(c, pr) ==
  IF c.type = "owner" THEN {OwnerName} ELSE IF c.type = "set" THEN {SetText} ELSE DocSpellings(pr) \cup NegativeSpellings(pr)
ChooseSpelling(m) ==
  /\ phase = "spell"
  /\ m \in SpellingsFor(cmt, tinst)
  /\ (prior = "filefuture" => ~\E q \in insts : q.locked /\ m \in DocSpellings(q))
  /\ (Slim => m = tinst.rep)
  /\ ~\E q \in insts : m \in AmbiguousSpellings(q)
  /\ (cmt.scope = "file" => ~\E q \in insts : q.locked /\ m \in DocSpellings(q))
  /\ cmt' = [cmt EXCEPT !.match = m] /\ phase' = "place"
  /\ UNCHANGED <<cfg, layout, eol, insts, pairs, rule, tinst, prior, place, target>>

TrailLines(r)   == IF AllPlacements THEN FileRules[r].first..FileRules[r].last ELSE {FileRules[r].first, FileRules[r].last}
BetweenLines(r) == IF AllPlacements THEN FileRules[r].fields ELSE {CHOOSE x \in FileRules[r].fields : \A y \in FileRules[r].fields : x <= y}
Places ==
  IF cmt.scope = "file" THEN {[at |-> "top", line |-> 1], [at |-> "bottom", line |-> FileLines + 1]}
  ELSE {[at |-> "above", line |-> FileRules[rule].first]}
       \cup {[at |-> "between", line |-> x] : x \in BetweenLines(rule)}
       \cup {[at |-> "trail", line |-> x] : x \in TrailLines(rule)}
       \* F11, binding only: a comment at column 0 directly above the (indented) rule; yaml.v3 hands it to the
       \* PREVIOUS rule as a foot comment. Only for rules that have a previous rule, only with check-naming comments.
       \cup (IF Extras /\ rule > 1 /\ ~IsExtra(cmt) /\ prior = "none" THEN {[at |-> "above0", line |-> FileRules[rule].first]} ELSE {})

\* 5. where it is written; place.line is in the numbering of the committed file (FileRules)
ChoosePlace(p) ==
  /\ phase = "place"
  /\ (Slim => p.at \in {"above", "top"})
  /\ place' = p /\ phase' = "eval"
  /\ UNCHANGED <<cfg, layout, eol, insts, pairs, cmt, prior, target, rule, tinst>>

AllSpellings == UNION {DocSpellings(pr) \cup NegativeSpellings(pr) : pr \in insts}

Next ==
  \/ \E np \in NProms, n \in LayoutIds, el \in Eols : ChooseScenario(np, n, el)
  \/ \E sc \in Scopes, r \in Rules \cup {0}, pr \in insts : ChooseTarget(sc, r, pr)
  \/ \E tm \in Timing \cup ExtraForms, pri \in Priors : ChooseForm(tm, pri)
  \/ \E m \in (IF phase = "spell" THEN SpellingsFor(cmt, tinst) ELSE {}) : ChooseSpelling(m)
  \/ \E p \in (IF phase = "place" THEN Places ELSE {}) : ChoosePlace(p)
Spec == Init /\ [][Next]_vars

-----------------------------------------------------------------------------
(* Impl: what the comments become for the entries of the file.              *)
\* the expired snooze that is already in the file in front of the new comment (same scope, same check)
PriorCmt(c, pri) ==
  IF pri = "filefuture" THEN [c EXCEPT !.scope = "file", !.type = "snooze", !.when = "future", !.tfmt = "date"]
  ELSE [c EXCEPT !.type = "snooze", !.when = "past", !.tfmt = "rfc"]
CmtSeq(c, pri) == IF pri = "none" THEN <<c>> ELSE <<PriorCmt(c, pri), c>>

\* parser.parseRule keeps disable / snooze comments attached to the rule, in file order; discovery.readRules turns
\* file/disable and unexpired file/snooze comments into Entry.DisabledChecks of every rule of the file
EntryWithSeq(cs, targeted) ==
  LET e    == PlainEntry("rule", "noop")
      fs   == SelectSeq(cs, LAMBDA c : c.scope = "file" /\ (c.type = "disable" \/ (c.type = "snooze" /\ c.when = "future")))
      rs   == SelectSeq(cs, LAMBDA c : c.scope = "rule" /\ c.type \in {"disable", "snooze"})   \* comments.Only[Disable|Snooze]
      e1   == [e EXCEPT !.fileDisabled = [i \in DOMAIN fs |-> fs[i].match]] IN
  IF targeted
  THEN [e1 EXCEPT !.comments = [i \in DOMAIN rs |-> [type |-> rs[i].type, match |-> rs[i].match, future |-> (rs[i].when = "future")]]]
  ELSE e1
EntryWith(c, pri, targeted) == EntryWithSeq(CmtSeq(c, pri), targeted)

ImplChecksWith(c, pri, targeted) == GetChecksForEntry(Load(cfg), EntryWith(c, pri, targeted), "lint")
Key(pr) == <<pr.str, pr.rep>>

\* C07 at model level: on the targeted rule(s) exactly the suppressed instances disappear (an expired snooze in front
\* changes nothing), elsewhere nothing changes
Inv_C07 ==
  phase = "eval" =>
    /\ {Key(pr) : pr \in Range(ImplChecksWith(cmt, prior, TRUE))}
         = {Key(pr) : pr \in {q \in insts : ~DocSuppresses(cmt, q) /\ (prior = "filefuture" => ~DocSuppresses(PriorCmt(cmt, prior), q))}}
    /\ (prior = "expired" => {Key(pr) : pr \in Range(GetChecksForEntry(Load(cfg), EntryWithSeq(<<PriorCmt(cmt, prior)>>, TRUE), "lint"))}
                                = {Key(pr) : pr \in insts})
    /\ (cmt.scope = "rule" /\ prior # "filefuture" =>
           Strs(ImplChecksWith(cmt, prior, FALSE)) = Strs(GetChecksForEntry(Load(cfg), PlainEntry("rule", "noop"), "lint")))

\* line arithmetic of the relational predicate: a comment on its own line moves everything from that line on
Inserted(p) == p.at \in {"above", "above0", "between", "top"}
ShiftLine(x, p) == IF Inserted(p) /\ x >= p.line THEN x + 1 ELSE x
\* where the expired snooze sits: directly above the rule / on the first line of the file
PriorPlace(c, r, pri) ==
  IF pri = "none" THEN NoPlace
  ELSE IF PriorCmt(c, pri).scope = "file" THEN [at |-> "top", line |-> 1] ELSE [at |-> "above", line |-> FileRules[r].first]
\* where the new comment goes in the numbering of the file that already holds the expired snooze: always after it
\* ("above" = directly above the rule and below the expired snooze; "top" = second line)
EffPlace(p, pp) ==
  IF pp.at = "none" THEN p
  ELSE IF p.at = pp.at /\ p.at \in {"above", "top"} THEN [p EXCEPT !.line = pp.line + 1]
  ELSE [p EXCEPT !.line = ShiftLine(p.line, pp)]

\* instance table for JUDGE: String() -> instance
InstanceTable(c) ==
  LET ins == InstancesOf(c) IN [s \in {pr.str : pr \in ins} |-> CHOOSE pr \in ins : pr.str = s]

\* MC: the placement does not enter the model-level property
MCView == <<phase, cfg, layout, rule, tinst, cmt, prior, target>>

\* scenarios, for the base probe of the harness
EmitScen == phase # "target" \/ PrintT(<<"SCEN", ToJson([cfg |-> cfg, layout |-> layout, nproms |-> Len(cfg.proms), eol |-> eol])>>)

CaseRec ==
  LET pp == PriorPlace(cmt, rule, prior) IN
  [cfg |-> cfg, layout |-> layout, nproms |-> Len(cfg.proms), eol |-> eol, rule |-> rule, cmt |-> cmt, text |-> CommentText(cmt),
   prior |-> prior, pcmt |-> IF prior = "none" THEN NoCmt ELSE PriorCmt(cmt, prior),
   priortext |-> IF prior = "none" THEN "" ELSE CommentText(PriorCmt(cmt, prior)), pplace |-> pp,
   place |-> place, eplace |-> EffPlace(place, pp), target |-> target]
EmitCase == phase # "eval" \/ PrintT(<<"CASE", ToJson(CaseRec)>>)
=============================================================================
