---------------------------- MODULE FailoverTrace ----------------------------
(***************************************************************************)
(* JUDGE for C15. One record per case:                                     *)
(*   modes, ep, required      the case                                     *)
(*   a  phase A: one call on the real FailoverGroup: per-upstream request  *)
(*      counts, ok, error projection (err type, at = upstream the result   *)
(*      is attributed to, strict)                                          *)
(*   b  phase B: one online check through the real pipeline: per-upstream  *)
(*      request counts, problems (reporter, summary, severity), panic      *)
(* (4a) verdict: Doc_Contact / Doc_Result / Doc_Severity of Failover on    *)
(*      the observations -> <<"VIOL", id, [kind, ep, culprit, ...]>>       *)
(* (4b) binding: ImplOutcome / ImplProblem of Failover = observations      *)
(*      -> <<"DRIFT", ...>>                                                *)
(* Beyond C15 (binding only): path routing, repeated call (unsupported-API *)
(* switch + cache), disabled-check bookkeeping, uptime metric query.       *)
(* A refused upstream has no listener that could count the attempt, so     *)
(* "contacted" is known for it only through the upstream the result is     *)
(* attributed to.                                                          *)
(***************************************************************************)
EXTENDS Failover

TraceLog == ndJsonDeserialize("c15_trace.ndjson")

VARIABLES l, done
tvars == <<vars, l, done>>
Rec == TraceLog[l]

TraceInit ==
  /\ modes = <<>> /\ ep = "" /\ required = FALSE /\ inc = "none" /\ exc = "none" /\ i = 1 /\ contacted = <<>> /\ disabled = {} /\ res = NoRes
  /\ l = 1 /\ done = FALSE

Prefix(j) == [k \in 1..j |-> k]
\* request counts are compatible with "exactly the upstreams 1..j were contacted"
Consistent(ms, counts, j) ==
  /\ j \in 1..N
  /\ \A k \in 1..N : /\ k <= j => (counts[k] >= 1 \/ ms[k] = "refused")
                     /\ k > j => counts[k] = 0

\* where the observed loop departs from the statement (for the signature)
Culprit(ms, e, j) ==
  IF \E k \in 1..(j - 1) : ~MayContinue(DocClass(ms[k], e))
  THEN [kind |-> "continued-after", mode |-> ms[CHOOSE k \in 1..(j - 1) : ~MayContinue(DocClass(ms[k], e))]]
  ELSE IF j < N /\ ~MayStop(DocClass(ms[j], e)) THEN [kind |-> "stopped-at", mode |-> ms[j]]
  ELSE [kind |-> "result", mode |-> ms[j]]

\* the error of a query-caused failure is returned as is
AsIs(m, err) == (m = "bad_data" => err = "bad_data") /\ (m = "exec422" => err = "execution")

CheckSeverity(e) == IF e \in {"flags", "metadata"} THEN "Warning" ELSE "Bug"

Viol(v) == PrintT(<<"VIOL", Rec.id, ToJson(v)>>)
Drift(v) == PrintT(<<"DRIFT", Rec.id, ToJson(v)>>)

JudgeA ==
  LET ms == Rec.modes  e == Rec.ep  a == Rec.a  j == a.at IN
  IF a.panic # "" THEN Viol([phase |-> "A", kind |-> "panic", ep |-> e, culprit |-> "", modes |-> ms, req |-> Rec.required, obs |-> a])
  ELSE IF ~Consistent(ms, a.counts, j)
  THEN Viol([phase |-> "A", kind |-> "inconsistent", ep |-> e, culprit |-> "", modes |-> ms, req |-> Rec.required, obs |-> a])
  ELSE IF /\ Doc_Contact(ms, e, Prefix(j))
          /\ Doc_Result(ms, e, Prefix(j), a.ok, j)
          /\ AsIs(ms[j], a.err)
          /\ (~a.ok => a.strict = Rec.required)
  THEN TRUE
  ELSE Viol([phase |-> "A", kind |-> Culprit(ms, e, j).kind, ep |-> e, culprit |-> Culprit(ms, e, j).mode,
             modes |-> ms, req |-> Rec.required, obs |-> a])

BindA ==
  LET ms == Rec.modes  e == Rec.ep  a == Rec.a  o == ImplOutcome(ms, e) IN
  IF a.panic = "" /\ Len(o.contacted) = a.at /\ o.ok = a.ok /\ o.err = a.err /\ Consistent(ms, a.counts, a.at) THEN TRUE
  ELSE Drift([phase |-> "A", modes |-> ms, ep |-> e, expected |-> o, observed |-> a])

Unable(b) == {b.problems[k].severity : k \in {x \in 1..Len(b.problems) : b.problems[x].summary = "unable to run checks"}}
Others(b) == {k \in 1..Len(b.problems) : b.problems[k].summary # "unable to run checks"}
ObsSev(b) == IF Unable(b) = {} THEN "none" ELSE IF Cardinality(Unable(b)) = 1 THEN CHOOSE s \in Unable(b) : TRUE ELSE "mixed"
LastHit(counts) == IF \E k \in 1..N : counts[k] > 0 THEN CHOOSE k \in 1..N : counts[k] > 0 /\ \A x \in (k + 1)..N : counts[x] = 0 ELSE 0

JudgeB ==
  LET ms == Rec.modes  e == Rec.ep  b == Rec.b
      ok == \E j \in 1..N : Consistent(ms, b.counts, j) /\ Doc_Contact(ms, e, Prefix(j))
      jb == IF LastHit(b.counts) = 0 THEN N ELSE LastHit(b.counts) IN
  IF b.panic THEN Viol([phase |-> "B", kind |-> "panic", ep |-> e, culprit |-> "", modes |-> ms, req |-> Rec.required, obs |-> b.paniclog])
  ELSE IF ~ok THEN Viol([phase |-> "B", kind |-> Culprit(ms, e, jb).kind, ep |-> e, culprit |-> Culprit(ms, e, jb).mode,
                         modes |-> ms, req |-> Rec.required, obs |-> b.counts])
  ELSE IF /\ Doc_Severity(ms, e, Rec.required, ObsSev(b))
          /\ AllUnavailable(ms, e) => (/\ Others(b) = {}
                                       /\ \A k \in 1..Len(b.problems) : b.problems[k].reporter = b.check)
  THEN TRUE
  ELSE Viol([phase |-> "B", kind |-> "severity", ep |-> e, culprit |-> ms[jb], modes |-> ms, req |-> Rec.required,
             obs |-> b.problems])

BindB ==
  LET ms == Rec.modes  e == Rec.ep  b == Rec.b
      exp == ImplProblem(ImplOutcome(ms, e), Rec.required, CheckSeverity(e)) IN
  IF ~b.panic /\ ObsSev(b) = exp THEN TRUE
  ELSE Drift([phase |-> "B", modes |-> ms, ep |-> e, expected |-> exp, observed |-> b.problems])

\* ---- growth beyond C15: binding only (DRIFT), never a verdict
RRouted == Routed(Rec.inc, Rec.exc)
\* path routing: IsEnabledForPath on the real group, and whether the pipeline created the check at all
BindRoute ==
  IF Rec.a.enabled = RRouted /\ Rec.b.ran = RRouted /\ (~RRouted => \A k \in 1..N : Rec.b.counts[k] = 0) THEN TRUE
  ELSE Drift([phase |-> "route", inc |-> Rec.inc, exc |-> Rec.exc, expected |-> RRouted,
              observed |-> [enabled |-> Rec.a.enabled, ran |-> Rec.b.ran, counts |-> Rec.b.counts]])
\* a second identical call: unsupported upstreams are skipped, a cached answer is reused, the rest is asked again
BindSecond ==
  LET ms == Rec.modes  asks == SecondCallAsks(ms, Rec.ep)  c2 == Rec.a.counts2 IN
  IF c2[1] < 0 THEN TRUE
  ELSE IF \A k \in 1..N : IF k \in asks THEN c2[k] >= 1 \/ ms[k] = "refused" ELSE c2[k] = 0 THEN TRUE
  ELSE Drift([phase |-> "second-call", modes |-> ms, ep |-> Rec.ep, expected |-> asks, observed |-> c2])
\* checks disabled because of an unsupported API, as they reach Summary.MarkCheckDisabled
BindDisabled ==
  LET obs == {<<Rec.b.disabled[k].api, Rec.b.disabled[k].check>> : k \in 1..Len(Rec.b.disabled)}
      exp == IF RRouted THEN ImplDisabled(ImplOutcome(Rec.modes, Rec.ep), Rec.ep) ELSE {} IN
  IF obs = exp THEN TRUE
  ELSE Drift([phase |-> "disabled-checks", modes |-> Rec.modes, ep |-> Rec.ep, expected |-> exp, observed |-> Rec.b.disabled])
\* the configured uptime metric is asked for by alerts/count once its range query returned series
BindUptime ==
  IF Rec.b.uptime = (RRouted /\ ImplAsksUptime(Rec.modes, Rec.ep)) THEN TRUE
  ELSE Drift([phase |-> "uptime", modes |-> Rec.modes, ep |-> Rec.ep, observed |-> Rec.b.uptime])

TCase ==
  /\ l <= Len(TraceLog) /\ Rec.ev = "Case"
  /\ JudgeA /\ BindA
  /\ IF RRouted \/ Rec.b.ran THEN JudgeB /\ BindB ELSE TRUE      \* a server not routed to the file is asked nothing
  /\ BindRoute /\ BindSecond /\ BindDisabled /\ BindUptime
  /\ l' = l + 1 /\ UNCHANGED <<vars, done>>

TDone ==
  /\ l = Len(TraceLog) + 1 /\ ~done
  /\ done' = TRUE /\ PrintT(<<"DONE", l - 1>>)
  /\ UNCHANGED <<vars, l>>

TraceNext == TCase \/ TDone
TraceSpec == TraceInit /\ [][TraceNext]_tvars
=============================================================================
