SPECIFICATION TraceSpec
CONSTANTS
  MaxLines = 0
  MaxEntries = 0
CHECK_DEADLOCK FALSE
