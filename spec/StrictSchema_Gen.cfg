SPECIFICATION Spec
CONSTANTS
  MaxDev = 1
  NamesSet = {"utf8", "legacy"}
  SchemaSet = {"prometheus", "thanos"}
  CoreOnly = FALSE
  Gaps = {}
INVARIANTS EmitCase
CHECK_DEADLOCK FALSE
