SPECIFICATION Spec
CONSTANTS
  MaxDev = 1
  NamesSet = {"utf8", "legacy"}
  CoreOnly = FALSE
  Gaps = {"F9a", "F9b", "F9c", "F9d", "F9e"}
INVARIANTS EmitCase
CHECK_DEADLOCK FALSE
