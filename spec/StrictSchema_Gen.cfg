SPECIFICATION Spec
CONSTANTS
  MaxDev = 1
  NamesSet = {"utf8", "legacy"}
  CoreOnly = FALSE
  Gaps = {}
INVARIANTS EmitCase
CHECK_DEADLOCK FALSE
