----------------------------- MODULE LayoutTrace -----------------------------
(***************************************************************************)
(* JUDGE for C06: every record holds one layout (`lay`), the document the  *)
(* harness wrote (`lines`, `linelen`), what pint's real parser returned in *)
(* strict and relaxed mode (per rule: type, name, Lines, per YamlNode the  *)
(* value, the position ranges and the characters read back from the file   *)
(* at those positions) and every diagnostic of the real lint pipeline with *)
(* its column range read back through the real diags.readRange.            *)
(* The layout is rendered again here; the verdict predicates compare the   *)
(* recorded real outputs with ExpectedSpan / ExpectedLines:                *)
(*   readback  characters at Pos, whitespace runs collapsed, # value       *)
(*   span      a position range outside the scalar's ExpectedSpan          *)
(*   lines     Rule.Lines does not enclose its fields / leaves the file    *)
(*   diag      characters at readRange(First, Last, Pos) # value[First..Last] *)
(*   caret     characters above the carets InjectDiagnostics prints # those cells *)
(* Binding (DRIFT): the document is the rendering of the layout, the rules *)
(* found are the rules written, regular scalars get exactly `pos`, Lines   *)
(* is exactly ExpectedLines.                                               *)
(***************************************************************************)
EXTENDS Layout

CONSTANT TraceFile
TraceLog == ndJsonDeserialize(TraceFile)

VARIABLES l, done
tvars == <<l, done>>

Rec == TraceLog[l]
TraceInit == l = 1 /\ done = FALSE

Emit(tag, id, r) == PrintT(<<tag, id, ToJson(r)>>)

HasField(nodes, f) == \E k \in DOMAIN nodes : nodes[k].field = f
FieldOf(nodes, f)  == nodes[CHOOSE k \in DOMAIN nodes : nodes[k].field = f]
Proj(ps) == [k \in DOMAIN ps |-> [l |-> ps[k].l, f |-> ps[k].f, t |-> ps[k].t]]

WrapSig(w) == IF w.levels = <<>> /\ ~w.docB /\ ~w.docA /\ w.docE = "none" THEN "plainfile"
              ELSE IF w.embed THEN "embedded" ELSE "nested"

InSpan(p, allow) == \E a \in DOMAIN allow : allow[a].l = p.l /\ allow[a].lo <= p.f /\ p.f <= p.t /\ p.t <= allow[a].hi

\* one observed YamlNode against the expected scalar
JudgeNode(id, mode, w, nd, exp) ==
  /\ IF nd.rb = nd.val /\ nd.out = 0 THEN TRUE
     ELSE Emit("VIOL", id, [kind |-> "readback", mode |-> mode, field |-> nd.field, sig |-> exp.sig, wrap |-> w,
                            val |-> nd.val, rb |-> nd.rb])
  /\ IF \A k \in DOMAIN nd.pos : InSpan(nd.pos[k], exp.allow) THEN TRUE
     ELSE Emit("VIOL", id, [kind |-> "span", mode |-> mode, field |-> nd.field, sig |-> exp.sig, wrap |-> w,
                            val |-> nd.val, rb |-> ToJson(nd.pos)])
  /\ IF exp.reg /\ nd.rb = nd.val /\ nd.pos # Proj(exp.pos)
     THEN Emit("DRIFT", id, [what |-> "pos", mode |-> mode, field |-> nd.field, sig |-> exp.sig, got |-> nd.pos, want |-> Proj(exp.pos)])
     ELSE TRUE

\* the scalar that ends last: it decides the last line of the rule (signature of a `lines` finding)
LastNode(nodes) == nodes[CHOOSE k \in DOMAIN nodes : \A o \in DOMAIN nodes : nodes[o].lastc <= nodes[k].lastc]
AllReg(nodes)   == \A k \in DOMAIN nodes : nodes[k].reg
MinL(nodes) == LET S == {nodes[k].allow[1].l : k \in DOMAIN nodes} IN CHOOSE m \in S : \A o \in S : m <= o

JudgeRule(id, mode, w, total, obs, exp, i) ==
  /\ \A k \in DOMAIN obs.nodes :
       IF HasField(exp.nodes, obs.nodes[k].field)
       THEN JudgeNode(id, mode, w, obs.nodes[k], FieldOf(exp.nodes, obs.nodes[k].field))
       ELSE Emit("UNEXP", id, [what |-> "node", mode |-> mode, field |-> obs.nodes[k].field])
  /\ IF Len(obs.nodes) = Len(exp.nodes) THEN TRUE
     ELSE Emit("UNEXP", id, [what |-> "nodecount", mode |-> mode, field |-> ""])
  \* (iii) Lines encloses every field of the rule and stays inside the file
  /\ IF /\ 1 <= obs.first /\ obs.first <= MinL(exp.nodes)
        /\ exp.last <= obs.last /\ obs.last <= total
     THEN TRUE
     ELSE Emit("VIOL", id, [kind |-> "lines", mode |-> mode, field |-> "rule", sig |-> LastNode(exp.nodes).sig, wrap |-> w,
                            val |-> ToJson(<<exp.first, exp.last>>), rb |-> ToJson(<<obs.first, obs.last>>)])
  /\ IF (obs.first = exp.first /\ obs.last = exp.last) \/ ~AllReg(exp.nodes) THEN TRUE
     ELSE Emit("DRIFT", id, [what |-> "lines", mode |-> mode, field |-> "rule", sig |-> exp.type,
                             got |-> <<obs.first, obs.last>>, want |-> <<exp.first, exp.last>>])

SameRules(obs, R) ==
  /\ obs.err = "" /\ obs.panic = ""
  /\ Len(obs.rules) = Len(R.rules)
  /\ \A i \in DOMAIN R.rules : /\ obs.rules[i].type = R.rules[i].type
                               /\ obs.rules[i].name = R.rules[i].name
                               /\ obs.rules[i].err = ""

JudgeFile(id, mode, w, obs, R) ==
  IF SameRules(obs, R)
  THEN \A i \in DOMAIN R.rules : JudgeRule(id, mode, w, Len(R.lines), obs.rules[i], R.rules[i], i)
  ELSE Emit("UNEXP", id, [what |-> "rules", mode |-> mode, field |-> obs.err \o obs.panic])

\* (iv) a diagnostic's column range, mapped through Pos by readRange, spells value[First..Last]
JudgeDiag(id, w, d, R) ==
  LET sig == IF d.rule \in DOMAIN R.rules /\ HasField(R.rules[d.rule].nodes, d.field)
             THEN FieldOf(R.rules[d.rule].nodes, d.field).sig ELSE "?" IN
  /\ IF sig # "?" THEN TRUE ELSE Emit("UNEXP", id, [what |-> "diagfield", mode |-> d.check, field |-> d.field])
  /\ IF d.rb = d.exp /\ d.out = 0 THEN TRUE
     ELSE Emit("VIOL", id, [kind |-> "diag", mode |-> d.check, field |-> d.field, sig |-> sig, wrap |-> w,
                            val |-> d.exp, rb |-> d.rb])
  /\ IF d.caret = d.cexp THEN TRUE
     ELSE Emit("VIOL", id, [kind |-> "caret", mode |-> d.check, field |-> d.field, sig |-> sig, wrap |-> w,
                            val |-> d.cexp, rb |-> d.caret])

Judge(rec, R) ==
  LET w      == WrapSig(rec.lay.wrap)
      strict == rec.lay.base = "doc" /\ w = "plainfile" IN
  /\ IF LineT(R.lines) = rec.lines /\ LineB(R.lines) = rec.linelen THEN TRUE
     ELSE Emit("UNEXP", rec.id, [what |-> "render", mode |-> "", field |-> ""])
  /\ IF strict THEN JudgeFile(rec.id, "strict", w, rec.strict, R) ELSE TRUE
  /\ JudgeFile(rec.id, "relaxed", w, IF rec.relaxed_same THEN rec.strict ELSE rec.relaxed, R)
  /\ \A k \in DOMAIN rec.diags : JudgeDiag(rec.id, w, rec.diags[k], R)
  /\ IF rec.lintpanic = "" THEN TRUE ELSE Emit("UNEXP", rec.id, [what |-> "lint", mode |-> "", field |-> rec.lintpanic])

TCase ==
  /\ l <= Len(TraceLog) /\ Rec.ev = "Case"
  /\ Judge(Rec, Render(Rec.lay))
  /\ l' = l + 1 /\ UNCHANGED done

TDone ==
  /\ l = Len(TraceLog) + 1 /\ ~done
  /\ done' = TRUE /\ PrintT(<<"DONE", l - 1>>)
  /\ UNCHANGED l

TraceNext == TCase \/ TDone
TraceSpec == TraceInit /\ [][TraceNext]_tvars
=============================================================================
