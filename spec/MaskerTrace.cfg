SPECIFICATION TraceSpec
CONSTANTS
  MaxLen = 100000
  TextOnCtl = TRUE
CHECK_DEADLOCK FALSE
