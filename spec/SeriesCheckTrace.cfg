SPECIFICATION TraceSpec
CONSTANTS
  Stratum = "all"
CHECK_DEADLOCK FALSE
