SPECIFICATION TraceSpec
CONSTANTS
  NProms = {1, 2}
  LayoutIds = {1, 2, 3, 4}
  Eols = {"lf", "crlf"}
  Priors = {"none", "expired"}
  Extras = TRUE
  Rules = {1, 2, 3, 4, 5, 6, 7, 8, 9, 10, 11}
  Scopes = {"rule", "file"}
  OnlyBasePairs = FALSE
  Slim = FALSE
  AllPlacements = TRUE
CHECK_DEADLOCK FALSE
