-------------------------- MODULE CommentSyncTrace --------------------------
(***************************************************************************)
(* JUDGE for C17. The trace holds, per case, one `Case` record (platform,  *)
(* budget, the comments present before the first run) and one `Run` record *)
(* per reporting run: what the real makeComments produced, what the real   *)
(* Submit asked the platform to do (ordered calls), and the platform's     *)
(* comments before and after.                                              *)
(*  (4a) verdict : the Doc-side predicates of CommentSync on the recorded   *)
(*                 observation (DocFails)                                   *)
(*  (4b) binding : the recorded pending comments equal MakeComments of the  *)
(*                 spec, and the recorded calls / creations / deletions /   *)
(*                 resulting store equal RunFold of the spec                *)
(* Real comment bodies are interned by EXEC (same id <=> equal modulo       *)
(* surrounding newlines) and projected to the problem summaries they spell  *)
(* out (`carries`).                                                         *)
(***************************************************************************)
EXTENDS CommentSync

TraceLog == ndJsonDeserialize("c17_trace.ndjson")

VARIABLES l, cid, done, tcfg, tstore, tprev, tprevCreates, tstreak, tmap
tvars == <<vars, l, cid, done, tcfg, tstore, tprev, tprevCreates, tstreak, tmap>>

Rec == TraceLog[l]

Sum(p) == CASE p = "P1" -> "S1" [] p = "P2" -> "S2" [] p = "P3" -> "S3" [] p = "P5" -> "S5" [] p = "P6" -> "S6" [] p = "P7" -> "S7" [] OTHER -> "S2"
\* recorded comment -> comment of the spec; the text is its interned id plus the problems of that file it spells out
AbsText(path, tid, carries) == [id |-> tid, m |-> {p \in Problems : PFile(p) = path /\ Sum(p) \in RangeSeq(carries)}]
AbsComment(c) == [path |-> c.path, line |-> c.line, text |-> AbsText(c.path, c.tid, c.carries), nl |-> c.nl, mine |-> c.mine]
AbsComments(s) == [k \in 1..Len(s) |-> AbsComment(s[k])]
AbsPending(s) == [k \in 1..Len(s) |-> [path |-> s[k].path, line |-> s[k].line, text |-> AbsText(s[k].path, s[k].tid, s[k].carries),
                                       anchor |-> s[k].anchor]]

TraceInit == Init /\ l = 1 /\ cid = 0 /\ done = FALSE /\ tcfg = [plat |-> "none", max |-> 0, strip |-> FALSE, pad |-> 0, padf |-> 0, showdup |-> FALSE]
             /\ tstore = <<>> /\ tprev = NoInp /\ tprevCreates = 0 - 1 /\ tstreak = 0 /\ tmap = {}

\* pairs <<text of the spec, interned id of the real text>> seen in this case must be a bijection
Bijective(S) == \A a, b \in S : (a[1] = b[1]) <=> (a[2] = b[2])

TCase ==
  /\ l <= Len(TraceLog) /\ Rec.ev = "Case"
  /\ cid' = Rec.id
  /\ tcfg' = [plat |-> Rec.plat, max |-> Rec.max, strip |-> Rec.strip, pad |-> Rec.pad, padf |-> Rec.padf, showdup |-> Rec.showdup]
  /\ tstore' = AbsComments(Rec.store)
  /\ tprev' = NoInp /\ tprevCreates' = 0 - 1 /\ tstreak' = 0
  /\ tmap' = {<<[g |-> Rec.store[k].atext.g, m |-> RangeSeq(Rec.store[k].atext.m), s |-> Rec.store[k].atext.s], Rec.store[k].tid>> :
                k \in 1..Len(Rec.store)}
  \* a seed spells out exactly the problems its abstract text names
  /\ IF \A k \in 1..Len(Rec.store) : tstore'[k].text.m = RangeSeq(Rec.store[k].atext.m) /\ Bijective(tmap') THEN TRUE
     ELSE PrintT(<<"DRIFT", Rec.id, ToJson([what |-> "seed text", store |-> Rec.store])>>)
  /\ l' = l + 1 /\ UNCHANGED <<vars, done>>

Sig(fails, o, rn) == [hit |-> o.hit, plat |-> o.plat, max |-> o.max, strip |-> tcfg.strip, pad |-> tcfg.pad, padf |-> tcfg.padf, run |-> rn, fails |-> fails,
                      reports |-> o.reports, var |-> o.var, prevSame |-> o.prevSame, prevCreates |-> o.prevCreates,
                      streak |-> o.streak,
                      before |-> [k \in 1..Len(o.before) |-> [path |-> o.before[k].path, line |-> o.before[k].line,
                                                               m |-> o.before[k].text.m, mine |-> o.before[k].mine]],
                      ncreates |-> Len(o.creates), deleted |-> o.deleted, nafter |-> Len(o.after)]

TRun ==
  /\ l <= Len(TraceLog) /\ Rec.ev = "Run" /\ Rec.id = cid
  /\ LET v == [shift |-> Rec.shift, mod |-> Rec.mod]
         R == RangeSeq(Rec.reports)
         ft == [op |-> Rec.fault.op, k |-> Rec.fault.k]
         in == [reports |-> R, var |-> v, fault |-> ft]
         pend == AbsPending(Rec.pending)
         after == AbsComments(Rec.after)
         creates == AbsComments(Rec.creates)
         o == [plat |-> tcfg.plat, max |-> tcfg.max, reports |-> R, var |-> v,
               before |-> tstore, after |-> after, creates |-> creates, deleted |-> RangeSeq(Rec.deleted),
               hit |-> Rec.hit, err |-> (Rec.err # ""), nerrs |-> Rec.nerrs,
               prevSame |-> SameResults(tprev, in), prevCreates |-> tprevCreates,
               streak |-> IF Rec.hit THEN 0 ELSE IF SameResults(tprev, in) THEN tstreak + 1 ELSE 1]
         fails == DocFailsAll(o)
         \* binding 1: makeComments
         mk == PendingOf(tcfg, R, v)
         mkOK == /\ Len(mk) = Len(pend)
                 /\ \A k \in 1..Len(mk) : mk[k].path = pend[k].path /\ mk[k].line = pend[k].line /\ mk[k].text.m = pend[k].text.m /\ mk[k].anchor = pend[k].anchor
         newmap == tmap \cup (IF Len(mk) = Len(pend) THEN {<<mk[k].text, pend[k].text.id>> : k \in 1..Len(mk)} ELSE {})
         \* binding 2: updateDestination on the recorded pending comments
         f == IF tcfg.plat = "bitbucket" THEN BBFold(tcfg, tstore, pend, AbsText("", Rec.notice, <<>>))
                                          ELSE RunFold(tcfg, tstore, pend, v, ft)
         \* over REST only the calls that change the store are visible (creations, then deletions)
         storeCall(c) == c.op \in {"create", "delete"}
         foldOK == /\ IF Rec.callsobs THEN f.listed = Rec.listed /\ f.calls = Rec.calls
                                      ELSE SelectSeq(f.calls, storeCall) = Rec.calls
                   /\ f.creates = creates /\ f.deleted = RangeSeq(Rec.deleted) /\ f.after = after
                   /\ f.hit = Rec.hit /\ f.err = (Rec.err # "") /\ f.nerrs = Rec.nerrs
     IN
     \* a run that fails although no platform call failed is an error of its own
     /\ IF fails = {} /\ (Rec.err = "" \/ Rec.hit) /\ AbsComments(Rec.before) = tstore THEN TRUE
        ELSE PrintT(<<"VIOL", cid, ToJson(Sig(fails \cup (IF Rec.err = "" \/ Rec.hit THEN {} ELSE {"Error"})
                                                   \cup (IF AbsComments(Rec.before) = tstore THEN {} ELSE {"StoreChangedBetweenRuns"}), o, Rec.run))>>)
     /\ IF mkOK /\ Bijective(newmap) THEN TRUE
        ELSE PrintT(<<"DRIFT", cid, ToJson([what |-> "makeComments", run |-> Rec.run, expected |-> mk, observed |-> Rec.pending])>>)
     /\ IF foldOK THEN TRUE
        ELSE PrintT(<<"DRIFT", cid, ToJson([what |-> "updateDestination", run |-> Rec.run,
                                            expected |-> [listed |-> f.listed, calls |-> f.calls, deleted |-> f.deleted, nafter |-> Len(f.after)],
                                            observed |-> [listed |-> Rec.listed, calls |-> Rec.calls, deleted |-> Rec.deleted, nafter |-> Len(after)]])>>)
     /\ tstore' = after /\ tprev' = in /\ tprevCreates' = (IF Rec.hit THEN 0 - 1 ELSE Len(creates)) /\ tstreak' = o.streak /\ tmap' = newmap
  /\ l' = l + 1 /\ UNCHANGED <<vars, cid, done, tcfg>>

TDone ==
  /\ l = Len(TraceLog) + 1 /\ ~done
  /\ done' = TRUE /\ PrintT(<<"DONE", l - 1>>)
  /\ UNCHANGED <<vars, l, cid, tcfg, tstore, tprev, tprevCreates, tstreak, tmap>>

TraceNext == TCase \/ TRun \/ TDone
TraceSpec == TraceInit /\ [][TraceNext]_tvars
=============================================================================
