SPECIFICATION TraceSpec
CONSTANTS
  Steps = {}
  NSeries = 3
  CellDiv = 1
  MaxWin = 0
  MaxSlices = 100
  MaxCells = 0
  StartMode = "few"
  Quantum = "step"
  OrderMode = "all"
  PresMode = "subset"
  RunLens = {1}
  Deltas = {}
  Mirror = FALSE
  StepGuard = FALSE
  Skews = {0}
CHECK_DEADLOCK FALSE
