-------------------------- MODULE GitHistoryTrace --------------------------
(***************************************************************************)
(* JUDGE for C03 and C20: replays what the harness recorded for every      *)
(* history (real git repository, real `pint ci`) through the actions of    *)
(* GitHistory and evaluates                                                *)
(*   (a) the verdicts on the REAL outputs:                                 *)
(*         C03  every HEAD rule carries exactly the marker(s) the direct   *)
(*              comparison of fork-point and HEAD file versions accepts    *)
(*         C20  the rule/dependency problems are exactly the documented    *)
(*              ones, each listing exactly the dependent rules             *)
(*   (b) the binding: the name-status line real git printed for each       *)
(*         commit is the one the model folds (GITDRIFT otherwise: the git  *)
(*         model is wrong, never a statement about pint), and the markers  *)
(*         / problems equal what the transcribed algorithm computes        *)
(*         (DRIFT otherwise).                                              *)
(* Events: Reset, Commit, BaseAdv, Merge, Finish, Failed.                  *)
(***************************************************************************)
EXTENDS GitHistory

TraceLog == ndJsonDeserialize("githist_trace.ndjson")

VARIABLES l, cid, done
tvars == <<vars, l, cid, done>>

Rec == TraceLog[l]

TraceInit == Init /\ l = 1 /\ cid = 0 /\ done = FALSE

TReset ==
  /\ l <= Len(TraceLog) /\ Rec.ev = "Reset"
  /\ LET f == [p \in Paths |-> Rec.fork[p]] IN
     /\ fork' = f /\ tree' = f /\ prevTree' = f /\ base' = f
     /\ origin' = [p \in Paths |-> IF f[p].present THEN p ELSE NoPath]
  /\ phase' = "branch" /\ changes' = <<>> /\ tomb' = [p \in Paths |-> NoPath] /\ ambig' = FALSE
  /\ lastNS' = NoNS /\ mainNew' = NoNew /\ nmerge' = 0
  /\ ncommit' = 0 /\ nbase' = 0 /\ log' = <<>>
  /\ cid' = Rec.id /\ l' = l + 1 /\ UNCHANGED done

\* one branch commit: the spec action on the abstract op; real git must have printed the name-status line it folds
TCommit ==
  /\ l <= Len(TraceLog) /\ Rec.ev = "Commit"
  /\ Commit(Rec.op)
  /\ LET exp == [i \in 1..Len(Parts(Rec.op)) |-> Parts(Rec.op)[i].ns] IN
     IF Rec.obs = exp THEN TRUE
     ELSE PrintT(<<"GITDRIFT", cid, ToJson([expected |-> exp, observed |-> Rec.obs])>>)
  /\ l' = l + 1 /\ UNCHANGED <<cid, done>>

\* a commit on main: the content the harness wrote on main is the model's file
TBaseAdv ==
  /\ l <= Len(TraceLog) /\ Rec.ev = "BaseAdv"
  /\ IF Rec.op.op = "BaseAdvanceedit" THEN BaseAdvanceEdit(Rec.op.ns.src, Rec.op.k, Rec.op.rule)
     ELSE BaseAdvance(Rec.op.ns.src, IF Rec.op.op = "BaseAdvancetop" THEN "top" ELSE "end")
  /\ IF MainFile(base, mainNew', Rec.op.ns.src) = Rec.op.file THEN TRUE
     ELSE PrintT(<<"GITDRIFT", cid, ToJson([what |-> "base advance content", op |-> Rec.op])>>)
  /\ l' = l + 1 /\ UNCHANGED <<cid, done>>

\* git merge main: the tree the harness committed as the merge result is the model's merged tree
TMerge ==
  /\ l <= Len(TraceLog) /\ Rec.ev = "Merge"
  /\ MergeBase
  /\ IF \A p \in Paths : IF p \in DOMAIN Rec.op.tree THEN tree'[p] = Rec.op.tree[p] ELSE ~tree'[p].present THEN TRUE
     ELSE PrintT(<<"GITDRIFT", cid, ToJson([what |-> "merged tree", op |-> Rec.op])>>)
  /\ l' = l + 1 /\ UNCHANGED <<cid, done>>

OpNames == [i \in 1..Len(log) |-> log[i].op]

\* C03 verdict and binding on the recorded markers
JudgeC03(obs) ==
  LET g  == ImplMarkers(tree, changes, "greedy")
      t  == ImplMarkers(tree, changes, "twopass")
      mapped == UNION {{m \in obs : m.path = pk[1] /\ m.first = FirstLine(tree[pk[1]], pk[2])
                                   /\ m.last = LastLine(tree[pk[1]], pk[2])} : pk \in HeadRules}
  IN
  /\ \A pk \in HeadRules :
       IF ambig \/ RuleOK(obs, pk[1], pk[2]) THEN TRUE
       ELSE PrintT(<<"VIOL", cid, "C03",
                     ToJson([sig |-> Sig(pk[1], pk[2], StatesAt(obs, pk[1], pk[2])),
                             greedy  |-> StatesAt(g, pk[1], pk[2]),
                             idfirst |-> StatesAt(t, pk[1], pk[2]),
                             ops |-> OpNames])>>)
  \* a marker on lines that hold no rule at HEAD: a phantom entry was linted
  /\ \A m \in IF ambig THEN {} ELSE obs \ mapped :
       PrintT(<<"VIOL", cid, "C03",
                ToJson([sig |-> [base |-> <<>>, head |-> <<>>, rule |-> 0, moved |-> FALSE, fresh |-> FALSE, acc |-> {},
                                 obs |-> {m.state}, path |-> m.path, k |-> 0],
                        greedy |-> {x.state : x \in {y \in g : y.path = m.path /\ y.first = m.first /\ y.last = m.last}},
                        idfirst |-> {x.state : x \in {y \in t : y.path = m.path /\ y.first = m.first /\ y.last = m.last}},
                        ops |-> OpNames, phantom |-> m, stale |-> StaleAt(m.path), merged |-> nmerge > 0])>>)
  /\ PrintT(<<"MODE", cid, IF obs = g THEN 1 ELSE 0, IF obs = t THEN 1 ELSE 0>>)
  /\ IF obs = g \/ obs = t THEN TRUE
     ELSE PrintT(<<"DRIFT", cid, "C03", ToJson([greedy |-> g, twopass |-> t, observed |-> obs, ops |-> OpNames])>>)

\* C20 verdict and binding on the recorded rule/dependency problems
ForkRuleAt(w) ==
  LET S == {qj \in UNION {{<<q, j>> : j \in 1..Len(base[q].rules)} : q \in Paths} :
              qj[1] = w.path /\ FirstLine(base[qj[1]], qj[2]) = w.first} IN
  IF S = {} THEN "none" ELSE LET qj == CHOOSE x \in S : TRUE IN base[qj[1]].rules[qj[2]].kind
JudgeC20(obsSeq) ==
  LET obs  == {obsSeq[i] : i \in 1..Len(obsSeq)}
      sets == DepsAsSets(obs)
      doc  == IF nmerge > 0 /\ sets = DocWarningsForkLines THEN DocWarningsForkLines ELSE DocWarnings
      g    == ImplDeps(tree, changes, "greedy")
      t    == ImplDeps(tree, changes, "twopass")
      locs == {[path |-> w.path, first |-> w.first, last |-> w.last] : w \in (sets \ doc) \cup (doc \ sets)}
      at(ws, loc) == {w \in ws : w.path = loc.path /\ w.first = loc.first /\ w.last = loc.last}
  IN
  /\ \A loc \in IF ambig \/ Unparsed THEN {} ELSE locs :
        LET d == at(doc, loc)
            o == at(sets, loc) IN
        PrintT(<<"VIOL", cid, "C20",
                 ToJson([what |-> IF o = {} THEN "missing" ELSE IF d = {} THEN "spurious" ELSE "wrong-list",
                         kind |-> ForkRuleAt(loc), loc |-> loc,
                         ndoc |-> IF d = {} THEN 0 ELSE Cardinality((CHOOSE w \in d : TRUE).deps),
                         nobs |-> IF o = {} THEN 0 ELSE Cardinality((CHOOSE w \in o : TRUE).deps),
                         stale |-> Stale, merged |-> nmerge > 0, implsame |-> (obs = g \/ obs = t),
                         doc |-> d, observed |-> o, ops |-> OpNames])>>)
  /\ IF (obs = g \/ obs = t) /\ Cardinality(obs) = Len(obsSeq) THEN TRUE
     ELSE PrintT(<<"DRIFT", cid, "C20", ToJson([greedy |-> g, twopass |-> t, observed |-> obsSeq, ops |-> OpNames])>>)

\* the line arithmetic of the spec equals where the harness actually wrote the rules (counted while rendering)
LayoutOK(lay) ==
  {lay[i] : i \in 1..Len(lay)} =
  {[path |-> pk[1], k |-> pk[2], first |-> FirstLine(tree[pk[1]], pk[2]), last |-> LastLine(tree[pk[1]], pk[2])] :
     pk \in UNION {{<<p, k>> : k \in 1..Len(tree[p].rules)} : p \in Paths}}

TFinish ==
  /\ l <= Len(TraceLog) /\ Rec.ev = "Finish"
  /\ IF LayoutOK(Rec.layout) THEN TRUE ELSE PrintT(<<"LAYOUTDRIFT", cid, ToJson(Rec.layout)>>)
  /\ JudgeC03({Rec.markers[i] : i \in 1..Len(Rec.markers)})
  /\ JudgeC20(Rec.deps)
  /\ PrintT(<<"NDEPS", cid, Len(Rec.deps), Cardinality(DocWarnings), IF ambig THEN 1 ELSE 0,
            IF Unparsed THEN 1 ELSE 0, IF Stale THEN 1 ELSE 0>>)
  /\ IF Len(Rec.other) = 0 THEN TRUE ELSE PrintT(<<"OTHER", cid, ToJson(Rec.other)>>)
  \* binding of the yaml/parse problems (files that do not parse at HEAD)
  /\ LET po == {Rec.parse[i] : i \in 1..Len(Rec.parse)} IN
     IF po = ImplParse(tree, changes, "greedy") \/ po = ImplParse(tree, changes, "twopass") THEN TRUE
     ELSE PrintT(<<"DRIFT", cid, "PARSE", ToJson([expected |-> ImplParse(tree, changes, "twopass"), observed |-> po, ops |-> OpNames])>>)
  /\ l' = l + 1 /\ UNCHANGED <<vars, cid, done>>

\* pint produced no report at all (reproducibly)
TFailed ==
  /\ l <= Len(TraceLog) /\ Rec.ev = "Failed"
  /\ PrintT(<<"FAILED", cid, ToJson([err |-> Rec.err, stderr |-> Rec.stderr, ops |-> OpNames])>>)
  /\ l' = l + 1 /\ UNCHANGED <<vars, cid, done>>

TDone ==
  /\ l = Len(TraceLog) + 1 /\ ~done
  /\ done' = TRUE /\ PrintT(<<"DONE", l - 1>>)
  /\ UNCHANGED <<vars, l, cid>>

TraceNext == TReset \/ TCommit \/ TBaseAdv \/ TMerge \/ TFinish \/ TFailed \/ TDone
TraceSpec == TraceInit /\ [][TraceNext]_tvars
=============================================================================
