----------------------------- MODULE RangeSlice -----------------------------
(***************************************************************************)
(* Range queries of pint's Prometheus client: internal/promapi/range.go    *)
(* and range_normalize.go.                                                 *)
(*                                                                         *)
(* Time is integer seconds relative to a base instant B that is a multiple *)
(* of the slice size (so Go's Time.Round(sliceSize) = RoundTo on offsets). *)
(*                                                                         *)
(* Impl side : QuerySlices / SliceRange      = RangeQuery's slice choice,  *)
(*                                             sliceRange                  *)
(*             SliceResp (AppendSample, ExpandRangesEnd)                   *)
(*                                           = rangeQuery.Run on one slice *)
(*             Respond(k) in ANY order       = results channel + the       *)
(*                                             collection loop (append in  *)
(*                                             arrival order)              *)
(*             Merge (MergeRanges, Overlaps, fix-point recursion), Sort    *)
(* Doc side  : Unsliced - what ONE evaluation over the same step grid      *)
(*             yields: maximal runs of consecutive present grid points,    *)
(*             each run [first, last + step - 1 s]. Written without any of *)
(*             the operators above.                                        *)
(* Property  : C13  Done => per series Ranges = Unsliced, and a grid point *)
(*             is covered by a range iff the series is present there; for  *)
(*             every arrival order.                                        *)
(***************************************************************************)
EXTENDS Integers, Sequences, FiniteSets, TLC, Json

CONSTANTS Steps,      \* set of steps (seconds), each <= 4h (a larger step makes the slice size 0)
          NSeries,    \* number of series
          CellDiv,    \* presence is defined on cells of step \div CellDiv seconds (1 or 2)
          MaxWin,     \* windows end - start <= MaxWin
          MaxSlices,  \* only windows cut into <= MaxSlices slices
          MaxCells,   \* only windows with <= MaxCells presence cells
          StartMode,  \* "lattice": every multiple of the quantum inside one slice + second-level
                      \*            neighbours of the rounding points;  "few": 0, 1, half, half+1
          Quantum,    \* "half" | "step" | "slice": lattice of starts and ends (fractions of a step)
          OrderMode,  \* "all": every arrival permutation; "fwdrev": in order and reversed only
          PresMode,   \* "subset": presence chosen in one step; "runs": run by run (simulation)
          RunLens,    \* "runs": set of run lengths (cells) to choose from
          Deltas,     \* follow-up queries through the cache: set of offsets in half-steps ({} = none)
          StepGuard,  \* BOOLEAN: RangeQuery keeps the slice size >= step (fixes/C13-slice-size-at-least-step.patch)
          Skews,      \* set of clock skews (seconds) between Start()+Dur() and End() of the RangeQueryTimes value
          Mirror      \* BOOLEAN: Overlaps has cases 10 and 11 ("first range inside the second, start / end
                      \* aligned", added by pint commit c96496e after this model found them missing). The driver
                      \* sets it from a probe of the real promapi.Overlaps, so the model follows the tree it is
                      \* checked against (FALSE = the tree before the fix, e.g. the revert mutant)

Series == 1..NSeries

-----------------------------------------------------------------------------
(* Assumptions about the environment, stated once. The constant-level ones are ASSUMEs; those about Go's time  *)
(* package and the Prometheus API are operators that JUDGE evaluates against probe records taken from the real   *)
(* time.Time / time.Duration and the real PromQL engine in every run (RangeSliceTrace!TProbe).                   *)
(*  E1 RangeQueryTimes: Start(), End(), Dur(), Step(). pint ships one implementation, NewRelativeRange          *)
(*     (Start = now - lookback, End = now, each reading the clock, Dur = lookback); tests use an absolute one    *)
(*     (Dur = End - Start). Both are covered by  Dur = End - Start - skew,  skew \in Skews, skew >= 0.            *)
(*  E2 whole seconds: the model ignores the sub-second part of now (it only adds a last slice holding no point). *)
(*  E3 the base instant B is a multiple of the slice size counted from Go's zero Time, so                        *)
(*     (B + t).Round(size) = B + RoundTo(t, size)  and  Duration(2h).Round(step) = RoundTo(7200, step).          *)
(*  E4 Prometheus evaluates query_range(start, end, step) exactly at start + k*step <= end: it does not align    *)
(*     start to the step (EvalTimes). A server that aligns start would move slices onto another grid.            *)
(*  E5 what the server holds does not change during a session, and a series has a value at t iff t's cell is     *)
(*     present (the 5 m look-back of real Prometheus is folded into the cells).                                  *)
ASSUME Skews \subseteq Nat
ASSUME CellDiv \in {1, 2}
ASSUME \A st \in Steps : st \in Nat /\ st >= CellDiv
\* a step above 4h rounds the slice size to 0 and sliceRange never terminates: only with the guard
ASSUME StepGuard \/ \A st \in Steps : st <= 14400

Min2(a, b) == IF a < b THEN a ELSE b
Max2(a, b) == IF a > b THEN a ELSE b
Abs(x) == IF x < 0 THEN -x ELSE x

\* time.Time.Round / time.Duration.Round for non-negative values: nearest multiple, halves go up
RoundTo(t, d) == IF d <= 0 THEN t ELSE LET r == t % d IN IF r + r < d THEN t - r ELSE t + d - r

-----------------------------------------------------------------------------
(* range.go: slice computation                                             *)

\* queryStep := (time.Hour * 2).Round(step); with fixes/C13-slice-size-at-least-step.patch (constant StepGuard,
\* set by the driver from a probe of the real RangeQuery) never below the step
SliceSize(st) == IF StepGuard /\ RoundTo(7200, st) < st THEN st ELSE RoundTo(7200, st)

RECURSIVE SliceLoop(_, _, _, _)
SliceLoop(rstart, end, size, acc) ==         \* for rstart.Before(end) { ... }
  IF rstart < end
  THEN SliceLoop(rstart + size, end, size, Append(acc, [s |-> rstart, e |-> Min2(rstart + size, end)]))
  ELSE acc

SliceRange(start, end, resolution, size) ==  \* sliceRange()
  IF end - start <= resolution THEN << [s |-> start, e |-> end] >>
  ELSE LET rstart == RoundTo(start, size)
           lead   == IF rstart > start THEN << [s |-> rstart - size, e |-> Min2(rstart, end)] >> ELSE << >>
           all    == SliceLoop(rstart, end, size, lead)
       IN  [i \in 1..Len(all) |-> IF i < Len(all) THEN [all[i] EXCEPT !.e = @ - 1] ELSE all[i]]

QuerySlices(start, end, st, dur) ==          \* head of Prometheus.RangeQuery; dur = params.Dur() (the lookback)
  IF SliceSize(st) > dur THEN << [s |-> start, e |-> end] >>
  ELSE SliceRange(start, end, st, SliceSize(st))

-----------------------------------------------------------------------------
(* The server: a series has a sample at evaluation time t iff t's cell is  *)
(* present. query_range(s, e, step) evaluates at s, s+step, ... <= e.      *)

UnitOf(st) == st \div CellDiv                 \* cell width used by the generator
CellOf(t, u) == t \div u
PresentAt(pr, f, t, u) == CellOf(t, u) \in pr[f]
EvalTimes(sl, st) == {sl.s + k * st : k \in 0..((sl.e - sl.s) \div st)}

-----------------------------------------------------------------------------
(* range_normalize.go: AppendSampleToRanges, ExpandRangesEnd               *)

\* one sample: first range of the same fingerprint that takes it (start side checked first), else new
AppendSample(dst, fp, ts, st) ==
  LET takesS(i) == dst[i].fp = fp /\ ts >= dst[i].s - st /\ ts <= dst[i].s
      takesE(i) == dst[i].fp = fp /\ ts >= dst[i].s /\ ts <= dst[i].e + st
      hits == {i \in 1..Len(dst) : takesS(i) \/ takesE(i)}
  IN  IF hits = {} THEN Append(dst, [fp |-> fp, s |-> ts, e |-> ts])
      ELSE LET i == CHOOSE j \in hits : \A h \in hits : j <= h IN
           IF takesS(i) THEN [dst EXCEPT ![i].s = ts] ELSE [dst EXCEPT ![i].e = ts]

\* the ascending sample timestamps of series f in slice sl
SamplesOf(pr, f, sl, st, u) == {t \in EvalTimes(sl, st) : PresentAt(pr, f, t, u)}

RECURSIVE AppendSet(_, _, _, _)
AppendSet(dst, fp, tss, st) ==               \* for _, v := range vals (ascending)
  IF tss = {} THEN dst
  ELSE LET t == CHOOSE x \in tss : \A y \in tss : x <= y IN
       AppendSet(AppendSample(dst, fp, t, st), fp, tss \ {t}, st)

\* Series identity: series f has its own label set, and the label NAMES differ between series (series 2 carries one
\* label more than the others; harness c13Labels). A response lists its series in Prometheus' order (labels.Compare),
\* which puts series 2 first; pint's own order (labelsBefore: fewer labels first) is the id order used by Less.
RespOrder == IF NSeries = 1 THEN << 1 >> ELSE << 2, 1 >> \o [i \in 1..(NSeries - 2) |-> i + 2]
RECURSIVE StreamSeries(_, _, _, _, _, _)
StreamSeries(dst, pr, k, sl, st, u) ==        \* streamSampleStream: one call per series of the response, in response order
  IF k > NSeries THEN dst
  ELSE StreamSeries(AppendSet(dst, RespOrder[k], SamplesOf(pr, RespOrder[k], sl, st, u), st), pr, k + 1, sl, st, u)

ExpandRangesEnd(rs, st) == [i \in 1..Len(rs) |-> [rs[i] EXCEPT !.e = @ + st - 1]]

SliceResp(pr, sl, st, u) == ExpandRangesEnd(StreamSeries(<< >>, pr, 1, sl, st, u), st)   \* rangeQuery.Run

-----------------------------------------------------------------------------
(* range_normalize.go: Overlaps (cases numbered as in the source)          *)

No == [ok |-> FALSE, s |-> 0, e |-> 0]
Yes(s, e) == [ok |-> TRUE, s |-> s, e |-> e]

Overlaps(a, b, st) ==
  IF a.fp # b.fp THEN No                                                          \* 0
  ELSE IF Abs(a.s - b.s) <= st /\ Abs(a.e - b.e) <= st
       THEN Yes(Min2(a.s, b.s), Max2(a.e, b.e))                                   \* 1
  ELSE IF a.s < b.s /\ a.e > b.s /\ a.e < b.e THEN Yes(a.s, b.e)                  \* 2
  ELSE IF a.s > b.s /\ a.s < b.e /\ a.e > b.e THEN Yes(b.s, a.e)                  \* 3
  ELSE IF a.s < b.s /\ a.e < b.e /\ Abs(a.e - b.s) <= st THEN Yes(a.s, b.e)       \* 4
  ELSE IF a.s > b.s /\ a.e > b.e /\ Abs(a.s - b.e) <= st THEN Yes(b.s, a.e)       \* 5
  ELSE IF a.s < b.s /\ a.e > b.e THEN Yes(a.s, a.e)                               \* 6
  ELSE IF Abs(a.s - b.s) <= st /\ a.e > b.e THEN Yes(Min2(a.s, b.s), a.e)         \* 7
  ELSE IF a.s < b.s /\ Abs(a.e - b.e) <= st THEN Yes(a.s, Max2(a.e, b.e))         \* 8
  ELSE IF a.s > b.s /\ a.e < b.e THEN Yes(b.s, b.e)                               \* 9
  ELSE IF Mirror /\ Abs(a.s - b.s) <= st /\ a.e < b.e THEN Yes(Min2(a.s, b.s), b.e) \* 10 (mirror of 7)
  ELSE IF Mirror /\ a.s > b.s /\ Abs(a.e - b.e) <= st THEN Yes(b.s, Max2(a.e, b.e)) \* 11 (mirror of 8)
  ELSE No

-----------------------------------------------------------------------------
(* sort.Stable(MetricTimeRanges): by labels (series id), then Start        *)

Less(a, b) == IF a.fp # b.fp THEN a.fp < b.fp ELSE a.s < b.s

InsertStable(sorted, x) ==                   \* behind every element that is not greater
  LET pos == {i \in 1..Len(sorted) : Less(x, sorted[i])}
      p   == IF pos = {} THEN Len(sorted) + 1 ELSE CHOOSE i \in pos : \A j \in pos : i <= j
  IN  SubSeq(sorted, 1, p - 1) \o << x >> \o SubSeq(sorted, p, Len(sorted))

RECURSIVE SortFrom(_, _, _)
SortFrom(rs, k, acc) == IF k > Len(rs) THEN acc ELSE SortFrom(rs, k + 1, InsertStable(acc, rs[k]))
SortStable(rs) == SortFrom(rs, 1, << >>)

-----------------------------------------------------------------------------
(* range_normalize.go: MergeRanges                                          *)

EmptyMap == [f \in Series |-> << >>]

\* one `for _, src := range source` pass; m: fingerprint -> list, had: hadMerged
RECURSIVE MergePass(_, _, _, _, _)
MergePass(source, k, m, had, st) ==
  IF k > Len(source) THEN [m |-> m, had |-> had]
  ELSE LET src  == source[k]
           lst  == m[src.fp]
           ov(i) == Overlaps(lst[i], src, st)
           found == \E i \in 1..Len(lst) : ov(i).ok
           upd  == [i \in 1..Len(lst) |-> IF ov(i).ok THEN [lst[i] EXCEPT !.s = ov(i).s, !.e = ov(i).e] ELSE lst[i]]
       IN  IF found THEN MergePass(source, k + 1, [m EXCEPT ![src.fp] = upd], TRUE, st)
           ELSE MergePass(source, k + 1, [m EXCEPT ![src.fp] = Append(lst, src)], had, st)

RECURSIVE ConcatMap(_, _)
ConcatMap(m, f) == IF f > NSeries THEN << >> ELSE m[f] \o ConcatMap(m, f + 1)

RECURSIVE MergeRanges(_, _)
RECURSIVE MergeFix(_, _)
MergeFix(lst, st) ==                         \* ok = true; for ok { merged[fp], ok = MergeRanges(merged[fp]) }
  LET r == MergeRanges(lst, st) IN IF r.had THEN MergeFix(r.rs, st) ELSE r.rs
MergeRanges(source, st) ==
  LET p == MergePass(source, 1, EmptyMap, FALSE, st) IN
  IF ~p.had THEN [rs |-> source, had |-> FALSE]
  ELSE [rs  |-> SortStable(ConcatMap([f \in Series |-> MergeFix(p.m[f], st)], 1)),   \* map order is irrelevant
        had |-> TRUE]                                                                 \* after the stable sort

\* tail of RangeQuery
Finish(collected, st) ==
  SortStable(IF Len(collected) > 1 THEN MergeRanges(collected, st).rs ELSE collected)

-----------------------------------------------------------------------------
(* Doc side: one unsliced evaluation over the same step grid.              *)
(* Independent of everything above except the (recorded or computed)       *)
(* window [lo, hi] and grid origin.                                        *)

\* grid points of the evaluation anchored at `origin` that lie in [lo, hi]
GridIn(origin, lo, hi, st) ==
  {origin + k * st : k \in (0 - ((origin - lo) \div st)) .. ((hi - origin) \div st)} \cap lo..hi

\* maximal runs of consecutive present grid points; run -> [first, last + step - 1]:
\* a run begins at a present point whose predecessor on the grid is absent and ends at the first
\* present point at or after it whose successor is absent
MinOf(S) == CHOOSE x \in S : \A y \in S : x <= y
UnslicedOf(pr, f, origin, lo, hi, st, u) ==
  LET G == GridIn(origin, lo, hi, st)
      P == {t \in G : PresentAt(pr, f, t, u)}
      firsts == {a \in P : (a - st) \notin P}
      lasts  == {b \in P : (b + st) \notin P}
  IN  {[fp |-> f, s |-> a, e |-> MinOf({b \in lasts : b >= a}) + st - 1] : a \in firsts}

RangesOf(rs, f) == {rs[i] : i \in {j \in 1..Len(rs) : rs[j].fp = f}}
CountOf(rs, f) == Cardinality({j \in 1..Len(rs) : rs[j].fp = f})
Covers(rs, f, t) == \E i \in 1..Len(rs) : rs[i].fp = f /\ rs[i].s <= t /\ t <= rs[i].e   \* SeriesTimeRanges.covers

\* the C13 predicate on a result `rs`
SameAsUnsliced(rs, pr, origin, lo, hi, st, u) ==
  \A f \in Series :
    /\ RangesOf(rs, f) = UnslicedOf(pr, f, origin, lo, hi, st, u)
    /\ CountOf(rs, f) = Cardinality(UnslicedOf(pr, f, origin, lo, hi, st, u))
GapIffAbsent(rs, pr, origin, lo, hi, st, u) ==
  \A f \in Series : \A t \in GridIn(origin, lo, hi, st) : Covers(rs, f, t) <=> PresentAt(pr, f, t, u)

-----------------------------------------------------------------------------
(* State machine                                                           *)

VARIABLES step, start, end,   \* the query (of the session) being answered
          unit,               \* width of a presence cell (seconds)
          slices,             \* Seq of [s, e] (ascending)
          pres,               \* [Series -> SUBSET cell index]: what the server holds
          cur,                \* PresMode "runs": <<series, next cell, value of the next run>>
          pc,                 \* "start" | "end" | "slice" | "pres" | "wait" | "merge" | "sort" | "done"
          pending,            \* slice indices not yet answered
          collected,          \* merged.Series.Ranges while collecting
          ranges,             \* result
          arrival,            \* history: order in which slice responses arrived
          q,                  \* 1 = first query of the session, 2 = follow-up query (same expr and step)
          delta,              \* the follow-up query asks for [start + delta, end + delta]; -1 = none
          skew,               \* RangeQueryTimes: Dur() = end - start - skew (0 for an absolute window; a now-based
                              \* window reads the clock twice, so End() may be later than Start() + Dur())
          cache,              \* queryCache.entries restricted to this expr/step: key -> slice response
          miss,               \* slice indices of the current query that were not in the cache when it began
          hist                \* history: finished queries of the session
vars == <<step, start, end, unit, slices, pres, cur, pc, pending, collected, ranges, arrival, q, delta, skew, cache, miss, hist>>

Q(st) == CASE Quantum = "half" -> IF st % 2 = 0 THEN st \div 2 ELSE st
           [] Quantum = "step" -> st
           [] OTHER -> SliceSize(st)

\* alignments of `start` inside one slice (the base instant is a slice boundary)
Starts(st) ==
  LET size == SliceSize(st)  half == size \div 2 IN
  IF StartMode = "lattice"
  THEN {k * Q(st) : k \in 0..((size - 1) \div Q(st))} \cup {1, half - 1, half, half + 1, size - 1}
  ELSE {0, 1, half, half + 1}

\* ends: the lattice, one second around every slice boundary, and around the two thresholds
\* `end - start <= step` and `sliceSize > end - start` of the code
Ends(st, s0) ==
  LET size == SliceSize(st)
      hi == s0 + MaxWin
      cand == {k * Q(st) : k \in 1..(hi \div Q(st))}
              \cup {b * size + d : b \in 0..(hi \div size + 1), d \in {-1, 0, 1}}
              \cup {s0 + st + d : d \in {-1, 0, 1}}
              \cup {s0 + size + d : d \in {-1, 0, 1}}
  IN  {e \in cand : e > s0 /\ e <= hi}

\* follow-up queries: the same window `h` half-steps later. h = 1 is excluded: the cache key of the
\* (moving) last slice deliberately rounds its end to the step, so a follow-up less than one step later
\* may be served the previous answer - staleness by design, on which C13 is silent.
DeltaOf(h, st) == IF h < 0 THEN -1 ELSE h * (st \div 2)
ASSUME 1 \notin Deltas

FirstCell == CellOf(slices[1].s, unit)
LastCell == CellOf(end + Max2(delta, 0), unit)
Cells == FirstCell..LastCell

Init ==
  /\ step \in Steps
  /\ start = 0 /\ end = 0 /\ unit = UnitOf(step) /\ slices = << >>
  /\ pres = [f \in Series |-> {}] /\ cur = <<0, 0, FALSE>>
  /\ pc = "start"
  /\ pending = {} /\ collected = << >> /\ ranges = << >> /\ arrival = << >>
  /\ q = 1 /\ delta = -1 /\ skew = 0 /\ cache = << >> /\ miss = {} /\ hist = << >>

PickStart ==
  /\ pc = "start"
  /\ start' \in Starts(step)
  /\ pc' = "end"
  /\ UNCHANGED <<step, end, unit, slices, pres, cur, pending, collected, ranges, arrival, q, delta, skew, cache, miss, hist>>

PickEnd ==
  /\ pc = "end"
  /\ end' \in Ends(step, start)
  /\ delta' \in {DeltaOf(h, step) : h \in Deltas \cup {-1}}
  /\ skew' \in Skews
  /\ pc' = "slice"
  /\ UNCHANGED <<step, start, unit, slices, pres, cur, pending, collected, ranges, arrival, q, cache, miss, hist>>

\* head of RangeQuery: the slices (windows outside the bounds of the configuration are dropped here)
Slice ==
  /\ pc = "slice"
  /\ LET sl == QuerySlices(start, end, step, end - start - skew) IN
     /\ Len(sl) <= MaxSlices
     /\ CellOf(end + Max2(delta, 0), unit) - CellOf(sl[1].s, unit) + 1 <= MaxCells
     /\ slices' = sl
     /\ miss' = 1..Len(sl)
     /\ cur' = <<1, CellOf(sl[1].s, unit), FALSE>>
  /\ pc' = "pres"
  /\ UNCHANGED <<step, start, end, unit, pres, pending, collected, ranges, arrival, q, delta, skew, cache, hist>>

StartWait == /\ pc' = "wait" /\ pending' = 1..Len(slices)

\* what the server holds (environment): any presence pattern in one step ...
ChoosePresence ==
  /\ pc = "pres" /\ PresMode = "subset"
  /\ pres' \in [Series -> SUBSET Cells]
  /\ StartWait
  /\ UNCHANGED <<step, start, end, unit, slices, cur, collected, ranges, arrival, q, delta, skew, cache, miss, hist>>

\* ... or run by run (simulation): alternating absent / present runs, lengths from RunLens
AddRun ==
  /\ pc = "pres" /\ PresMode = "runs"
  /\ LET f == cur[1]  c == cur[2] IN
     \E v \in (IF c = FirstCell THEN BOOLEAN ELSE {cur[3]}), len \in RunLens :
       LET upto == Min2(c + len - 1, LastCell) IN
       /\ pres' = IF v THEN [pres EXCEPT ![f] = @ \cup (c..upto)] ELSE pres
       /\ IF upto < LastCell THEN cur' = <<f, upto + 1, ~v>> /\ UNCHANGED <<pc, pending>>
          ELSE IF f < NSeries THEN cur' = <<f + 1, FirstCell, FALSE>> /\ UNCHANGED <<pc, pending>>
          ELSE cur' = cur /\ StartWait
  /\ UNCHANGED <<step, start, end, unit, slices, collected, ranges, arrival, q, delta, skew, cache, miss, hist>>

\* rangeQuery.CacheKey: uri, endpoint, expr, Start, End.Round(step), step - the first three and the
\* step are fixed within a session
CacheKey(sl, st) == <<sl.s, RoundTo(sl.e, st)>>
Cached(sl) == CacheKey(sl, step) \in DOMAIN cache
\* processJob: a cached answer is returned without asking the server; a fresh one is stored
Answer(sl) == IF Cached(sl) THEN cache[CacheKey(sl, step)] ELSE SliceResp(pres, sl, step, unit)

\* a slice result arrives on the results channel and the collection loop appends it
OrderOk(k) ==
  \/ OrderMode = "all"
  \/ OrderMode = "fwdrev" /\ \/ arrival = << >> /\ k \in {1, Len(slices)}
                             \/ arrival # << >> /\ arrival[1] = 1 /\ k = arrival[Len(arrival)] + 1
                             \/ arrival # << >> /\ arrival[1] # 1 /\ k = arrival[Len(arrival)] - 1
Respond(k) ==
  /\ pc = "wait" /\ k \in pending /\ OrderOk(k)
  /\ collected' = collected \o Answer(slices[k])
  /\ cache' = IF Cached(slices[k]) THEN cache ELSE (CacheKey(slices[k], step) :> Answer(slices[k])) @@ cache
  /\ pending' = pending \ {k}
  /\ arrival' = Append(arrival, k)
  /\ pc' = IF pending' = {} THEN "merge" ELSE "wait"
  /\ UNCHANGED <<step, start, end, unit, slices, pres, cur, ranges, q, delta, skew, miss, hist>>

Merge ==
  /\ pc = "merge"
  /\ ranges' = IF Len(collected) > 1 THEN MergeRanges(collected, step).rs ELSE collected
  /\ pc' = "sort"
  /\ UNCHANGED <<step, start, end, unit, slices, pres, cur, pending, collected, arrival, q, delta, skew, cache, miss, hist>>

Sort ==
  /\ pc = "sort"
  /\ ranges' = SortStable(ranges)
  /\ pc' = "done"
  /\ UNCHANGED <<step, start, end, unit, slices, pres, cur, pending, collected, arrival, q, delta, skew, cache, miss, hist>>

\* what is remembered of a finished query (history only)
QueryRec == [start |-> start, end |-> end, dur |-> end - start - skew, slices |-> slices, order |-> arrival, miss |-> miss]

\* the same question again, `delta` seconds later, through the same client (and its cache)
Requery ==
  /\ pc = "done" /\ q = 1 /\ delta >= 0
  /\ q' = 2
  /\ hist' = Append(hist, QueryRec)
  /\ start' = start + delta /\ end' = end + delta
  /\ slices' = QuerySlices(start', end', step, end' - start' - skew)
  /\ miss' = {i \in 1..Len(slices') : CacheKey(slices'[i], step) \notin DOMAIN cache}
  /\ pending' = 1..Len(slices') /\ collected' = << >> /\ ranges' = << >> /\ arrival' = << >>
  /\ pc' = "wait"
  /\ UNCHANGED <<step, unit, pres, cur, delta, skew, cache>>

Next == \/ PickStart \/ PickEnd \/ Slice \/ ChoosePresence \/ AddRun
        \/ (\E k \in pending : Respond(k)) \/ Merge \/ Sort \/ Requery
Spec == Init /\ [][Next]_vars

MCView == <<step, start, end, unit, pres, cur, pc, pending, collected, ranges, q, delta, skew, cache>>

-----
(* Properties                                                              *)

Origin == slices[1].s

\* C13: the sliced result is the unsliced one, whatever the arrival order
Inv_C13 ==
  pc = "done" => /\ SameAsUnsliced(ranges, pres, Origin, Origin, end, step, unit)
                 /\ GapIffAbsent(ranges, pres, Origin, Origin, end, step, unit)

\* the slices evaluate every point of ONE grid over [first slice start, end] exactly once,
\* and the window asked for is inside it
Inv_Grid ==
  pc = "pres" =>
  /\ Origin <= start
  /\ \A i \in 1..Len(slices) : slices[i].s <= slices[i].e
  /\ UNION {EvalTimes(slices[i], step) : i \in 1..Len(slices)} = GridIn(Origin, Origin, end, step)
  /\ \A i, j \in 1..Len(slices) : i # j => EvalTimes(slices[i], step) \cap EvalTimes(slices[j], step) = {}

\* result is sorted and ranges of one series neither touch nor overlap
Inv_Shape ==
  pc = "done" => \A i \in 1..(Len(ranges) - 1) :
                   \/ ranges[i].fp < ranges[i + 1].fp
                   \/ ranges[i].fp = ranges[i + 1].fp /\ ranges[i].e + 1 < ranges[i + 1].s

\* GEN: one case per finished session
Finished == pc = "done" /\ (delta < 0 \/ q = 2)
CaseOf == [step |-> step, unit |-> unit, size |-> SliceSize(step), pres |-> [f \in Series |-> pres[f]],
           queries |-> Append(hist, QueryRec)]
EmitCase == Finished => PrintT(<<"CASE", ToJson(CaseOf)>>)
=============================================================================
