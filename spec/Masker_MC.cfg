SPECIFICATION Spec
CONSTANTS
  MaxLen = 4
  TextOnCtl = FALSE
INVARIANTS Inv_FoldAgrees Inv_C10 Inv_Flags
CHECK_DEADLOCK FALSE
