SPECIFICATION Spec
INVARIANTS EmitCase
CHECK_DEADLOCK FALSE
