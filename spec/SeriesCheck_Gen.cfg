SPECIFICATION Spec
CONSTANTS
  Stratum = "all"
INVARIANTS EmitCase
CHECK_DEADLOCK FALSE
