SPECIFICATION TraceSpec
CONSTANTS
  MaxReports = 3
  GenOnly = TRUE
CHECK_DEADLOCK FALSE
