SPECIFICATION TraceSpec
CONSTANTS
  MaxRuns = 0
  MaxSeeds = 0
  Budgets = {0}
  Platforms = {"gitlab"}
  Strips = {FALSE}
  Shifts = {0, 1}
  Mods = {"all", "first"}
  Probs = {"P1", "P2", "P3", "P4", "P5", "P6", "P7"}
  Pads = {0}
  Padfs = {0}
  Showdups = {FALSE}
  FaultOps = {}
  FaultKs = {}
CHECK_DEADLOCK FALSE
