SPECIFICATION TraceSpec
CONSTANTS
  MinProms = 0
  MaxProms = 2
  Layouts = {0, 1, 2, 3, 4}
  PreIds = {0, 1, 2}
  Pairs = FALSE
  Hists = {"added"}
  Commands = {"lint", "ci"}
CHECK_DEADLOCK FALSE
