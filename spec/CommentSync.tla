----------------------------- MODULE CommentSync -----------------------------
(***************************************************************************)
(* Pull-request comment reconciliation of pint (property C17).             *)
(*                                                                         *)
(* Impl side : internal/reporter/comments.go                               *)
(*               dedupReports / makeComments  -> DedupReports, MakeComments*)
(*               Submit / updateDestination   -> StartRun (List),          *)
(*                   CreateStep (one iteration of the first loop, labels   *)
(*                   NEXTCreate), DeleteStep (one iteration of the second  *)
(*                   loop, NEXTDelete), Summary                            *)
(*             gitlab.go / github.go                                       *)
(*               IsEqual, CanCreate, CanDelete, fixCommentLine             *)
(* Environment: the platform (comment store): List / Create / Delete.      *)
(* Doc side  : predicates Covered, NoTwin, StaleGone, ForeignUntouched,    *)
(*             Idempotent, Converges over an *observation* of one run      *)
(*             (store before/after, creates, deletes); they never look at  *)
(*             the pending comments the implementation computed.           *)
(***************************************************************************)
EXTENDS Integers, Sequences, FiniteSets, TLC, Json

CONSTANTS MaxRuns,      \* runs per behaviour
          MaxSeeds,     \* comments present before the first run
          Budgets,      \* set of maxComments values
          Platforms,    \* subset of {"gitlab", "github"}
          Strips,       \* subset of BOOLEAN: platform strips trailing newlines of created bodies
          Shifts, Mods, \* variants of the report set: file F1 shifted by one line; which lines are modified
          Probs,        \* the problems that may be reported (subset of Problems)
          Pads,         \* numbers of old review comments of other people that precede everything else on the pull request
          Padfs,        \* numbers of other files of the pull request listed before the rule files
          Showdups,     \* subset of BOOLEAN: --show-duplicates
          FaultOps,     \* platform calls that may fail in a run: subset of {"list", "create", "delete", "summary"}
          FaultKs       \* ... the k-th such call of the run fails

-----------------------------------------------------------------------------
(* The universe of problems: 4 problems over 2 files. P1 and P2 come from   *)
(* the same check with the same severity on the same lines (one comment).  *)
(* P5 and P6 are two problems of one check with the same message whose line ranges start on the same line and end  *)
(* on different ones (alerts/template "use humanize filters": expression line .. annotation line); Summary.Dedup     *)
(* folds P6 into P5 as a duplicate, so they are reported separately only with --show-duplicates (cfg.showdup).       *)
(* P7 is a problem about a rule the pull request REMOVES (rule/dependency: another rule still uses its metric): its *)
(* lines 8-9 are lines of the old revision of F2, its comment is anchored "before" (on the removed line).             *)
Problems == {"P1", "P2", "P3", "P4", "P5", "P6", "P7"}
ProbOrder == <<"P1", "P2", "P3", "P5", "P6", "P4", "P7">>          \* order after Summary.SortReports
PFile(p)  == IF p \in {"P4", "P7"} THEN "F2" ELSE "F1"
PSev(p)   == CASE p = "P3" -> "Bug" [] p \in {"P5", "P6"} -> "Information" [] OTHER -> "Warning"
PRep(p)   == CASE p \in {"P3", "P5", "P6"} -> "alerts/template" [] p = "P7" -> "rule/dependency" [] OTHER -> "promql/regexp"
PFirst(p) == CASE p \in {"P1", "P2"} -> 6 [] p = "P3" -> 11 [] p \in {"P5", "P6"} -> 16 [] p = "P7" -> 8 [] OTHER -> 5
PLast(p)  == CASE p \in {"P1", "P2"} -> 8 [] p = "P3" -> 14 [] p = "P5" -> 18 [] p = "P6" -> 19 [] p = "P7" -> 9 [] OTHER -> 5
PAnchor(p) == IF p = "P7" THEN "before" ELSE "after"

Variants == [shift : Shifts, mod : Mods]
ShiftOf(f, v) == IF f = "F1" THEN v.shift ELSE 0
\* lines of file f touched by the pull request under variant v
Modified(f, v) ==
  IF f = "F2" THEN 4..11
  ELSE IF v.mod = "all" THEN (4 + v.shift)..(19 + v.shift) ELSE {6 + v.shift}
SetMax(S) == CHOOSE x \in S : \A y \in S : y <= x
SetMin(S) == CHOOSE x \in S : \A y \in S : x <= y

\* A report as far as dedupReports/makeComments read it.
Report(p, v) == [id |-> p, sev |-> PSev(p), rep |-> PRep(p), path |-> PFile(p),
                 first |-> PFirst(p) + ShiftOf(PFile(p), v), last |-> PLast(p) + ShiftOf(PFile(p), v),
                 anchor |-> PAnchor(p),
                 \* ModifiedLines of a removed rule are its lines in the old revision
                 mod |-> IF PAnchor(p) = "before" THEN PFirst(p)..PLast(p) ELSE Modified(PFile(p), v)]
Reports(R, v) == LET keep(p) == p \in R IN
                 [k \in 1..Len(SelectSeq(ProbOrder, keep)) |-> Report(SelectSeq(ProbOrder, keep)[k], v)]

-----------------------------------------------------------------------------
(* Impl: dedupReports + makeComments                                        *)
SameGroup(a, b) == /\ a.sev = b.sev /\ a.rep = b.rep /\ a.path = b.path
                   /\ a.first = b.first /\ a.last = b.last /\ a.anchor = b.anchor

\* index of the first group whose head has the same key, 0 if none
GroupIndex(dst, r) ==
  LET hits == {k \in 1..Len(dst) : SameGroup(dst[k][1], r)} IN IF hits = {} THEN 0 ELSE SetMin(hits)

RECURSIVE DedupFrom(_, _, _)
DedupFrom(src, k, dst) ==
  IF k > Len(src) THEN dst
  ELSE LET r == src[k]
           idx == GroupIndex(dst, r) IN
       IF idx = 0 THEN DedupFrom(src, k + 1, Append(dst, <<r>>))
       ELSE DedupFrom(src, k + 1, [dst EXCEPT ![idx] = Append(@, r)])
DedupReports(src) == DedupFrom(src, 1, <<>>)

\* text of a comment, abstractly: which group, which problems are spelled out, which revision of the
\* file the quoted snippet shows (a shifted file quotes other line numbers)
Text(grp, v) == [g |-> grp[1].rep \o "@" \o grp[1].path \o ":" \o ToString(PFirst(grp[1].id)),
                 m |-> {grp[k].id : k \in 1..Len(grp)}, s |-> ShiftOf(grp[1].path, v)]
StaleText == [g |-> "stale", m |-> {}, s |-> 0]

\* the line rule of makeComments: last modified line of the problem's range, else its last line
PendingLine(r) == LET m == r.mod \cap (r.first..r.last) IN IF m = {} THEN r.last ELSE SetMax(m)

MakeComments(R, v) ==
  LET groups == DedupReports(Reports(R, v)) IN
  [k \in 1..Len(groups) |-> [path |-> groups[k][1].path, line |-> PendingLine(groups[k][1]), text |-> Text(groups[k], v),
                              anchor |-> groups[k][1].anchor]]

-----------------------------------------------------------------------------
(* Impl: platform hooks                                                     *)
\* github.go fixCommentLine. AnchorAfter: a line outside the diff moves to the first modified line. AnchorBefore: the
\* old-side line number is looked up among the NEW line numbers of the patch (diffLineFor); when that new line was
\* modified the comment goes to its old-side counterpart (GhBeforeLine, a function of the patch), else to the first
\* modified line. GitLab (gitlab.go reportToGitLabDiscussion, after fix F20): the old-side line itself.
GhBeforeLine == 6         \* old-side counterpart of new line 9 of F2 in the patch of the pull request (see exec_c17.go)
FixLine(plat, p, v) ==
  IF p.anchor = "before" THEN (IF plat = "github" THEN GhBeforeLine ELSE p.line)
  ELSE IF plat = "github" /\ p.line \notin Modified(p.path, v) /\ Modified(p.path, v) # {}
  THEN SetMin(Modified(p.path, v)) ELSE p.line
\* IsEqual of both platforms: path, (fixed) line, text modulo leading/trailing newlines
IsEqual(plat, v, e, p) == /\ e.path = p.path
                          /\ e.line = FixLine(plat, p, v)
                          /\ e.text = p.text                  \* strings.Trim(.., "\n") : field nl is ignored
CanCreate(max, done) == done < max
CanDelete(plat) == plat \in {"gitlab", "bitbucket"}

\* Environment: what the platform stores for a created comment / returns from List
Created(plat, strip, v, p) == [path |-> p.path, line |-> FixLine(plat, p, v), text |-> p.text,
                               nl |-> IF strip THEN 0 ELSE 1, mine |-> TRUE]
\* positions of the store List() returns: GitLab filters on the author, GitHub returns every review comment
Listed(plat, st) == LET ok(k) == plat = "github" \/ st[k].mine IN
                    SelectSeq([k \in 1..Len(st) |-> k], ok)

\* decisions of one iteration of the two loops of updateDestination
CreateDecision(plat, v, max, listed, p, created) ==
  IF \E k \in 1..Len(listed) : IsEqual(plat, v, listed[k], p) THEN "skip"        \* goto NEXTCreate
  ELSE IF ~CanCreate(max, created) THEN "refuse"                                 \* goto NEXTCreate
  ELSE "create"
DeleteDecision(plat, v, e, pend) ==
  IF \E k \in 1..Len(pend) : IsEqual(plat, v, e, pend[k]) THEN "keep"            \* goto NEXTDelete
  ELSE IF ~CanDelete(plat) THEN "nodelete"                                       \* goto NEXTDelete
  ELSE "delete"

RemoveAt(s, k) == [n \in 1..(Len(s) - 1) |-> IF n < k THEN s[n] ELSE s[n + 1]]
RECURSIVE RemoveAll(_, _, _)
\* remove the positions in D (counted in the original sequence) from s
RemoveAll(s, D, k) == IF k = 0 THEN s ELSE RemoveAll(IF k \in D THEN RemoveAt(s, k) ELSE s, D, k - 1)

-----------------------------------------------------------------------------
(* Fold of one whole run (used by trace validation; the state machine below *)
(* performs the same decisions one action at a time).                       *)
\* Failures of the platform (comments.go): List fails -> Submit returns the error, nothing happened; Create fails ->
\* `return err` at once (no further creation, no deletion, no summary); Delete fails -> the error is collected, the
\* loop goes on, Summary receives the collected errors; Summary fails -> Submit returns the error.
\* A fault [op, k] makes the k-th call of that kind in the run fail (if the run gets that far).
NoFault == [op |-> "none", k |-> 0]
Faults == {NoFault} \cup [op : FaultOps, k : FaultKs]
Call(op, a, b) == [op |-> op, a |-> a, b |-> b]          \* b = 2: the call failed
RECURSIVE CreateLoop(_, _, _, _, _, _, _)
\* acc = [created, calls, newc, aborted]
CreateLoop(c, v, ft, listed, pend, k, acc) ==
  IF k > Len(pend) \/ acc.aborted THEN acc
  ELSE LET d == CreateDecision(c.plat, v, c.max, listed, pend[k], acc.created) IN
       CreateLoop(c, v, ft, listed, pend, k + 1,
         CASE d = "skip"   -> acc
           [] d = "refuse" -> [acc EXCEPT !.calls = Append(@, Call("cancreate", acc.created, 0))]
           [] OTHER        ->
              IF ft.op = "create" /\ ft.k = acc.created + 1
              THEN [acc EXCEPT !.calls = @ \o <<Call("cancreate", acc.created, 1), Call("create", k, 2)>>, !.aborted = TRUE]
              ELSE [created |-> acc.created + 1, aborted |-> FALSE,
                    calls |-> acc.calls \o <<Call("cancreate", acc.created, 1), Call("create", k, 0)>>,
                    newc |-> Append(acc.newc, Created(c.plat, c.strip, v, pend[k]))])
RECURSIVE DeleteLoop(_, _, _, _, _, _, _, _)
\* acc = [calls, deleted, ncalls, nerrs]
DeleteLoop(c, v, ft, st, listedPos, pend, k, acc) ==
  IF k > Len(listedPos) THEN acc
  ELSE LET d == DeleteDecision(c.plat, v, st[listedPos[k]], pend) IN
       DeleteLoop(c, v, ft, st, listedPos, pend, k + 1,
         CASE d = "keep"     -> acc
           [] d = "nodelete" -> [acc EXCEPT !.calls = Append(@, Call("candelete", listedPos[k], 0))]
           [] OTHER          ->
              IF ft.op = "delete" /\ ft.k = acc.ncalls + 1
              THEN [acc EXCEPT !.calls = @ \o <<Call("candelete", listedPos[k], 1), Call("delete", listedPos[k], 2)>>,
                               !.ncalls = @ + 1, !.nerrs = @ + 1]
              ELSE [acc EXCEPT !.calls = @ \o <<Call("candelete", listedPos[k], 1), Call("delete", listedPos[k], 0)>>,
                               !.ncalls = @ + 1, !.deleted = @ \cup {listedPos[k]}])
RunFold(c, st, pend, v, ft) ==
  IF ft.op = "list"
  THEN [listed |-> <<>>, creates |-> <<>>, deleted |-> {}, calls |-> <<Call("list", 0, 2)>>, after |-> st,
        err |-> TRUE, nerrs |-> 0, hit |-> TRUE]
  ELSE
  LET lp == Listed(c.plat, st)
      listed == [k \in 1..Len(lp) |-> st[lp[k]]]
      cr == CreateLoop(c, v, ft, listed, pend, 1, [created |-> 0, calls |-> <<>>, newc |-> <<>>, aborted |-> FALSE])
      dl == IF cr.aborted THEN [calls |-> <<>>, deleted |-> {}, ncalls |-> 0, nerrs |-> 0]
            ELSE DeleteLoop(c, v, ft, st, lp, pend, 1, [calls |-> <<>>, deleted |-> {}, ncalls |-> 0, nerrs |-> 0])
      sm == IF cr.aborted THEN <<>> ELSE <<Call("summary", dl.nerrs, IF ft.op = "summary" THEN 2 ELSE 0)>> IN
  [listed |-> lp, creates |-> cr.newc, deleted |-> dl.deleted,
   calls |-> cr.calls \o dl.calls \o sm,
   after |-> RemoveAll(st, dl.deleted, Len(st)) \o cr.newc,
   err |-> (cr.aborted \/ ft.op = "summary"), nerrs |-> dl.nerrs,
   hit |-> (cr.aborted \/ dl.nerrs > 0 \/ ft.op = "summary")]

-----------------------------------------------------------------------------
(* BitBucket (internal/reporter/bitbucket.go Submit, pull request branch; bitbucket_api.go).                       *)
(* A different reconciliation: the pending comments are cut to the first maxComments (limitComments, plus one     *)
(* general notice), THEN every own open comment that equals none of them is deleted (pruneComments), THEN every   *)
(* pending comment that equals no listed comment is posted (addComments). The budget is per pull request, not per *)
(* run. Comments sit on the LAST line of the problem; the anchor's line type (ADDED / CONTEXT / REMOVED) is part  *)
(* of the equality and is folded into the line here: +1000 for CONTEXT, +2000 for REMOVED.                        *)
BBLine(r) == IF r.anchor = "before" THEN r.last + 2000 ELSE IF r.last \in r.mod THEN r.last ELSE r.last + 1000
NoticeText(n, max) == [g |-> "too-many", m |-> {}, s |-> n * 100 + max]
BBMakeComments(R, v) ==
  LET groups == DedupReports(Reports(R, v)) IN
  [k \in 1..Len(groups) |-> [path |-> groups[k][1].path, line |-> BBLine(groups[k][1]), text |-> Text(groups[k], v),
                              anchor |-> groups[k][1].anchor]]
BBLimit(pend, max, ntext) ==
  IF Len(pend) <= max THEN pend
  ELSE SubSeq(pend, 1, max) \o <<[path |-> "", line |-> 0, text |-> ntext, anchor |-> "general"]>>
BBEqual(e, p) == e.path = p.path /\ e.line = p.line /\ e.text = p.text        \* cur.anchor.isEqual(pend.Anchor) && cur.text == pend.Text
BBFold(c, st, pend0, ntext) ==
  LET pend == BBLimit(pend0, c.max, ntext)
      lp == Listed("gitlab", st)                                              \* getPullRequestComments: own open comments
      del == {n \in 1..Len(lp) : ~\E k \in 1..Len(pend) : BBEqual(st[lp[n]], pend[k])}
      add == {k \in 1..Len(pend) : ~\E n \in 1..Len(lp) : BBEqual(st[lp[n]], pend[k])}
      lpDel == SelectSeq(lp, LAMBDA x : \E n \in del : lp[n] = x)
      addSeq == SelectSeq([k \in 1..Len(pend) |-> k], LAMBDA k : k \in add)
      newc == [n \in 1..Len(addSeq) |-> [path |-> pend[addSeq[n]].path, line |-> pend[addSeq[n]].line, text |-> pend[addSeq[n]].text,
                                         nl |-> IF pend[addSeq[n]].path = "" THEN 0 ELSE 1, mine |-> TRUE]] IN
  [listed |-> lp, creates |-> newc, deleted |-> {lp[n] : n \in del},
   calls |-> [n \in 1..Len(lpDel) |-> Call("delete", lpDel[n], 0)] \o [n \in 1..Len(addSeq) |-> Call("create", addSeq[n], 0)],
   after |-> RemoveAll(st, {lp[n] : n \in del}, Len(st)) \o newc,
   err |-> FALSE, nerrs |-> 0, hit |-> FALSE, pending |-> pend]
PendingOf(c, R, v) == IF c.plat = "bitbucket" THEN BBMakeComments(R, v) ELSE MakeComments(R, v)
FoldOf(c, st, R, v, ft) == IF c.plat = "bitbucket" THEN BBFold(c, st, BBMakeComments(R, v), NoticeText(Len(BBMakeComments(R, v)), c.max)) ELSE RunFold(c, st, MakeComments(R, v), v, ft)

-----------------------------------------------------------------------------
(* Doc side. An observation of one finished run:                            *)
(*   plat, max, reports (set of problem ids), var, before, after (sequences *)
(*   of comments), creates (sequence of comments), deleted (positions of    *)
(*   `before`), prevSame (previous run had the same reports and variant),   *)
(*   prevCreates (number of comments it created, -1 if none), streak        *)
(*   (number of consecutive runs, this one included, with these reports).   *)
(* A comment carries problem P when its text spells P out: P \in text.m.    *)
RangeSeq(s) == {s[k] : k \in 1..Len(s)}
DocShift(p, v) == ShiftOf(PFile(p), v)
\* "at its file and line": the line pint comments a problem on is the last line of its range that the pull request
\* modified, else the last line of the range; GitHub only accepts modified lines, a problem without one is shown on
\* the first modified line of the file (written here from the documentation/changelog, not from makeComments)
ClassOf(p) == <<PRep(p), PSev(p), PFile(p), PFirst(p), PLast(p), PAnchor(p)>>
DocLine(plat, K, v) ==
  LET f == K[3]
      lo == K[4] + ShiftOf(f, v)
      hi == K[5] + ShiftOf(f, v)
      m == Modified(f, v) \cap (lo..hi)
      ln == IF m = {} THEN hi ELSE SetMax(m) IN
  IF plat = "github" /\ ln \notin Modified(f, v) /\ Modified(f, v) # {} THEN SetMin(Modified(f, v)) ELSE ln
\* for a problem on a removed rule the documentation does not say which side/line of the diff carries the comment
\* BitBucket comments go on the last line of the problem (modified or not)
AtItsLine(plat, p, v, c) ==
  /\ c.path = PFile(p)
  /\ \/ PAnchor(p) = "before"
     \/ IF plat = "bitbucket" THEN c.line % 1000 = PLast(p) + DocShift(p, v) ELSE c.line = DocLine(plat, ClassOf(p), v)
CoversProblem(plat, p, v, c) == AtItsLine(plat, p, v, c) /\ p \in c.text.m
SameComment(a, b) == a.path = b.path /\ a.line = b.line /\ a.text = b.text
\* problems of one check on the same lines share a comment
Classes(R) == {ClassOf(p) : p \in R}
CeilDiv(a, b) == (a + b - 1) \div b

\* o.hit: a call to the platform failed during the run; o.err: the run ended with an error; o.nerrs: number of
\* errors handed to the summary. A run in which nothing failed is clean; only clean runs owe full reconciliation.
Clean(o) == ~o.hit
Covered(o) ==
  /\ Len(o.creates) <= o.max
  /\ Clean(o) => \A p \in o.reports : \/ \E k \in 1..Len(o.after) : CoversProblem(o.plat, p, o.var, o.after[k])
                          \/ Len(o.creates) = o.max                  \* the rest waits for a later run
\* "one that already existed and was recognised": a problem class whose comment existed before the run (on its
\* file, on the line pint comments on, spelling out exactly the reported problems of the class, visible to pint)
\* is not waiting for the budget - it is still covered afterwards.
ClassMembers(R, K) == {p \in R : ClassOf(p) = K}
ExactCover(plat, R, K, v, c) == c.path = K[3] /\ (K[6] = "before" \/ c.line = DocLine(plat, K, v)) /\ c.text.m = ClassMembers(R, K)
Recognisable(plat, c) == plat = "github" \/ c.mine
KeepsCovered(o) ==
  \A K \in Classes(o.reports) :
    (\E n \in 1..Len(o.before) : Recognisable(o.plat, o.before[n]) /\ ExactCover(o.plat, o.reports, K, o.var, o.before[n]))
      => \E k \in 1..Len(o.after) : ExactCover(o.plat, o.reports, K, o.var, o.after[k])
NoTwin(o) ==
  \A k \in 1..Len(o.creates) : ~\E n \in 1..Len(o.before) : o.before[n].mine /\ SameComment(o.before[n], o.creates[k])
Corresponds(o, c) == \E p \in o.reports : CoversProblem(o.plat, p, o.var, c)
StaleGone(o) ==
  \A n \in 1..Len(o.before) :
     \* (a comment without a path is BitBucket's notice about skipped comments, not a comment on a problem)
     (Clean(o) /\ o.before[n].mine /\ o.before[n].path # "" /\ CanDelete(o.plat) /\ ~Corresponds(o, o.before[n])) => n \in o.deleted
ForeignUntouched(o) == \A n \in 1..Len(o.before) : ~o.before[n].mine => n \notin o.deleted
\* budget not exhausted by the previous identical run => nothing was waiting => nothing to do now
Idempotent(o) ==
  (Clean(o) /\ o.prevSame /\ o.prevCreates >= 0 /\ o.prevCreates < o.max) => (o.creates = <<>> /\ o.deleted = {})
Converges(o) ==
  (Clean(o) /\ o.max >= 1 /\ o.streak >= CeilDiv(Cardinality(Classes(o.reports)), o.max)) =>
     \A p \in o.reports : \E k \in 1..Len(o.after) : CoversProblem(o.plat, p, o.var, o.after[k])
\* what is deleted was listed, what is new is what was created
\* (a failed creation is not among o.creates, a failed deletion not in o.deleted: the store must agree)
Accounting(o) == o.after = RemoveAll(o.before, o.deleted, Len(o.before)) \o o.creates
\* a failure never goes unnoticed: the run fails, or the errors reach the summary comment
ErrReported(o) == o.hit => (o.err \/ o.nerrs > 0)

\* BitBucket: "the maximum number of comments pint can create on a single pull request": of K classes at least
\* min(K, max) are covered, pint never keeps more than max distinct comments of its own (plus the notice about skipped ones),
\* and repeating a run changes nothing
BBCovered(o) ==
  LET covered == {K \in Classes(o.reports) : \E p \in ClassMembers(o.reports, K) : \E k \in 1..Len(o.after) : CoversProblem(o.plat, p, o.var, o.after[k])}
      \* distinct own comments on problems (twins that were already there stay: each equals a pending comment)
      own == {[path |-> o.after[k].path, line |-> o.after[k].line, text |-> o.after[k].text] :
                k \in {n \in 1..Len(o.after) : o.after[n].mine /\ o.after[n].path # ""}} IN
  /\ Cardinality(covered) >= (IF Cardinality(Classes(o.reports)) < o.max THEN Cardinality(Classes(o.reports)) ELSE o.max)
  /\ Cardinality(own) <= o.max
BBIdempotent(o) == (o.prevSame /\ o.prevCreates >= 0) => (o.creates = <<>> /\ o.deleted = {})
BBDocFails(o) == {n \in {"Covered", "NoTwin", "StaleGone", "ForeignUntouched", "Idempotent", "Accounting"} :
   CASE n = "Covered" -> ~BBCovered(o) [] n = "NoTwin" -> ~NoTwin(o) [] n = "StaleGone" -> ~StaleGone(o)
     [] n = "ForeignUntouched" -> ~ForeignUntouched(o) [] n = "Idempotent" -> ~BBIdempotent(o) [] OTHER -> ~Accounting(o)}

DocFails(o) == {n \in {"Covered", "KeepsCovered", "NoTwin", "StaleGone", "ForeignUntouched", "Idempotent", "Converges", "Accounting", "ErrReported"} :
   CASE n = "Covered" -> ~Covered(o) [] n = "KeepsCovered" -> ~KeepsCovered(o) [] n = "NoTwin" -> ~NoTwin(o) [] n = "StaleGone" -> ~StaleGone(o)
     [] n = "ForeignUntouched" -> ~ForeignUntouched(o) [] n = "Idempotent" -> ~Idempotent(o)
     [] n = "Converges" -> ~Converges(o) [] n = "ErrReported" -> ~ErrReported(o) [] OTHER -> ~Accounting(o)}
DocFailsAll(o) == IF o.plat = "bitbucket" THEN BBDocFails(o) ELSE DocFails(o)

-----------------------------------------------------------------------------
(* State machine                                                            *)
VARIABLES cfg,       \* [plat, max, strip, pad, padf, showdup]: fixed per behaviour
          store,     \* the platform's comments, in creation order
          pc,        \* "seed" | "idle" | "create" | "delete" | "summary" | "aborted" | "done"
          runs,      \* finished runs
          inp,       \* [reports, var, fault] of the current run
          before,    \* store when List() was answered
          existing,  \* positions of `before` returned by List()
          pending,   \* makeComments(...)
          i, j, created, newc, deleted,
          prevInp, prevCreates, streak,   \* what the Doc side may remember of earlier runs
          lastSeed,  \* seeding is done in a fixed order of candidates (stores are bags)
          hist       \* GEN only: the run inputs so far
vars == <<cfg, store, pc, runs, inp, before, existing, pending, i, j, created, newc, deleted,
          prevInp, prevCreates, streak, lastSeed, hist>>
view == <<cfg, store, pc, runs, inp, before, existing, pending, i, j, created, newc, deleted,
          prevInp, prevCreates, streak, lastSeed>>

NoInp == [reports |-> {}, var |-> [shift |-> 0 - 1, mod |-> "none"], fault |-> NoFault]
SameResults(a, b) == a.reports = b.reports /\ a.var = b.var

\* Comments that may exist before the first run: every comment some run could have left behind (matching
\* now or stale later), comments nobody will ever match, and comments of other users (identical to one
\* of ours, or unrelated).
OwnCands(plat) ==
  IF plat = "bitbucket"
  THEN UNION {{[path |-> c.path, line |-> c.line, text |-> c.text, nl |-> 1, mine |-> TRUE] :
                 c \in RangeSeq(BBMakeComments(R, v))} : <<R, v>> \in (SUBSET (Probs \ {"P7"})) \X Variants}
  ELSE
  UNION {{[path |-> c.path, line |-> FixLine(plat, c, v), text |-> c.text, nl |-> 1, mine |-> TRUE] :
            c \in RangeSeq(MakeComments(R, v))} : <<R, v>> \in (SUBSET Probs) \X Variants}
SeedCands(plat) ==
  OwnCands(plat)
  \cup {[path |-> "F1", line |-> 8, text |-> StaleText, nl |-> 1, mine |-> TRUE],
        [path |-> "F2", line |-> 5, text |-> StaleText, nl |-> 1, mine |-> TRUE],
        [path |-> "F1", line |-> 8, text |-> StaleText, nl |-> 1, mine |-> FALSE]}
  \cup {[c EXCEPT !.mine = FALSE] : c \in {x \in OwnCands(plat) : x.path = "F2"}}
  \* (BitBucket compares bodies exactly and is assumed to store them as posted: no seeds with an extra newline there)
  \cup (IF plat = "bitbucket" THEN {} ELSE {[c EXCEPT !.nl = 2] : c \in {x \in OwnCands(plat) : x.path = "F2"}})
\* a fixed enumeration of the candidates
RECURSIVE SetToSeqC(_)
SetToSeqC(S) == IF S = {} THEN <<>> ELSE LET x == CHOOSE y \in S : TRUE IN <<x>> \o SetToSeqC(S \ {x})
CandGL == SetToSeqC(SeedCands("gitlab"))          \* constant-level: evaluated once
CandGH == SetToSeqC(SeedCands("github"))
CandBB == SetToSeqC(SeedCands("bitbucket"))
CandSeq(plat) == IF plat = "gitlab" THEN CandGL ELSE IF plat = "github" THEN CandGH ELSE CandBB

\* cfg.pad: unrelated comments of other users, older than everything else (so a platform that pages its listing
\* returns them first). They equal no pending comment and pint may not delete them, so they take no part in the
\* reconciliation; the real reporters have to page through them (GitLab 20, GitHub 30 per page).
\* cfg.padf: likewise other changed files listed before the rule files in the pull request's file list.
\* BitBucket vocabulary: without the removed-rule problem (bitBucketAPI.makeComments has its own copy of the text code)
\* and without platform failures (deleteComment only logs them)
ProbsOf(c) == (IF c.showdup THEN Probs ELSE Probs \ {"P5", "P6"}) \ (IF c.plat = "bitbucket" THEN {"P7"} ELSE {})
FaultsOf(c) == IF c.plat = "bitbucket" THEN {NoFault} ELSE Faults
Init == /\ cfg \in [plat : Platforms, max : Budgets, strip : Strips, pad : Pads, padf : Padfs, showdup : Showdups]
        /\ store = <<>> /\ pc = "seed" /\ runs = 0 /\ inp = NoInp
        /\ before = <<>> /\ existing = <<>> /\ pending = <<>>
        /\ i = 0 /\ j = 0 /\ created = 0 /\ newc = <<>> /\ deleted = {}
        /\ prevInp = NoInp /\ prevCreates = 0 - 1 /\ streak = 0 /\ lastSeed = 1
        /\ hist = [seeds |-> <<>>, runs |-> <<>>]

Seed(k) ==
  /\ pc = "seed" /\ Len(store) < MaxSeeds /\ k >= lastSeed
  /\ store' = Append(store, CandSeq(cfg.plat)[k]) /\ lastSeed' = k
  /\ UNCHANGED <<cfg, pc, runs, inp, before, existing, pending, i, j, created, newc, deleted,
                 prevInp, prevCreates, streak, hist>>

\* Submit -> updateDestination: List(), makeComments()
StartRun(R, v, ft) ==
  /\ pc \in {"seed", "idle"} /\ runs < MaxRuns
  /\ inp' = [reports |-> R, var |-> v, fault |-> ft]
  /\ before' = store
  /\ IF ft.op = "list"
     THEN existing' = <<>> /\ pending' = <<>> /\ pc' = "aborted"          \* `return err` right after c.List()
     ELSE existing' = Listed(cfg.plat, store) /\ pending' = MakeComments(R, v) /\ pc' = "create"
  /\ i' = 1 /\ j' = 1 /\ created' = 0 /\ newc' = <<>> /\ deleted' = {}
  /\ hist' = [seeds |-> IF pc = "seed" THEN store ELSE hist.seeds,
              runs |-> Append(hist.runs, [reports |-> R, var |-> v, fault |-> ft])]
  /\ UNCHANGED <<cfg, store, runs, prevInp, prevCreates, streak, lastSeed>>

ListedComments == [k \in 1..Len(existing) |-> before[existing[k]]]

\* one iteration of `for _, pending := range pendingComments`
CreateStep ==
  /\ pc = "create"
  /\ IF i > Len(pending) THEN pc' = "delete" /\ UNCHANGED <<i, created, newc, store>>
     ELSE LET d == CreateDecision(cfg.plat, inp.var, cfg.max, ListedComments, pending[i], created) IN
          IF d = "create" /\ inp.fault.op = "create" /\ inp.fault.k = created + 1
          THEN pc' = "aborted" /\ UNCHANGED <<i, created, newc, store>>     \* c.Create failed: return err
          ELSE /\ i' = i + 1 /\ pc' = pc
               /\ IF d = "create"
                  THEN LET c == Created(cfg.plat, cfg.strip, inp.var, pending[i]) IN
                       /\ created' = created + 1 /\ newc' = Append(newc, c) /\ store' = Append(store, c)
                  ELSE UNCHANGED <<created, newc, store>>
  /\ UNCHANGED <<cfg, runs, inp, before, existing, pending, j, deleted, prevInp, prevCreates, streak, lastSeed, hist>>

\* Delete calls made by the iterations before the n-th one / errors collected so far
DelCallsBefore(n) == Cardinality({m \in 1..(n - 1) : DeleteDecision(cfg.plat, inp.var, before[existing[m]], pending) = "delete"})
ErrsSoFar(n) == DelCallsBefore(n) - Cardinality(deleted)

\* one iteration of `for _, existing := range existingComments`
DeleteStep ==
  /\ pc = "delete"
  /\ IF j > Len(existing) THEN pc' = "summary" /\ UNCHANGED <<j, deleted, store>>
     ELSE LET d == DeleteDecision(cfg.plat, inp.var, before[existing[j]], pending) IN
          /\ j' = j + 1 /\ pc' = pc
          /\ IF d = "delete" /\ ~(inp.fault.op = "delete" /\ inp.fault.k = DelCallsBefore(j) + 1)
             THEN /\ deleted' = deleted \cup {existing[j]}
                  \* position in the current store = original position minus earlier deletions
                  /\ store' = RemoveAt(store, existing[j] - Cardinality({x \in deleted : x < existing[j]}))
             ELSE UNCHANGED <<deleted, store>>          \* kept, or c.Delete failed: errs = append(errs, err)
  /\ UNCHANGED <<cfg, runs, inp, before, existing, pending, i, created, newc, prevInp, prevCreates, streak, lastSeed, hist>>

\* the observation of the run that is about to end (state pc = "summary" or "aborted")
ObsErrs == IF pc = "summary" THEN ErrsSoFar(Len(existing) + 1) ELSE 0
ObsHit == pc = "aborted" \/ ObsErrs > 0 \/ inp.fault.op = "summary"
Obs == [plat |-> cfg.plat, max |-> cfg.max, reports |-> inp.reports, var |-> inp.var,
        before |-> before, after |-> store, creates |-> newc, deleted |-> deleted,
        hit |-> ObsHit, err |-> (pc = "aborted" \/ inp.fault.op = "summary"), nerrs |-> ObsErrs,
        prevSame |-> SameResults(prevInp, inp), prevCreates |-> prevCreates,
        streak |-> IF ObsHit THEN 0 ELSE IF SameResults(prevInp, inp) THEN streak + 1 ELSE 1]

\* c.Summary(ctx, dst, s, errs) - or the early return of a failed run
Summary ==
  /\ pc \in {"summary", "aborted"}
  /\ pc' = "idle" /\ runs' = runs + 1
  /\ prevInp' = inp /\ prevCreates' = (IF ObsHit THEN 0 - 1 ELSE Len(newc)) /\ streak' = Obs.streak
  \* forget the per-run scratch so that equal stores are equal states
  /\ inp' = NoInp /\ before' = <<>> /\ existing' = <<>> /\ pending' = <<>>
  /\ i' = 0 /\ j' = 0 /\ created' = 0 /\ newc' = <<>> /\ deleted' = {}
  /\ UNCHANGED <<cfg, store, lastSeed, hist>>

Next == \/ pc = "seed" /\ \E k \in 1..Len(CandSeq(cfg.plat)) : Seed(k)
        \/ \E R \in SUBSET ProbsOf(cfg), v \in Variants, ft \in FaultsOf(cfg) : StartRun(R, v, ft)
        \/ CreateStep \/ DeleteStep \/ Summary
Spec == Init /\ [][Next]_vars

-----------------------------------------------------------------------------
(* The same machine with one action per run (RunFold; Inv_FoldAgrees shows  *)
(* on the stepwise machine that both compute the same). Used for the larger *)
(* bounds; the Doc side is an action property here.                         *)
RunAtomic(R, v, ft) ==
  /\ pc \in {"seed", "idle"} /\ runs < MaxRuns
  /\ LET in == [reports |-> R, var |-> v, fault |-> ft]
         f == FoldOf(cfg, store, R, v, ft) IN
     /\ store' = f.after
     /\ prevInp' = in /\ prevCreates' = (IF f.hit THEN 0 - 1 ELSE Len(f.creates))
     /\ streak' = IF f.hit THEN 0 ELSE IF SameResults(prevInp, in) THEN streak + 1 ELSE 1
     /\ hist' = [seeds |-> IF pc = "seed" THEN store ELSE hist.seeds, runs |-> Append(hist.runs, in)]
  /\ pc' = "idle" /\ runs' = runs + 1
  /\ UNCHANGED <<cfg, inp, before, existing, pending, i, j, created, newc, deleted, lastSeed>>

MacroNext == \/ pc = "seed" /\ \E k \in 1..Len(CandSeq(cfg.plat)) : Seed(k)
             \/ \E R \in SUBSET ProbsOf(cfg), v \in Variants, ft \in FaultsOf(cfg) : RunAtomic(R, v, ft)
MacroSpec == Init /\ [][MacroNext]_vars
\* GEN (simulation): a case is the configuration, the seeded comments and the run inputs; what the runs do
\* is computed by JUDGE (RunFold) when the recorded behaviour is validated, so it is not computed here.
\* TLC picks uniformly among the top-level disjuncts that are enabled, then among successors.
GenRun(R, v, ft) ==
  /\ pc \in {"seed", "idle"} /\ runs < MaxRuns
  /\ hist' = [seeds |-> IF pc = "seed" THEN store ELSE hist.seeds,
              runs |-> Append(hist.runs, [reports |-> R, var |-> v, fault |-> ft])]
  /\ pc' = "idle" /\ runs' = runs + 1
  /\ UNCHANGED <<cfg, store, inp, before, existing, pending, i, j, created, newc, deleted,
                 prevInp, prevCreates, streak, lastSeed>>
LastRun == hist.runs[Len(hist.runs)]
GenNext == \/ pc = "seed" /\ \E k \in 1..Len(CandSeq(cfg.plat)) : Seed(k)
           \/ runs < MaxRuns /\ \E R \in SUBSET ProbsOf(cfg), v \in Variants : GenRun(R, v, NoFault)
           \/ /\ runs >= 1 /\ runs < MaxRuns                        \* the same results again (a re-run of the CI job)
              /\ GenRun(LastRun.reports, LastRun.var, NoFault)
           \/ /\ runs >= 1 /\ runs < MaxRuns /\ FaultsOf(cfg) # {NoFault}    \* ... during which the platform fails once
              /\ \E ft \in FaultsOf(cfg) \ {NoFault} : GenRun(LastRun.reports, LastRun.var, ft)
           \/ /\ pc = "idle" /\ runs = MaxRuns /\ pc' = "done"     \* Finish: a single successor, so one CASE per trace
              /\ UNCHANGED <<cfg, store, runs, inp, before, existing, pending, i, j, created, newc, deleted,
                             prevInp, prevCreates, streak, lastSeed, hist>>
GenSpec == Init /\ [][GenNext]_vars

\* observation of the run a RunAtomic step performed
ObsStep ==
  LET in == prevInp'
      f == FoldOf(cfg, store, in.reports, in.var, in.fault) IN
  [plat |-> cfg.plat, max |-> cfg.max, reports |-> in.reports, var |-> in.var,
   before |-> store, after |-> store', creates |-> f.creates, deleted |-> f.deleted,
   hit |-> f.hit, err |-> f.err, nerrs |-> f.nerrs,
   prevSame |-> SameResults(prevInp, in), prevCreates |-> prevCreates, streak |-> streak']
StepOK == (runs' = runs + 1) =>
  LET bad == DocFailsAll(ObsStep) IN IF bad = {} THEN TRUE ELSE PrintT(<<"LEAD", ToJson(bad)>>) /\ FALSE
Prop_C17 == [][StepOK]_vars

-----------------------------------------------------------------------------
(* Properties (checked when a run is complete)                              *)
AtEnd == pc \in {"summary", "aborted"}
Inv_Covered    == AtEnd => Covered(Obs)
Inv_KeepsCovered == AtEnd => KeepsCovered(Obs)
Inv_NoTwin     == AtEnd => NoTwin(Obs)
Inv_StaleGone  == AtEnd => StaleGone(Obs)
Inv_Foreign    == AtEnd => ForeignUntouched(Obs)
Inv_Idempotent == AtEnd => Idempotent(Obs)
Inv_Converges  == AtEnd => Converges(Obs)
Inv_Accounting == AtEnd => Accounting(Obs)
Inv_ErrReported == AtEnd => ErrReported(Obs)
\* the stepwise machine and the fold agree
Inv_FoldAgrees == AtEnd =>
  LET f == RunFold(cfg, before, pending, inp.var, inp.fault) IN
  /\ f.after = store /\ f.creates = newc /\ f.deleted = deleted /\ f.listed = existing
  /\ f.hit = Obs.hit /\ f.err = Obs.err /\ f.nerrs = Obs.nerrs

\* vacuity guards (checked to be *violated* in a separate configuration)
Never_IdempotentFires == ~(AtEnd /\ Obs.prevSame /\ Obs.prevCreates >= 0 /\ Obs.prevCreates < Obs.max /\ Len(pending) > 0)
Never_ConvergesLate   == ~(AtEnd /\ Obs.max = 1 /\ Obs.streak = 3 /\ Cardinality(Classes(Obs.reports)) = 3)
Never_DeleteFails     == ~(AtEnd /\ Obs.nerrs > 0)
Never_CreateFails     == ~(pc = "aborted" /\ inp.fault.op = "create")

\* GEN: one case per finished behaviour
EmitCase == (pc = "done") =>
  PrintT(<<"CASE", ToJson([plat |-> cfg.plat, max |-> cfg.max, strip |-> cfg.strip, pad |-> cfg.pad, padf |-> cfg.padf, showdup |-> cfg.showdup,
                           seeds |-> hist.seeds, runs |-> hist.runs])>>)
=============================================================================
