SPECIFICATION Spec
CONSTANTS
  MaxLen = 3
  TextOnCtl = FALSE
INVARIANTS EmitCase
CHECK_DEADLOCK FALSE
