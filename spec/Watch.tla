-------------------------------- MODULE Watch --------------------------------
(***************************************************************************)
(* `pint watch glob` - the daemon around the lint pipeline of Exit.tla.    *)
(*                                                                         *)
(* Impl side : cmd/pint/watch.go                                           *)
(*    actionWatch      parse --min-severity, start HTTP server, startTimer *)
(*    startTimer       first tick after 1s, then every --interval: scan,   *)
(*                     log an error if scan failed, iterations_total++     *)
(*    problemCollector.scan     find files, checkRules, SortReports, Dedup,*)
(*                     replace summary (only when nothing failed)          *)
(*    problemCollector.Collect  what a scrape of /metrics returns:         *)
(*                     nothing before the first successful scan; reports   *)
(*                     >= min severity, duplicates skipped unless          *)
(*                     --show-duplicates, one pint_problem per distinct    *)
(*                     label set, pint_problems = their number, at most    *)
(*                     --max-problems pint_problem series in sorted order  *)
(*   The reports of an iteration are those of Exit.tla (MkReports,         *)
(*   Summary.Report, SortReports, Dedup).                                  *)
(* Doc side  : docs/index.md "Watch mode": continuously checks all rules   *)
(*   found in the selected files; pint_problem is exported for every       *)
(*   problem, only up to --max-problems of them; pint_problems is the      *)
(*   total including those not exported; /health for liveness.             *)
(* Properties (of the daemon, not part of C05's verdict):                  *)
(*   W1  after an iteration that could read the files, the exported total  *)
(*       is the number of problems of the CURRENT file content             *)
(*   W2  the number of pint_problem series is min(max-problems, total)     *)
(*       (all of them when max-problems = 0) and they are problems of the  *)
(*       current content                                                   *)
(*   W3  an iteration that fails (file gone) does not kill the daemon:     *)
(*       iterations keep being counted and later iterations are served     *)
(***************************************************************************)
EXTENDS Exit

CONSTANT MaxSteps      \* iterations per scenario

Rq(kind, sev, c) == [kind |-> kind, sev |-> sev, c |-> c]
\* the file contents an iteration can meet; "missing" = the file was deleted
Menu == << <<>>,
           <<Rq("report", "bug", 1)>>,
           <<Rq("report", "bug", 1), Rq("report", "bug", 1)>>,
           <<Rq("label", "warning", 1), Rq("syntax", "fatal", 1)>>,
           <<Rq("report", "info", 1), Rq("twin", "bug", 2)>> >>
Missing == 0
Contents == {Missing} \cup (1..Len(Menu))
MinSevArgW == SevFlags \cup {"UNSET"}          \* --min-severity of `pint watch` (default: bug)
MaxProblemsArg == {0, 1, 2}

\* reports of one iteration over content j: rule k of content j is named m<j>r<k>
ContentCase(j) == [reports |-> Menu[j]]
IterReports(j) == Dedup(SortReports(ReportAll(<<>>, AllReports(ContentCase(j)), 1)))

(* Impl: problemCollector.Collect                                           *)
\* lower-case severity label of the metric and its place in the sort order of the serialised label set
SevLabel(s) == CASE s = Information -> "information" [] s = Warning -> "warning" [] s = Bug -> "bug" [] OTHER -> "fatal"
SevAlpha(s) == CASE s = Bug -> 1 [] s = Fatal -> 2 [] s = Information -> 3 [] OTHER -> 4
\* one metric per report (one diagnostic each); the label set is filename, kind, name, owner, problem, reporter, severity:
\* here two metrics differ in the rule name or, for a twin, in the severity
MetricOf(rep) == [rule |-> rep.rule, sev |-> SevLabel(rep.sev)]
KeyLess(a, b) == a.rule < b.rule \/ (a.rule = b.rule /\ SevAlpha(a.sev) < SevAlpha(b.sev))
Collected(s, minS, showD) ==
  {k \in 1..Len(s) : s[k].sev >= minS /\ (showD \/ ~s[k].isDup)}
\* the first n of a set of reports in key order
RECURSIVE FirstN(_, _, _)
FirstN(s, idx, n) ==
  IF n = 0 \/ idx = {} THEN {}
  ELSE LET m == CHOOSE x \in idx : \A y \in idx \ {x} : KeyLess(s[x], s[y])
       IN {m} \cup FirstN(s, idx \ {m}, n - 1)
Collect(sm, minS, maxP, showD) ==
  IF sm.set = FALSE THEN [present |-> FALSE, problems |-> 0, exported |-> {}]   \* c.summary == nil: not even pint_problems
  ELSE LET idx == Collected(sm.reports, minS, showD)
           n   == Cardinality(idx)
           sel == IF maxP > 0 /\ maxP < n THEN FirstN(sm.reports, idx, maxP) ELSE idx
       IN [present |-> TRUE, problems |-> n,
           exported |-> {[content |-> sm.content, rule |-> sm.reports[k].rule, sev |-> SevLabel(sm.reports[k].sev)] : k \in sel}]

(* Doc side                                                                 *)
DocMinName(arg) == IF arg = "UNSET" THEN "Bug" ELSE DocSevOfFlag(arg)
\* the problems of content j a user expects to see counted: every problem at or above the minimum severity; the same
\* issue on several rules counts once unless --show-duplicates
DocIssue(e, j) == LET req == Menu[j][e.rule] IN <<e.reporter, e.sev, req.c>>
DocVisible(j, minArg) == {e \in DocProblemSet(ContentCase(j)) : DocRank(e.sev) >= DocRank(DocMinName(minArg))}
DocTotal(j, minArg, showDup) ==
  IF showDup THEN Cardinality(DocVisible(j, minArg))
  ELSE Cardinality({DocIssue(e, j) : e \in DocVisible(j, minArg)})
DocLower(name) == CASE name = "Information" -> "information" [] name = "Warning" -> "warning" [] name = "Bug" -> "bug" [] OTHER -> "fatal"

-----------------------------------------------------------------------------
VARIABLES wcase,     \* [minSev, maxP, showDup, steps]: flags and the content met by each iteration
          wpc,       \* "Grow" | "Running" | "Stopped"
          wk,        \* iterations done
          wsummary,  \* collector.summary: [set, reports]
          witer,     \* pint_check_iterations_total
          wlast      \* outcome of the last iteration: "none" | "ok" | "failed"
wvars == <<wcase, wpc, wk, wsummary, witer, wlast>>
NoSummary == [set |-> FALSE, content |-> 0, reports |-> <<>>]
\* the variables of Exit.tla play no part in the daemon model
ExitFrozen == /\ case = [cmd |-> "lint", failOn |-> "UNSET", minSev |-> "UNSET", showDup |-> FALSE, reports |-> <<>>]
              /\ pc = "Watch" /\ summary = <<>> /\ minSeverity = Warning /\ failOn = Bug /\ failed = FALSE /\ out = NoOut

WInit ==
  /\ wcase \in [minSev : MinSevArgW, maxProblems : MaxProblemsArg, showDup : BOOLEAN, steps : {<<>>}]
  /\ wpc = "Grow" /\ wk = 0 /\ wsummary = NoSummary /\ witer = 0 /\ wlast = "none"

\* GEN: the environment decides what the next iteration will find
AddStep(j) == /\ wpc = "Grow" /\ Len(wcase.steps) < MaxSteps
              /\ wcase' = [wcase EXCEPT !.steps = Append(@, j)]
              /\ UNCHANGED <<wpc, wk, wsummary, witer, wlast>>
WStart == /\ wpc = "Grow" /\ Len(wcase.steps) = MaxSteps /\ wpc' = "Running"
          /\ UNCHANGED <<wcase, wk, wsummary, witer, wlast>>

\* startTimer: case <-ticker.C: collector.scan(...); checkIterationsTotal.Inc()
Tick ==
  /\ wpc = "Running" /\ wk < Len(wcase.steps)
  /\ LET j == wcase.steps[wk + 1] IN
     IF j = Missing
     THEN /\ wsummary' = wsummary /\ wlast' = "failed"          \* Find() fails: the error is logged, the old summary stays
     ELSE /\ wsummary' = [set |-> TRUE, content |-> j, reports |-> IterReports(j)] /\ wlast' = "ok"
  /\ wk' = wk + 1 /\ witer' = witer + 1
  /\ UNCHANGED <<wcase, wpc>>
\* SIGTERM: stop the timer, shut the HTTP server down, return nil
Stop == wpc = "Running" /\ wk = Len(wcase.steps) /\ wpc' = "Stopped" /\ UNCHANGED <<wcase, wk, wsummary, witer, wlast>>

WNext == (\E j \in Contents : AddStep(j)) \/ WStart \/ Tick \/ Stop
WSpec == WInit /\ ExitFrozen /\ [][WNext /\ UNCHANGED vars]_<<wvars, vars>>

Scrape == Collect(wsummary, ParseSeverity(FlagValue(wcase.minSev, "bug")).sev, wcase.maxProblems, wcase.showDup)

\* W1: after an iteration that read the files the total is the one of the current content
Inv_W1 == (wpc = "Running" /\ wlast = "ok") =>
  Scrape.problems = DocTotal(wcase.steps[wk], wcase.minSev, wcase.showDup)
\* W2: cap and membership
Inv_W2 == (wpc = "Running" /\ wlast = "ok") =>
  LET sc == Scrape
      j  == wcase.steps[wk] IN
  /\ Cardinality(sc.exported) = IF wcase.maxProblems > 0 /\ wcase.maxProblems < sc.problems THEN wcase.maxProblems ELSE sc.problems
  /\ \A m \in sc.exported : \E e \in DocVisible(j, wcase.minSev) : e.rule = m.rule /\ DocLower(e.sev) = m.sev
\* W3: failures are survived: every iteration is counted and the daemon only stops when told to, after all of them
Inv_W3 == witer = wk /\ (wpc = "Stopped" => wk = Len(wcase.steps))

EmitWCase == wpc # "Running" \/ wk # 0 \/ PrintT(<<"WCASE", ToJson([scenario |-> wcase, menu |-> Menu])>>)
=============================================================================
