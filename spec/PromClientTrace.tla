--------------------------- MODULE PromClientTrace ---------------------------
(***************************************************************************)
(* JUDGE for C14.  One ndjson file holds many cases; per case:             *)
(*   Case   the workload: k callers, c workers, questions, who asks what   *)
(*   H      hook H3 events of the real client, in linearisation order      *)
(*          (kind c = caller goroutine, w = worker, s = slice goroutine)   *)
(*   S      start / end of every request as seen by the fake server        *)
(*   R      what a caller received                                         *)
(*   T      the (fake) cache clock advanced by n seconds                   *)
(*   End    end of the case (ok = FALSE: reproducible hang)                *)
(*                                                                         *)
(* (4a) VERDICT, from S / R / End only (what the server saw, what callers  *)
(*      got): NoTwin, Bounded, Once, Agree, no hang  ->  <<"VIOL", ...>>   *)
(* (4b) BINDING: every H event must be a step of PromClient (the action    *)
(*      named by the event, taken by the actor named by the event)         *)
(*      ->  <<"DRIFT", ...>>; after the first drift of a case its H events *)
(*      are skipped.  The model-level invariants are evaluated after every *)
(*      H step on the state reconstructed from the hooks -> <<"LEAD", ..>> *)
(***************************************************************************)
EXTENDS PromClient, Json

CONSTANTS TraceFile      \* name of the ndjson file (the driver judges shards of a run in parallel)

TraceLog == ndJsonDeserialize(TraceFile)

TraceCallers   == 1..64
TraceWorkers   == 1..20
TraceQuestions == 1..64
TraceLockKeyOf == [q \in TraceQuestions |-> ""]       \* keys come from the events
TraceReqsOf    == [q \in TraceQuestions |-> {}]
TraceTTLOf     == [k \in {} |-> 0]                    \* lifetimes come from the question kind (TraceTTL)

VARIABLES l, done, cs, lost, lead, jobOf,
          sInfl,     \* requests in flight at the server (ids)
          sReq,      \* id -> what the server logged
          twins,     \* pairs of simultaneously running identical requests (neither aborted)
          maxLive,   \* highest number of simultaneously running, non-aborted requests
          answers,   \* caller -> [ok, ans, t]
          tnow,      \* fake cache clock of the case in seconds (sum of the T records so far)
          cerr       \* number of requests the client saw fail (end-err)
ovars == <<sInfl, sReq, twins, maxLive, answers, tnow>>
tvars == <<vars, l, done, cs, lost, lead, jobOf, ovars, cerr>>

Rec == TraceLog[l]
NoCase == [id |-> 0, k |-> 0, c |-> 0, t0 |-> 0, traced |-> FALSE, questions |-> <<>>, asks |-> <<>>, rl |-> 0, qcap |-> 0]

\* model parameters of prometheus.go bound to the real client (binding only):
\*   StartWorkers: queries = make(chan queryRequest, concurrency*10)
QueueCapOf(c) == c * 10
\*   processJob: prom.rateLimiter.Take() with ratelimit.New(rateLimit) (leaky bucket, slack 10): n requests need
\*   at least (n - 1 - 10) / rateLimit seconds; lower bound in microseconds
RateFloorUs(n, rl) == IF n <= 11 THEN 0 ELSE ((n - 11) * 1000000) \div rl

TraceInit ==
  /\ ask = [c \in Callers |-> 1]
  /\ cpc = [c \in Callers |-> "wantLock"]
  /\ clk = [c \in Callers |-> ""]
  /\ sent = [c \in Callers |-> {}]
  /\ got = [c \in Callers |-> {}]
  /\ cancelled = [c \in Callers |-> FALSE]
  /\ reply = [c \in Callers |-> NoReply]
  /\ locked = {} /\ queue = <<>> /\ mail = EmptyFn
  /\ wpc = [w \in Workers |-> "idle"]
  /\ wjob = [w \in Workers |-> <<>>]
  /\ wres = [w \in Workers |-> Err]
  /\ cache = EmptyFn /\ now = 0 /\ inflight = {}
  /\ nreq = EmptyFn /\ nfail = EmptyFn /\ nexp = EmptyFn
  /\ budget = <<MaxFail, MaxExpire>>
  /\ l = 1 /\ done = FALSE /\ cs = NoCase /\ lost = FALSE /\ lead = FALSE /\ jobOf = EmptyFn
  /\ sInfl = {} /\ sReq = EmptyFn /\ twins = {} /\ maxLive = 0 /\ answers = EmptyFn /\ tnow = 0 /\ cerr = 0

-----------------------------------------------------------------------------
TCase ==
  /\ l <= Len(TraceLog) /\ Rec.ev = "Case"
  /\ IF Rec.qcap = 0 \/ Rec.qcap = QueueCapOf(Rec.c) THEN TRUE
     ELSE PrintT(<<"DRIFT", Rec.id, ToJson([what |-> "queue capacity is not concurrency*10", qcap |-> Rec.qcap, c |-> Rec.c])>>)
  /\ cs' = Rec
  /\ ask' = [c \in Callers |-> IF c <= Len(Rec.asks) THEN Rec.asks[c] ELSE 1]
  /\ cpc' = [c \in Callers |-> "wantLock"]
  /\ clk' = [c \in Callers |-> ""]
  /\ sent' = [c \in Callers |-> {}]
  /\ got' = [c \in Callers |-> {}]
  /\ cancelled' = [c \in Callers |-> FALSE]
  /\ reply' = [c \in Callers |-> NoReply]
  /\ locked' = {} /\ queue' = <<>> /\ mail' = EmptyFn
  /\ wpc' = [w \in Workers |-> "idle"]
  /\ wjob' = [w \in Workers |-> <<>>]
  /\ wres' = [w \in Workers |-> Err]
  /\ cache' = EmptyFn /\ now' = 0 /\ inflight' = {}
  /\ nreq' = EmptyFn /\ nfail' = EmptyFn /\ nexp' = EmptyFn
  /\ budget' = <<MaxFail, MaxExpire>>
  /\ lost' = FALSE /\ lead' = FALSE /\ jobOf' = EmptyFn
  /\ sInfl' = {} /\ sReq' = EmptyFn /\ twins' = {} /\ maxLive' = 0 /\ answers' = EmptyFn /\ tnow' = 0 /\ cerr' = 0
  /\ l' = l + 1 /\ UNCHANGED done

-----------------------------------------------------------------------------
(* (4b) binding of hook events                                             *)

Drift(what) ==
  PrintT(<<"DRIFT", cs.id, ToJson([at |-> l, seq |-> Rec.seq, h |-> Rec.h, kind |-> Rec.kind, a |-> Rec.a,
                                    key |-> Rec.key, what |-> what])>>)

\* the model-level invariants on the state reconstructed from the hooks
TBounded == Cardinality(inflight) <= cs.c
LeadOf == IF ~NoTwin THEN "NoTwin" ELSE IF ~TBounded THEN "Bounded" ELSE IF ~Once THEN "Once"
          ELSE IF ~LockExclusive THEN "LockExclusive" ELSE ""

HolderOf(lk) == {c \in Callers : cpc[c] = "locked" /\ clk[c] = lk}
TheCaller == IF Rec.kind = "c" THEN Rec.a ELSE CHOOSE c \in HolderOf(Rec.key) : TRUE
HasCaller == IF Rec.kind = "c" THEN Rec.a \in Callers /\ clk[Rec.a] = Rec.key
             ELSE Cardinality(HolderOf(Rec.key)) = 1
IsW == Rec.kind = "w" /\ Rec.a \in Workers /\ Rec.a <= cs.c
IsC == Rec.kind = "c" /\ Rec.a \in Callers /\ Rec.a <= cs.k
HasJob == Rec.job \in DOMAIN jobOf
TheJob == jobOf[Rec.job]
KeyIs == wjob[Rec.a] # <<>> /\ Job(Rec.a).key = Rec.key

\* querier.CacheTTL() in seconds by question kind; for a range slice (ttl = slice end - start + 10m) the lower bound
KindTTL(kind) == CASE kind = "query" -> 300 [] kind = "config" -> 60 [] kind = "flags" -> 600
                   [] kind = "metadata" -> 600 [] OTHER -> 600
TraceTTL(w) == KindTTL(cs.questions[ask[Job(w).caller]].kind)

\* guard of the step the event names
HGuard ==
  CASE Rec.h = "want"    -> IF Rec.kind = "w" THEN IsW /\ wpc[Rec.a] = "wantSlice"
                                              ELSE IsC /\ cpc[Rec.a] = "wantLock"
    [] Rec.h = "lock"    -> IF Rec.kind = "w" THEN IsW /\ WLockG(Rec.a, Rec.key) ELSE IsC /\ LockG(Rec.a, Rec.key)
    [] Rec.h = "unlock"  -> IF Rec.kind = "w" THEN IsW /\ WUnlockG(Rec.a, Rec.key)
                                              ELSE IsC /\ UnlockG(Rec.a) /\ clk[Rec.a] = Rec.key
    [] Rec.h = "enq"     -> Rec.kind # "w" /\ HasCaller /\ EnqueueG(TheCaller, Rec.ckey)
    [] Rec.h = "got"     -> Rec.kind # "w" /\ HasJob /\ ReceiveG(TheJob.caller, TheJob)
    [] Rec.h = "deq"     -> IsW /\ HasJob /\ TheJob.key = Rec.key /\ DequeueG(Rec.a, TheJob)
    [] Rec.h = "hit"     -> IsW /\ CacheGetG(Rec.a) /\ KeyIs /\ Rec.key \in DOMAIN cache
    [] Rec.h = "miss"    -> IsW /\ CacheGetG(Rec.a) /\ KeyIs /\ Rec.key \notin DOMAIN cache
    [] Rec.h = "start"   -> IsW /\ StartRequestG(Rec.a) /\ KeyIs
    [] Rec.h = "end-ok"  -> IsW /\ EndOkG(Rec.a) /\ KeyIs
    [] Rec.h = "end-err" -> IsW /\ EndErrG(Rec.a) /\ KeyIs
    [] Rec.h = "set"     -> IsW /\ CacheSetG(Rec.a) /\ KeyIs
    [] Rec.h = "reply"   -> IsW /\ SendG(Rec.a) /\ KeyIs
    [] Rec.h = "evict"   -> EvictG(Rec.key)
    [] OTHER             -> FALSE

HStep ==
  CASE Rec.h = "want"    -> UNCHANGED vars
    [] Rec.h = "lock"    -> IF Rec.kind = "w" THEN WLock(Rec.a, Rec.key) ELSE Lock(Rec.a, Rec.key)
    [] Rec.h = "unlock"  -> IF Rec.kind = "w" THEN WUnlock(Rec.a, Rec.key) ELSE Unlock(Rec.a)
    [] Rec.h = "enq"     -> Enqueue(TheCaller, Rec.ckey)
    [] Rec.h = "got"     -> Receive(TheJob.caller, TheJob)
    [] Rec.h = "deq"     -> Dequeue(Rec.a, TheJob)
    [] Rec.h = "hit"     -> CacheGet(Rec.a)
    [] Rec.h = "miss"    -> CacheGet(Rec.a)
    [] Rec.h = "start"   -> StartRequest(Rec.a)
    [] Rec.h = "end-ok"  -> EndOk(Rec.a)
    [] Rec.h = "end-err" -> EndErr(Rec.a)
    [] Rec.h = "set"     -> CacheSet(Rec.a, TraceTTL(Rec.a))
    [] Rec.h = "reply"   -> Send(Rec.a)
    [] Rec.h = "evict"   -> Evict(Rec.key)

TH ==
  /\ l <= Len(TraceLog) /\ Rec.ev = "H"
  /\ cerr' = IF Rec.h = "end-err" THEN cerr + 1 ELSE cerr
  /\ l' = l + 1 /\ UNCHANGED <<done, cs, ovars>>
  /\ IF lost
     THEN UNCHANGED <<vars, lost, lead, jobOf>>
     ELSE IF HGuard
     THEN /\ HStep
          /\ jobOf' = IF Rec.h = "enq" THEN (Rec.job :> [caller |-> TheCaller, key |-> Rec.ckey]) @@ jobOf ELSE jobOf
          /\ lost' = FALSE
          /\ IF lead \/ LeadOf' = "" THEN lead' = lead
             ELSE /\ lead' = TRUE
                  /\ PrintT(<<"LEAD", cs.id, ToJson([at |-> l, seq |-> Rec.seq, inv |-> LeadOf'])>>)
     ELSE /\ Drift("event is not an enabled step of PromClient")
          /\ lost' = TRUE
          /\ UNCHANGED <<vars, lead, jobOf>>

-----------------------------------------------------------------------------
(* (4a) what the server saw, what the callers received                     *)

Aborted(o) == o = "aborted"

TS ==
  /\ l <= Len(TraceLog) /\ Rec.ev = "S"
  /\ IF Rec.h = "start"
     THEN /\ sReq' = (Rec.rid :> [key |-> Rec.key, path |-> Rec.path, query |-> Rec.query, start |-> Rec.start,
                                  end |-> Rec.end, step |-> Rec.step, outcome |-> Rec.outcome, t |-> tnow]) @@ sReq
          /\ sInfl' = sInfl \cup {Rec.rid}
          /\ twins' = IF Aborted(Rec.outcome) THEN twins
                      ELSE twins \cup {{x, Rec.rid} : x \in {y \in sInfl : sReq[y].key = Rec.key /\ ~Aborted(sReq[y].outcome)}}
          /\ LET live == Cardinality({y \in sInfl' : ~Aborted(sReq'[y].outcome)}) IN
             maxLive' = IF live > maxLive THEN live ELSE maxLive
     ELSE /\ sInfl' = sInfl \ {Rec.rid}
          /\ UNCHANGED <<sReq, twins, maxLive>>
  /\ l' = l + 1 /\ UNCHANGED <<vars, done, cs, lost, lead, jobOf, answers, tnow, cerr>>

TR ==
  /\ l <= Len(TraceLog) /\ Rec.ev = "R"
  /\ answers' = (Rec.a :> [ok |-> Rec.ok, ans |-> Rec.ans, t |-> tnow]) @@ answers
  /\ l' = l + 1 /\ UNCHANGED <<vars, done, cs, lost, lead, jobOf, sInfl, sReq, twins, maxLive, tnow, cerr>>

\* the cache clock advanced by Rec.n seconds (binding: Advance; verdict side: tnow)
TT ==
  /\ l <= Len(TraceLog) /\ Rec.ev = "T"
  /\ tnow' = tnow + Rec.n
  /\ IF lost THEN UNCHANGED vars ELSE Advance(Rec.n)
  /\ l' = l + 1 /\ UNCHANGED <<done, cs, lost, lead, jobOf, sInfl, sReq, twins, maxLive, answers, cerr>>

\* ---- Doc side, evaluated at the end of the case
Q(i) == cs.questions[i]
RangeQs == {i \in 1..Len(cs.questions) : Q(i).kind = "range"}
\* does request r belong to range question i (same expression and step, the slice intersects the window)?
SliceOf(r, i) == /\ sReq[r].path = "/api/v1/query_range"
                 /\ Q(i).expr = sReq[r].query /\ Q(i).step = sReq[r].step
                 /\ sReq[r].start < cs.t0 /\ sReq[r].end > cs.t0 - Q(i).lookback
\* number of range questions with DIFFERENT look-backs (hence different lock keys) that contain the slice
Sharers(r) == Cardinality({Q(i).lookback : i \in {j \in RangeQs : SliceOf(r, j)}})
Rids == DOMAIN sReq
KeysSeen == {sReq[r].key : r \in Rids}
OfKey(k) == {r \in Rids : sReq[r].key = k}
AnyOf(k) == CHOOSE r \in OfKey(k) : TRUE
Failed(k) == {r \in OfKey(k) : sReq[r].outcome # "ok"}
AllFailed == {r \in Rids : sReq[r].outcome # "ok"}
\* RangeQuery cancels the sibling slices when one slice fails. The server cannot tell reliably when
\* the client abandoned a request (a cancelled request may still look complete to it), so in a case
\* where slices can be cancelled its log decides nothing about query_range keys nor about the number
\* of requests in flight; such cases are judged on Agree, Hang and Race (and bound step by step).
Cancelling == cs.fault # "none" /\ RangeQs # {}
Judged(r) == ~(Cancelling /\ sReq[r].path = "/api/v1/query_range")
TwinKeys == {sReq[CHOOSE r \in p : TRUE].key : p \in twins}
TwinsOf(r) == {p \in twins : r \in p}
Kind(path) == CASE path = "/api/v1/query" -> "query" [] path = "/api/v1/query_range" -> "query_range"
                [] path = "/api/v1/status/config" -> "config" [] path = "/api/v1/status/flags" -> "flags"
                [] path = "/api/v1/metadata" -> "metadata" [] OTHER -> "other"
AnsAt(q, t) == {answers[c].ans : c \in {d \in DOMAIN answers : d <= Len(cs.asks) /\ cs.asks[d] = q /\ answers[d].ok /\ answers[d].t = t}}
AnsTimes == {answers[c].t : c \in DOMAIN answers}
QKind(q) == IF Q(q).kind = "range" THEN "query_range" ELSE Q(q).kind
QShared(q) == Q(q).kind = "range" /\ \E r \in Rids : SliceOf(r, q) /\ Sharers(r) >= 2

Viol(inv, kind, shared, detail) ==
  PrintT(<<"VIOL", cs.id, ToJson([inv |-> inv, kind |-> kind, shared |-> shared, detail |-> detail,
                                  k |-> cs.k, c |-> cs.c, mix |-> cs.mix, fault |-> cs.fault])>>)

JudgeNoTwin ==
  \A k \in TwinKeys :
    LET r == AnyOf(k) IN
    IF ~Judged(r) THEN TRUE
    ELSE Viol("NoTwin", Kind(sReq[r].path),
              Sharers(r) >= 2 /\ \A x \in OfKey(k) : Cardinality(TwinsOf(x)) <= Sharers(r) - 1,
              k)
JudgeBounded == IF Cancelling \/ maxLive <= cs.c THEN TRUE ELSE Viol("Bounded", "any", FALSE, ToString(maxLive))
\* "a successful answer is reused for its cache lifetime": while an earlier successful answer for the key is
\* still alive on the cache clock no request is justified except after failures; otherwise one is
Lifetime(path) == KindTTL(IF Kind(path) = "query_range" THEN "range" ELSE Kind(path))
TimesOf(k) == {sReq[r].t : r \in OfKey(k)}
AtTime(k, t) == {r \in OfKey(k) : sReq[r].t = t}
Alive(k, t) == \E r \in OfKey(k) : /\ sReq[r].outcome = "ok" /\ sReq[r].t < t
                                    /\ t - sReq[r].t <= Lifetime(sReq[r].path)
JudgeOnce ==
  \A k \in KeysSeen : \A t \in TimesOf(k) :
    LET n == Cardinality(AtTime(k, t))
        f == Cardinality({r \in AtTime(k, t) : sReq[r].outcome # "ok"})
        a == IF Alive(k, t) THEN 0 ELSE 1
        r == AnyOf(k) IN
    IF ~Judged(r) \/ n <= a + f THEN TRUE
    ELSE Viol("Once", Kind(sReq[r].path), Sharers(r) >= 2 /\ n <= a + f + Sharers(r) - 1,
              IF a = 0 THEN "requested again while the cached answer is alive: " \o k ELSE k)
JudgeAgree ==
  \A q \in 1..Len(cs.questions) : \A t \in AnsTimes :
    IF Cardinality(AnsAt(q, t)) <= 1 THEN TRUE
    ELSE Viol("Agree", QKind(q), QShared(q), ToString(Cardinality(AnsAt(q, t))))
JudgeHang == IF Rec.ok THEN TRUE ELSE Viol("Hang", "any", FALSE, ToString(Rec.returned))

BindRate ==
  IF cs.rl = 0 \/ Rec.span_us >= RateFloorUs(Rec.nreq, cs.rl) THEN TRUE
  ELSE PrintT(<<"DRIFT", cs.id, ToJson([what |-> "requests arrived faster than rateLimit allows", rl |-> cs.rl, nreq |-> Rec.nreq,
                                         span_us |-> Rec.span_us, floor_us |-> RateFloorUs(Rec.nreq, cs.rl)])>>)

TEnd ==
  /\ l <= Len(TraceLog) /\ Rec.ev = "End"
  /\ BindRate
  /\ JudgeNoTwin /\ JudgeBounded /\ JudgeOnce /\ JudgeAgree /\ JudgeHang
  /\ l' = l + 1 /\ UNCHANGED <<vars, done, cs, lost, lead, jobOf, ovars, cerr>>

TSkipped ==
  /\ l <= Len(TraceLog) /\ Rec.ev = "Skipped"
  /\ l' = l + 1 /\ UNCHANGED <<vars, done, cs, lost, lead, jobOf, ovars, cerr>>

\* a data race reported by the Go race detector inside internal/promapi (appended by the driver)
TRace ==
  /\ l <= Len(TraceLog) /\ Rec.ev = "Race"
  /\ PrintT(<<"VIOL", Rec.id, ToJson([inv |-> "Race", kind |-> Rec.key, shared |-> FALSE, detail |-> Rec.ans,
                                      k |-> 0, c |-> 0, mix |-> "", fault |-> ""])>>)
  /\ l' = l + 1 /\ UNCHANGED <<vars, done, cs, lost, lead, jobOf, ovars, cerr>>

TDone ==
  /\ l = Len(TraceLog) + 1 /\ ~done
  /\ done' = TRUE /\ PrintT(<<"DONE", l - 1>>)
  /\ UNCHANGED <<vars, l, cs, lost, lead, jobOf, ovars, cerr>>

TraceNext == TCase \/ TH \/ TS \/ TR \/ TT \/ TEnd \/ TSkipped \/ TRace \/ TDone
TraceSpec == TraceInit /\ [][TraceNext]_tvars
=============================================================================
