------------------------- MODULE StrictSchemaTrace -------------------------
(***************************************************************************)
(* JUDGE for C01.  Every record is what the real code did with one file:   *)
(*   Doc  an abstract document (rendered by harness/schemadoc), the stage  *)
(*        codes of pint's Bug/Fatal problems (strict pipeline, default     *)
(*        offline checks) and the result of rulefmt.Parse on the same bytes*)
(*   Mut  a mutated (off-model) file: only "pint passed" and "Prometheus   *)
(*        loaded it" are known                                             *)
(* Verdict (4a): pint passed /\ Prometheus refused  -> VIOL.               *)
(* Binding (4b): PintStages(doc) = observed codes   -> else DRIFT          *)
(*               PromAccepts(doc) = observed rulefmt -> else PROMDRIFT     *)
(*               (my transcription of rulefmt is wrong: machinery failure) *)
(***************************************************************************)
EXTENDS StrictSchema

TraceLog == ndJsonDeserialize("c01_trace.ndjson")

VARIABLES l, done
tvars == <<vars, l, done>>

Rec == TraceLog[l]

TraceInit == doc = Baseline("recording", "utf8", "rulesLast", "prometheus") /\ n = 0 /\ l = 1 /\ done = FALSE

AsSet(seq) == {seq[i] : i \in 1..Len(seq)}

TDoc ==
  /\ l <= Len(TraceLog) /\ Rec.ev = "Doc"
  /\ LET d == Rec.doc
         o == Rec.obs IN
     /\ doc' = d
     \* (4a) the property, on observed outputs only
     /\ IF d.schema = "prometheus" /\ o.clean /\ ~o.prom_ok
        THEN PrintT(<<"VIOL", Rec.id, ToJson([devs |-> Devs(d), kind |-> d.kind, names |-> d.names, order |-> d.order,
                                             prom_err |-> o.prom_err, yaml |-> Rec.yaml])>>)
        ELSE TRUE
     \* (4b) binding of the impl-shaped side
     /\ IF PintStages(d) = AsSet(o.codes) /\ (PintClean(d) <=> o.clean)
        THEN TRUE
        ELSE PrintT(<<"DRIFT", Rec.id, ToJson([devs |-> Devs(d), kind |-> d.kind, names |-> d.names, order |-> d.order,
                                              expected |-> PintStages(d), observed |-> o.codes, panic |-> o.panic, err |-> o.err])>>)
     \* binding of the Doc side to the real loader
     /\ IF PromAccepts(d) <=> o.prom_ok
        THEN TRUE
        ELSE PrintT(<<"PROMDRIFT", Rec.id, ToJson([devs |-> Devs(d), kind |-> d.kind, names |-> d.names, order |-> d.order,
                                                  expected |-> PromAccepts(d), observed |-> o.prom_err, yaml |-> Rec.yaml])>>)
  /\ l' = l + 1 /\ UNCHANGED <<n, done>>

TMut ==
  /\ l <= Len(TraceLog) /\ Rec.ev = "Mut"
  /\ IF ~Rec.skipped /\ Rec.clean /\ ~Rec.prom_ok
     THEN PrintT(<<"VIOLMUT", Rec.id, ToJson([base |-> Rec.base, ops |-> Rec.ops])>>)
     ELSE TRUE
  /\ l' = l + 1 /\ UNCHANGED <<doc, n, done>>

TDone ==
  /\ l = Len(TraceLog) + 1 /\ ~done
  /\ done' = TRUE /\ PrintT(<<"DONE", l - 1>>)
  /\ UNCHANGED <<doc, n, l>>

TraceNext == TDoc \/ TMut \/ TDone
TraceSpec == TraceInit /\ [][TraceNext]_tvars
=============================================================================
