SPECIFICATION Spec
CONSTANTS
  MaxLines = 2
  MaxEntries = 2
INVARIANTS Inv_Entries Inv_Dispatch Inv_Lines Inv_Reported Inv_Rendered Inv_Order
CHECK_DEADLOCK FALSE
