SPECIFICATION Spec
CONSTANTS
  MaxBody = 2
  PWs = {1, 2}
  MaxScanJobs = 4
INVARIANTS EmitCase
CONSTRAINT GenConstraint
CHECK_DEADLOCK FALSE
