-------------------------- MODULE DispatchC07Trace --------------------------
(***************************************************************************)
(* JUDGE for C07. The trace (harness exec-c07) holds per scenario one      *)
(* `Base` record - the reports of the real lint pipeline on the rule file  *)
(* without any comment - and `Run` records: the same file with the one     *)
(* comment of the case inserted. A report is  [e, c, r, k, ln]  = rule     *)
(* number, check String(), reporter, hash of its texts/columns, the line   *)
(* numbers it refers to.                                                   *)
(*  verdict (VIOL):  reports(Run) = Shift(reports(Base) minus the slice)   *)
(*     slice = reports of the instances DocSuppresses names, on the        *)
(*             targeted rule (rule comment) / on every rule (file comment) *)
(*  binding (DRIFT): dispatched check lists = Strs(ImplChecksWith(...)),   *)
(*     rule line ranges = FileRules shifted                                *)
(* Run records only refer to their Base record, so every Run record is an  *)
(* initial state and TLC judges them in parallel.                          *)
(***************************************************************************)
EXTENDS DispatchC07

TraceLog == ndJsonDeserialize("c07_trace.ndjson")

VARIABLES l, judged
tvars == <<vars, l, judged>>

Rec == TraceLog[l]
\* index of the Base record of every scenario
BaseIdx == [s \in {TraceLog[i].scen : i \in DOMAIN TraceLog} |->
              CHOOSE i \in DOMAIN TraceLog : TraceLog[i].ev = "Base" /\ TraceLog[i].scen = s]
BaseOf(rec) == TraceLog[BaseIdx[rec.scen]]

TraceInit == Init /\ l \in 1..Len(TraceLog) /\ judged = FALSE

ShiftRep(p, pl) == [p EXCEPT !.ln = [i \in DOMAIN p.ln |-> ShiftLine(p.ln[i], pl)]]

\* the rule a rule comment belongs to. Column-0 placement (F11, binding only): yaml.v3 attaches the comment to the
\* previous rule as a foot comment
\* (observed: only in files with LF line endings; in a CRLF file the same comment goes to the rule below it)
RuleOf(rec) == IF rec.place.at = "above0" /\ rec.eol = "lf" THEN rec.rule - 1 ELSE rec.rule

\* Doc: is report p of the base run inside the slice comment c removes
InSliceOf(c, r, tab, p) ==
  /\ (c.scope = "file" \/ p.e = r)
  /\ p.c \in DOMAIN tab
  /\ DocSuppresses(c, tab[p.c])
InSlice(rec, tab, p) == InSliceOf(rec.cmt, RuleOf(rec), tab, p)

\* the run the new comment is compared with: the scenario's base run, or - when an expired snooze is already in
\* the file - the run of the file with just that snooze
RefReports(rec) == IF rec.prior = "none" THEN Range(BaseOf(rec).reports) ELSE Range(rec.basereports)

Expected(rec) ==
  LET tab == InstanceTable(BaseOf(rec).cfg) IN
  {ShiftRep(p, rec.eplace) : p \in {q \in RefReports(rec) : ~InSlice(rec, tab, q)}}
\* the file with just the comment that was there before: an expired snooze changes nothing, a future file/snooze
\* removes its slice
ExpectedPrior(rec) ==
  LET tab == InstanceTable(BaseOf(rec).cfg) IN
  {ShiftRep(p, rec.pplace) : p \in {q \in Range(BaseOf(rec).reports) : ~InSliceOf(rec.pcmt, rec.rule, tab, q)}}

Brief(S) == {<<p.e, p.c>> : p \in S}

\* binding: the real parser sees the rules where the spec says they are, and pint dispatched what the spec dispatches
ExpectedRules(pp, pl) ==
  [r \in DOMAIN FileRules |-> <<ShiftLine(ShiftLine(FileRules[r].first, pp), pl), ShiftLine(ShiftLine(FileRules[r].last, pp), pl)>>]
BindRun(rec) ==
  LET c == BaseOf(rec).cfg IN
  /\ rec.rules = ExpectedRules(rec.pplace, rec.eplace)
  /\ \A i \in DOMAIN rec.crules :      \* check lists of the targeted rule and of one other rule
       rec.checks[i] = Strs(GetChecksForEntry(Load(c), EntryWith(rec.cmt, rec.prior, rec.crules[i] = RuleOf(rec)), "lint"))
  \* owners: rule/owner names the rule, file/owner every rule of the file
  /\ rec.owners = [r \in DOMAIN FileRules |->
                     IF rec.cmt.type = "owner" /\ (rec.cmt.scope = "file" \/ r = RuleOf(rec)) THEN rec.cmt.match ELSE ""]

TBase ==
  /\ ~judged /\ Rec.ev = "Base"
  /\ IF Rec.rules = ExpectedRules(NoPlace, NoPlace)
        /\ \A r \in DOMAIN Rec.checks : Rec.checks[r] = Strs(GetChecksForEntry(Load(Rec.cfg), PlainEntry("rule", "noop"), "lint"))
     THEN TRUE
     ELSE PrintT(<<"DRIFT", 0, ToJson([scen |-> Rec.scen, what |-> "base: rule lines or dispatched checks differ from the spec",
                                        rules |-> Rec.rules, checks |-> Rec.checks[1]])>>)
  /\ judged' = TRUE /\ UNCHANGED <<vars, l>>

Describe(rec, exp, got, what) ==
  LET cfgb == BaseOf(rec).cfg IN
  [what |-> what, cmt |-> rec.cmt, text |-> rec.text, place |-> rec.place, rule |-> rec.rule, prior |-> rec.prior, eol |-> rec.eol,
   nproms |-> Len(cfgb.proms), locked |-> [b \in DOMAIN cfgb.blocks |-> cfgb.blocks[b].locked],
   enable |-> \E b \in DOMAIN cfgb.blocks : Len(cfgb.blocks[b].enable) > 0,
   missing |-> Brief(exp \ got), unexpected |-> Brief(got \ exp)]

TRun ==
  /\ ~judged /\ Rec.ev = "Run"
  /\ LET exp == Expected(Rec)  got == Range(Rec.reports) IN
     \* binding only (never a violation): comments that name no check, and the column-0 placement
     IF got = exp THEN TRUE
     ELSE PrintT(<<IF IsExtra(Rec.cmt) \/ Rec.place.at = "above0" THEN "DRIFT" ELSE "VIOL", Rec.id, ToJson(Describe(Rec, exp, got, "comment"))>>)
  /\ IF Rec.prior = "none" THEN TRUE
     ELSE LET exp == ExpectedPrior(Rec)  got == Range(Rec.basereports) IN
          IF got = exp THEN TRUE ELSE PrintT(<<"VIOL", Rec.id, ToJson(Describe(Rec, exp, got, "earlier comment alone"))>>)
  /\ IF BindRun(Rec) THEN TRUE
     ELSE PrintT(<<"DRIFT", Rec.id, ToJson([text |-> Rec.text, place |-> Rec.place, rule |-> Rec.rule, rules |-> Rec.rules,
                      crules |-> Rec.crules, checks |-> Rec.checks[1]])>>)
  /\ IF Rec.bin /\ Rec.proj # Rec.binproj
     THEN PrintT(<<"BINARY", Rec.id, ToJson([text |-> Rec.text, place |-> Rec.place])>>) ELSE TRUE
  /\ judged' = TRUE /\ UNCHANGED <<vars, l>>

TraceNext == TBase \/ TRun
TraceSpec == TraceInit /\ [][TraceNext]_tvars
=============================================================================
