------------------------------ MODULE Dispatch ------------------------------
(***************************************************************************)
(* Check registry and dispatch logic of pint (definitions only; the state  *)
(* machines of C08 / C09 / C07 are in DispatchC08 / DispatchC09 /           *)
(* DispatchC07 which EXTEND this module).                                   *)
(*                                                                         *)
(* Impl side, one operator per Go function, same names:                     *)
(*   internal/checks/base.go       CheckNames, OnlineChecks                 *)
(*   internal/config/config.go     SetDisabledChecks, DisableOnlineChecks,  *)
(*                                 GetChecksForEntry                        *)
(*   cmd/pint/main.go              actionSetup  (flag handling)             *)
(*   internal/config/parsed_rule.go baseRules, parseRule, defaultRuleMatch, *)
(*                                 defaultMatchStates, isMatch,             *)
(*                                 parsedRule.isEnabled                     *)
(*   internal/config/rule.go       isEnabled, isDisabledForRule,strictRegex *)
(*   internal/config/match.go      Match.IsMatch, MatchLabel.isMatching,    *)
(*                                 MatchAnnotation.isMatching,              *)
(*                                 durationMatch.isMatch, stateMatches      *)
(*   internal/discovery            Entry.Labels, readRules (DisabledChecks) *)
(* Doc side (written from docs/configuration.md, docs/ignoring.md,          *)
(* docs/checks/*.md and the property statements, independent of the code):  *)
(*   Doc* operators at the end of each section.                             *)
(***************************************************************************)
EXTENDS Integers, Sequences, FiniteSets, TLC, Json

Range(s)       == {s[i] : i \in DOMAIN s}
Contains(s, x) == \E i \in DOMAIN s : s[i] = x            \* slices.Contains
RECURSIVE Flatten(_)
Flatten(ss)    == IF ss = <<>> THEN <<>> ELSE Head(ss) \o Flatten(Tail(ss))
SelectIdx(s, P(_)) == {i \in DOMAIN s : P(s[i])}

-----------------------------------------------------------------------------
(* Strings and the regexp fragment used in configuration vocabularies.      *)
IsPrefix(p, s) == Len(p) <= Len(s) /\ SubSeq(s, 1, Len(p)) = p
IsSuffix(p, s) == Len(p) <= Len(s) /\ SubSeq(s, Len(s) - Len(p) + 1, Len(s)) = p
HasSub(p, s)   == \E i \in 0..(Len(s) - Len(p)) : SubSeq(s, i + 1, i + Len(p)) = p

\* A pattern is a record [form, a, b]; a and b are literal texts free of metacharacters.
\*   lit  a        pre  a.*        suf  .*a        has  .*a.*      any  .*      some  .+
\*   galt (a|b)    alt  a|b   (top-level alternation, no group)
ReSrc(re) ==
  CASE re.form = "lit"  -> re.a
    [] re.form = "pre"  -> re.a \o ".*"
    [] re.form = "suf"  -> ".*" \o re.a
    [] re.form = "has"  -> ".*" \o re.a \o ".*"
    [] re.form = "any"  -> ".*"
    [] re.form = "some" -> ".+"
    [] re.form = "galt" -> "(" \o re.a \o "|" \o re.b \o ")"
    [] re.form = "alt"  -> re.a \o "|" \o re.b

\* Doc: "All regexp patterns ... are fully anchored" (docs/configuration.md, Regexp matchers):
\* the pattern must match the whole string.
FullMatch(re, s) ==
  CASE re.form = "lit"  -> s = re.a
    [] re.form = "pre"  -> IsPrefix(re.a, s)
    [] re.form = "suf"  -> IsSuffix(re.a, s)
    [] re.form = "has"  -> HasSub(re.a, s)
    [] re.form = "any"  -> TRUE
    [] re.form = "some" -> Len(s) > 0
    [] re.form = "galt" -> s = re.a \/ s = re.b
    [] re.form = "alt"  -> s = re.a \/ s = re.b

\* Impl: rule.go strictRegex(s) = regexp.MustCompile("^" + s + "$"); in "^a|b$" the anchors bind
\* tighter than the alternation. Used by SetDisabledChecks (and parser / prometheus include lists).
StrictMatch(re, s) ==
  IF re.form = "alt" THEN IsPrefix(re.a, s) \/ IsSuffix(re.b, s) ELSE FullMatch(re, s)
\* Impl: match.go matchRegex(s) = regexp.MustCompile("^(?:" + s + ")$") - the pattern is grouped, so every
\* form is matched against the whole string (match / ignore conditions; fix 53538db, finding F14).
MatchRegex(re, s) == FullMatch(re, s)

Lit(a) == [form |-> "lit", a |-> a, b |-> ""]

-----------------------------------------------------------------------------
(* internal/checks/base.go                                                  *)
CheckNames == <<
  "alerts/absent", "alerts/annotation", "alerts/count", "alerts/external_labels", "alerts/for",
  "alerts/template", "labels/conflict", "promql/aggregate", "alerts/comparison", "promql/impossible",
  "promql/fragile", "promql/range_query", "promql/rate", "promql/regexp", "promql/syntax",
  "promql/vector_matching", "query/cost", "promql/counter", "promql/series", "rule/dependency",
  "rule/duplicate", "rule/for", "rule/name", "rule/label", "rule/link", "rule/reject", "rule/report" >>

OnlineChecks == <<
  "alerts/absent", "alerts/count", "alerts/external_labels", "labels/conflict", "promql/range_query",
  "promql/rate", "promql/vector_matching", "query/cost", "promql/counter", "promql/series", "rule/link" >>

\* reporters of checks.NewErrorCheck (error.go): always enabled, never in CheckNames
ParseErrorReporters == {"yaml/parse", "ignore/file", "pint/comment", "rule/owner"}

-----------------------------------------------------------------------------
(* The registry: one row per way a check instance is created.               *)
(*   reg    name passed to baseParsedRule / newParsedRule                   *)
(*   rep    RuleChecker.Reporter()                                          *)
(*   online Meta().Online     states  Meta().States                         *)
Live    == {"noop", "added", "modified", "moved"}
Removed == {"removed"}
AllStates == Live \cup Removed

\* baseRules(): checks that need no Prometheus server, in creation order
BaseRows == <<
  [kind |-> "syntax",     reg |-> "promql/syntax",     rep |-> "promql/syntax",     online |-> FALSE, states |-> Live],
  [kind |-> "alertfor",   reg |-> "alerts/for",        rep |-> "alerts/for",        online |-> FALSE, states |-> Live],
  [kind |-> "comparison", reg |-> "alerts/comparison", rep |-> "alerts/comparison", online |-> FALSE, states |-> Live],
  [kind |-> "template",   reg |-> "alerts/template",   rep |-> "alerts/template",   online |-> FALSE, states |-> Live],
  [kind |-> "fragile",    reg |-> "promql/fragile",    rep |-> "promql/fragile",    online |-> FALSE, states |-> Live],
  [kind |-> "regexp",     reg |-> "promql/regexp",     rep |-> "promql/regexp",     online |-> FALSE, states |-> Live],
  [kind |-> "dependency", reg |-> "rule/dependency",   rep |-> "rule/dependency",   online |-> FALSE, states |-> Removed],
  [kind |-> "impossible", reg |-> "promql/impossible", rep |-> "promql/impossible", online |-> FALSE, states |-> Live] >>

\* baseRules(): one instance per Prometheus server selected for the path; String() = rep(prom)
PromRows == <<
  [kind |-> "rate",      reg |-> "promql/rate",            rep |-> "promql/rate",            online |-> TRUE,  states |-> Live],
  [kind |-> "series",    reg |-> "promql/series",          rep |-> "promql/series",          online |-> TRUE,  states |-> Live],
  [kind |-> "vector",    reg |-> "promql/vector_matching", rep |-> "promql/vector_matching", online |-> TRUE,  states |-> Live],
  [kind |-> "range",     reg |-> "promql/range_query",     rep |-> "promql/range_query",     online |-> TRUE,  states |-> Live],
  [kind |-> "duplicate", reg |-> "rule/duplicate",         rep |-> "rule/duplicate",         online |-> FALSE, states |-> Live],
  [kind |-> "conflict",  reg |-> "labels/conflict",        rep |-> "labels/conflict",        online |-> TRUE,  states |-> Live],
  [kind |-> "extlabels", reg |-> "alerts/external_labels", rep |-> "alerts/external_labels", online |-> TRUE,  states |-> Live],
  [kind |-> "counter",   reg |-> "promql/counter",         rep |-> "promql/counter",         online |-> TRUE,  states |-> Live],
  [kind |-> "absent",    reg |-> "alerts/absent",          rep |-> "alerts/absent",          online |-> TRUE,  states |-> Live] >>

\* parseRule(): configurable check kinds of a rule{} block, in creation order.
\* perprom: one instance per Prometheus server (tags = prom tags), otherwise one instance, no tags.
\* str: String() for the two concrete settings (variant 1 / 2) the harness renders for the kind
\*      (harness/cmd/vh/dispatch_cfg.go holds the matching HCL text); "@" stands for the server name.
CfgRows == <<
  [kind |-> "aggregate_keep",  reg |-> "promql/aggregate",   rep |-> "promql/aggregate",   online |-> FALSE, perprom |-> FALSE,
     str |-> <<"promql/aggregate(job:true)", "promql/aggregate(instance:true)">>],
  [kind |-> "aggregate_strip", reg |-> "promql/aggregate",   rep |-> "promql/aggregate",   online |-> FALSE, perprom |-> FALSE,
     str |-> <<"promql/aggregate(instance:false)", "promql/aggregate(pod:false)">>],
  [kind |-> "cost",            reg |-> "query/cost",         rep |-> "query/cost",         online |-> TRUE,  perprom |-> TRUE,
     str |-> <<"query/cost(@:10)", "query/cost(@)">>],
  [kind |-> "annotation",      reg |-> "alerts/annotation",  rep |-> "alerts/annotation",  online |-> FALSE, perprom |-> FALSE,
     str |-> <<"alerts/annotation(summary:true)", "alerts/annotation(dashboard:true)">>],
  [kind |-> "label",           reg |-> "rule/label",         rep |-> "rule/label",         online |-> FALSE, perprom |-> FALSE,
     str |-> <<"rule/label(team:true)", "rule/label(tier:true)">>],
  [kind |-> "alerts",          reg |-> "alerts/count",       rep |-> "alerts/count",       online |-> TRUE,  perprom |-> TRUE,
     str |-> <<"alerts/count(@)", "alerts/count(@)">>],
  [kind |-> "reject_lk",       reg |-> "rule/reject",        rep |-> "rule/reject",        online |-> FALSE, perprom |-> FALSE,
     str |-> <<"rule/reject(key=~'^bad.*$')", "rule/reject(key=~'^worse.*$')">>],
  [kind |-> "reject_lv",       reg |-> "rule/reject",        rep |-> "rule/reject",        online |-> FALSE, perprom |-> FALSE,
     str |-> <<"rule/reject(val=~'^bad.*$')", "rule/reject(val=~'^worse.*$')">>],
  [kind |-> "reject_ak",       reg |-> "rule/reject",        rep |-> "rule/reject",        online |-> FALSE, perprom |-> FALSE,
     str |-> <<"rule/reject(key=~'^bad.*$')", "rule/reject(key=~'^worse.*$')">>],
  [kind |-> "reject_av",       reg |-> "rule/reject",        rep |-> "rule/reject",        online |-> FALSE, perprom |-> FALSE,
     str |-> <<"rule/reject(val=~'^bad.*$')", "rule/reject(val=~'^worse.*$')">>],
  [kind |-> "link",            reg |-> "rule/link",          rep |-> "rule/link",          online |-> TRUE,  perprom |-> FALSE,
     str |-> <<"rule/link(^https?://.+$)", "rule/link(^ftp://.+$)">>],
  [kind |-> "for",             reg |-> "rule/for",           rep |-> "rule/for",           online |-> FALSE, perprom |-> FALSE,
     str |-> <<"rule/for(5m:0)", "rule/for(0:1h)">>],
  [kind |-> "keep_firing_for", reg |-> "rule/for",           rep |-> "rule/for",           online |-> FALSE, perprom |-> FALSE,
     str |-> <<"rule/for(0:1m)", "rule/for(0:1h)">>],
  [kind |-> "name",            reg |-> "rule/name",          rep |-> "rule/name",          online |-> FALSE, perprom |-> FALSE,
     str |-> <<"rule/name(^rec:.+$)", "rule/name(^total:.+$)">>],
  [kind |-> "range_query",     reg |-> "promql/range_query", rep |-> "promql/range_query", online |-> TRUE,  perprom |-> FALSE,
     str |-> <<"promql/range_query(1h)", "promql/range_query(2h)">>],
  [kind |-> "report",          reg |-> "rule/report",        rep |-> "rule/report",        online |-> FALSE, perprom |-> FALSE,
     str |-> <<"rule/report", "rule/report">>] >>

CfgKinds == {CfgRows[i].kind : i \in DOMAIN CfgRows}

\* "@" -> server name
RECURSIVE SubstAt(_, _)
SubstAt(s, name) ==
  IF Len(s) = 0 THEN ""
  ELSE IF SubSeq(s, 1, 1) = "@" THEN name \o SubstAt(SubSeq(s, 2, Len(s)), name)
  ELSE SubSeq(s, 1, 1) \o SubstAt(SubSeq(s, 2, Len(s)), name)

-----------------------------------------------------------------------------
(* Abstract configuration, flags and entries.                               *)
(*  cfg   [proms    : Seq [name, tags : Seq STRING],                        *)
(*         blocks   : Seq [kinds : Seq [kind, v], enable, disable : Seq,    *)
(*                         locked : BOOLEAN, match, ignore : Seq Match,     *)
(*                         marker : STRING],                                *)
(*         enabled  : Seq STRING   (checks.enabled as written; <<>> = key   *)
(*                                  absent, config.Load then uses CheckNames)*)
(*         disabled : Seq STRING]                                           *)
(*  flags [disabled : Seq Pattern, enabled : Seq STRING, offline : BOOLEAN] *)
(*  entry [kind : "rule" | "error", state, fileDisabled : Seq STRING,       *)
(*         comments : Seq [type : "disable"|"snooze", match, future],       *)
(*         rkind, name, path, labels, glabels, annotations, for, kff]       *)
NoFlags == [disabled |-> <<>>, enabled |-> <<>>, offline |-> FALSE]

\* config.Load: defaults
Load(cfg) == [cfg EXCEPT !.enabled = IF Len(cfg.enabled) = 0 THEN CheckNames ELSE cfg.enabled]

\* config.go SetDisabledChecks: raw string plus every check name the string matches as a strict regexp
RECURSIVE AddMissing(_, _)
AddMissing(list, xs) ==            \* append the elements of xs not yet in list (order of a Go map: irrelevant)
  IF xs = <<>> THEN list
  ELSE AddMissing(IF Contains(list, Head(xs)) THEN list ELSE Append(list, Head(xs)), Tail(xs))

SetDisabledChecks(cfg, l) ==
  LET expanded == Flatten([i \in DOMAIN l |->
                     <<ReSrc(l[i])>> \o SelectSeq(CheckNames, LAMBDA n : StrictMatch(l[i], n))])
  IN [cfg EXCEPT !.disabled = AddMissing(cfg.disabled, expanded)]

\* config.go DisableOnlineChecks
DisableOnlineChecks(cfg) == [cfg EXCEPT !.disabled = AddMissing(cfg.disabled, OnlineChecks)]

\* cmd/pint/main.go actionSetup
ActionSetup(cfg0, flags) ==
  LET c1 == SetDisabledChecks(Load(cfg0), flags.disabled)
      c2 == IF Len(flags.enabled) > 0 THEN [c1 EXCEPT !.enabled = flags.enabled] ELSE c1
  IN IF flags.offline THEN DisableOnlineChecks(c2) ELSE c2

-----------------------------------------------------------------------------
(* internal/config/match.go                                                 *)
\* A Match sub-block: every condition is a record field; "unset" is encoded as
\*   path/name : [form |-> "none"]   kind : ""   label/annotation : [set |-> FALSE]
\*   for/kff   : [op |-> "none"]     command : ""    state : <<>>
NoRe    == [form |-> "none", a |-> "", b |-> ""]
NoKV    == [set |-> FALSE, key |-> NoRe, value |-> NoRe]
NoDur   == [op |-> "none", dur |-> 0]
EmptyMatch == [path |-> NoRe, name |-> NoRe, kind |-> "", label |-> NoKV, annotation |-> NoKV,
               for |-> NoDur, kff |-> NoDur, command |-> "", state |-> <<>>]

CIStates  == <<"added", "modified", "renamed", "removed">>
AnyStates == <<"any">>

\* parsed_rule.go defaultMatchStates
DefaultMatchStates(cmd) == IF cmd = "ci" THEN CIStates ELSE AnyStates

\* match.go stateMatches
StateMatches(states, st) ==
  \E i \in DOMAIN states :
     \/ states[i] = "any"
     \/ states[i] = "added"      /\ st = "added"
     \/ states[i] = "modified"   /\ st = "modified"
     \/ states[i] = "renamed"    /\ st = "moved"
     \/ states[i] = "removed"    /\ st = "removed"
     \/ states[i] = "unmodified" /\ st = "noop"

\* match.go durationMatch.isMatch  (durations in seconds)
DurIsMatch(dm, dur) ==
  CASE dm.op = "<"  -> dur < dm.dur
    [] dm.op = "<=" -> dur <= dm.dur
    [] dm.op = "="  -> dur = dm.dur
    [] dm.op = "!=" -> dur # dm.dur
    [] dm.op = ">=" -> dur >= dm.dur
    [] dm.op = ">"  -> dur > dm.dur

\* parser.MergeMaps(group labels, rule labels): rule labels override group labels of the same key
MergeMaps(a, b) ==
  SelectSeq(a, LAMBDA it : ~\E j \in DOMAIN b : b[j].k = it.k) \o b
\* discovery.Entry.Labels
EntryLabels(e) == MergeMaps(e.glabels, e.labels)

\* MatchLabel.isMatching
LabelIsMatching(ml, e) ==
  \E i \in DOMAIN EntryLabels(e) : MatchRegex(ml.key, EntryLabels(e)[i].k) /\ MatchRegex(ml.value, EntryLabels(e)[i].v)
\* MatchAnnotation.isMatching (alerting rules only)
AnnotationIsMatching(ma, e) ==
  /\ e.rkind = "alerting"
  /\ \E i \in DOMAIN e.annotations : MatchRegex(ma.key, e.annotations[i].k) /\ MatchRegex(ma.value, e.annotations[i].v)

\* Match.IsMatch.  e.for / e.kff = -1 when the field is absent (always for recording rules).
IsMatch(m, e, cmd) ==
  /\ (m.command # "" => cmd = m.command)
  /\ (Len(m.state) # 0 => StateMatches(m.state, e.state))
  /\ (m.kind # "" => e.rkind = m.kind)
  /\ (m.path.form # "none" => MatchRegex(m.path, e.path))
  /\ (m.name.form # "none" => MatchRegex(m.name, e.name))
  /\ (m.label.set => LabelIsMatching(m.label, e))
  /\ (m.annotation.set => AnnotationIsMatching(m.annotation, e))
  /\ (m.for.op # "none" => e.rkind = "alerting" /\ e.for >= 0 /\ DurIsMatch(m.for, e.for))
  /\ (m.kff.op # "none" => e.rkind = "alerting" /\ e.kff >= 0 /\ DurIsMatch(m.kff, e.kff))

\* parsed_rule.go isMatch
IsMatchBlock(e, cmd, ignore, match) ==
  /\ ~\E i \in DOMAIN ignore : IsMatch(ignore[i], e, cmd)
  /\ (Len(match) > 0 => \E i \in DOMAIN match : IsMatch(match[i], e, cmd))

\* parsed_rule.go defaultRuleMatch
DefaultRuleMatch(match, defaultStates) ==
  IF Len(match) = 0 THEN <<[EmptyMatch EXCEPT !.state = defaultStates]>>
  ELSE [i \in DOMAIN match |-> IF Len(match[i].state) = 0 THEN [match[i] EXCEPT !.state = defaultStates] ELSE match[i]]

-----------------------------------------------------------------------------
(* internal/config/parsed_rule.go: baseRules, parseRule                     *)
\* parsedRule = [reg, rep, str, tags, locked, online, states, always, match, ignore, blk, kind]
\*   plus `prom` (name of the server the instance is bound to, "" = none): not a field of the Go struct, kept for
\*   the Doc side of C07 ("# pint disable name($prometheus)")
BaseRules(proms, match) ==
  [i \in DOMAIN BaseRows |->
     [reg |-> BaseRows[i].reg, rep |-> BaseRows[i].rep, str |-> BaseRows[i].rep, tags |-> <<>>, prom |-> "", locked |-> FALSE,
      online |-> BaseRows[i].online, states |-> BaseRows[i].states, always |-> FALSE,
      match |-> match, ignore |-> <<>>, blk |-> 0, kind |-> BaseRows[i].kind]]
  \o Flatten([p \in DOMAIN proms |->
     [i \in DOMAIN PromRows |->
        [reg |-> PromRows[i].reg, rep |-> PromRows[i].rep, str |-> PromRows[i].rep \o "(" \o proms[p].name \o ")",
         tags |-> proms[p].tags, prom |-> proms[p].name, locked |-> FALSE, online |-> PromRows[i].online, states |-> PromRows[i].states,
         always |-> FALSE, match |-> match, ignore |-> <<>>, blk |-> 0, kind |-> PromRows[i].kind]]])

BlockVariant(block, kind) ==       \* 0 = the block does not configure this kind
  IF \E j \in DOMAIN block.kinds : block.kinds[j].kind = kind
  THEN (CHOOSE j \in DOMAIN block.kinds : block.kinds[j].kind = kind) ELSE 0

\* The per-block marker check of the C09 / C07 harness configurations (an ordinary configured check):
\*   marker = "report"  ->  report { comment = "m" severity = "warning" }     String() rule/report
\*   marker = K (else)  ->  name "K" { comment = "K" }                        String() rule/name(^K$)
\*                          (no rule is called K, so it reports on every rule it is dispatched to)
\*   marker = ""        ->  none
MarkerRule(block, b, defaultStates) ==
  IF block.marker = "" THEN <<>>
  ELSE LET rep == IF block.marker = "report" THEN "rule/report" ELSE "rule/name" IN
       <<[reg |-> rep, rep |-> rep,
          str |-> IF block.marker = "report" THEN "rule/report" ELSE "rule/name(^" \o block.marker \o "$)",
          tags |-> <<>>, prom |-> "", locked |-> block.locked, online |-> FALSE, states |-> Live, always |-> FALSE,
          match |-> DefaultRuleMatch(block.match, defaultStates), ignore |-> block.ignore, blk |-> b, kind |-> "marker"]>>

ParseRule(block, b, proms, defaultStates) ==
  Flatten([i \in DOMAIN CfgRows |->
    LET row == CfgRows[i]
        j   == BlockVariant(block, row.kind)
        mk(str, tags, prom) == [reg |-> row.reg, rep |-> row.rep, str |-> str, tags |-> tags, prom |-> prom, locked |-> block.locked,
                          online |-> row.online, states |-> Live, always |-> FALSE,
                          match |-> DefaultRuleMatch(block.match, defaultStates), ignore |-> block.ignore,
                          blk |-> b, kind |-> row.kind]
    IN IF j = 0 THEN <<>>
       ELSE IF row.perprom
       THEN [p \in DOMAIN proms |-> mk(SubstAt(row.str[block.kinds[j].v], proms[p].name), proms[p].tags, proms[p].name)]
       ELSE <<mk(row.str[block.kinds[j].v], <<>>, "")>>])
  \o MarkerRule(block, b, defaultStates)


-----------------------------------------------------------------------------
(* internal/config/rule.go: isDisabledForRule, isEnabled                    *)
Spellings(name, str, tags) ==
  {name, str} \cup {name \o "(+" \o tags[t] \o ")" : t \in DOMAIN tags}

IsDisabledForRule(e, name, str, tags) ==
  \E i \in DOMAIN e.comments :
     /\ e.comments[i].match \in Spellings(name, str, tags)
     /\ (e.comments[i].type = "snooze" => e.comments[i].future)

IsEnabled(enabledChecks, disabledChecks, e, pr, locked) ==
  IF pr.always THEN TRUE
  ELSE IF ~locked /\ IsDisabledForRule(e, pr.reg, pr.str, pr.tags) THEN FALSE
  ELSE IF \E i \in DOMAIN disabledChecks : disabledChecks[i] \in Spellings(pr.reg, pr.str, pr.tags) THEN FALSE
  ELSE IF Len(enabledChecks) = 0 THEN TRUE
  ELSE Contains(enabledChecks, pr.reg)

\* parsed_rule.go parsedRule.isEnabled
PRIsEnabled(pr, cfg, already, e, cmd) ==
  IF e.state \notin pr.states THEN FALSE
  ELSE IF ~IsEnabled(cfg.enabled, e.fileDisabled, e, pr, pr.locked) THEN FALSE
  ELSE LET matching == {b \in DOMAIN cfg.blocks : IsMatchBlock(e, cmd, cfg.blocks[b].ignore, cfg.blocks[b].match)} IN
       IF \E b \in matching : Contains(cfg.blocks[b].disable, pr.reg) THEN FALSE
       ELSE IF \E b \in matching : Contains(cfg.blocks[b].enable, pr.reg) THEN TRUE
       ELSE IF ~IsEnabled(cfg.enabled, cfg.disabled, e, pr, pr.locked) THEN FALSE
       ELSE ~\E k \in DOMAIN already : already[k].str = pr.str

\* NOTE on `matching`: the Go loop returns at the first matching block that disables the check and only
\* remembers an enabling block; since a later disabling block still wins, the order of blocks is irrelevant.

\* config.go GetChecksForEntry
ErrorRule(e, defaultMatch) ==
  [reg |-> e.errReporter, rep |-> e.errReporter, str |-> e.errReporter, tags |-> <<>>, prom |-> "", locked |-> FALSE, online |-> FALSE,
   states |-> AllStates, always |-> TRUE, match |-> defaultMatch, ignore |-> <<>>, blk |-> 0, kind |-> "error"]

ParsedRules(cfg, e, cmd) ==
  LET ds == DefaultMatchStates(cmd)
      dm == <<[EmptyMatch EXCEPT !.state = ds]>> IN
  IF e.kind = "error" THEN <<ErrorRule(e, dm)>>
  ELSE BaseRules(cfg.proms, dm) \o Flatten([b \in DOMAIN cfg.blocks |-> ParseRule(cfg.blocks[b], b, cfg.proms, ds)])

RECURSIVE DispatchFrom(_, _, _, _, _, _)
DispatchFrom(prs, k, enabled, cfg, e, cmd) ==
  IF k > Len(prs) THEN enabled
  ELSE LET pr == prs[k] IN
       DispatchFrom(prs, k + 1,
                    IF IsMatchBlock(e, cmd, pr.ignore, pr.match) /\ PRIsEnabled(pr, cfg, enabled, e, cmd)
                    THEN Append(enabled, pr) ELSE enabled,
                    cfg, e, cmd)

\* the list of checks pint runs on entry e (cfg already through ActionSetup)
GetChecksForEntry(cfg, e, cmd) == DispatchFrom(ParsedRules(cfg, e, cmd), 1, <<>>, cfg, e, cmd)

Strs(prs) == [i \in DOMAIN prs |-> prs[i].str]

-----------------------------------------------------------------------------
(* Plain entries used where matching attributes do not matter.              *)
PlainEntry(kind, state) ==
  [kind |-> kind, state |-> state, fileDisabled |-> <<>>, comments |-> <<>>, errReporter |-> "yaml/parse",
   rkind |-> "recording", name |-> "foo", path |-> "rules/r.yml", labels |-> <<>>, glabels |-> <<>>,
   annotations |-> <<>>, for |-> -1, kff |-> -1]
=============================================================================
