SPECIFICATION TraceSpec
CONSTANTS
  N = 3
  MaxFaults = 3
  TwoTimeouts = TRUE
CHECK_DEADLOCK FALSE
