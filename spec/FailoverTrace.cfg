SPECIFICATION TraceSpec
CONSTANTS
  N = 3
  MaxFaults = 3
  TwoTimeouts = TRUE
  Extra = {"json503un"}
  Repaired = FALSE
CHECK_DEADLOCK FALSE
