SPECIFICATION TraceSpec
CONSTANTS
  N = 3
  MaxFaults = 3
  TwoTimeouts = TRUE
  Extra = {"json503un"}
CHECK_DEADLOCK FALSE
