SPECIFICATION Spec
CONSTANTS
  MaxBody = 2
  PWs = {1, 2}
  MaxScanJobs = 4
INVARIANTS Inv_ProblemIffLiveDispatched Inv_MaskedCommentsInert Inv_WorkersCommute Inv_Scan
CHECK_DEADLOCK FALSE
