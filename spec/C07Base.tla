------------------------------ MODULE C07Base ------------------------------
(* (rule number, String() of the check) pairs with at least one problem in the base report of the scenario    *)
(* <<number of Prometheus servers, layout>> of DispatchC07. Measured by `vh exec-c07-probe` on the real code: *)
(* this committed file is only the default (pinned tree); lib/props/c07.py overwrites it in the scratch copy   *)
(* of every run with what the tree under test reports.                                                        *)
BasePairsOf(np, layout) == {}
=============================================================================
