----------------------------- MODULE ScanInput -----------------------------
(***************************************************************************)
(* GEN for C11, step 1: the inputs of a lint run that make reports tie.    *)
(* An input is a configuration variant, a sequence of rule kinds and       *)
(* whether the same rules are also present in a second file.               *)
(*   clean   nothing to report                                             *)
(*   bare    alert without labels/annotations: with a configuration four   *)
(*           checks (2 x rule/label, 2 x alerts/annotation) report on the  *)
(*           same lines - one report per job, same reporter pairwise       *)
(*   tmpl    two alerts/template problems of ONE job that differ only in   *)
(*           the position of a diagnostic, each with two diagnostics       *)
(*   regexp  two promql/regexp problems of one job; the same text in every *)
(*           rule of this kind (duplicates across rules)                   *)
(*   agg     recording rule stripping two required labels: two             *)
(*           promql/aggregate jobs whose reports share their first         *)
(*           diagnostic                                                    *)
(*   broken  rule without expr: yaml/parse, no diagnostics                 *)
(*   both    bare + regexp problems on one rule                            *)
(*   ovr     alert overriding the label `team` (the group may set it: grp) *)
(*   smelly  selectors promql/regexp calls smelly; every configuration has *)
(*           check "promql/regexp" { smelly = false } (settings shared by  *)
(*           all workers)                                                  *)
(* sym: the second file is a symbolic link to the first one - the same     *)
(*      problems under two Path.Name with one Path.SymlinkTarget           *)
(* cfg: none (defaults) | same (every configured check warns; two blocks   *)
(*      require the label team, so two jobs report the identical problem) *)
(*      | mixed (the same checks at different severities)                  *)
(* grp: the group carries labels team/tier which rules inherit or override *)
(***************************************************************************)
EXTENDS Naturals, Sequences, TLC, Json

CONSTANTS MaxRules, Kinds, Cfgs, Twos, Grps, Syms

VARIABLES cfg, rules, two, grp, sym
vars == <<cfg, rules, two, grp, sym>>

Init == cfg \in Cfgs /\ two \in Twos /\ grp \in Grps /\ sym \in Syms /\ (sym => two) /\ rules = <<>>
AddRule(k) == Len(rules) < MaxRules /\ rules' = Append(rules, k) /\ UNCHANGED <<cfg, two, grp, sym>>
Next == \E k \in Kinds : AddRule(k)
Spec == Init /\ [][Next]_vars

EmitCase == Len(rules) = 0 \/ PrintT(<<"CASE", ToJson([cfg |-> cfg, rules |-> rules, two |-> two, grp |-> grp, sym |-> sym])>>)
=============================================================================
