----------------------------- MODULE PromClient -----------------------------
(***************************************************************************)
(* The Prometheus client of pint: internal/promapi.                        *)
(*                                                                         *)
(* Impl side : one action per critical section / channel operation of      *)
(*   keylock.go      partitionLocker.lock / unlock        Lock, Unlock     *)
(*                   (also taken by processJob)           WLock, WUnlock   *)
(*   query.go, config.go, flags.go, metadata.go           Enqueue          *)
(*   range.go        RangeQuery: one goroutine per slice, Enqueue (fan-out)*)
(*                   no lock per slice, cancel on error   cancelled        *)
(*   prometheus.go   StartWorkers / queryWorker           Dequeue, Send    *)
(*                   processJob                           CacheGet,        *)
(*                                                        StartRequest,    *)
(*                                                        EndOk, EndErr,   *)
(*                                                        CacheSet         *)
(*   cache.go        queryCache.get / set / gc, now()     CacheGet,        *)
(*                                                        CacheSet, Evict, *)
(*                                                        Advance          *)
(*   A question (instant query, config, flags, metadata, range query) has  *)
(*   ONE lock key (LockKeyOf) and fans out into one or more requests       *)
(*   (ReqsOf; several only for a range query = its aligned slices). The    *)
(*   request key is the cache key and is what the server sees.             *)
(*                                                                         *)
(* Doc side  : the property statement of C14, on what the SERVER sees      *)
(*   (inflight, nreq, nfail, nexp) and on what CALLERS receive (reply):    *)
(*   NoTwin, Bounded, Once, Agree.                                         *)
(*                                                                         *)
(* processJob is serialised per cache key (WLock / WUnlock on "job/<key>"): *)
(* the repair of finding F10 (commit 07edeb9). Without these two actions   *)
(* the scenario "f10" of PromClientMC violates NoTwin, Once and Agree.     *)
(***************************************************************************)
EXTENDS Integers, Sequences, FiniteSets, TLC

CONSTANTS Callers,     \* goroutines calling Query / RangeQuery / Config / Flags / Metadata
          Workers,     \* query workers; Cardinality(Workers) = `concurrency`
          Questions,   \* distinct questions
          LockKeyOf,   \* [Questions -> STRING]           key passed to partitionLocker.lock
          ReqsOf,      \* [Questions -> SUBSET STRING]    cache keys of the requests it fans out into
          QueueCap,    \* capacity of prom.queries (= concurrency * 10 in the code)
          MaxFail,     \* bound on injected request failures
          MaxExpire,   \* bound on clock advances (each may expire entries)
          TTLOf,       \* [STRING -> Nat]  querier.CacheTTL() per request key
          MaxStale,    \* queryCache.maxStale: entries not looked up for this long are evicted by gc
          Advances     \* SUBSET Nat: amounts by which the environment lets time pass

VARIABLES ask,        \* [Callers -> Questions]
          cpc,        \* caller pc: "wantLock" | "locked" | "done"
          clk,        \* lock key the caller holds
          sent,       \* request keys the caller has put on the queue
          got,        \* {<<key, result>>} received so far
          cancelled,  \* the caller's context was cancelled (a slice failed)
          reply,      \* what the call returned
          locked,     \* partitionLocker.s
          queue,      \* prom.queries
          mail,       \* results on their way through job.result channels: [job -> result]
          wpc, wjob, wres,   \* worker pc / job in hand / result in hand
          cache,      \* queryCache.entries: function, DOMAIN = keys present,
                      \*   value = [v: answer version, exp: expiresAt, last: lastGet]
          now,        \* queryCache.now(): the clock
          inflight,   \* {<<worker, key>>} requests between StartRequest and End*   (= server side in flight)
          nreq, nfail, nexp,  \* per key: requests the server saw, failed requests, expiries (history)
          budget      \* <<failures left, expiries left>>

cvars == <<ask, cpc, clk, sent, got, cancelled, reply>>
wvars == <<wpc, wjob, wres>>
hvars == <<nreq, nfail, nexp, budget>>
vars  == <<cvars, locked, queue, mail, wvars, cache, now, inflight, hvars>>

-----------------------------------------------------------------------------
Err    == [ok |-> FALSE, v |-> 0]
Ok(n)  == [ok |-> TRUE, v |-> n]
Get(f, k) == IF k \in DOMAIN f THEN f[k] ELSE 0
Inc(f, k) == (k :> (Get(f, k) + 1)) @@ f
Without(f, k) == [x \in DOMAIN f \ {k} |-> f[x]]
SliceKey(k) == "job/" \o k
Job(w) == wjob[w][1]
KeysOf(s) == {g[1] : g \in s}
RemoveAt(s, i) == [j \in 1..(Len(s) - 1) |-> IF j < i THEN s[j] ELSE s[j + 1]]
IndexOf(s, x) == CHOOSE i \in 1..Len(s) : s[i] = x
InQueue(x) == \E i \in 1..Len(queue) : queue[i] = x
NoReply == [done |-> FALSE, ok |-> FALSE, ans |-> {}]
EmptyFn == [x \in {} |-> 0]
AfterRun == "wunlock"

Init ==
  /\ ask \in [Callers -> Questions]
  /\ cpc = [c \in Callers |-> "wantLock"]
  /\ clk = [c \in Callers |-> ""]
  /\ sent = [c \in Callers |-> {}]
  /\ got = [c \in Callers |-> {}]
  /\ cancelled = [c \in Callers |-> FALSE]
  /\ reply = [c \in Callers |-> NoReply]
  /\ locked = {}
  /\ queue = <<>>
  /\ mail = EmptyFn
  /\ wpc = [w \in Workers |-> "idle"]
  /\ wjob = [w \in Workers |-> <<>>]
  /\ wres = [w \in Workers |-> Err]
  /\ cache = EmptyFn
  /\ now = 0
  /\ inflight = {}
  /\ nreq = EmptyFn /\ nfail = EmptyFn /\ nexp = EmptyFn
  /\ budget = <<MaxFail, MaxExpire>>

-----------------------------------------------------------------------------
(* Every action X is XG (its enabling condition, a state predicate) and its effect; the trace      *)
(* specification evaluates XG to tell "the code took a step the model does not allow" (drift)      *)
(* from a step it can follow.                                                                      *)
-----------------------------------------------------------------------------
(* Callers                                                                 *)

\* partitionLocker.lock: wait until the key is free, then take it (one critical section)
LockG(c, lk) == cpc[c] = "wantLock" /\ lk \notin locked
Lock(c, lk) ==
  /\ LockG(c, lk)
  /\ locked' = locked \cup {lk}
  /\ clk' = [clk EXCEPT ![c] = lk]
  /\ cpc' = [cpc EXCEPT ![c] = "locked"]
  /\ UNCHANGED <<ask, sent, got, cancelled, reply, queue, mail, wvars, cache, now, inflight, hvars>>

\* prom.queries <- queryRequest{...}   (one per question; one per slice for a range query, each
\* from its own goroutine and without taking the locker)
EnqueueG(c, k) == cpc[c] = "locked" /\ k \notin sent[c]
Enqueue(c, k) ==
  /\ EnqueueG(c, k)
  /\ sent' = [sent EXCEPT ![c] = @ \cup {k}]
  /\ queue' = Append(queue, [caller |-> c, key |-> k])
  /\ UNCHANGED <<ask, cpc, clk, got, cancelled, reply, locked, mail, wvars, cache, now, inflight, hvars>>

\* result := <-resultChan ; in RangeQuery a failed slice cancels the context of the others
ReceiveG(c, j) == j.caller = c /\ cpc[c] = "locked" /\ j \in DOMAIN mail
Receive(c, j) ==
  /\ ReceiveG(c, j)
  /\ got' = [got EXCEPT ![c] = @ \cup {<<j.key, mail[j]>>}]
  /\ cancelled' = [cancelled EXCEPT ![c] = @ \/ ~mail[j].ok]
  /\ mail' = Without(mail, j)
  /\ UNCHANGED <<ask, cpc, clk, sent, reply, locked, queue, wvars, cache, now, inflight, hvars>>

\* all results collected -> the deferred partitionLocker.unlock runs and the call returns
UnlockG(c) == cpc[c] = "locked" /\ sent[c] # {} /\ KeysOf(got[c]) = sent[c]
Unlock(c) ==
  /\ UnlockG(c)
  /\ locked' = locked \ {clk[c]}
  /\ reply' = [reply EXCEPT ![c] = [done |-> TRUE,
                                    ok   |-> \A g \in got[c] : g[2].ok,
                                    ans  |-> {<<g[1], g[2].v>> : g \in got[c]}]]
  /\ cpc' = [cpc EXCEPT ![c] = "done"]
  /\ UNCHANGED <<ask, clk, sent, got, cancelled, queue, mail, wvars, cache, now, inflight, hvars>>

-----------------------------------------------------------------------------
(* Workers: queryWorker / processJob                                       *)

\* for job := range queries
DequeueG(w, j) == wpc[w] = "idle" /\ InQueue(j)
Dequeue(w, j) ==
  /\ DequeueG(w, j)
  /\ queue' = RemoveAt(queue, IndexOf(queue, j))
  /\ wjob' = [wjob EXCEPT ![w] = <<j>>]
  /\ wpc' = [wpc EXCEPT ![w] = "wantSlice"]
  /\ UNCHANGED <<cvars, locked, mail, wres, cache, now, inflight, hvars>>

\* processJob: prom.locker.lock("job/" + cacheKey)
WLockG(w, lk) == wpc[w] = "wantSlice" /\ lk \notin locked
WLock(w, lk) ==
  /\ WLockG(w, lk)
  /\ locked' = locked \cup {lk}
  /\ wpc' = [wpc EXCEPT ![w] = "got"]
  /\ UNCHANGED <<cvars, queue, mail, wjob, wres, cache, now, inflight, hvars>>

\* prom.cache.get(cacheKey)
CacheGetG(w) == wpc[w] = "got"
CacheGet(w) ==
  /\ CacheGetG(w)
  /\ LET k == Job(w).key IN
     IF k \in DOMAIN cache          \* get() does not look at expiresAt: only gc removes entries
     THEN /\ wres' = [wres EXCEPT ![w] = Ok(cache[k].v)]
          /\ cache' = [cache EXCEPT ![k].last = now]
          /\ wpc' = [wpc EXCEPT ![w] = AfterRun]
     ELSE /\ wpc' = [wpc EXCEPT ![w] = "miss"]
          /\ UNCHANGED <<wres, cache>>
  /\ UNCHANGED <<cvars, locked, queue, mail, wjob, now, inflight, hvars>>

\* job.query.Run(): the request leaves for the server
StartRequestG(w) == wpc[w] = "miss"
StartRequest(w) ==
  /\ StartRequestG(w)
  /\ LET k == Job(w).key IN
     /\ inflight' = inflight \cup {<<w, k>>}
     /\ nreq' = Inc(nreq, k)
     /\ wres' = [wres EXCEPT ![w] = Ok(Get(nreq, k) + 1)]    \* the answer carries the request's serial
  /\ wpc' = [wpc EXCEPT ![w] = "running"]
  /\ UNCHANGED <<cvars, locked, queue, mail, wjob, cache, now, nfail, nexp, budget>>

EndOkG(w) == wpc[w] = "running"
EndOk(w) ==
  /\ EndOkG(w)
  /\ inflight' = inflight \ {<<w, Job(w).key>>}
  /\ wpc' = [wpc EXCEPT ![w] = "ok"]
  /\ UNCHANGED <<cvars, locked, queue, mail, wjob, wres, cache, now, hvars>>

\* server-side failure (bounded by MaxFail) or the caller's context was cancelled
EndErrG(w) == wpc[w] = "running" /\ (budget[1] > 0 \/ cancelled[Job(w).caller])
EndErr(w) ==
  /\ EndErrG(w)
  /\ inflight' = inflight \ {<<w, Job(w).key>>}
  /\ nfail' = Inc(nfail, Job(w).key)
  /\ budget' = IF cancelled[Job(w).caller] THEN budget ELSE <<budget[1] - 1, budget[2]>>
  /\ wres' = [wres EXCEPT ![w] = Err]
  /\ wpc' = [wpc EXCEPT ![w] = AfterRun]
  /\ UNCHANGED <<cvars, locked, queue, mail, wjob, cache, now, nreq, nexp>>

\* prom.cache.set(cacheKey, result, ttl)  - successful answers only
CacheSetG(w) == wpc[w] = "ok"
CacheSet(w, ttl) ==
  /\ CacheSetG(w)
  /\ cache' = (Job(w).key :> [v |-> wres[w].v, exp |-> now + ttl, last |-> now]) @@ cache
  /\ wpc' = [wpc EXCEPT ![w] = AfterRun]
  /\ UNCHANGED <<cvars, locked, queue, mail, wjob, wres, now, inflight, hvars>>

\* processJob: deferred prom.locker.unlock("job/" + cacheKey)
WUnlockG(w, lk) == wpc[w] = "wunlock" /\ lk \in locked
WUnlock(w, lk) ==
  /\ WUnlockG(w, lk)
  /\ locked' = locked \ {lk}
  /\ wpc' = [wpc EXCEPT ![w] = "reply"]
  /\ UNCHANGED <<cvars, queue, mail, wjob, wres, cache, now, inflight, hvars>>

\* job.result <- result. The channel is unbuffered and its reader (the caller, or the slice
\* goroutine) is always receiving, so the rendezvous is modelled as send-then-receive.
SendG(w) == wpc[w] = "reply"
Send(w) ==
  /\ SendG(w)
  /\ mail' = (Job(w) :> wres[w]) @@ mail
  /\ wpc' = [wpc EXCEPT ![w] = "idle"]
  /\ wjob' = [wjob EXCEPT ![w] = <<>>]
  /\ UNCHANGED <<cvars, locked, queue, wres, cache, now, inflight, hvars>>

\* environment: time passes
AdvanceG(d) == budget[2] > 0
Advance(d) ==
  /\ AdvanceG(d)
  /\ now' = now + d
  /\ budget' = <<budget[1], budget[2] - 1>>
  /\ UNCHANGED <<cvars, locked, queue, mail, wvars, cache, inflight, nreq, nfail, nexp>>

\* queryCache.gc (cacheCleaner tick / CleanCache): an entry goes when its TTL is over or when nobody
\* looked it up for maxStale. (gc removes all such entries in one critical section; one per step here.)
Evictable(k) == k \in DOMAIN cache /\ (cache[k].exp < now \/ now - cache[k].last >= MaxStale)
EvictG(k) == Evictable(k)
Evict(k) ==
  /\ EvictG(k)
  /\ cache' = Without(cache, k)
  /\ nexp' = Inc(nexp, k)
  /\ UNCHANGED <<cvars, locked, queue, mail, wvars, now, inflight, nreq, nfail, budget>>

AllDone == \A c \in Callers : cpc[c] = "done"
Terminated == AllDone /\ UNCHANGED vars

-----------------------------------------------------------------------------
CallerNext(c) ==
  \/ Lock(c, LockKeyOf[ask[c]])
  \/ \E k \in ReqsOf[ask[c]] : Len(queue) < QueueCap /\ Enqueue(c, k)
  \/ \E j \in DOMAIN mail : Receive(c, j)
  \/ sent[c] = ReqsOf[ask[c]] /\ Unlock(c)

WorkerNext(w) ==
  \/ queue # <<>> /\ Dequeue(w, Head(queue))
  \/ wjob[w] # <<>> /\ WLock(w, SliceKey(Job(w).key))
  \/ CacheGet(w) \/ StartRequest(w) \/ EndOk(w) \/ EndErr(w)
  \/ wjob[w] # <<>> /\ CacheSet(w, TTLOf[Job(w).key])
  \/ wjob[w] # <<>> /\ WUnlock(w, SliceKey(Job(w).key))
  \/ Send(w)

Next ==
  \/ \E c \in Callers : CallerNext(c)
  \/ \E w \in Workers : WorkerNext(w)
  \/ \E d \in Advances : Advance(d)
  \/ \E k \in DOMAIN cache : Evict(k)
  \/ Terminated

Spec == Init /\ [][Next]_vars

\* liveness: every caller returns (no Expire / failures needed; fairness on callers and workers)
Fairness == /\ \A c \in Callers : WF_vars(CallerNext(c))
            /\ \A w \in Workers : WF_vars(WorkerNext(w))
LiveSpec == Spec /\ Fairness
Termination == <>AllDone

-----------------------------------------------------------------------------
(* Doc side: C14                                                           *)

AllKeys == UNION {ReqsOf[q] : q \in Questions}

\* identical requests are never in flight at the same time
NoTwin == \A a, b \in inflight : a[2] = b[2] => a = b
\* requests in flight never exceed `concurrency`
Bounded == Cardinality(inflight) <= Cardinality(Workers)
\* a successful answer is reused: a key is requested at most once, plus once per failure / expiry
Once == \A k \in DOMAIN nreq : nreq[k] <= 1 + Get(nfail, k) + Get(nexp, k)
\* all callers of one question receive equal results (while nothing they asked for expired)
Agree == \A a, b \in Callers :
           (/\ reply[a].done /\ reply[b].done /\ reply[a].ok /\ reply[b].ok
            /\ ask[a] = ask[b]
            /\ \A k \in ReqsOf[ask[a]] : Get(nexp, k) = 0)
           => reply[a].ans = reply[b].ans

\* supporting invariants of the impl side
LockExclusive == \A a, b \in Callers :
                   (cpc[a] = "locked" /\ cpc[b] = "locked" /\ clk[a] = clk[b]) => a = b
QueueBounded == Len(queue) <= QueueCap
TypeOK ==
  /\ \A c \in Callers : cpc[c] \in {"wantLock", "locked", "done"}
  /\ \A w \in Workers : wpc[w] \in {"idle", "wantSlice", "got", "miss", "running", "ok", "wunlock", "reply"}
  /\ \A w \in Workers : (wpc[w] = "idle") <=> (wjob[w] = <<>>)

\* VIEW for the larger MC configurations: the history counters only feed Once/Agree; the
\* configurations that use the view say so in the notes (it can merge states that differ in history).
NoHistoryView == <<cvars, locked, queue, mail, wvars, cache, now, inflight>>
=============================================================================
