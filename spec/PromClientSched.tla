--------------------------- MODULE PromClientSched ---------------------------
(***************************************************************************)
(* GEN for schedule replay (C14): the behaviours of the small instance of  *)
(* PromClient, with the sequence of actions kept in the history variable h *)
(* (no VIEW: distinct behaviours are distinct states). TLC simulates       *)
(* behaviours; each complete one (every caller returned) leaves TLC as one *)
(* CASE line and is then driven into the real goroutines through the gate *)
(* of hook H3: the controller releases exactly the actor of the next       *)
(* action.                                                                 *)
(* Callers and Workers are integers here (they become indices in JSON).    *)
(* Receive of an instant question needs no release of its own: the real    *)
(* caller takes the result and unlocks without a gate in between. For a    *)
(* range query Receive releases the slice goroutine, which cancels the     *)
(* sibling slices when its result is an error. The `hit` field of the      *)
(* StartRequest / EndErr labels says whether the caller was cancelled at   *)
(* that point (then the request never leaves / is abandoned by the client).*)
(* EndOk of a cancelled caller's request is excluded here: the replayed    *)
(* server holds every answer, so a cancelled client cannot receive one.    *)
(***************************************************************************)
EXTENDS PromClientMC, Json

VARIABLES h, fin
svars == <<vars, h, fin>>

Lab(a, x, c, k, hit) == [a |-> a, x |-> x, c |-> c, k |-> k, hit |-> hit]

SInit == Init /\ h = <<>> /\ fin = FALSE

Do(A, lab) == A /\ h' = Append(h, lab) /\ UNCHANGED fin

SCaller(c) ==
  \/ Do(Lock(c, LockKeyOf[ask[c]]), Lab("Lock", c, c, LockKeyOf[ask[c]], FALSE))
  \/ \E k \in ReqsOf[ask[c]] : Len(queue) < QueueCap /\ Do(Enqueue(c, k), Lab("Enqueue", c, c, k, FALSE))
  \/ \E j \in DOMAIN mail : Do(Receive(c, j), Lab("Receive", c, c, j.key, FALSE))
  \/ sent[c] = ReqsOf[ask[c]] /\ Do(Unlock(c), Lab("Unlock", c, c, "", FALSE))

SWorker(w) ==
  \/ queue # <<>> /\ Do(Dequeue(w, Head(queue)), Lab("Dequeue", w, Head(queue).caller, Head(queue).key, FALSE))
  \/ wjob[w] # <<>> /\ Do(WLock(w, SliceKey(Job(w).key)), Lab("WLock", w, Job(w).caller, Job(w).key, FALSE))
  \/ wjob[w] # <<>> /\ Do(CacheGet(w), Lab("CacheGet", w, Job(w).caller, Job(w).key, Job(w).key \in DOMAIN cache))
  \/ wjob[w] # <<>> /\ Do(StartRequest(w), Lab("StartRequest", w, Job(w).caller, Job(w).key, cancelled[Job(w).caller]))
  \/ wjob[w] # <<>> /\ ~cancelled[Job(w).caller] /\ Do(EndOk(w), Lab("EndOk", w, Job(w).caller, Job(w).key, FALSE))
  \/ wjob[w] # <<>> /\ Do(EndErr(w), Lab("EndErr", w, Job(w).caller, Job(w).key, cancelled[Job(w).caller]))
  \/ wjob[w] # <<>> /\ Do(CacheSet(w, TTLOf[Job(w).key]), Lab("CacheSet", w, Job(w).caller, Job(w).key, FALSE))
  \/ wjob[w] # <<>> /\ Do(WUnlock(w, SliceKey(Job(w).key)), Lab("WUnlock", w, Job(w).caller, Job(w).key, FALSE))
  \/ wjob[w] # <<>> /\ Do(Send(w), Lab("Send", w, Job(w).caller, Job(w).key, FALSE))

SNext ==
  \/ \E c \in Callers : SCaller(c)
  \/ \E w \in Workers : SWorker(w)
  \/ AllDone /\ ~fin /\ fin' = TRUE /\ UNCHANGED <<vars, h>>

SSpec == SInit /\ [][SNext]_svars

\* one line per complete behaviour
EmitBehaviour ==
  IF fin THEN PrintT(<<"CASE", ToJson([ask |-> ask, h |-> h, k |-> Cardinality(Callers), c |-> Cardinality(Workers)])>>) ELSE TRUE
\* the property is checked along the way as well (the pinned variant holds in the instant scenario)
SchedInv == NoTwin /\ Bounded /\ Once /\ Agree
=============================================================================
