SPECIFICATION TraceSpec
CONSTANTS
  MustExpandTotal = TRUE
  Full = TRUE
CHECK_DEADLOCK FALSE
