--------------------------- MODULE LabelFlowTrace ---------------------------
(***************************************************************************)
(* JUDGE for C04 and C12. One record per generated expression, all fields  *)
(* recorded from real code by `vh exec-lflow`:                             *)
(*   branches  projection of utils.LabelsSource (+ per branch the labels   *)
(*             the real Source.CanHaveLabel denies)                        *)
(*   tmpl      labels the real alerts/template check reports as missing    *)
(*   sets      distinct label-name sets seen on series the real PromQL     *)
(*             engine returned over the database family (with a witness)   *)
(*   conc      a few complete engine results                               *)
(*   c12       per binary sub-expression with a new promql/impossible      *)
(*             problem: how often the engine returned series for it / a    *)
(*             result different from its left operand on premise databases *)
(* Verdicts (VIOL) use recorded real outputs only. Binding: the recorded   *)
(* branches must equal Abs(e) (DRIFT) and the recorded engine results must *)
(* equal the specification's own PromQL semantics (CONC).                  *)
(***************************************************************************)
EXTENDS LabelFlow

TraceLog == ndJsonDeserialize("lflow_trace.ndjson")

VARIABLES l, done
tvars == <<vars, l, done>>

Rec == TraceLog[l]

ToSet(q) == {q[i] : i \in DOMAIN q}

RECURSIVE NormE(_)
NormE(e) ==
  CASE e.k \in {"sel", "num", "time"} -> e
    [] e.k \in {"vec", "fn"} -> [e EXCEPT !.e = NormE(@)]
    [] e.k = "agg" -> [e EXCEPT !.ls = ToSet(@), !.e = NormE(@)]
    [] e.k = "bin" -> [e EXCEPT !.ls = ToSet(@), !.inc = ToSet(@), !.l = NormE(@), !.r = NormE(@)]

RECURSIVE NormB(_)
NormB(b) == [inc |-> ToSet(b.inc), exc |-> ToSet(b.exc), gua |-> ToSet(b.gua), fixed |-> b.fixed, dead |-> b.dead,
             always |-> b.always, known |-> b.known, val |-> b.val, ret |-> b.ret, cond |-> b.cond,
             joins |-> SeqMap(b.joins, NormB), unl |-> SeqMap(b.unl, NormB)]

\* normalised shape of an expression: operators and functions, no matchers / label lists
RECURSIVE Shape(_)
Shape(e) ==
  CASE e.k \in {"sel", "num", "time"} -> e.k
    [] e.k = "vec" -> "vector(" \o Shape(e.e) \o ")"
    [] e.k = "fn"  -> e.f \o "(" \o Shape(e.e) \o ")"
    [] e.k = "agg" -> e.op \o "_" \o e.mod \o "(" \o Shape(e.e) \o ")"
    [] e.k = "bin" -> "(" \o Shape(e.l) \o " " \o e.op \o (IF e.bool THEN "_bool " ELSE " ") \o Shape(e.r) \o ")"

RECURSIVE SubExpr(_, _, _)
SubExpr(e, path, i) ==
  IF i > Len(path) THEN e
  ELSE SubExpr(CASE path[i] = "l" -> e.l [] path[i] = "r" -> e.r [] path[i] = "e" -> e.e, path, i + 1)

TraceInit == stk = <<>> /\ l = 1 /\ done = FALSE

-----------------------------------------------------------------------------
\* C04 (ii): some returned series is inconsistent with every live branch
LiveOK(rec, names) == \E i \in 1..Len(rec.branches) :
                         ~rec.branches[i].dead /\ ToSet(rec.branches[i].cannot) \cap names = {}
C04ii(rec) == {i \in 1..Len(rec.sets) : ~LiveOK(rec, ToSet(rec.sets[i].names))}
\* C04 (i): a single-branch query, the template check says label x is missing, a returned series carries it
C04i(rec) == IF Len(rec.branches) = 1
             THEN {p \in ToSet(rec.tmpl) \X (1..Len(rec.sets)) : p[1] \in ToSet(rec.sets[p[2]].names)}
             ELSE {}

\* C12
C12Judged(c, f) == f.kind \in {"or", "unless"} \/ (~c.lor /\ ~c.ror)
C12Bad(c, f) == /\ f.kind \notin {"unknown", "inherited"}
                /\ C12Judged(c, f)
                /\ IF ExpectEmpty(f.kind, c.op) THEN c.nonempty > 0 ELSE c.differs > 0
\* ---- causes: why pint's claim is wrong, in terms of the abstract case (part of the violation signature) ----
\* constructs that change a sample value or turn "returns something" around, which the analysis carries
\* AlwaysReturns / KnownReturn / ReturnedNumber through unchanged
RECURSIVE Hazards(_)
Hazards(e) ==
  CASE e.k \in {"sel", "num", "time"} -> {}
    [] e.k = "vec" -> Hazards(e.e)
    [] e.k = "fn"  -> Hazards(e.e) \cup (CASE e.f \in {"absent", "absentot"} -> {"absent"} [] e.f = "neg" -> {"neg"}
                                           [] e.f = "abs" -> {"abs"} [] OTHER -> {})
    [] e.k = "agg" -> Hazards(e.e) \cup (IF e.op \in {"count", "cv"} THEN {"count"} ELSE {})
                                   \cup (IF e.op = "group" THEN {"group"} ELSE {})
    [] e.k = "bin" -> Hazards(e.l) \cup Hazards(e.r) \cup (IF IsCmp(e.op) /\ e.bool THEN {"boolcmp"} ELSE {})
                                     \cup (IF e.op \in {"and", "unless"} THEN {"filter"} ELSE {})
                                     \* <scalar> cmp <vector> keeps the vector's sample value, the folding takes the scalar
                                     \cup (IF IsCmp(e.op) /\ ~e.bool /\ Ty(e.l) = "s" /\ Ty(e.r) = "v" THEN {"scalarcmp"} ELSE {})
HazardOrder == <<"abs", "absent", "boolcmp", "count", "filter", "group", "neg", "scalarcmp">>
RECURSIVE JoinFrom(_, _)
JoinFrom(S, i) == IF i > Len(HazardOrder) THEN ""
                  ELSE (IF HazardOrder[i] \in S THEN HazardOrder[i] \o "," ELSE "") \o JoinFrom(S, i + 1)
HazardStr(S) == "[" \o JoinFrom(S, 1) \o "]"
\* absent(<selector with l="">) somewhere in e: pint guarantees l on it, Prometheus gives it no such label
RECURSIVE AbsentOfEmpty(_, _)
AbsentOfEmpty(e, lbl) ==
  CASE e.k \in {"sel", "num", "time"} -> FALSE
    [] e.k = "bin" -> AbsentOfEmpty(e.l, lbl) \/ AbsentOfEmpty(e.r, lbl)
    [] e.k = "fn" /\ e.f \in {"absent", "absentot"} /\ e.e.k = "sel" ->
         (lbl = "a" /\ e.e.ma = "empty") \/ (lbl = "b" /\ e.e.mb = "empty")
    [] OTHER -> AbsentOfEmpty(e.e, lbl)

\* label_replace(x, lbl, "", ...) somewhere in e: the empty replacement removes lbl. "own": only label_replace's own
\* guarantee puts lbl on the result (x cannot have it: F37); "below": x itself can have lbl according to the analysis,
\* which has no way to say that it was removed afterwards
RECURSIVE ReplacedByEmpty(_, _)
ReplacedByEmpty(e, lbl) ==
  CASE e.k \in {"sel", "num", "time"} -> "no"
    [] e.k = "bin" -> LET x == ReplacedByEmpty(e.l, lbl) IN IF x # "no" THEN x ELSE ReplacedByEmpty(e.r, lbl)
    [] e.k = "fn" /\ e.f = "lrep" /\ e.dst = lbl /\ e.repl = "" ->
         IF \E i \in 1..Len(Abs(e.e)) : CanHaveLabel(Abs(e.e)[i], lbl) THEN "below" ELSE "own"
    [] OTHER -> ReplacedByEmpty(e.e, lbl)

Cause(b, c, f) ==
  CASE f.kind = "join" ->
         (CASE b.vm = "ign" /\ f.label \in b.ls -> "label-is-ignored"
            [] b.vm = "on" /\ f.label \in ToSet(IF b.grp = "right" THEN c.rcannot ELSE c.lcannot) -> "on-label-on-neither-side"
            [] AbsentOfEmpty(IF b.grp = "right" THEN b.r ELSE b.l, f.label) -> "absent-of-empty-matcher"
            [] ReplacedByEmpty(IF b.grp = "right" THEN b.r ELSE b.l, f.label) = "own" -> "label-replaced-by-empty"
            [] ReplacedByEmpty(IF b.grp = "right" THEN b.r ELSE b.l, f.label) = "below" -> "label-removed-but-still-possible"
            [] OTHER -> "-")
    [] f.kind = "or" -> IF ~(b.vm = "on" /\ b.ls = {}) THEN "or-without-on()" ELSE "lhs-always" \o HazardStr(Hazards(b.l))
    [] f.kind = "unless" -> "rhs-always" \o HazardStr(Hazards(b.r))
    [] f.kind = "static" -> "static" \o HazardStr(Hazards(b))
    [] OTHER -> "-"

\* causes of every promql/impossible problem of the case (a C04 violation may be their consequence)
\* ("ok": the problem is right for data carrying every named label - the premise of C12, which C04 does not have)
CaseCauses(rec, e) ==
  UNION {{[kind |-> rec.c12[i].flags[j].kind,
           cause |-> IF C12Bad(rec.c12[i], rec.c12[i].flags[j])
                     THEN Cause(SubExpr(e, rec.c12[i].path, 1), rec.c12[i], rec.c12[i].flags[j]) ELSE "ok"]
            : j \in 1..Len(rec.c12[i].flags)} : i \in 1..Len(rec.c12)}
\* the series is consistent with a branch the analysis declared dead
ViaDead(rec, names) == \E i \in 1..Len(rec.branches) :
                          rec.branches[i].dead /\ ToSet(rec.branches[i].cannot) \cap names = {}

TCase ==
  /\ l <= Len(TraceLog) /\ Rec.ev = "Case"
  /\ LET e == NormE(Rec.e)
         id == Rec.id
     IN
     \* ---- binding of the impl-shaped side
     /\ IF SeqMap(Rec.branches, NormB) = AbsProj(e) THEN TRUE
        ELSE PrintT(<<"DRIFT", id, ToJson([q |-> Rec.q, expected |-> AbsProj(e), observed |-> SeqMap(Rec.branches, NormB)])>>)
     \* ---- binding of the doc side (PromQL semantics) to the real engine
     /\ \A i \in 1..Len(Rec.conc) :
          LET w == Rec.conc[i]
              x == Conc(e, ToSet(w.db))
              res == CASE x.t = "v" -> x.s [] x.t = "s" -> {NoLabels(x.x)} [] x.t = "err" -> {}
          IN IF (x.t = "err") = w.err /\ res = ToSet(w.res) THEN TRUE
             ELSE PrintT(<<"CONC", id, ToJson([q |-> Rec.q, db |-> w.db, engine |-> w.res, engine_err |-> w.err, model |-> x])>>)
     \* ---- C04 verdicts
     /\ \A i \in C04ii(Rec) :
          PrintT(<<"VIOL", id, ToJson([p |-> "C04", form |-> "ii", names |-> Rec.sets[i].names, q |-> Rec.q, shape |-> Shape(e),
                                       nbranches |-> Len(Rec.branches),
                                       nlive |-> Cardinality({j \in 1..Len(Rec.branches) : ~Rec.branches[j].dead}),
                                       viadead |-> ViaDead(Rec, ToSet(Rec.sets[i].names)), causes |-> CaseCauses(Rec, e),
                                       wit |-> Rec.sets[i].wit])>>)
     /\ \A p \in C04i(Rec) :
          PrintT(<<"VIOL", id, ToJson([p |-> "C04", form |-> "i", label |-> p[1], names |-> Rec.sets[p[2]].names, q |-> Rec.q,
                                       shape |-> Shape(e), nbranches |-> 1, nlive |-> 1, viadead |-> FALSE, causes |-> {},
                                       wit |-> Rec.sets[p[2]].wit])>>)
     \* ---- C12 verdicts
     /\ \A i \in 1..Len(Rec.c12) :
          LET c == Rec.c12[i]
              b == SubExpr(e, c.path, 1)
          IN \A j \in 1..Len(c.flags) :
               LET f == c.flags[j] IN
               /\ IF f.kind # "unknown" THEN TRUE ELSE PrintT(<<"DRIFT", id, ToJson([q |-> c.q, unknown_flag |-> f.msg])>>)
               /\ IF ~C12Bad(c, f) THEN TRUE
                  ELSE PrintT(<<"VIOL", id, ToJson([p |-> "C12", kind |-> f.kind, side |-> f.side, cause |-> Cause(b, c, f),
                                 op |-> b.op, bool |-> b.bool, vm |-> b.vm, ls |-> b.ls, grp |-> b.grp, inc |-> b.inc,
                                 label |-> f.label, shape |-> Shape(b), q |-> c.q, msg |-> f.msg,
                                 nprem |-> c.nprem, nonempty |-> c.nonempty, differs |-> c.differs,
                                 wit |-> IF ExpectEmpty(f.kind, c.op) THEN c.wit_ne ELSE c.wit_diff,
                                 lhs |-> c.lhs_diff])>>)
  /\ l' = l + 1 /\ UNCHANGED <<vars, done>>

TDone ==
  /\ l = Len(TraceLog) + 1 /\ ~done
  /\ done' = TRUE /\ PrintT(<<"DONE", l - 1>>)
  /\ UNCHANGED <<vars, l>>

TraceNext == TCase \/ TDone
TraceSpec == TraceInit /\ [][TraceNext]_tvars
=============================================================================
