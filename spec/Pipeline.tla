------------------------------ MODULE Pipeline ------------------------------
(***************************************************************************)
(* C02 - linting any input terminates with a renderable verdict.           *)
(*                                                                         *)
(* The life of one file inside `pint lint`, as the code stages it:         *)
(*   Read        discovery.readRules / parser.Parse consumed n lines       *)
(*   Parsed      entries: each is a valid recording/alerting rule, a rule   *)
(*               carrying a ParseError, or a path error (file / group /    *)
(*               comment level)                                            *)
(*   Dispatched  config.GetChecksForEntry: the checks every entry gets     *)
(*   Reported    the problems the checks returned (scan.go scanWorker)     *)
(*   Rendered    reporter.Submit for console (colour on/off), JSON,        *)
(*               checkstyle, TeamCity                                      *)
(* There is no Crash and no Hang action: a run that panics or does not     *)
(* return cannot be continued by this machine.                             *)
(*                                                                         *)
(* The predicates below are the promises of the property, in user terms;   *)
(* PipelineTrace evaluates them on what the real code recorded.  This      *)
(* module also lets TLC generate every well-formed run inside small bounds *)
(* and checks that such runs satisfy the promises (shape check of the      *)
(* trace machine itself).                                                  *)
(***************************************************************************)
EXTENDS Naturals, Sequences, FiniteSets, TLC

CONSTANTS MaxLines, MaxEntries

ErrorChecks == {"yaml/parse", "ignore/file", "pint/comment", "rule/owner"}
ValidKinds  == {"recording", "alerting"}
ErrorKinds  == {"invalid", "patherror"}
Formats     == {"console-color", "console-nocolor", "json", "checkstyle", "teamcity"}

\* every entry is a valid rule xor carries an error
EntryOK(e) == (e.kind \in ValidKinds /\ ~e.err) \/ (e.kind \in ErrorKinds /\ e.err)

\* entries with errors are routed to the error check only; valid rules never get it
JobOK(e, cs) ==
  IF e.err THEN Len(cs) = 1 /\ cs[1] \in ErrorChecks
  ELSE \A i \in 1..Len(cs) : cs[i] \notin ErrorChecks

\* every reported line lies inside the file of lines 1..N
LinesOK(r, N) ==
  /\ 1 <= r.first /\ r.first <= r.last /\ r.last <= N
  /\ \A i \in 1..Len(r.dlines) : 1 <= r.dlines[i] /\ r.dlines[i] <= N

\* every parse failure became a report
ErrorsReported(entries, reports) ==
  \A k \in 1..Len(entries) : entries[k].err => \E i \in 1..Len(reports) : reports[i].entry = k

\* every format rendered every report set
RenderedOK(outs) ==
  /\ {outs[i].fmt : i \in 1..Len(outs)} = Formats
  /\ \A i \in 1..Len(outs) : outs[i].ok /\ outs[i].wf

\* one run of the pint binary (`pint lint` with a subset of --teamcity --require-owner --checkstyle F --json F):
\* it ends by itself with exit status 0 or 1, never by a Go panic / fatal error, and every output it wrote is well-formed
BinOK(r) ==
  /\ r.exit \in {0, 1} /\ ~r.panic /\ ~r.timeout
  /\ (r.json.written => r.json.wf)
  /\ (r.checkstyle.written => r.checkstyle.wf)
  /\ (r.teamcity.used => r.teamcity.wf)

-----------------------------------------------------------------------------
VARIABLES pc, n, entries, jobs, reports, outs
vars == <<pc, n, entries, jobs, reports, outs>>

Init == pc = "idle" /\ n = 0 /\ entries = <<>> /\ jobs = <<>> /\ reports = <<>> /\ outs = <<>>

Read(lines) ==
  /\ pc = "idle"
  /\ n' = lines /\ pc' = "read"
  /\ entries' = <<>> /\ jobs' = <<>> /\ reports' = <<>> /\ outs' = <<>>

Parsed(es) ==
  /\ pc = "read"
  /\ entries' = es /\ pc' = "parsed"
  /\ UNCHANGED <<n, jobs, reports, outs>>

Dispatched(js) ==
  /\ pc = "parsed"
  /\ jobs' = js /\ pc' = "dispatched"
  /\ UNCHANGED <<n, entries, reports, outs>>

Reported(rs) ==
  /\ pc = "dispatched"
  /\ reports' = rs /\ pc' = "reported"
  /\ UNCHANGED <<n, entries, jobs, outs>>

Rendered(os) ==
  /\ pc = "reported"
  /\ outs' = os /\ pc' = "rendered"
  /\ UNCHANGED <<n, entries, jobs, reports>>

NextFile == pc = "rendered" /\ pc' = "idle" /\ UNCHANGED <<n, entries, jobs, reports, outs>>

-----------------------------------------------------------------------------
(* Generator of well-formed runs (MC of the machine's shape).              *)
Entry == [kind : ValidKinds, err : {FALSE}] \cup [kind : ErrorKinds, err : {TRUE}]
Seqs(S, k) == UNION {[1..m -> S] : m \in 0..k}
ChecksFor(e) == IF e.err THEN {<<c>> : c \in ErrorChecks} ELSE {<<>>, <<"promql/syntax">>, <<"promql/syntax", "alerts/for">>}
ReportsFor(es) ==
  \* one report per erroneous entry, on some line of the file, plus optionally one for the first valid rule
  LET errs == {k \in 1..Len(es) : es[k].err} IN
  {rs \in Seqs([entry : 1..Len(es), first : 1..n, last : 1..n, dlines : {<<>>}], Len(es)) :
     /\ \A i \in 1..Len(rs) : rs[i].first <= rs[i].last
     /\ \A k \in errs : \E i \in 1..Len(rs) : rs[i].entry = k
     /\ \A i, j \in 1..Len(rs) : i < j => rs[i].entry < rs[j].entry}
AllOut == [i \in 1..5 |-> [fmt |-> CASE i = 1 -> "console-color" [] i = 2 -> "console-nocolor" [] i = 3 -> "json"
                                        [] i = 4 -> "checkstyle" [] OTHER -> "teamcity", ok |-> TRUE, wf |-> TRUE]]

Next ==
  \/ \E l \in 0..MaxLines : Read(l)
  \/ \E es \in Seqs(Entry, MaxEntries) : (n = 0 => es = <<>>) /\ Parsed(es)
  \/ \E js \in {f \in [1..Len(entries) -> Seqs({"promql/syntax", "alerts/for"} \cup ErrorChecks, 2)] :
                  \A k \in 1..Len(entries) : f[k] \in ChecksFor(entries[k])} : Dispatched(js)
  \/ \E rs \in ReportsFor(entries) : Reported(rs)
  \/ Rendered(AllOut)
  \/ NextFile

Spec == Init /\ [][Next]_vars

\* the promises hold in every state of every well-formed run
Inv_Entries  == pc \in {"parsed", "dispatched", "reported", "rendered"} => \A k \in 1..Len(entries) : EntryOK(entries[k])
Inv_Dispatch == pc \in {"dispatched", "reported", "rendered"} => \A k \in 1..Len(entries) : JobOK(entries[k], jobs[k])
Inv_Lines    == pc \in {"reported", "rendered"} => \A i \in 1..Len(reports) : LinesOK(reports[i], n)
Inv_Reported == pc \in {"reported", "rendered"} => ErrorsReported(entries, reports)
Inv_Rendered == pc = "rendered" => RenderedOK(outs)
\* a file is only finished by rendering (liveness is the absence of Crash/Hang, judged on traces)
Inv_Order    == (pc = "idle" /\ outs # <<>>) => RenderedOK(outs)
=============================================================================
