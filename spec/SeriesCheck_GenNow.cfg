SPECIFICATION Spec
CONSTANTS
  Stratum = "now"
INVARIANTS EmitCase Inv_P1 Inv_P2
CHECK_DEADLOCK FALSE
