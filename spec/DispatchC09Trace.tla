-------------------------- MODULE DispatchC09Trace --------------------------
(***************************************************************************)
(* JUDGE for C09. One `Eval` record per configuration and source           *)
(* (in-process dispatch / pint binary): the blocks of the configuration    *)
(* and, for every command x state x block, which corpus rules received     *)
(* the block's marker problem from the real code ('1' / '0' per rule).     *)
(*   verdict (VIOL):  observed = DocApplies(block, rule, cmd)               *)
(*   binding (DRIFT): observed = ImplApplies(block, rule, cmd)             *)
(* Records are independent decisions, so every record is an initial state  *)
(* and TLC judges them in parallel; the driver checks that every record    *)
(* was accepted (2 states per record).                                     *)
(***************************************************************************)
EXTENDS DispatchC09

TraceLog == ndJsonDeserialize("c09_trace.ndjson")

VARIABLES l, judged
tvars == <<vars, l, judged>>

Rec == TraceLog[l]

TraceInit == Init /\ l \in 1..Len(TraceLog) /\ judged = FALSE

Obs(rec, k, b, i) == SubSeq(rec.obs[k][b], i, i) = "1"

\* failing points <<combo index, block, corpus index>>
BadDoc(rec) ==
  UNION {UNION {
     LET blk == rec.blocks[b] c == rec.combos[k][1] st == rec.combos[k][2] IN
     {<<k, b, i>> : i \in {i \in DOMAIN Corpus : Obs(rec, k, b, i) # DocMarkerApplies(rec.blocks, b, WithState(Corpus[i], st), c)}}
     : b \in DOMAIN rec.blocks} : k \in DOMAIN rec.combos}
BadImpl(rec) ==
  UNION {UNION {
     LET blk == rec.blocks[b] c == rec.combos[k][1] st == rec.combos[k][2]
         m == DefaultRuleMatch(blk.match, DefaultMatchStates(c)) IN
     {<<k, b, i>> : i \in {i \in DOMAIN Corpus :
          Obs(rec, k, b, i) # ImplMarkerApplies(rec.blocks, b, WithState(Corpus[i], st), c)}}
     : b \in DOMAIN rec.blocks} : k \in DOMAIN rec.combos}

\* signature material of a failing point: the sub-blocks of the block, command, state, rule
Describe(rec, p) ==
  LET e == Corpus[p[3]] IN
  [block |-> p[2], match |-> rec.blocks[p[2]].match, ignore |-> rec.blocks[p[2]].ignore,
   shared |-> Cardinality(SameMarker(rec.blocks, p[2])) > 1, nblocks |-> Len(rec.blocks), cmd |-> rec.combos[p[1]][1],
   state |-> rec.combos[p[1]][2], src |-> rec.src, observed |-> Obs(rec, p[1], p[2], p[3]), idx |-> p[3],
   rule |-> [rkind |-> e.rkind, name |-> e.name, path |-> e.path, labels |-> e.labels, glabels |-> e.glabels,
             annotations |-> e.annotations, for |-> e.for, kff |-> e.kff]]

\* smallest failing point (deterministic choice)
Least(S) == CHOOSE p \in S : \A q \in S :
              p = q \/ p[2] < q[2] \/ (p[2] = q[2] /\ (p[1] < q[1] \/ (p[1] = q[1] /\ p[3] < q[3])))

TEval ==
  /\ ~judged /\ Rec.ev = "Eval"
  /\ LET bd == BadDoc(Rec) IN
     IF bd = {} THEN TRUE
     ELSE PrintT(<<"VIOL", Rec.id, ToJson([n |-> Cardinality(bd), first |-> Describe(Rec, Least(bd))])>>)
  /\ LET bi == BadImpl(Rec) IN
     IF bi = {} THEN TRUE
     ELSE PrintT(<<"DRIFT", Rec.id, ToJson([n |-> Cardinality(bi), first |-> Describe(Rec, Least(bi))])>>)
  /\ judged' = TRUE /\ UNCHANGED <<vars, l>>

TraceNext == TEval
TraceSpec == TraceInit /\ [][TraceNext]_tvars
=============================================================================
