---------------------------- MODULE PromClientMC ----------------------------
(* Model-checking instances of PromClient. Scenario selects the question set:         *)
(*   "instant"  two instant-style questions (query / config / flags / metadata):      *)
(*              one request each, lock key and request key in 1:1 correspondence      *)
(*   "f10"      two range queries on the same expression and step with different      *)
(*              look-backs: different lock keys, overlapping aligned slices (F10)     *)
(*   "mixed"    one instant question and the two range queries                        *)
EXTENDS PromClient

CONSTANTS Scenario

MCQuestions ==
  CASE Scenario = "instant" -> {"q1", "q2"}
    [] Scenario = "f10"     -> {"r8", "r6"}
    [] Scenario = "range1"  -> {"r8"}
    [] OTHER                -> {"q1", "r8", "r6"}

MCLockKeyOf == [q \in MCQuestions |-> "lock/" \o q]

MCReqsOf == [q \in MCQuestions |->
  CASE q = "r8" -> {"s1", "s2"}        \* the older slice is only in the longer look-back
    [] q = "r6" -> {"s2"}
    [] OTHER    -> {q}]

Symm == Permutations(Callers) \cup Permutations(Workers)
=============================================================================
