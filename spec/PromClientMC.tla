---------------------------- MODULE PromClientMC ----------------------------
(* Model-checking instances of PromClient. Scenario selects the question set:         *)
(*   "instant"  two instant-style questions (query / config / flags / metadata):      *)
(*              one request each, lock key and request key in 1:1 correspondence      *)
(*   "f10"      two range queries on the same expression and step with different      *)
(*              look-backs: different lock keys, overlapping aligned slices (F10)     *)
(*   "mixed"    one instant question and the two range queries                        *)
EXTENDS PromClient

CONSTANTS Scenario

MCQuestions ==
  CASE Scenario = "instant" -> {"q1", "q2"}
    [] Scenario = "f10"     -> {"r8", "r6"}
    [] Scenario = "range1"  -> {"r8"}
    [] Scenario = "replay2" -> {"q1", "r2"}       \* schedule replay: an instant question and a 2-slice range query
    [] Scenario = "replay3" -> {"q1", "r3"}       \* ... and a 3-slice range query
    [] OTHER                -> {"q1", "r8", "r6"}

MCLockKeyOf == [q \in MCQuestions |-> "lock/" \o q]

MCReqsOf == [q \in MCQuestions |->
  CASE q = "r8" -> {"s1", "s2"}        \* the older slice is only in the longer look-back
    [] q = "r6" -> {"s2"}
    [] q = "r2" -> {"s1", "s2"}
    [] q = "r3" -> {"s1", "s2", "s3"}
    [] OTHER    -> {q}]

\* cache lifetimes (abstract minutes): instant-style answers live 5, range slices 10; an advance of 3 keeps
\* everything alive, 7 expires the instant answers only, 70 exceeds maxStale as well
MCTTLOf == [k \in {"q1", "q2", "s1", "s2", "s3"} |-> IF k \in {"q1", "q2"} THEN 5 ELSE 10]
MCMaxStale == 60
MCAdvances == {3, 7, 70}

Symm == Permutations(Callers) \cup Permutations(Workers)
=============================================================================
