SPECIFICATION TraceSpec
CONSTANTS
  MaxBody = 8
  PWs = {1, 2}
  MaxScanJobs = 4
CHECK_DEADLOCK FALSE
