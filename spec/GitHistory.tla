----------------------------- MODULE GitHistory -----------------------------
(***************************************************************************)
(* Change attribution of `pint ci` over branch histories (C03) and the     *)
(* rule/dependency check on removed rules (C20).                           *)
(*                                                                         *)
(* Impl side (transcribes the Go code, one operator per function):         *)
(*   Fold            internal/git/changes.go  Changes: the per-file change *)
(*                   list folded from `git log --name-status` lines        *)
(*                   (getChangeByPath, changesWithout, Before inheritance, *)
(*                   Body.Before at Commits[0]^, Body.After at the last    *)
(*                   commit)                                               *)
(*   MatchEntries    internal/discovery/git_branch.go matchEntries and     *)
(*                   findRulesByName; Identical = parser Rule.IsIdentical, *)
(*                   EntryIdentical = isEntryIdentical                     *)
(*   StateOf         the state switch in GitBranchFinder.Find              *)
(*   Merge           the merge of changed entries into the glob entries by *)
(*                   (path, Rule.IsSame)                                   *)
(*   ImplMarkers     what a per-state rule/report marker then shows        *)
(*   ImplDeps        internal/checks/rule_dependency.go Check              *)
(* Doc side (written from the property statements, independent of the      *)
(* fold): file identities followed through renames (origin/tomb), a direct *)
(* comparison of the fork-point version and the HEAD version of each file  *)
(* (RefAccept), and the reference graph of the HEAD rules (DocDeps).       *)
(* Properties: Inv_C03, Inv_C20.                                           *)
(*                                                                         *)
(* A behaviour first builds the tree at the fork point (phase "fork"),     *)
(* then performs branch commits, one file-level operation per commit       *)
(* (phase "branch"). Every state of phase "branch" is a complete history   *)
(* on which `pint ci` can be run.                                          *)
(***************************************************************************)
EXTENDS Integers, Sequences, FiniteSets, TLC, Json

CONSTANTS
  NPaths,        \* number of file paths in play (1..4); the 4th lies in a directory the configuration excludes
  Kinds,         \* subset of {"rec", "alr"}
  Names,         \* rule names
  Bodies,        \* expression tokens, see Uses
  Labs,          \* label variants
  Cmts,          \* rule-level control comment variants, "none" = no comment
  Pads,          \* filler in front of a rule: 0 nothing, 1 blank line, 2 plain comment line
  Exts,          \* further fields of alerting rules: "x0" none, "x1" `for: 5m`, "x2" an annotations map
  MaxRules,      \* rules per file
  MaxForkRules,  \* rules in the fork tree
  MaxCommits,    \* branch commits
  MaxBaseAdv,    \* commits on the base branch after the fork
  OpSet,         \* enabled operation kinds
  ForkFdis,      \* BOOLEAN: fork files may carry a file/disable comment
  TombRename,    \* BOOLEAN: a file may be renamed onto a path deleted earlier on the branch (no verdict then, binding only)
  MatchMode      \* "greedy" (matchEntries as originally pinned) | "twopass" (pint 5626418, fixes/f5-matchentries.patch);
                 \* the driver probes the tree under test and picks the variant; JUDGE evaluates both

\* file paths in lexical order (the order filepath.Glob/WalkDir yields them)
PathOrder == SubSeq(<<"a.yml", "b.yml", "c.yml", "drafts/d.yml">>, 1, NPaths)
\* parser { exclude = ["^drafts/.*"] }: git.PathFilter.IsPathAllowed is false for these
Excluded == {"drafts/d.yml"}
Paths == {PathOrder[i] : i \in 1..Len(PathOrder)}
NoPath == ""          \* git.Path.Name == ""
Fresh  == "new"       \* identity of a file that has no version at the fork point

Rule == {r \in [kind : Kinds, name : Names, body : Bodies, lab : Labs, cmt : Cmts, pad : Pads, ext : Exts] :
           r.kind = "rec" => r.ext = "x0"}
NewRules == {r \in Rule : r.cmt = "none" /\ r.pad = 0}
AbsentFile == [present |-> FALSE, fdis |-> FALSE, rules |-> <<>>]
EmptyFile  == [present |-> TRUE, fdis |-> FALSE, rules |-> <<>>]

VARIABLES
  phase,     \* "fork" | "branch"
  fork,      \* [Paths -> File]  tree at the fork point
  tree,      \* [Paths -> File]  working tree of the branch after the commits so far
  changes,   \* Impl: []*git.FileChange as folded so far
  origin,    \* Doc: [Paths -> path at the fork point whose file now lives here | Fresh | NoPath (no file)]
  tomb,      \* Doc: [Paths -> identity of the file deleted at this path and not replaced since | NoPath]
  ambig,     \* Doc: a file was renamed onto a path deleted earlier on the branch - the statement does not say which
             \*      file the new one continues, so nothing is claimed about such histories
  prevTree,  \* tree before the last branch commit (RevertLast)
  lastNS,    \* name-status of the last branch commit
  ncommit, nbase,
  log        \* GEN: the operations performed

vars == <<phase, fork, tree, changes, origin, tomb, ambig, prevTree, lastNS, ncommit, nbase, log>>
MCView == <<phase, fork, tree, changes, origin, tomb, ambig, prevTree, lastNS, ncommit, nbase>>

-----------------------------------------------------------------------------
(* Helpers                                                                 *)
MinOf(S) == CHOOSE x \in S : \A y \in S : x <= y
RemoveAt(s, k) == SubSeq(s, 1, k - 1) \o SubSeq(s, k + 1, Len(s))
InsertAt(s, k, e) == SubSeq(s, 1, k - 1) \o <<e>> \o SubSeq(s, k, Len(s))
RangeOf(s) == {s[i] : i \in 1..Len(s)}
RECURSIVE Flatten(_)
Flatten(ss) == IF ss = <<>> THEN <<>> ELSE Head(ss) \o Flatten(Tail(ss))

\* What the parser keeps of a rule: type, name, expression, labels, rule-level control comments.
Content(r) == [kind |-> r.kind, name |-> r.name, body |-> r.body, lab |-> r.lab, cmt |-> r.cmt, ext |-> r.ext]

\* Layout (gitrepo.Render): [file/disable line] groups: / - name: g / rules: / then per rule
\* [pad line] [control comment line] and the rule lines (name, expr, [for], labels:, one line per label - l3 has two
\* labels -, [annotations: and one annotation]).
PreLen(r)  == (IF r.pad = 0 THEN 0 ELSE 1) + (IF r.cmt = "none" THEN 0 ELSE 1)
RuleLen(r) == (IF r.lab = "l3" THEN 5 ELSE 4) + (CASE r.ext = "x1" -> 1 [] r.ext = "x2" -> 2 [] OTHER -> 0)
RECURSIVE LinesBefore(_, _)
LinesBefore(rs, k) == IF k = 0 THEN 0 ELSE PreLen(rs[k]) + RuleLen(rs[k]) + LinesBefore(rs, k - 1)
FirstLine(f, k) == (IF f.fdis THEN 1 ELSE 0) + 3 + LinesBefore(f.rules, k - 1) + PreLen(f.rules[k]) + 1
LastLine(f, k)  == FirstLine(f, k) + RuleLen(f.rules[k]) - 1
ExprLine(f, k)  == FirstLine(f, k) + 1

\* discovery.readRules: one entry per rule, DisabledChecks from the file-level comments.
EntriesOf(path, f) ==
  [k \in 1..Len(f.rules) |->
     [path |-> path, rule |-> Content(f.rules[k]), first |-> FirstLine(f, k), last |-> LastLine(f, k),
      fdis |-> f.fdis, state |-> "noop"]]

-----------------------------------------------------------------------------
(* Impl: git.Changes - fold of one name-status line                        *)
\* ns = [status, src, dst]; c = commit number; t = tree before the commit, t2 = tree after it.
Fold(chs, ns, c, t, t2) ==
  IF ns.dst \in Excluded THEN chs ELSE                          \* !filter.IsPathAllowed(dstPath): line skipped
  LET hits == {k \in 1..Len(chs) : chs[k].after = ns.src}        \* getChangeByPath(changes, srcPath)
      afile == IF ns.status = "D" THEN AbsentFile ELSE t2[ns.dst] \* Body.After (not read for FileDeleted)
  IN
  IF hits # {}
  THEN LET prev == chs[MinOf(hits)] IN
       Append(SelectSeq(chs, LAMBDA ch : ch.after # ns.src),     \* changesWithout(changes, srcPath)
              [status |-> ns.status, before |-> prev.before, bfile |-> prev.bfile,
               after |-> ns.dst, afile |-> afile, commits |-> Append(prev.commits, c)])
  ELSE LET before == IF ns.status = "A"
                     THEN (IF t[ns.src].present THEN ns.src ELSE NoPath)   \* getTypeForPath(commit^, src) != Missing
                     ELSE ns.src
           bfile  == IF before = NoPath THEN AbsentFile ELSE t[before]     \* content at Commits[0]^
       IN Append(chs, [status |-> ns.status, before |-> before, bfile |-> bfile,
                       after |-> ns.dst, afile |-> afile, commits |-> <<c>>])

-----------------------------------------------------------------------------
(* Impl: matchEntries                                                      *)
Identical(a, b) == a.rule = b.rule            \* Rule.IsIdentical
EntryIdentical(b, a) == b.fdis = a.fdis       \* isEntryIdentical (DisabledChecks)
SameName(a, b) == a.rule.kind = b.rule.kind /\ a.rule.name = b.rule.name

NoEntry == [path |-> NoPath, rule |-> [kind |-> "", name |-> "", body |-> "", lab |-> "", cmt |-> "", ext |-> ""],
            first |-> 0, last |-> 0, fdis |-> FALSE, state |-> "unknown"]
MIdent(b, a) == [hasBefore |-> TRUE, hasAfter |-> TRUE, before |-> b, after |-> a,
                 isIdentical |-> EntryIdentical(b, a), wasMoved |-> a.path # b.path]
MName(b, a)  == [hasBefore |-> TRUE, hasAfter |-> TRUE, before |-> b, after |-> a,
                 isIdentical |-> FALSE, wasMoved |-> a.path # b.path]
MAdded(a)    == [hasBefore |-> FALSE, hasAfter |-> TRUE, before |-> NoEntry, after |-> a,
                 isIdentical |-> FALSE, wasMoved |-> FALSE]
MRemoved(b)  == [hasBefore |-> TRUE, hasAfter |-> FALSE, before |-> b, after |-> NoEntry,
                 isIdentical |-> FALSE, wasMoved |-> FALSE]
Leftover(bs) == [k \in 1..Len(bs) |-> MRemoved(bs[k])]

FirstIdentical(a, bs) ==
  LET S == {k \in 1..Len(bs) : Identical(a, bs[k])} IN IF S = {} THEN 0 ELSE MinOf(S)
\* findRulesByName
ByName(bs, a)    == SelectSeq(bs, LAMBDA b : SameName(a, b))
NotByName(bs, a) == SelectSeq(bs, LAMBDA b : ~SameName(a, b))

\* as pinned: per HEAD entry, in order: an identical base entry if any is left, else the only one of that name
RECURSIVE MatchGreedy(_, _)
MatchGreedy(bs, as) ==
  IF as = <<>> THEN Leftover(bs)
  ELSE LET a == Head(as)
           k == FirstIdentical(a, bs) IN
       IF k # 0 THEN <<MIdent(bs[k], a)>> \o MatchGreedy(RemoveAt(bs, k), Tail(as))
       ELSE LET m  == ByName(bs, a)
                nm == NotByName(bs, a) IN
            CASE Len(m) = 0 -> <<MAdded(a)>> \o MatchGreedy(nm, Tail(as))
              [] Len(m) = 1 -> <<MName(m[1], a)>> \o MatchGreedy(nm, Tail(as))
              [] OTHER      -> <<MAdded(a)>> \o MatchGreedy(nm \o m, Tail(as))

\* fixes/f5-matchentries.patch: all identical pairs first, then names among what is left
RECURSIVE MatchPass1(_, _)
MatchPass1(bs, as) ==
  IF as = <<>> THEN [ms |-> <<>>, rest |-> bs]
  ELSE LET a == Head(as)
           k == FirstIdentical(a, bs) IN
       IF k # 0 THEN LET r == MatchPass1(RemoveAt(bs, k), Tail(as)) IN
                     [ms |-> <<MIdent(bs[k], a)>> \o r.ms, rest |-> r.rest]
       ELSE LET r == MatchPass1(bs, Tail(as)) IN
            [ms |-> <<MAdded(a)>> \o r.ms, rest |-> r.rest]
RECURSIVE MatchPass2(_, _, _)
MatchPass2(ms, bs, k) ==
  IF k > Len(ms) THEN ms \o Leftover(bs)
  ELSE IF ms[k].hasBefore THEN MatchPass2(ms, bs, k + 1)
  ELSE LET a  == ms[k].after
           m  == ByName(bs, a)
           nm == NotByName(bs, a) IN
       CASE Len(m) = 0 -> MatchPass2(ms, nm, k + 1)
         [] Len(m) = 1 -> MatchPass2([ms EXCEPT ![k] = MName(m[1], a)], nm, k + 1)
         [] OTHER      -> MatchPass2(ms, nm \o m, k + 1)
MatchTwoPass(bs, as) == LET r == MatchPass1(bs, as) IN MatchPass2(r.ms, r.rest, 1)

MatchEntries(bs, as, mode) == IF mode = "twopass" THEN MatchTwoPass(bs, as) ELSE MatchGreedy(bs, as)

\* the state switch of GitBranchFinder.Find
StateOf(m) ==
  CASE ~m.hasBefore /\ m.hasAfter -> "added"
    [] m.hasBefore /\ ~m.hasAfter -> "removed"
    [] m.isIdentical /\ ~m.wasMoved -> "noop"
    [] m.wasMoved -> "moved"
    [] OTHER -> "modified"

\* entries one FileChange contributes (HEAD files always parse: failedEntries is empty)
ChangeEntries(ch, mode) ==
  LET before == IF ch.before = NoPath THEN <<>> ELSE EntriesOf(ch.before, ch.bfile)
      after  == IF ch.status = "D" THEN <<>> ELSE EntriesOf(ch.after, ch.afile)
      ml     == MatchEntries(before, after, mode) IN
  [k \in 1..Len(ml) |-> IF ml[k].hasAfter THEN [ml[k].after EXCEPT !.state = StateOf(ml[k])]
                        ELSE [ml[k].before EXCEPT !.state = "removed"]]

ChangedEntries(chs, mode) == Flatten([k \in 1..Len(chs) |-> ChangeEntries(chs[k], mode)])

\* discovery.GlobFinder over the HEAD working tree: every rule, state noop
GlobEntries(t) == Flatten([i \in 1..Len(PathOrder) |-> IF PathOrder[i] \in Excluded THEN <<>>
                                                       ELSE EntriesOf(PathOrder[i], t[PathOrder[i]])])

IsSame(x, y) == x.rule.kind = y.rule.kind /\ x.first = y.first /\ x.last = y.last   \* Rule.IsSame
RECURSIVE Merge(_, _, _)
Merge(all, es, k) ==
  IF k > Len(es) THEN all
  ELSE LET e == es[k] IN
       IF e.state = "removed" THEN Merge(Append(all, e), es, k + 1)
       ELSE LET S == {i \in 1..Len(all) : all[i].path = e.path /\ IsSame(e, all[i])} IN
            IF S = {} THEN Merge(Append(all, e), es, k + 1)
            ELSE Merge([all EXCEPT ![MinOf(S)].state = e.state], es, k + 1)

AllEntries(t, chs, mode) == Merge(GlobEntries(t), ChangedEntries(chs, mode), 1)

\* what the marker configuration shows: rule/report runs on every non-removed entry, one marker per state
MarkersOf(all) ==
  {[path |-> e.path, first |-> e.first, last |-> e.last, state |-> e.state] :
     e \in {x \in RangeOf(all) : x.state # "removed"}}
ImplMarkers(t, chs, mode) == MarkersOf(AllEntries(t, chs, mode))

-----------------------------------------------------------------------------
(* Doc: direct comparison of the fork-point and HEAD versions of a file    *)
Full(f, k) == [rule |-> Content(f.rules[k]), fdis |-> f.fdis]
Key(r) == <<r.kind, r.name>>
Changed == {"added", "modified", "moved"}

\* acceptable states of rule k of HEAD file p, whose file identity is org
RefAcceptOf(hf, bf, org, p, k) ==
  LET moved == org # p
      c   == Full(hf, k)
      key == Key(hf.rules[k])
      nB  == Cardinality({j \in 1..Len(bf.rules) : Full(bf, j) = c})           \* identical versions at the fork point
      nH  == Cardinality({j \in 1..Len(hf.rules) : Full(hf, j) = c})
      gB  == Cardinality({j \in 1..Len(bf.rules) : Key(bf.rules[j]) = key})    \* same kind and name
      gH  == Cardinality({j \in 1..Len(hf.rules) : Key(hf.rules[j]) = key})
  IN
  IF org = Fresh THEN {"added"}                                  \* the file has no version at the fork point
  ELSE IF org \in Excluded THEN Changed                          \* the file entered the linted set on this branch
  ELSE IF gH = 1 /\ gB <= 1                                      \* the rule's counterpart is unambiguous
  THEN IF nB = 1 THEN (IF moved THEN {"moved"} ELSE {"noop"})
       ELSE IF gB = 1 THEN (IF moved THEN {"modified", "moved"} ELSE {"modified"})
       ELSE {"added"}
  ELSE \* several rules of this kind and name: only what holds under every pairing is claimed
       IF moved THEN Changed
       ELSE IF nB >= nH THEN {"noop"}                            \* an untouched rule is never reported as changed
       ELSE IF nB = 0 THEN Changed                               \* a changed rule is never skipped
       ELSE Changed \cup {"noop"}

RefAccept(p, k) ==
  LET org == origin[p] IN
  RefAcceptOf(tree[p], IF org = Fresh THEN AbsentFile ELSE fork[org], org, p, k)

\* the rules `pint ci` lints at HEAD
HeadRules == UNION {{<<p, k>> : k \in 1..Len(tree[p].rules)} : p \in Paths \ Excluded}

StatesAt(ms, p, k) == {m.state : m \in {x \in ms : x.path = p /\ x.first = FirstLine(tree[p], k)
                                                   /\ x.last = LastLine(tree[p], k)}}
RuleOK(ms, p, k) == LET S == StatesAt(ms, p, k) IN S # {} /\ S \subseteq RefAccept(p, k)

\* normalised shape of the file pair around rule k of p: the rules of its kind and name, as content classes
Sig(p, k, obs) ==
  LET org == origin[p]
      hf  == tree[p]
      bf  == IF org = Fresh \/ org = NoPath THEN AbsentFile ELSE fork[org]
      key == Key(hf.rules[k])
      bI  == SelectSeq([j \in 1..Len(bf.rules) |-> j], LAMBDA j : Key(bf.rules[j]) = key)
      hI  == SelectSeq([j \in 1..Len(hf.rules) |-> j], LAMBDA j : Key(hf.rules[j]) = key)
      all == [j \in 1..Len(bI) |-> Full(bf, bI[j])] \o [j \in 1..Len(hI) |-> Full(hf, hI[j])]
      cls(c) == MinOf({j \in 1..Len(all) : all[j] = c})
      dense(x) == Cardinality({cls(all[j]) : j \in 1..Len(all)} \cap 1..x)
  IN [base  |-> [j \in 1..Len(bI) |-> dense(cls(Full(bf, bI[j])))],
      head  |-> [j \in 1..Len(hI) |-> dense(cls(Full(hf, hI[j])))],
      rule  |-> MinOf({j \in 1..Len(hI) : hI[j] = k}),
      moved |-> org # p, fresh |-> org = Fresh,
      acc   |-> RefAccept(p, k), obs |-> obs, path |-> p, k |-> k]

Inv_C03 ==
  (phase = "branch" /\ ~ambig) =>
    LET ms == ImplMarkers(tree, changes, MatchMode) IN \A pk \in HeadRules : RuleOK(ms, pk[1], pk[2])

\* The defect F5 (known_findings.json, C03; fixed in pint 5626418): the greedy matcher lets an earlier HEAD rule without an identical
\* fork-point version take, by name, the version of a later untouched rule of the same kind and name, which is then
\* reported as added. Exactly: the rule must be noop, the greedy transcription says added, identical-first says noop.
KnownF5(p, k) ==
  /\ RefAccept(p, k) = {"noop"}
  /\ Cardinality({j \in 1..Len(tree[p].rules) : Key(tree[p].rules[j]) = Key(tree[p].rules[k])}) >= 2
  /\ StatesAt(ImplMarkers(tree, changes, "greedy"), p, k) = {"added"}
  /\ StatesAt(ImplMarkers(tree, changes, "twopass"), p, k) = {"noop"}

Inv_C03_known ==
  (phase = "branch" /\ ~ambig) =>
    LET ms == ImplMarkers(tree, changes, MatchMode) IN
    \A pk \in HeadRules : RuleOK(ms, pk[1], pk[2]) \/ (MatchMode = "greedy" /\ KnownF5(pk[1], pk[2]))

\* model-level leads: prints the signature of every rule whose predicted marker is not acceptable
PrintLeads ==
  phase = "branch" =>
    LET ms == ImplMarkers(tree, changes, MatchMode) IN
    \A pk \in HeadRules : IF RuleOK(ms, pk[1], pk[2]) THEN TRUE
                          ELSE PrintT(<<"LEAD", ToJson(Sig(pk[1], pk[2], StatesAt(ms, pk[1], pk[2])))>>)

-----------------------------------------------------------------------------
(* C20: the rule/dependency check on removed rules                         *)
\* Expressions are "or"-joined selectors: v1/v2 (no selector), m:<metric>, A:<alertname> = ALERTS{alertname="<a>"},
\* S:<alertname> = ALERTS_FOR_STATE{alertname="<a>"}; at most two joined by "+".
AtomNames == {"n1", "n2", "n3"}
AllAtoms  == {"m", "A", "S"} \X AtomNames
Tok(a)    == a[1] \o ":" \o a[2]
AtomTable ==
  [b \in {"v1", "v2"} |-> {}] @@
  [b \in {Tok(a) : a \in AllAtoms} |-> {a \in AllAtoms : Tok(a) = b}] @@
  [b \in {Tok(x[1]) \o "+" \o Tok(x[2]) : x \in AllAtoms \X AllAtoms} |->
     UNION {{x[1], x[2]} : x \in {y \in AllAtoms \X AllAtoms : Tok(y[1]) \o "+" \o Tok(y[2]) = b}}]
AtomsOf(b) == IF b \in DOMAIN AtomTable THEN AtomTable[b] ELSE Assert(FALSE, <<"unknown expression token", b>>)

\* parser/utils HasVectorSelector + RuleDependencyCheck.usesVector / usesAlert: does rule content c select what the
\* removed rule r (content) produced?
UsesRule(c, r) ==
  IF r.kind = "rec" THEN <<"m", r.name>> \in AtomsOf(c.body)                     \* vs.Name == name
  ELSE <<"A", r.name>> \in AtomsOf(c.body) \/ <<"S", r.name>> \in AtomsOf(c.body) \* ALERTS / ALERTS_FOR_STATE, alertname = name

\* sort.SliceStable by (path, line, name) on a duplicate-free list: insertion into the sorted prefix
DepLess(x, y) ==
  LET px == MinOf({i \in 1..Len(PathOrder) : PathOrder[i] = x.path})
      py == MinOf({i \in 1..Len(PathOrder) : PathOrder[i] = y.path}) IN
  \/ px < py
  \/ px = py /\ x.line < y.line
  \* equal (path, line) means the same rule, hence the same name: never reached with a name tie-break
RECURSIVE SortDeps(_)
SortDeps(ds) ==
  IF ds = <<>> THEN <<>>
  ELSE LET d == Head(ds)
           rest == SortDeps(Tail(ds))
           lo == SelectSeq(rest, LAMBDA x : DepLess(x, d))
           hi == SelectSeq(rest, LAMBDA x : ~DepLess(x, d)) IN
       lo \o <<d>> \o hi

\* RuleDependencyCheck.Check for one removed entry e against the merged entry list
DependencyProblem(e, all) ==
  LET filtered == SelectSeq(all, LAMBDA x : x.state # "removed")        \* nonRemovedEntries
      replaced == \E i \in 1..Len(filtered) : SameName(filtered[i], e)   \* another rule with same type & name
      users    == SelectSeq(filtered, LAMBDA x : UsesRule(x.rule, e.rule))
      deps     == [i \in 1..Len(users) |-> [name |-> users[i].rule.name, path |-> users[i].path, line |-> users[i].first + 1]]
      \* de-duplication by (kind, path, line, name): keep first occurrences
      uniq     == SelectSeq([i \in 1..Len(deps) |-> [d |-> deps[i], keep |-> \A j \in 1..(i - 1) : deps[j] # deps[i]]],
                            LAMBDA x : x.keep)
      sorted   == SortDeps([i \in 1..Len(uniq) |-> uniq[i].d]) IN
  IF replaced \/ sorted = <<>> THEN {}
  ELSE {[path |-> e.path, first |-> e.first, last |-> e.last, deps |-> sorted]}

\* rule/dependency problems of a run: one Check per removed entry (cmd/pint/scan.go checkRules)
ImplDeps(t, chs, mode) ==
  LET all == AllEntries(t, chs, mode) IN
  UNION {DependencyProblem(all[i], all) : i \in {j \in 1..Len(all) : all[j].state = "removed"}}

\* Doc: a rule of the fork-point tree whose (kind, name) no HEAD rule carries has been removed without replacement;
\* its dependants are the HEAD rules selecting its metric / its alertname.
HeadContents == {[p |-> pk[1], k |-> pk[2], c |-> Content(tree[pk[1]].rules[pk[2]])] : pk \in HeadRules}
DocDeps(r) ==
  IF \E h \in HeadContents : Key(h.c) = Key(r) THEN {}
  ELSE {[name |-> h.c.name, path |-> h.p, line |-> ExprLine(tree[h.p], h.k)] : h \in {x \in HeadContents : UsesRule(x.c, r)}}
DocWarnings ==
  UNION {UNION {IF DocDeps(Content(fork[q].rules[j])) = {} THEN {}
                ELSE {[path |-> q, first |-> FirstLine(fork[q], j), last |-> LastLine(fork[q], j),
                       deps |-> DocDeps(Content(fork[q].rules[j]))]}
                : j \in 1..Len(fork[q].rules)} : q \in Paths}

DepsAsSets(ws) == {[path |-> w.path, first |-> w.first, last |-> w.last, deps |-> RangeOf(w.deps)] : w \in ws}

Inv_C20 == (phase = "branch" /\ ~ambig) => DepsAsSets(ImplDeps(tree, changes, MatchMode)) = DocWarnings

-----------------------------------------------------------------------------
(* Actions                                                                 *)
Init ==
  /\ phase = "fork"
  /\ fork = [p \in Paths |-> AbsentFile] /\ tree = [p \in Paths |-> AbsentFile]
  /\ changes = <<>>
  /\ origin = [p \in Paths |-> NoPath] /\ tomb = [p \in Paths |-> NoPath] /\ ambig = FALSE
  /\ prevTree = [p \in Paths |-> AbsentFile]
  /\ lastNS = [status |-> "", src |-> NoPath, dst |-> NoPath]
  /\ ncommit = 0 /\ nbase = 0 /\ log = <<>>

RECURSIVE CountRules(_, _)
CountRules(t, i) == IF i = 0 THEN 0 ELSE Len(t[PathOrder[i]].rules) + CountRules(t, i - 1)

ForkAppend(p, r) ==
  /\ phase = "fork"
  /\ Len(fork[p].rules) < MaxRules /\ CountRules(fork, Len(PathOrder)) < MaxForkRules
  /\ fork' = [fork EXCEPT ![p] = [present |-> TRUE, fdis |-> @.fdis, rules |-> Append(@.rules, r)]]
  /\ UNCHANGED <<phase, tree, changes, origin, tomb, ambig, prevTree, lastNS, ncommit, nbase, log>>

ForkEmptyFile(p) ==
  /\ phase = "fork" /\ ~fork[p].present
  /\ fork' = [fork EXCEPT ![p] = EmptyFile]
  /\ UNCHANGED <<phase, tree, changes, origin, tomb, ambig, prevTree, lastNS, ncommit, nbase, log>>

ForkFileDisable(p) ==
  /\ phase = "fork" /\ ForkFdis /\ fork[p].present /\ ~fork[p].fdis
  /\ fork' = [fork EXCEPT ![p].fdis = TRUE]
  /\ UNCHANGED <<phase, tree, changes, origin, tomb, ambig, prevTree, lastNS, ncommit, nbase, log>>

StartBranch ==
  /\ phase = "fork" /\ \E p \in Paths : fork[p].present
  /\ phase' = "branch" /\ tree' = fork /\ prevTree' = fork
  /\ origin' = [p \in Paths |-> IF fork[p].present THEN p ELSE NoPath]
  /\ UNCHANGED <<fork, changes, tomb, ambig, lastNS, ncommit, nbase, log>>

Mk(op, st, src, dst, f) == [op |-> op, ns |-> [status |-> st, src |-> src, dst |-> dst], file |-> f]
WithRules(f, rs) == [f EXCEPT !.rules = rs]
Present == {p \in Paths : tree[p].present}
Has(op) == op \in OpSet

\* one-field variants of a rule, by the user-level operation that makes them
ExprVariants(r)  == {[r EXCEPT !.body = b] : b \in Bodies \ {r.body}}
LabelVariants(r) == {[r EXCEPT !.lab = x] : x \in Labs \ {r.lab}}
NameVariants(r)  == {[r EXCEPT !.name = x] : x \in Names \ {r.name}}
KindVariants(r)  == {[r EXCEPT !.kind = x, !.ext = IF x = "rec" THEN "x0" ELSE @] : x \in Kinds \ {r.kind}}
ExtVariants(r)   == IF r.kind = "alr" THEN {[r EXCEPT !.ext = x] : x \in Exts \ {r.ext}} ELSE {}
CmtVariants(r)   == {[r EXCEPT !.cmt = x] : x \in Cmts \ {r.cmt}}
NoteVariants(r)  == IF 2 \notin Pads THEN {} ELSE IF r.pad = 2 THEN {[r EXCEPT !.pad = 0]}
                    ELSE IF r.pad = 0 THEN {[r EXCEPT !.pad = 2]} ELSE {}
SpaceVariants(r) == IF 1 \notin Pads THEN {} ELSE IF r.pad = 1 THEN {[r EXCEPT !.pad = 0]}
                    ELSE IF r.pad = 0 THEN {[r EXCEPT !.pad = 1]} ELSE {}

RuleEdits(op, V(_)) ==
  IF ~Has(op) THEN {} ELSE
  UNION {UNION {{Mk(op, "M", p, p, WithRules(tree[p], [tree[p].rules EXCEPT ![k] = r2])) : r2 \in V(tree[p].rules[k])}
                : k \in 1..Len(tree[p].rules)} : p \in Present}

InverseOfLast ==
  CASE lastNS.status = "A" -> {Mk("RevertLast", "D", lastNS.dst, lastNS.dst, AbsentFile)}
    [] lastNS.status = "D" -> {Mk("RevertLast", "A", lastNS.src, lastNS.src, prevTree[lastNS.src])}
    [] lastNS.status = "M" -> {Mk("RevertLast", "M", lastNS.dst, lastNS.dst, prevTree[lastNS.dst])}
    [] lastNS.status = "R" -> {Mk("RevertLast", "R", lastNS.dst, lastNS.src, prevTree[lastNS.src])}
    [] OTHER -> {}

\* files a user may add at p: a one-rule file, an empty file, or what was at p at the fork point
NewFiles(p) == {WithRules(EmptyFile, <<r>>) : r \in NewRules} \cup {EmptyFile}
               \cup (IF fork[p].present THEN {fork[p]} ELSE {})

Candidates ==
     RuleEdits("ModifyExpr", ExprVariants) \cup RuleEdits("ModifyLabels", LabelVariants)
  \cup RuleEdits("RenameRule", NameVariants) \cup RuleEdits("ChangeKind", KindVariants)
  \cup RuleEdits("CommentOnlyEdit", CmtVariants) \cup RuleEdits("PlainCommentEdit", NoteVariants)
  \cup RuleEdits("WhitespaceEdit", SpaceVariants) \cup RuleEdits("ModifyAlertFields", ExtVariants)
  \cup (IF ~Has("AddRule") THEN {} ELSE
        UNION {UNION {{Mk("AddRule", "M", p, p, WithRules(tree[p], InsertAt(tree[p].rules, k, r))) : r \in NewRules}
                      : k \in 1..(Len(tree[p].rules) + 1)} : p \in {q \in Present : Len(tree[q].rules) < MaxRules}})
  \cup (IF ~Has("DeleteRule") THEN {} ELSE
        UNION {{Mk("DeleteRule", "M", p, p, WithRules(tree[p], RemoveAt(tree[p].rules, k))) : k \in 1..Len(tree[p].rules)}
               : p \in Present})
  \cup (IF ~Has("SwapRules") THEN {} ELSE
        UNION {{Mk("SwapRules", "M", p, p, WithRules(tree[p], [tree[p].rules EXCEPT ![k] = tree[p].rules[k + 1],
                                                                                    ![k + 1] = tree[p].rules[k]]))
                : k \in {j \in 1..(Len(tree[p].rules) - 1) : tree[p].rules[j] # tree[p].rules[j + 1]}} : p \in Present})
  \cup (IF ~Has("FileDisableEdit") THEN {} ELSE
        {Mk("FileDisableEdit", "M", p, p, [tree[p] EXCEPT !.fdis = ~@]) : p \in Present})
  \cup (IF ~Has("AddFile") THEN {} ELSE
        UNION {{Mk("AddFile", "A", p, p, f) : f \in NewFiles(p)} : p \in (Paths \ Present) \ Excluded})
  \cup (IF ~Has("DeleteFile") THEN {} ELSE {Mk("DeleteFile", "D", p, p, AbsentFile) : p \in Present})
  \cup (IF ~Has("RenameFile") THEN {} ELSE
        UNION {{Mk("RenameFile", "R", p, q, tree[p]) : q \in {x \in (Paths \ Present) \ Excluded : tomb[x] = NoPath \/ TombRename}}
               : p \in Present})
  \cup (IF ~Has("RevertLast") \/ ncommit = 0 THEN {} ELSE InverseOfLast)

\* the commit is one well-formed file-level operation on the current tree
ValidNS(t, o) ==
  CASE o.ns.status = "A" -> o.ns.src = o.ns.dst /\ ~t[o.ns.dst].present /\ o.file.present
                            /\ o.ns.dst \notin Excluded             \* files are not created outside the linted set
    [] o.ns.status = "M" -> o.ns.src = o.ns.dst /\ t[o.ns.dst].present /\ o.file.present /\ o.file # t[o.ns.dst]
    [] o.ns.status = "D" -> o.ns.src = o.ns.dst /\ t[o.ns.src].present
    [] o.ns.status = "R" -> o.ns.src # o.ns.dst /\ t[o.ns.src].present /\ ~t[o.ns.dst].present
                            /\ o.file = t[o.ns.src]                 \* pure move: git reports R100
                            /\ (tomb[o.ns.dst] = NoPath \/ TombRename) \* onto a path deleted on this branch: ambig
                            /\ o.ns.dst \notin Excluded             \* nor out of the linted set
    [] OTHER -> FALSE

ApplyNS(t, o) ==
  CASE o.ns.status \in {"A", "M"} -> [t EXCEPT ![o.ns.dst] = o.file]
    [] o.ns.status = "D" -> [t EXCEPT ![o.ns.src] = AbsentFile]
    [] o.ns.status = "R" -> [t EXCEPT ![o.ns.src] = AbsentFile, ![o.ns.dst] = o.file]

\* Doc: file identities. A deleted file leaves its identity at the path; adding a file there again continues it.
OriginAfter(o) ==
  CASE o.ns.status = "A" -> [origin EXCEPT ![o.ns.dst] = IF tomb[o.ns.dst] # NoPath THEN tomb[o.ns.dst] ELSE Fresh]
    [] o.ns.status = "D" -> [origin EXCEPT ![o.ns.src] = NoPath]
    [] o.ns.status = "R" -> [origin EXCEPT ![o.ns.dst] = origin[o.ns.src], ![o.ns.src] = NoPath]
    [] OTHER -> origin
TombAfter(o) ==
  CASE o.ns.status = "A" -> [tomb EXCEPT ![o.ns.dst] = NoPath]
    [] o.ns.status = "D" -> [tomb EXCEPT ![o.ns.src] = origin[o.ns.src]]
    [] o.ns.status = "R" -> [tomb EXCEPT ![o.ns.dst] = NoPath]
    [] OTHER -> tomb

Commit(o) ==
  /\ phase = "branch" /\ ncommit < MaxCommits
  /\ ValidNS(tree, o)
  /\ LET t2 == ApplyNS(tree, o) IN
     /\ tree' = t2
     /\ changes' = Fold(changes, o.ns, ncommit + 1, tree, t2)
  /\ origin' = OriginAfter(o) /\ tomb' = TombAfter(o)
  /\ ambig' = (ambig \/ (o.ns.status = "R" /\ tomb[o.ns.dst] # NoPath))
  /\ prevTree' = tree /\ lastNS' = o.ns
  /\ ncommit' = ncommit + 1
  /\ log' = Append(log, o)
  /\ UNCHANGED <<phase, fork, nbase>>

\* a commit on the base branch after the fork: invisible to `git log base..HEAD` and to the fork-point versions
BaseAdvance(p) ==
  /\ phase = "branch" /\ Has("BaseAdvance") /\ nbase < MaxBaseAdv
  /\ nbase' = nbase + 1
  /\ log' = Append(log, Mk("BaseAdvance", "B", p, p, AbsentFile))
  /\ UNCHANGED <<phase, fork, tree, changes, origin, tomb, ambig, prevTree, lastNS, ncommit>>

Next ==
  \/ \E p \in Paths : \/ \E r \in NewRules : ForkAppend(p, r)
                      \/ ForkEmptyFile(p) \/ ForkFileDisable(p) \/ BaseAdvance(p)
  \/ StartBranch
  \/ \E o \in Candidates : Commit(o)

Spec == Init /\ [][Next]_vars

\* GEN: one line per history. `hint` only steers the driver's sub-sampling (never a verdict).
Hint ==
  [warn  |-> Cardinality(DocWarnings),
   dup   |-> \E pk \in HeadRules : Cardinality({j \in 1..Len(tree[pk[1]].rules) :
                                       Key(tree[pk[1]].rules[j]) = Key(tree[pk[1]].rules[pk[2]])}) >= 2,
   moved |-> \E p \in Paths : tree[p].present /\ origin[p] # p,
   ambig |-> ambig,
   acc   |-> UNION {RefAccept(pk[1], pk[2]) : pk \in HeadRules}]
EmitCase ==
  (phase = "branch" /\ ncommit + nbase >= 1) =>
     PrintT(<<"CASE", ToJson([fork |-> fork, log |-> log, hint |-> Hint])>>)
=============================================================================
