----------------------------- MODULE GitHistory -----------------------------
(***************************************************************************)
(* Change attribution of `pint ci` over branch histories (C03) and the     *)
(* rule/dependency check on removed rules (C20).                           *)
(*                                                                         *)
(* Impl side (transcribes the Go code, one operator per function):         *)
(*   Fold            internal/git/changes.go  Changes: the per-file change *)
(*                   list folded from `git log --name-status` lines        *)
(*                   (getChangeByPath, changesWithout, Before inheritance, *)
(*                   Body.Before at Commits[0]^, Body.After at the last    *)
(*                   commit)                                               *)
(*   MatchEntries    internal/discovery/git_branch.go matchEntries and     *)
(*                   findRulesByName; Identical = parser Rule.IsIdentical, *)
(*                   EntryIdentical = isEntryIdentical                     *)
(*   StateOf         the state switch in GitBranchFinder.Find              *)
(*   Merge           the merge of changed entries into the glob entries by *)
(*                   (path, Rule.IsSame)                                   *)
(*   ImplMarkers     what a per-state rule/report marker then shows        *)
(*   ImplDeps        internal/checks/rule_dependency.go Check              *)
(* Doc side (written from the property statements, independent of the      *)
(* fold): file identities followed through renames (origin/tomb), a direct *)
(* comparison of the fork-point version and the HEAD version of each file  *)
(* (RefAccept), and the reference graph of the HEAD rules (DocDeps).       *)
(* Properties: Inv_C03, Inv_C20.                                           *)
(*                                                                         *)
(* Phase 2 growth: several file-level parts per commit (Pairs/ValidParts), *)
(* files that do not parse (broken, error entries, failedEntries), the     *)
(* base branch inserting rules and being merged into the branch (base,     *)
(* mainNew, MergeBase; reference = merge base vs HEAD; StaleAt = F23).     *)
(*                                                                         *)
(* A behaviour first builds the tree at the fork point (phase "fork"),     *)
(* then performs branch commits, one file-level operation per commit       *)
(* (phase "branch"). Every state of phase "branch" is a complete history   *)
(* on which `pint ci` can be run.                                          *)
(***************************************************************************)
EXTENDS Integers, Sequences, FiniteSets, TLC, Json

CONSTANTS
  NPaths,        \* number of file paths in play (1..4); the 4th lies in a directory the configuration excludes
  Kinds,         \* subset of {"rec", "alr"}
  Names,         \* rule names
  Bodies,        \* expression tokens, see Uses
  Labs,          \* label variants
  Cmts,          \* rule-level control comment variants, "none" = no comment
  Pads,          \* filler in front of a rule: 0 nothing, 1 blank line, 2 plain comment line
  Exts,          \* further fields of alerting rules: "x0" none, "x1" `for: 5m`, "x2" an annotations map
  MaxRules,      \* rules per file
  MaxForkRules,  \* rules in the fork tree
  MaxCommits,    \* branch commits
  MaxBaseAdv,    \* commits on the base branch after the fork
  MaxMerge,      \* merges of the base branch into the branch (`git merge main`)
  PairOps,       \* operation kinds that may be combined, two per commit ("MultiOp" in OpSet)
  OpSet,         \* enabled operation kinds
  ForkFdis,      \* BOOLEAN: fork files may carry a file/disable comment
  TombRename,    \* BOOLEAN: a file may be renamed onto a path deleted earlier on the branch (no verdict then, binding only)
  MatchMode      \* "greedy" (matchEntries as originally pinned) | "twopass" (pint 5626418, fixes/f5-matchentries.patch);
                 \* the driver probes the tree under test and picks the variant; JUDGE evaluates both

\* file paths in lexical order (the order filepath.Glob/WalkDir yields them)
PathOrder == SubSeq(<<"a.yml", "b.yml", "c.yml", "drafts/d.yml">>, 1, NPaths)
\* parser { exclude = ["^drafts/.*"] }: git.PathFilter.IsPathAllowed is false for these
Excluded == {"drafts/d.yml"}
Paths == {PathOrder[i] : i \in 1..Len(PathOrder)}
NoPath == ""          \* git.Path.Name == ""
Fresh  == "new"       \* identity of a file that has no version at the fork point

Rule == {r \in [kind : Kinds, name : Names, body : Bodies, lab : Labs, cmt : Cmts, pad : Pads, ext : Exts] :
           r.kind = "rec" => r.ext = "x0"}
NewRules == {r \in Rule : r.cmt = "none" /\ r.pad = 0}
\* broken: the file ends in a line that is not YAML (`  - record: [`): strict parsing fails, the file has no rules
AbsentFile == [present |-> FALSE, fdis |-> FALSE, broken |-> FALSE, rules |-> <<>>]
EmptyFile  == [present |-> TRUE, fdis |-> FALSE, broken |-> FALSE, rules |-> <<>>]

VARIABLES
  phase,     \* "fork" | "branch"
  fork,      \* [Paths -> File]  tree at the fork point
  base,      \* [Paths -> File]  tree at the merge base of branch and base branch (= fork until the base branch is merged)
  mainNew,   \* [Paths -> [top, end, mid : Seq(Rule)]]  what the base branch did since the merge base: rules inserted at
             \*      the top / end of the file, and (mid # <<>>) its edited version of the merge-base rules
  nmerge,
  tree,      \* [Paths -> File]  working tree of the branch after the commits so far
  changes,   \* Impl: []*git.FileChange as folded so far
  origin,    \* Doc: [Paths -> path at the fork point whose file now lives here | Fresh | NoPath (no file)]
  tomb,      \* Doc: [Paths -> identity of the file deleted at this path and not replaced since | NoPath]
  ambig,     \* Doc: a file was renamed onto a path deleted earlier on the branch - the statement does not say which
             \*      file the new one continues, so nothing is claimed about such histories
  prevTree,  \* tree before the last branch commit (RevertLast)
  lastNS,    \* name-status of the last branch commit
  ncommit, nbase,
  log        \* GEN: the operations performed

vars == <<phase, fork, base, mainNew, nmerge, tree, changes, origin, tomb, ambig, prevTree, lastNS, ncommit, nbase, log>>
MCView == <<phase, fork, base, mainNew, nmerge, tree, changes, origin, tomb, ambig, prevTree, lastNS, ncommit, nbase>>

-----------------------------------------------------------------------------
(* Helpers                                                                 *)
MinOf(S) == CHOOSE x \in S : \A y \in S : x <= y
RemoveAt(s, k) == SubSeq(s, 1, k - 1) \o SubSeq(s, k + 1, Len(s))
InsertAt(s, k, e) == SubSeq(s, 1, k - 1) \o <<e>> \o SubSeq(s, k, Len(s))
RangeOf(s) == {s[i] : i \in 1..Len(s)}
RECURSIVE Flatten(_)
Flatten(ss) == IF ss = <<>> THEN <<>> ELSE Head(ss) \o Flatten(Tail(ss))

\* What the parser keeps of a rule: type, name, expression, labels, rule-level control comments.
Content(r) == [kind |-> r.kind, name |-> r.name, body |-> r.body, lab |-> r.lab, cmt |-> r.cmt, ext |-> r.ext]

\* Layout (gitrepo.Render): [file/disable line] groups: / - name: g / rules: / then per rule
\* [pad line] [control comment line] and the rule lines (name, expr, [for], labels:, one line per label - l3 has two
\* labels -, [annotations: and one annotation]).
PreLen(r)  == (IF r.pad = 0 THEN 0 ELSE 1) + (IF r.cmt = "none" THEN 0 ELSE 1)
RuleLen(r) == (IF r.lab = "l3" THEN 5 ELSE 4) + (CASE r.ext = "x1" -> 1 [] r.ext = "x2" -> 2 [] OTHER -> 0)
RECURSIVE LinesBefore(_, _)
LinesBefore(rs, k) == IF k = 0 THEN 0 ELSE PreLen(rs[k]) + RuleLen(rs[k]) + LinesBefore(rs, k - 1)
FirstLine(f, k) == (IF f.fdis THEN 1 ELSE 0) + 3 + LinesBefore(f.rules, k - 1) + PreLen(f.rules[k]) + 1
LastLine(f, k)  == FirstLine(f, k) + RuleLen(f.rules[k]) - 1
ExprLine(f, k)  == FirstLine(f, k) + 1

\* line of the YAML error of a broken file: its last line
ErrLine(f) == (IF f.fdis THEN 1 ELSE 0) + 3 + LinesBefore(f.rules, Len(f.rules)) + 1
NoRule == [kind |-> "", name |-> "", body |-> "", lab |-> "", cmt |-> "", ext |-> ""]

\* discovery.readRules: one entry per rule, DisabledChecks from the file-level comments; a file that does not parse
\* yields a single entry carrying the PathError (no rule).
EntriesOf(path, f) ==
  IF f.broken
  THEN <<[path |-> path, rule |-> NoRule, first |-> 0, last |-> 0, fdis |-> FALSE, state |-> "noop",
          err |-> TRUE, eline |-> ErrLine(f)]>>
  ELSE [k \in 1..Len(f.rules) |->
         [path |-> path, rule |-> Content(f.rules[k]), first |-> FirstLine(f, k), last |-> LastLine(f, k),
          fdis |-> f.fdis, state |-> "noop", err |-> FALSE, eline |-> 0]]

-----------------------------------------------------------------------------
(* Impl: git.Changes - fold of one name-status line                        *)
\* ns = [status, src, dst]; c = commit number; t = tree before the commit, t2 = tree after it.
Fold(chs, ns, c, t, t2) ==
  IF ns.dst \in Excluded THEN chs ELSE                          \* !filter.IsPathAllowed(dstPath): line skipped
  LET hits == {k \in 1..Len(chs) : chs[k].after = ns.src}        \* getChangeByPath(changes, srcPath)
      afile == IF ns.status = "D" THEN AbsentFile ELSE t2[ns.dst] \* Body.After (not read for FileDeleted)
  IN
  IF hits # {}
  THEN LET prev == chs[MinOf(hits)] IN
       Append(SelectSeq(chs, LAMBDA ch : ch.after # ns.src),     \* changesWithout(changes, srcPath)
              [status |-> ns.status, before |-> prev.before, bfile |-> prev.bfile,
               after |-> ns.dst, afile |-> afile, commits |-> Append(prev.commits, c)])
  ELSE LET before == IF ns.status = "A"
                     THEN (IF t[ns.src].present THEN ns.src ELSE NoPath)   \* getTypeForPath(commit^, src) != Missing
                     ELSE ns.src
           bfile  == IF before = NoPath THEN AbsentFile ELSE t[before]     \* content at Commits[0]^
       IN Append(chs, [status |-> ns.status, before |-> before, bfile |-> bfile,
                       after |-> ns.dst, afile |-> afile, commits |-> <<c>>])

-----------------------------------------------------------------------------
(* Impl: matchEntries                                                      *)
Identical(a, b) == a.rule = b.rule            \* Rule.IsIdentical
EntryIdentical(b, a) == b.fdis = a.fdis       \* isEntryIdentical (DisabledChecks)
SameName(a, b) == a.rule.kind = b.rule.kind /\ a.rule.name = b.rule.name

NoEntry == [path |-> NoPath, rule |-> NoRule, first |-> 0, last |-> 0, fdis |-> FALSE, state |-> "unknown",
            err |-> FALSE, eline |-> 0]
MIdent(b, a) == [hasBefore |-> TRUE, hasAfter |-> TRUE, before |-> b, after |-> a,
                 isIdentical |-> EntryIdentical(b, a), wasMoved |-> a.path # b.path]
MName(b, a)  == [hasBefore |-> TRUE, hasAfter |-> TRUE, before |-> b, after |-> a,
                 isIdentical |-> FALSE, wasMoved |-> a.path # b.path]
MAdded(a)    == [hasBefore |-> FALSE, hasAfter |-> TRUE, before |-> NoEntry, after |-> a,
                 isIdentical |-> FALSE, wasMoved |-> FALSE]
MRemoved(b)  == [hasBefore |-> TRUE, hasAfter |-> FALSE, before |-> b, after |-> NoEntry,
                 isIdentical |-> FALSE, wasMoved |-> FALSE]
Leftover(bs) == [k \in 1..Len(bs) |-> MRemoved(bs[k])]

FirstIdentical(a, bs) ==      \* a.Rule.Name() != "" && a.Rule.IsIdentical(b.Rule); an error entry has no rule
  LET S == {k \in 1..Len(bs) : ~a.err /\ ~bs[k].err /\ Identical(a, bs[k])} IN IF S = {} THEN 0 ELSE MinOf(S)
\* findRulesByName
ByName(bs, a)    == SelectSeq(bs, LAMBDA b : ~b.err /\ SameName(a, b))       \* entry.PathError == nil && type && name
NotByName(bs, a) == SelectSeq(bs, LAMBDA b : ~(~b.err /\ SameName(a, b)))

\* as pinned: per HEAD entry, in order: an identical base entry if any is left, else the only one of that name
RECURSIVE MatchGreedy(_, _)
MatchGreedy(bs, as) ==
  IF as = <<>> THEN Leftover(bs)
  ELSE LET a == Head(as)
           k == FirstIdentical(a, bs) IN
       IF k # 0 THEN <<MIdent(bs[k], a)>> \o MatchGreedy(RemoveAt(bs, k), Tail(as))
       ELSE LET m  == ByName(bs, a)
                nm == NotByName(bs, a) IN
            CASE Len(m) = 0 -> <<MAdded(a)>> \o MatchGreedy(nm, Tail(as))
              [] Len(m) = 1 -> <<MName(m[1], a)>> \o MatchGreedy(nm, Tail(as))
              [] OTHER      -> <<MAdded(a)>> \o MatchGreedy(nm \o m, Tail(as))

\* fixes/f5-matchentries.patch: all identical pairs first, then names among what is left
RECURSIVE MatchPass1(_, _)
MatchPass1(bs, as) ==
  IF as = <<>> THEN [ms |-> <<>>, rest |-> bs]
  ELSE LET a == Head(as)
           k == FirstIdentical(a, bs) IN
       IF k # 0 THEN LET r == MatchPass1(RemoveAt(bs, k), Tail(as)) IN
                     [ms |-> <<MIdent(bs[k], a)>> \o r.ms, rest |-> r.rest]
       ELSE LET r == MatchPass1(bs, Tail(as)) IN
            [ms |-> <<MAdded(a)>> \o r.ms, rest |-> r.rest]
RECURSIVE MatchPass2(_, _, _)
MatchPass2(ms, bs, k) ==
  IF k > Len(ms) THEN ms \o Leftover(bs)
  ELSE IF ms[k].hasBefore THEN MatchPass2(ms, bs, k + 1)
  ELSE LET a  == ms[k].after
           m  == ByName(bs, a)
           nm == NotByName(bs, a) IN
       CASE Len(m) = 0 -> MatchPass2(ms, nm, k + 1)
         [] Len(m) = 1 -> MatchPass2([ms EXCEPT ![k] = MName(m[1], a)], nm, k + 1)
         [] OTHER      -> MatchPass2(ms, nm \o m, k + 1)
MatchTwoPass(bs, as) == LET r == MatchPass1(bs, as) IN MatchPass2(r.ms, r.rest, 1)

MatchEntries(bs, as, mode) == IF mode = "twopass" THEN MatchTwoPass(bs, as) ELSE MatchGreedy(bs, as)

\* the state switch of GitBranchFinder.Find
StateOf(m) ==
  CASE ~m.hasBefore /\ m.hasAfter -> "added"
    [] m.hasBefore /\ ~m.hasAfter -> "removed"
    [] m.isIdentical /\ ~m.wasMoved -> "noop"
    [] m.wasMoved -> "moved"
    [] OTHER -> "modified"

\* entries one FileChange contributes; when the HEAD version does not parse (failedEntries) base rules without a
\* counterpart are dropped instead of being reported as removed
ChangeEntries(ch, mode) ==
  LET before == IF ch.before = NoPath THEN <<>> ELSE EntriesOf(ch.before, ch.bfile)
      after  == IF ch.status = "D" THEN <<>> ELSE EntriesOf(ch.after, ch.afile)
      failed == \E k \in 1..Len(after) : after[k].err               \* entriesWithPathErrors(entriesAfter)
      ml     == SelectSeq(MatchEntries(before, after, mode), LAMBDA m : m.hasAfter \/ ~failed) IN
  [k \in 1..Len(ml) |-> IF ml[k].hasAfter THEN [ml[k].after EXCEPT !.state = StateOf(ml[k])]
                        ELSE [ml[k].before EXCEPT !.state = "removed"]]

ChangedEntries(chs, mode) == Flatten([k \in 1..Len(chs) |-> ChangeEntries(chs[k], mode)])

\* discovery.GlobFinder over the HEAD working tree: every rule, state noop
GlobEntries(t) == Flatten([i \in 1..Len(PathOrder) |-> IF PathOrder[i] \in Excluded THEN <<>>
                                                       ELSE EntriesOf(PathOrder[i], t[PathOrder[i]])])

IsSame(x, y) == x.rule.kind = y.rule.kind /\ x.first = y.first /\ x.last = y.last   \* Rule.IsSame
RECURSIVE Merge(_, _, _)
Merge(all, es, k) ==
  IF k > Len(es) THEN all
  ELSE LET e == es[k] IN
       IF e.state = "removed" THEN Merge(Append(all, e), es, k + 1)
       ELSE LET S == {i \in 1..Len(all) : all[i].path = e.path /\ IsSame(e, all[i])} IN
            IF S = {} THEN Merge(Append(all, e), es, k + 1)
            ELSE Merge([all EXCEPT ![MinOf(S)].state = e.state], es, k + 1)

AllEntries(t, chs, mode) == Merge(GlobEntries(t), ChangedEntries(chs, mode), 1)

\* what the marker configuration shows: rule/report runs on every non-removed entry, one marker per state
MarkersOf(all) ==
  {[path |-> e.path, first |-> e.first, last |-> e.last, state |-> e.state] :
     e \in {x \in RangeOf(all) : x.state # "removed" /\ ~x.err}}
\* config.GetChecksForEntry: an entry with a PathError only gets the error check, under the default CI states;
\* checkRules skips removed entries with errors
ParseReportsOf(all) ==
  {[path |-> e.path, line |-> e.eline] : e \in {x \in RangeOf(all) : x.err /\ x.state \in {"added", "modified", "moved"}}}
ImplParse(t, chs, mode) == ParseReportsOf(AllEntries(t, chs, mode))
ImplMarkers(t, chs, mode) == MarkersOf(AllEntries(t, chs, mode))

-----------------------------------------------------------------------------
(* Doc: direct comparison of the fork-point and HEAD versions of a file    *)
Full(f, k) == [rule |-> Content(f.rules[k]), fdis |-> f.fdis]
Key(r) == <<r.kind, r.name>>
Changed == {"added", "modified", "moved"}

\* acceptable states of rule k of HEAD file p, whose file identity is org
RefAcceptOf(hf, bf, org, p, k) ==
  LET moved == org # p
      c   == Full(hf, k)
      key == Key(hf.rules[k])
      nB  == Cardinality({j \in 1..Len(bf.rules) : Full(bf, j) = c})           \* identical versions at the fork point
      nH  == Cardinality({j \in 1..Len(hf.rules) : Full(hf, j) = c})
      gB  == Cardinality({j \in 1..Len(bf.rules) : Key(bf.rules[j]) = key})    \* same kind and name
      gH  == Cardinality({j \in 1..Len(hf.rules) : Key(hf.rules[j]) = key})
  IN
  IF org = Fresh THEN {"added"}                                  \* the file has no version at the fork point
  ELSE IF org \in Excluded THEN Changed                          \* the file entered the linted set on this branch
  ELSE IF gH = 1 /\ gB <= 1                                      \* the rule's counterpart is unambiguous
  THEN IF nB = 1 THEN (IF moved THEN {"moved"} ELSE {"noop"})
       ELSE IF gB = 1 THEN (IF moved THEN {"modified", "moved"} ELSE {"modified"})
       ELSE {"added"}
  ELSE \* several rules of this kind and name: only what holds under every pairing is claimed
       IF moved THEN Changed
       ELSE IF nB >= nH THEN {"noop"}                            \* an untouched rule is never reported as changed
       ELSE IF nB = 0 THEN Changed                               \* a changed rule is never skipped
       ELSE Changed \cup {"noop"}

RefAccept(p, k) ==
  LET org == origin[p] IN
  RefAcceptOf(tree[p], IF org = Fresh THEN AbsentFile ELSE base[org], org, p, k)

\* the rules `pint ci` lints at HEAD (a file that does not parse has none)
HeadRules == UNION {{<<p, k>> : k \in 1..Len(tree[p].rules)} : p \in {q \in Paths \ Excluded : ~tree[q].broken}}
\* some linted HEAD file does not parse: which rules "remain at HEAD" is then undefined (C20: binding only)
Unparsed == \E p \in Paths \ Excluded : tree[p].broken
\* the pair of versions pint compares for p is not (merge-base version, HEAD version): Body.After is read at the last
\* branch commit that touched the file, Body.Before at the parent of the first one - after `git merge <base>` neither
\* need be the HEAD version / the merge-base version any more
StaleAt(p) ==
  \E i \in 1..Len(changes) :
     /\ changes[i].after = p /\ changes[i].status # "D"
     /\ \/ changes[i].afile # tree[p]
        \/ changes[i].before \in Paths /\ changes[i].bfile # base[changes[i].before]
Stale == \E p \in Paths : StaleAt(p)

StatesAt(ms, p, k) == {m.state : m \in {x \in ms : x.path = p /\ x.first = FirstLine(tree[p], k)
                                                   /\ x.last = LastLine(tree[p], k)}}
RuleOK(ms, p, k) == LET S == StatesAt(ms, p, k) IN S # {} /\ S \subseteq RefAccept(p, k)

\* normalised shape of the file pair around rule k of p: the rules of its kind and name, as content classes
Sig(p, k, obs) ==
  LET org == origin[p]
      hf  == tree[p]
      bf  == IF org = Fresh \/ org = NoPath THEN AbsentFile ELSE base[org]
      key == Key(hf.rules[k])
      bI  == SelectSeq([j \in 1..Len(bf.rules) |-> j], LAMBDA j : Key(bf.rules[j]) = key)
      hI  == SelectSeq([j \in 1..Len(hf.rules) |-> j], LAMBDA j : Key(hf.rules[j]) = key)
      all == [j \in 1..Len(bI) |-> Full(bf, bI[j])] \o [j \in 1..Len(hI) |-> Full(hf, hI[j])]
      cls(c) == MinOf({j \in 1..Len(all) : all[j] = c})
      dense(x) == Cardinality({cls(all[j]) : j \in 1..Len(all)} \cap 1..x)
  IN [base  |-> [j \in 1..Len(bI) |-> dense(cls(Full(bf, bI[j])))],
      head  |-> [j \in 1..Len(hI) |-> dense(cls(Full(hf, hI[j])))],
      rule  |-> MinOf({j \in 1..Len(hI) : hI[j] = k}),
      moved |-> org # p, fresh |-> org = Fresh,
      acc   |-> RefAccept(p, k), obs |-> obs, path |-> p, k |-> k, stale |-> StaleAt(p), merged |-> nmerge > 0]

Inv_C03 ==
  (phase = "branch" /\ ~ambig) =>
    LET ms == ImplMarkers(tree, changes, MatchMode) IN \A pk \in HeadRules : RuleOK(ms, pk[1], pk[2])

\* The defect F5 (known_findings.json, C03; fixed in pint 5626418): the greedy matcher lets an earlier HEAD rule without an identical
\* fork-point version take, by name, the version of a later untouched rule of the same kind and name, which is then
\* reported as added. Exactly: the rule must be noop, the greedy transcription says added, identical-first says noop.
KnownF5(p, k) ==
  /\ RefAccept(p, k) = {"noop"}
  /\ Cardinality({j \in 1..Len(tree[p].rules) : Key(tree[p].rules[j]) = Key(tree[p].rules[k])}) >= 2
  /\ StatesAt(ImplMarkers(tree, changes, "greedy"), p, k) = {"added"}
  /\ StatesAt(ImplMarkers(tree, changes, "twopass"), p, k) = {"noop"}

Inv_C03_known ==
  (phase = "branch" /\ ~ambig) =>
    LET ms == ImplMarkers(tree, changes, MatchMode) IN
    \A pk \in HeadRules : RuleOK(ms, pk[1], pk[2]) \/ (MatchMode = "greedy" /\ KnownF5(pk[1], pk[2]))

\* The open defect F23 (known_findings.json, C03): once the base branch has been merged into the branch, git.Changes
\* still compares "parent of the first branch commit touching the file" with "last branch commit touching the file".
\* Rules the base branch contributed are then reported as added by the branch, and when the merge shifted lines the
\* changed entries carry pre-merge line numbers and are merged into the wrong glob entries (or into none).
Inv_C03_modMerge ==
  (phase = "branch" /\ ~ambig) =>
    LET ms == ImplMarkers(tree, changes, MatchMode) IN
    \A pk \in HeadRules : \/ RuleOK(ms, pk[1], pk[2])
                          \/ nmerge > 0 /\ StaleAt(pk[1])
                          \/ MatchMode = "greedy" /\ KnownF5(pk[1], pk[2])

\* model-level leads: prints the signature of every rule whose predicted marker is not acceptable
PrintLeads ==
  phase = "branch" =>
    LET ms == ImplMarkers(tree, changes, MatchMode) IN
    \A pk \in HeadRules : IF RuleOK(ms, pk[1], pk[2]) THEN TRUE
                          ELSE PrintT(<<"LEAD", ToJson(Sig(pk[1], pk[2], StatesAt(ms, pk[1], pk[2])))>>)

-----------------------------------------------------------------------------
(* C20: the rule/dependency check on removed rules                         *)
\* Expressions are "or"-joined selectors: v1/v2 (no selector), m:<metric>, A:<alertname> = ALERTS{alertname="<a>"},
\* S:<alertname> = ALERTS_FOR_STATE{alertname="<a>"}; at most two joined by "+".
AtomNames == {"n1", "n2", "n3"}
AllAtoms  == {"m", "A", "S"} \X AtomNames
Tok(a)    == a[1] \o ":" \o a[2]
AtomTable ==
  [b \in {"v1", "v2"} |-> {}] @@
  [b \in {Tok(a) : a \in AllAtoms} |-> {a \in AllAtoms : Tok(a) = b}] @@
  [b \in {Tok(x[1]) \o "+" \o Tok(x[2]) : x \in AllAtoms \X AllAtoms} |->
     UNION {{x[1], x[2]} : x \in {y \in AllAtoms \X AllAtoms : Tok(y[1]) \o "+" \o Tok(y[2]) = b}}]
AtomsOf(b) == IF b \in DOMAIN AtomTable THEN AtomTable[b] ELSE Assert(FALSE, <<"unknown expression token", b>>)

\* parser/utils HasVectorSelector + RuleDependencyCheck.usesVector / usesAlert: does rule content c select what the
\* removed rule r (content) produced?
UsesRule(c, r) ==
  IF r.kind = "rec" THEN <<"m", r.name>> \in AtomsOf(c.body)                     \* vs.Name == name
  ELSE <<"A", r.name>> \in AtomsOf(c.body) \/ <<"S", r.name>> \in AtomsOf(c.body) \* ALERTS / ALERTS_FOR_STATE, alertname = name

\* sort.SliceStable by (path, line, name) on a duplicate-free list: insertion into the sorted prefix
DepLess(x, y) ==
  LET px == MinOf({i \in 1..Len(PathOrder) : PathOrder[i] = x.path})
      py == MinOf({i \in 1..Len(PathOrder) : PathOrder[i] = y.path}) IN
  \/ px < py
  \/ px = py /\ x.line < y.line
  \* equal (path, line) means the same rule, hence the same name: never reached with a name tie-break
RECURSIVE SortDeps(_)
SortDeps(ds) ==
  IF ds = <<>> THEN <<>>
  ELSE LET d == Head(ds)
           rest == SortDeps(Tail(ds))
           lo == SelectSeq(rest, LAMBDA x : DepLess(x, d))
           hi == SelectSeq(rest, LAMBDA x : ~DepLess(x, d)) IN
       lo \o <<d>> \o hi

\* RuleDependencyCheck.Check for one removed entry e against the merged entry list
DependencyProblem(e, all) ==
  LET filtered == SelectSeq(all, LAMBDA x : x.state # "removed" /\ ~x.err)   \* nonRemovedEntries (also drops PathError entries)
      replaced == \E i \in 1..Len(filtered) : SameName(filtered[i], e)   \* another rule with same type & name
      users    == SelectSeq(filtered, LAMBDA x : UsesRule(x.rule, e.rule))
      deps     == [i \in 1..Len(users) |-> [name |-> users[i].rule.name, path |-> users[i].path, line |-> users[i].first + 1]]
      \* de-duplication by (kind, path, line, name): keep first occurrences
      uniq     == SelectSeq([i \in 1..Len(deps) |-> [d |-> deps[i], keep |-> \A j \in 1..(i - 1) : deps[j] # deps[i]]],
                            LAMBDA x : x.keep)
      sorted   == SortDeps([i \in 1..Len(uniq) |-> uniq[i].d]) IN
  IF replaced \/ sorted = <<>> THEN {}
  ELSE {[path |-> e.path, first |-> e.first, last |-> e.last, deps |-> sorted]}

\* rule/dependency problems of a run: one Check per removed entry (cmd/pint/scan.go checkRules)
ImplDeps(t, chs, mode) ==
  LET all == AllEntries(t, chs, mode) IN
  UNION {DependencyProblem(all[i], all) : i \in {j \in 1..Len(all) : all[j].state = "removed" /\ ~all[j].err}}

\* Doc: a rule of the fork-point tree whose (kind, name) no HEAD rule carries has been removed without replacement;
\* its dependants are the HEAD rules selecting its metric / its alertname.
HeadContents == {[p |-> pk[1], k |-> pk[2], c |-> Content(tree[pk[1]].rules[pk[2]])] : pk \in HeadRules}
DocDeps(r) ==
  IF \E h \in HeadContents : Key(h.c) = Key(r) THEN {}
  ELSE {[name |-> h.c.name, path |-> h.p, line |-> ExprLine(tree[h.p], h.k)] : h \in {x \in HeadContents : UsesRule(x.c, r)}}
DocWarnings ==
  UNION {UNION {IF DocDeps(Content(base[q].rules[j])) = {} THEN {}
                ELSE {[path |-> q, first |-> FirstLine(base[q], j), last |-> LastLine(base[q], j),
                       deps |-> DocDeps(Content(base[q].rules[j]))]}
                : j \in 1..Len(base[q].rules)} : q \in Paths}

\* The same warnings located by the line numbers of the fork-point version (a removed rule has no lines at HEAD; after a
\* merge of the base branch "its lines" may mean the merge-base version or the version the branch started from).
ForkOffset(q) ==
  LET nb == Len(base[q].rules)
      nf == Len(fork[q].rules) IN
  IF nf = 0 \/ nb < nf THEN 0
  ELSE LET S == {i \in 0..(nb - nf) : SubSeq(base[q].rules, i + 1, i + nf) = fork[q].rules} IN IF S = {} THEN 0 ELSE MinOf(S)
DocWarningsForkLines ==
  UNION {UNION {IF DocDeps(Content(fork[q].rules[j])) = {} THEN {}
                ELSE {[path |-> q, first |-> FirstLine(fork[q], j), last |-> LastLine(fork[q], j),
                       deps |-> DocDeps(Content(fork[q].rules[j]))]}
                : j \in 1..Len(fork[q].rules)} : q \in Paths}
DocWarningsOK(ws) == ws = DocWarnings \/ (nmerge > 0 /\ ws = DocWarningsForkLines)

DepsAsSets(ws) == {[path |-> w.path, first |-> w.first, last |-> w.last, deps |-> RangeOf(w.deps)] : w \in ws}

Inv_C20 == (phase = "branch" /\ ~ambig /\ ~Unparsed /\ ~(nmerge > 0 /\ Stale)) => DocWarningsOK(DepsAsSets(ImplDeps(tree, changes, MatchMode)))

-----------------------------------------------------------------------------
(* Actions                                                                 *)
NoNS == [status |-> "", src |-> NoPath, dst |-> NoPath]
NoNew == [p \in Paths |-> [top |-> <<>>, end |-> <<>>, mid |-> <<>>]]
Init ==
  /\ phase = "fork"
  /\ fork = [p \in Paths |-> AbsentFile] /\ tree = [p \in Paths |-> AbsentFile]
  /\ base = [p \in Paths |-> AbsentFile] /\ mainNew = NoNew /\ nmerge = 0
  /\ changes = <<>>
  /\ origin = [p \in Paths |-> NoPath] /\ tomb = [p \in Paths |-> NoPath] /\ ambig = FALSE
  /\ prevTree = [p \in Paths |-> AbsentFile]
  /\ lastNS = NoNS
  /\ ncommit = 0 /\ nbase = 0 /\ log = <<>>

RECURSIVE CountRules(_, _)
CountRules(t, i) == IF i = 0 THEN 0 ELSE Len(t[PathOrder[i]].rules) + CountRules(t, i - 1)

ForkAppend(p, r) ==
  /\ phase = "fork"
  /\ Len(fork[p].rules) < MaxRules /\ CountRules(fork, Len(PathOrder)) < MaxForkRules
  /\ fork' = [fork EXCEPT ![p] = [present |-> TRUE, fdis |-> @.fdis, broken |-> FALSE, rules |-> Append(@.rules, r)]]
  /\ UNCHANGED <<phase, base, mainNew, nmerge, tree, changes, origin, tomb, ambig, prevTree, lastNS, ncommit, nbase, log>>

ForkEmptyFile(p) ==
  /\ phase = "fork" /\ ~fork[p].present
  /\ fork' = [fork EXCEPT ![p] = EmptyFile]
  /\ UNCHANGED <<phase, base, mainNew, nmerge, tree, changes, origin, tomb, ambig, prevTree, lastNS, ncommit, nbase, log>>

ForkFileDisable(p) ==
  /\ phase = "fork" /\ ForkFdis /\ fork[p].present /\ ~fork[p].fdis
  /\ fork' = [fork EXCEPT ![p].fdis = TRUE]
  /\ UNCHANGED <<phase, base, mainNew, nmerge, tree, changes, origin, tomb, ambig, prevTree, lastNS, ncommit, nbase, log>>

StartBranch ==
  /\ phase = "fork" /\ \E p \in Paths : fork[p].present
  /\ phase' = "branch" /\ tree' = fork /\ prevTree' = fork /\ base' = fork
  /\ origin' = [p \in Paths |-> IF fork[p].present THEN p ELSE NoPath]
  /\ UNCHANGED <<fork, mainNew, nmerge, changes, tomb, ambig, lastNS, ncommit, nbase, log>>

\* A commit = one or two file-level parts, each a name-status line and the new content of its destination.
Mk(op, st, src, dst, f) == [op |-> op, ns |-> [status |-> st, src |-> src, dst |-> dst], file |-> f, more |-> <<>>]
Parts(o) == <<[ns |-> o.ns, file |-> o.file]>> \o o.more
WithRules(f, rs) == [f EXCEPT !.rules = rs]
Present == {p \in Paths : tree[p].present}
Editable == {p \in Present : ~tree[p].broken}
Has(op) == op \in OpSet
PathIdx(p) == MinOf({i \in 1..Len(PathOrder) : PathOrder[i] = p})

\* one-field variants of a rule, by the user-level operation that makes them
ExprVariants(r)  == {[r EXCEPT !.body = b] : b \in Bodies \ {r.body}}
LabelVariants(r) == {[r EXCEPT !.lab = x] : x \in Labs \ {r.lab}}
NameVariants(r)  == {[r EXCEPT !.name = x] : x \in Names \ {r.name}}
KindVariants(r)  == {[r EXCEPT !.kind = x, !.ext = IF x = "rec" THEN "x0" ELSE @] : x \in Kinds \ {r.kind}}
ExtVariants(r)   == IF r.kind = "alr" THEN {[r EXCEPT !.ext = x] : x \in Exts \ {r.ext}} ELSE {}
CmtVariants(r)   == {[r EXCEPT !.cmt = x] : x \in Cmts \ {r.cmt}}
NoteVariants(r)  == IF 2 \notin Pads THEN {} ELSE IF r.pad = 2 THEN {[r EXCEPT !.pad = 0]}
                    ELSE IF r.pad = 0 THEN {[r EXCEPT !.pad = 2]} ELSE {}
SpaceVariants(r) == IF 1 \notin Pads THEN {} ELSE IF r.pad = 1 THEN {[r EXCEPT !.pad = 0]}
                    ELSE IF r.pad = 0 THEN {[r EXCEPT !.pad = 1]} ELSE {}

RuleEdits(op, V(_)) ==
  IF ~Has(op) THEN {} ELSE
  UNION {UNION {{Mk(op, "M", p, p, WithRules(tree[p], [tree[p].rules EXCEPT ![k] = r2])) : r2 \in V(tree[p].rules[k])}
                : k \in 1..Len(tree[p].rules)} : p \in Editable}

InverseOfLast ==
  CASE lastNS.status = "A" -> {Mk("RevertLast", "D", lastNS.dst, lastNS.dst, AbsentFile)}
    [] lastNS.status = "D" -> {Mk("RevertLast", "A", lastNS.src, lastNS.src, prevTree[lastNS.src])}
    [] lastNS.status = "M" -> {Mk("RevertLast", "M", lastNS.dst, lastNS.dst, prevTree[lastNS.dst])}
    [] lastNS.status = "R" -> {Mk("RevertLast", "R", lastNS.dst, lastNS.src, prevTree[lastNS.src])}
    [] OTHER -> {}

\* files a user may add at p: a one-rule file, an empty file, or what was at p at the fork point
NewFiles(p) == {WithRules(EmptyFile, <<r>>) : r \in NewRules} \cup {EmptyFile}
               \cup (IF fork[p].present THEN {fork[p]} ELSE {})

Singles ==
     RuleEdits("ModifyExpr", ExprVariants) \cup RuleEdits("ModifyLabels", LabelVariants)
  \cup RuleEdits("RenameRule", NameVariants) \cup RuleEdits("ChangeKind", KindVariants)
  \cup RuleEdits("CommentOnlyEdit", CmtVariants) \cup RuleEdits("PlainCommentEdit", NoteVariants)
  \cup RuleEdits("WhitespaceEdit", SpaceVariants) \cup RuleEdits("ModifyAlertFields", ExtVariants)
  \cup (IF ~Has("AddRule") THEN {} ELSE
        UNION {UNION {{Mk("AddRule", "M", p, p, WithRules(tree[p], InsertAt(tree[p].rules, k, r))) : r \in NewRules}
                      : k \in 1..(Len(tree[p].rules) + 1)} : p \in {q \in Editable : Len(tree[q].rules) < MaxRules}})
  \cup (IF ~Has("DeleteRule") THEN {} ELSE
        UNION {{Mk("DeleteRule", "M", p, p, WithRules(tree[p], RemoveAt(tree[p].rules, k))) : k \in 1..Len(tree[p].rules)}
               : p \in Editable})
  \cup (IF ~Has("SwapRules") THEN {} ELSE
        UNION {{Mk("SwapRules", "M", p, p, WithRules(tree[p], [tree[p].rules EXCEPT ![k] = tree[p].rules[k + 1],
                                                                                    ![k + 1] = tree[p].rules[k]]))
                : k \in {j \in 1..(Len(tree[p].rules) - 1) : tree[p].rules[j] # tree[p].rules[j + 1]}} : p \in Editable})
  \cup (IF ~Has("FileDisableEdit") THEN {} ELSE
        {Mk("FileDisableEdit", "M", p, p, [tree[p] EXCEPT !.fdis = ~@]) : p \in Editable})
  \* a commit leaves the file unparsable / repairs it
  \cup (IF ~Has("BreakFile") THEN {} ELSE
        {Mk("BreakFile", "M", p, p, [tree[p] EXCEPT !.broken = TRUE]) : p \in Editable \ Excluded})
  \cup (IF ~Has("BreakFile") THEN {} ELSE
        {Mk("FixFile", "M", p, p, [tree[p] EXCEPT !.broken = FALSE]) : p \in Present \ Editable})
  \cup (IF ~Has("AddFile") THEN {} ELSE
        UNION {{Mk("AddFile", "A", p, p, f) : f \in NewFiles(p)} : p \in (Paths \ Present) \ Excluded})
  \cup (IF ~Has("DeleteFile") THEN {} ELSE {Mk("DeleteFile", "D", p, p, AbsentFile) : p \in Present})
  \cup (IF ~Has("RenameFile") THEN {} ELSE
        UNION {{Mk("RenameFile", "R", p, q, tree[p]) : q \in {x \in (Paths \ Present) \ Excluded : tomb[x] = NoPath \/ TombRename}}
               : p \in Present})

\* one part is a well-formed file-level operation on the tree t before the commit (tb: tombstones before the commit)
ValidPart(t, tb, x) ==
  CASE x.ns.status = "A" -> x.ns.src = x.ns.dst /\ ~t[x.ns.dst].present /\ x.file.present
                            /\ x.ns.dst \notin Excluded             \* files are not created outside the linted set
    [] x.ns.status = "M" -> x.ns.src = x.ns.dst /\ t[x.ns.dst].present /\ x.file.present /\ x.file # t[x.ns.dst]
    [] x.ns.status = "D" -> x.ns.src = x.ns.dst /\ t[x.ns.src].present
    [] x.ns.status = "R" -> x.ns.src # x.ns.dst /\ t[x.ns.src].present /\ ~t[x.ns.dst].present
                            /\ x.file = t[x.ns.src]                 \* pure move: git reports R100
                            /\ (tb[x.ns.dst] = NoPath \/ TombRename) \* onto a path deleted on this branch: ambig
                            /\ x.ns.dst \notin Excluded             \* nor out of the linted set
    [] OTHER -> FALSE

\* Several parts in one commit. git prints the lines ordered by destination path. git's similarity heuristic must never
\* decide anything: all paths distinct; at most one (pure) rename and then nothing added and nothing deleted that has the
\* renamed content; an added and a deleted file of one commit are dissimilar by construction (one has rules, the other
\* has none, no file/disable line, both parse).
ValidParts(t, tb, ps) ==
  LET n == Len(ps)
      touched(x) == IF x.ns.status = "R" THEN {x.ns.src, x.ns.dst} ELSE {x.ns.dst}
      st(i) == ps[i].ns.status IN
  /\ \A i \in 1..n : ValidPart(t, tb, ps[i])
  /\ \A i, j \in 1..n : i < j => touched(ps[i]) \cap touched(ps[j]) = {} /\ PathIdx(ps[i].ns.dst) < PathIdx(ps[j].ns.dst)
  /\ Cardinality({i \in 1..n : st(i) = "R"}) <= 1
  /\ \A i, j \in 1..n :
        /\ (st(i) = "R" /\ st(j) = "A") => FALSE
        /\ (st(i) = "R" /\ st(j) = "D") => t[ps[j].ns.src] # t[ps[i].ns.src]
        /\ (st(i) = "A" /\ st(j) = "D") =>
             LET a == ps[i].file
                 d == t[ps[j].ns.src] IN
             ~a.fdis /\ ~d.fdis /\ ~a.broken /\ ~d.broken /\ ((Len(a.rules) = 0) # (Len(d.rules) = 0))

Pairs ==
  IF ~Has("MultiOp") THEN {} ELSE
  LET S == {x \in Singles : x.op \in PairOps} IN
  {[op |-> ab[1].op \o "+" \o ab[2].op, ns |-> ab[1].ns, file |-> ab[1].file,
    more |-> <<[ns |-> ab[2].ns, file |-> ab[2].file]>>] :
     ab \in {xy \in S \X S : ValidParts(tree, tomb, <<[ns |-> xy[1].ns, file |-> xy[1].file],
                                                      [ns |-> xy[2].ns, file |-> xy[2].file]>>)}}

Candidates == Singles \cup Pairs \cup (IF ~Has("RevertLast") \/ ncommit = 0 THEN {} ELSE InverseOfLast)

RECURSIVE ApplyParts(_, _, _)
ApplyParts(t, ps, k) ==
  IF k > Len(ps) THEN t
  ELSE LET x == ps[k] IN
       ApplyParts(CASE x.ns.status \in {"A", "M"} -> [t EXCEPT ![x.ns.dst] = x.file]
                    [] x.ns.status = "D" -> [t EXCEPT ![x.ns.src] = AbsentFile]
                    [] x.ns.status = "R" -> [t EXCEPT ![x.ns.src] = AbsentFile, ![x.ns.dst] = x.file], ps, k + 1)
RECURSIVE FoldParts(_, _, _, _, _, _)
FoldParts(chs, ps, k, c, t, t2) ==
  IF k > Len(ps) THEN chs ELSE FoldParts(Fold(chs, ps[k].ns, c, t, t2), ps, k + 1, c, t, t2)

\* Doc: file identities. A deleted file leaves its identity at the path; adding a file there again continues it.
LinStep(st, ns) ==
  CASE ns.status = "A" -> [origin |-> [st.origin EXCEPT ![ns.dst] = IF st.tomb[ns.dst] # NoPath THEN st.tomb[ns.dst] ELSE Fresh],
                           tomb   |-> [st.tomb EXCEPT ![ns.dst] = NoPath], ambig |-> st.ambig]
    [] ns.status = "D" -> [origin |-> [st.origin EXCEPT ![ns.src] = NoPath],
                           tomb   |-> [st.tomb EXCEPT ![ns.src] = st.origin[ns.src]], ambig |-> st.ambig]
    [] ns.status = "R" -> [origin |-> [st.origin EXCEPT ![ns.dst] = st.origin[ns.src], ![ns.src] = NoPath],
                           tomb   |-> [st.tomb EXCEPT ![ns.dst] = NoPath],
                           ambig  |-> st.ambig \/ st.tomb[ns.dst] # NoPath]
    [] OTHER -> st
RECURSIVE LinParts(_, _, _)
LinParts(st, ps, k) == IF k > Len(ps) THEN st ELSE LinParts(LinStep(st, ps[k].ns), ps, k + 1)

Commit(o) ==
  /\ phase = "branch" /\ ncommit < MaxCommits
  /\ ValidParts(tree, tomb, Parts(o))
  /\ LET ps == Parts(o)
         t2 == ApplyParts(tree, ps, 1)
         ln == LinParts([origin |-> origin, tomb |-> tomb, ambig |-> ambig], ps, 1) IN
     /\ tree' = t2
     /\ changes' = FoldParts(changes, ps, 1, ncommit + 1, tree, t2)
     /\ origin' = ln.origin /\ tomb' = ln.tomb /\ ambig' = ln.ambig
     /\ lastNS' = IF Len(ps) = 1 THEN o.ns ELSE NoNS
  /\ prevTree' = tree
  /\ ncommit' = ncommit + 1
  /\ log' = Append(log, o)
  /\ UNCHANGED <<phase, fork, base, mainNew, nmerge, nbase>>

\* A commit on the base branch after the fork inserts one rule at the top or at the end of a file. It is invisible to
\* `git log base..HEAD` and to the merge base until the base branch is merged into the branch.
MainFile(b, mn, p) == [b[p] EXCEPT !.rules = mn[p].top \o (IF mn[p].mid = <<>> THEN @ ELSE mn[p].mid) \o mn[p].end]
ZZ(n) == [kind |-> "rec", name |-> "zz" \o ToString(n), body |-> "v1", lab |-> "l1", cmt |-> "none", pad |-> 0, ext |-> "x0"]
BaseAdvance(p, where) ==
  /\ phase = "branch" /\ Has("BaseAdvance") /\ nbase < MaxBaseAdv
  /\ p \notin Excluded /\ base[p].present
  /\ LET mn == IF where = "top" THEN [mainNew EXCEPT ![p].top = <<ZZ(nbase + 1)>> \o @]
               ELSE [mainNew EXCEPT ![p].end = @ \o <<ZZ(nbase + 1)>>] IN
     /\ mainNew' = mn
     /\ log' = Append(log, [Mk("BaseAdvance", "B", p, p, MainFile(base, mn, p)) EXCEPT !.op = "BaseAdvance" \o where])
  /\ nbase' = nbase + 1
  /\ UNCHANGED <<phase, fork, base, nmerge, tree, changes, origin, tomb, ambig, prevTree, lastNS, ncommit>>

\* A commit on the base branch edits one rule in place (labels or expression). Unmerged, it must stay invisible: the
\* documented comparison is merge base (= fork point) against HEAD, whatever the tip of the base branch holds by now.
BaseAdvanceEdit(p, k, r2) ==
  /\ phase = "branch" /\ Has("BaseAdvance") /\ nbase < MaxBaseAdv
  /\ p \notin Excluded /\ base[p].present /\ k \in 1..Len(base[p].rules)
  /\ LET cur == IF mainNew[p].mid = <<>> THEN base[p].rules ELSE mainNew[p].mid
         new == [cur EXCEPT ![k] = r2]
         mn  == [mainNew EXCEPT ![p].mid = IF new = base[p].rules THEN <<>> ELSE new] IN
     /\ r2 # cur[k]
     /\ mainNew' = mn
     /\ log' = Append(log, [op |-> "BaseAdvanceedit", ns |-> [status |-> "B", src |-> p, dst |-> p],
                            file |-> MainFile(base, mn, p), more |-> <<>>, k |-> k, rule |-> r2])
  /\ nbase' = nbase + 1
  /\ UNCHANGED <<phase, fork, base, nmerge, tree, changes, origin, tomb, ambig, prevTree, lastNS, ncommit>>
MainRule(p, k) == IF mainNew[p].mid = <<>> THEN base[p].rules[k] ELSE mainNew[p].mid[k]

\* `git merge <base branch>` on the branch. The merged content (also the resolution of conflicts) is: the branch's
\* version of every file plus the rules the base branch inserted into the file it descends from; insertions into files
\* the branch deleted or left unparsable are dropped. The merge commit is not listed by
\* `git log --no-merges --first-parent base..HEAD`; the merge base becomes the tip of the base branch.
MergedTree ==
  [q \in Paths |->
     IF tree[q].present /\ ~tree[q].broken /\ origin[q] \in Paths
     THEN [tree[q] EXCEPT !.rules = mainNew[origin[q]].top \o @ \o mainNew[origin[q]].end]
     ELSE tree[q]]
MergeBase ==
  /\ phase = "branch" /\ Has("MergeBase") /\ nmerge < MaxMerge /\ mainNew # NoNew
  /\ \A p \in Paths : mainNew[p].mid = <<>>      \* in-place edits of the base branch are only explored unmerged
  /\ tree' = MergedTree /\ prevTree' = MergedTree /\ lastNS' = NoNS
  /\ base' = [p \in Paths |-> MainFile(base, mainNew, p)]
  /\ mainNew' = NoNew /\ nmerge' = nmerge + 1
  /\ log' = Append(log, [op |-> "MergeBase", ns |-> [status |-> "G", src |-> NoPath, dst |-> NoPath], file |-> AbsentFile,
                         more |-> <<>>, tree |-> MergedTree])
  /\ UNCHANGED <<phase, fork, changes, origin, tomb, ambig, ncommit, nbase>>

Next ==
  \/ \E p \in Paths : \/ \E r \in NewRules : ForkAppend(p, r)
                      \/ ForkEmptyFile(p) \/ ForkFileDisable(p)
                      \/ \E w \in {"top", "end"} : BaseAdvance(p, w)
                      \/ \E k \in 1..Len(base[p].rules) :
                            \E r2 \in LabelVariants(MainRule(p, k)) \cup ExprVariants(MainRule(p, k)) : BaseAdvanceEdit(p, k, r2)
  \/ StartBranch
  \/ MergeBase
  \/ \E o \in Candidates : Commit(o)

Spec == Init /\ [][Next]_vars

\* GEN: one line per history. `hint` only steers the driver's sub-sampling (never a verdict).
Hint ==
  [warn  |-> Cardinality(DocWarnings),
   dup   |-> \E pk \in HeadRules : Cardinality({j \in 1..Len(tree[pk[1]].rules) :
                                       Key(tree[pk[1]].rules[j]) = Key(tree[pk[1]].rules[pk[2]])}) >= 2,
   moved |-> \E p \in Paths : tree[p].present /\ origin[p] # p,
   basetouch |-> \E i \in 1..Len(changes) : changes[i].before \in Paths
                                               /\ MainFile(base, mainNew, changes[i].before) # base[changes[i].before],
   ambig |-> ambig, stale |-> Stale, unparsed |-> Unparsed, merged |-> nmerge > 0,
   acc   |-> UNION {RefAccept(pk[1], pk[2]) : pk \in HeadRules}]
EmitCase ==
  (phase = "branch" /\ ncommit + nbase >= 1) =>
     PrintT(<<"CASE", ToJson([fork |-> fork, log |-> log, hint |-> Hint])>>)
=============================================================================
