SPECIFICATION TraceSpec
CONSTANTS
  MaxDev = 0
  NamesSet = {"utf8", "legacy"}
  SchemaSet = {"prometheus", "thanos"}
  CoreOnly = FALSE
  Gaps = {}
CHECK_DEADLOCK FALSE
