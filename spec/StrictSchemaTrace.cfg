SPECIFICATION TraceSpec
CONSTANTS
  MaxDev = 0
  NamesSet = {"utf8", "legacy"}
  CoreOnly = FALSE
  Gaps = {}
CHECK_DEADLOCK FALSE
