SPECIFICATION TraceSpec
CONSTANTS
  MaxDev = 0
  NamesSet = {"utf8", "legacy"}
  CoreOnly = FALSE
  Gaps = {"F9a", "F9b", "F9c", "F9d", "F9e"}
CHECK_DEADLOCK FALSE
