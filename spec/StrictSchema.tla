---------------------------- MODULE StrictSchema ----------------------------
(***************************************************************************)
(* C01 - a file pint passes in strict mode is loadable by Prometheus.      *)
(*                                                                         *)
(* An abstract rule document is a top-level shape, one focus group and one *)
(* focus rule; every field of both carries a STATUS (absent, ok, empty,    *)
(* mistyped as int/bool/seq/map/null, duplicated, or a field-specific      *)
(* invalid value).  harness/schemadoc renders every status to one fixed    *)
(* YAML text; nothing else is known about a status outside this module.    *)
(*                                                                         *)
(* Impl side : PintStages(d) transcribes, early return by early return,    *)
(*             parser.Parse -> strict.go parseGroups / parseGroup /        *)
(*             parseRuleStrict -> parser.go parseRule, discovery.readRules *)
(*             (which entries exist), checks/error.go (Fatal yaml/parse),  *)
(*             promql/syntax (Fatal), alerts/template (Fatal / Bug) and    *)
(*             alerts/for (Bug).  Its value is the set of stage codes of   *)
(*             all problems with severity >= Bug.                          *)
(* Doc side  : PromAccepts(d) transcribes Prometheus model/rulefmt         *)
(*             Parse (yaml.v3 strict decode into RuleGroups) + Validate.   *)
(*             It is written from rulefmt.go and yaml.v3's decoding rules, *)
(*             independently of pint.                                      *)
(* Property  : PintStages(d) = {}  =>  PromAccepts(d).                      *)
(*                                                                         *)
(* The state machine grows a document from the all-valid baseline by       *)
(* deviating one field at a time (at most MaxDev deviations), so TLC       *)
(* visits every document with <= MaxDev simultaneously non-baseline fields.*)
(***************************************************************************)
EXTENDS Naturals, Sequences, FiniteSets, TLC, Json

CONSTANTS MaxDev,     \* number of fields that may deviate from the baseline at once
          NamesSet,   \* subset of {"utf8", "legacy"}: parser.names / model.NameValidationScheme
          CoreOnly,   \* BOOLEAN: the last deviation (the MaxDev-th) is restricted to the core fields
          Gaps        \* subset of {"F9a","F9b","F9c","F9d","F9e"}: validations of rulefmt that the implementation
                      \* under test still lacks (open entries of known_findings.json; {} once all are repaired)

-----------------------------------------------------------------------------
(* Vocabulary.                                                             *)

\* "null" is rendered as an empty value (key:), "nullWord" as the word null
Scalar == {"absent", "ok", "empty", "int", "bool", "seq", "map", "null", "nullWord", "dup"}
MapSt  == {"absent", "ok", "emptyMap", "null", "int", "str", "seq", "bool", "dup",
           "valInt", "valBool", "valNull", "valSeq", "valMap", "dupInner",
           "badNameEmpty", "badNameDash", "nameLabel"}
Item   == {"map", "null", "emptyMap", "str", "int", "seq"}

\* template texts of a label / annotation value:
\*   badTemplate     {{ $nope }}            parses with an error (undefined variable)
\*   unclosedAction  {{ $labels.instance    action opened, never closed
\*   unclosedComment {{/* TODO              comment opened, never closed
\*   unclosedBrace   {{ $value }            closing delimiter incomplete
\*   execTemplate    {{ .Nope }}            parses, fails only when executed
TemplateSt == {"badTemplate", "unclosedAction", "unclosedComment", "unclosedBrace", "execTemplate"}
\* text/template.Parse fails on these (both pint's ParseTest and rulefmt's testTemplateParsing see that)
TemplateParseErr(st) == st \in {"badTemplate", "unclosedAction", "unclosedComment", "unclosedBrace"}

GFields == {"name", "interval", "query_offset", "limit", "labels", "rules", "partial_response_strategy", "unknown"}
RFields == {"record", "alert", "expr", "merge", "for", "keep_firing_for", "labels", "annotations", "unknown"}

GDom(f) == CASE f = "name"         -> Scalar \cup {"dupOther"}
             [] f = "interval"     -> Scalar \cup {"badDur"}
             [] f = "query_offset" -> Scalar \cup {"badDur"}
             \* quotedInt: a numeric string ("10") - a string for YAML, not an integer
             [] f = "limit"        -> {"absent", "ok", "empty", "str", "quotedInt", "float", "neg", "bool", "seq", "map", "null", "dup"}
             [] f = "labels"       -> MapSt
             [] f = "rules"        -> {"ok", "absent", "null", "emptyList", "int", "str", "map", "bool", "dup"}
             [] f = "partial_response_strategy" -> {"absent", "ok"}
             [] f = "unknown"      -> {"absent", "present"}

RDom(f) == CASE f = "record"          -> Scalar \cup {"braces", "space"}
             [] f = "alert"           -> Scalar
             [] f = "expr"            -> Scalar \cup {"badPromql"}
             [] f = "for"             -> Scalar \cup {"badDur", "zero"}
             [] f = "keep_firing_for" -> Scalar \cup {"badDur", "zero"}
             [] f = "labels"          -> MapSt \cup TemplateSt \cup {"valueTemplate"}
             [] f = "annotations"     -> MapSt \cup TemplateSt
             [] f = "unknown"         -> {"absent", "present"}
             \* a merge key with an inline mapping, written right after expr:  <<: {}   or   <<: {for: 1x}
             [] f = "merge"           -> {"absent", "inlineEmpty", "inlineFor"}

TopDom == {"ok", "emptyFile", "nullDoc", "commentOnly", "seq", "scalarStr", "scalarInt",
           "unknownKey", "unknownKeyFirst", "nonStrKey", "dupGroupsEmpty", "dupGroupsOther",
           "multiDoc", "multiDocBad",
           "groupsNull", "groupsEmpty", "groupsInt", "groupsStr", "groupsBool", "groupsMap"}

\* top-level shapes that carry the focus group list (the others have no group at all)
TopHasGroups(top) == top \in {"ok", "unknownKey", "unknownKeyFirst", "nonStrKey", "dupGroupsEmpty",
                              "dupGroupsOther", "multiDoc", "multiDocBad"}

BaseG == [name |-> "ok", interval |-> "ok", query_offset |-> "ok", limit |-> "ok", labels |-> "ok",
          rules |-> "ok", partial_response_strategy |-> "absent", unknown |-> "absent"]
BaseR(kind) ==
  IF kind = "alerting"
  THEN [record |-> "absent", alert |-> "ok", expr |-> "ok", merge |-> "absent", for |-> "ok", keep_firing_for |-> "ok",
        labels |-> "ok", annotations |-> "ok", unknown |-> "absent"]
  ELSE [record |-> "ok", alert |-> "absent", expr |-> "ok", merge |-> "absent", for |-> "absent", keep_firing_for |-> "absent",
        labels |-> "ok", annotations |-> "absent", unknown |-> "absent"]

Baseline(kind, names, order) ==
  [names |-> names, kind |-> kind, order |-> order, top |-> "ok", gitem |-> "map", ritem |-> "map",
   g |-> BaseG, r |-> BaseR(kind)]

\* file order of the group keys (schemadoc renders them in this order)
GOrder(d) == IF d.order = "rulesFirst"
             THEN <<"rules", "name", "interval", "query_offset", "limit", "labels", "partial_response_strategy", "unknown">>
             ELSE <<"name", "interval", "query_offset", "limit", "labels", "partial_response_strategy", "unknown", "rules">>
ROrder == <<"record", "alert", "expr", "for", "keep_firing_for", "labels", "annotations">>

\* what is rendered at all
GroupRendered(d) == TopHasGroups(d.top)
GFieldsRendered(d) == GroupRendered(d) /\ d.gitem = "map"
RuleRendered(d) == GFieldsRendered(d) /\ d.g.rules \in {"ok", "dup"}
RFieldsRendered(d) == RuleRendered(d) /\ d.ritem = "map"

\* deviations from the baseline, as strings "g.name=empty" (the signature of a document)
Devs(d) ==
  LET b == Baseline(d.kind, d.names, d.order) IN
  (IF d.top # b.top THEN {"top=" \o d.top} ELSE {})
  \cup (IF d.gitem # b.gitem THEN {"gitem=" \o d.gitem} ELSE {})
  \cup (IF d.ritem # b.ritem THEN {"ritem=" \o d.ritem} ELSE {})
  \cup {"g." \o f \o "=" \o d.g[f] : f \in {x \in GFields : d.g[x] # b.g[x]}}
  \cup {"r." \o f \o "=" \o d.r[f] : f \in {x \in RFields : d.r[x] # b.r[x]}}

\* fields that are not rendered stay at the baseline (no hidden deviations)
Normal(d) ==
  LET b == Baseline(d.kind, d.names, d.order) IN
  /\ (~GroupRendered(d) => d.gitem = b.gitem)
  /\ (~GFieldsRendered(d) => d.g = b.g)
  /\ (~RuleRendered(d) => d.ritem = b.ritem)
  /\ (~RFieldsRendered(d) => d.r = b.r)

-----------------------------------------------------------------------------
(* Impl side: pint.                                                        *)

\* yaml.v3 short tag of the value rendered for a scalar status ("ok" of limit is an integer)
Tag(st) == CASE st \in {"int", "neg"} -> "int"
             [] st = "bool"  -> "bool"
             [] st = "seq"   -> "seq"
             [] st = "map"   -> "map"
             [] st \in {"null", "nullWord"} -> "null"
             [] st = "float" -> "float"
             [] OTHER        -> "str"
\* parser.isTag: a null value passes every tag test
IsTag(tag, expected) == tag = "null" \/ tag = expected
Present(st) == st # "absent"
\* YamlNode.Value = "": before the repair F9e the word null keeps its text as the value
ValueEmpty(st) == st \in {"empty", "null"} \/ (st = "nullWord" /\ "F9e" \notin Gaps)

\* model.LabelName.IsValid / IsValidMetricName under the configured scheme, per rendered text
NameInvalid(st, names) == st = "badNameEmpty" \/ (st = "badNameDash" /\ names = "legacy")
RecordNameInvalid(st, names) == names = "legacy" /\ st \in {"braces", "space", "int"}

\* validateStringMap: first entry whose value is not a string (null passes), or a repeated key
StringMapErr(st) == CASE st \in {"valInt", "valBool", "valSeq", "valMap"} -> "valtype"
                      [] st = "dupInner" -> "dupinner"
                      [] OTHER -> "none"

\* --- parseGroup: one key of the focus group, in file order; "none" or the error it returns with
GKeyErr(d, k) ==
  LET st == d.g[k] IN
  IF st = "absent" THEN "none"
  ELSE CASE k = "name" ->
              IF st \in {"int", "bool", "seq", "map", "null", "nullWord"} THEN "group:name:type"
              ELSE IF st = "empty" THEN "group:name:empty"
              ELSE IF st = "dup" THEN "group:dup:name" ELSE "none"
         [] k \in {"interval", "query_offset"} ->
              IF st \in {"int", "bool", "seq", "map", "null", "nullWord"} THEN "group:" \o k \o ":type"
              ELSE IF st \in {"empty", "badDur"} THEN "group:" \o k \o ":value"
              ELSE IF st = "dup" THEN "group:dup:" \o k ELSE "none"
         [] k = "limit" ->
              IF st \in {"ok", "neg"} THEN "none"
              ELSE IF st = "dup" THEN "group:dup:limit" ELSE "group:limit:type"
         [] k = "labels" ->
              \* entry.val.ShortTag() != mapTag : null does NOT pass here
              IF st \in {"int", "str", "seq", "bool", "null"} THEN "group:labels:type"
              ELSE IF StringMapErr(st) # "none" THEN "group:labels:" \o StringMapErr(st)
              \* F9b: label names are validated only by the repaired parseGroup
              ELSE IF "F9b" \notin Gaps /\ (NameInvalid(st, d.names) \/ st = "nameLabel") THEN "group:labels:name"
              ELSE IF st = "dup" THEN "group:dup:labels"
              ELSE "none"
         [] k = "rules" ->
              IF st \in {"int", "str", "map", "bool"} THEN "group:rules:type"
              ELSE IF st = "dup" THEN "group:dup:rules" ELSE "none"
         [] k = "partial_response_strategy" -> "group:partial_response_strategy:schema"
         [] k = "unknown" -> "group:unknown"

\* index of the first key that returns with an error (0 = none)
FirstGErr(d) ==
  LET o == GOrder(d)
      bad == {i \in 1..Len(o) : GKeyErr(d, o[i]) # "none"} IN
  IF bad = {} THEN 0 ELSE CHOOSE i \in bad : \A j \in bad : i <= j
IndexOf(seq, x) == CHOOSE i \in 1..Len(seq) : seq[i] = x

\* was key k processed (its case body run) before parseGroup returned?
GKeyReached(d, k) == FirstGErr(d) = 0 \/ IndexOf(GOrder(d), k) <= FirstGErr(d)

PintGroup(d) ==
  IF d.gitem \in {"str", "int", "seq"} THEN "group:type"
  ELSE IF d.gitem = "null" THEN "none"                        \* isTag(null, map); no keys; nothing required
  ELSE IF d.gitem = "emptyMap" THEN (IF "F9c" \in Gaps THEN "none" ELSE "group:noname")
  ELSE IF FirstGErr(d) # 0 THEN GKeyErr(d, GOrder(d)[FirstGErr(d)])
  \* F9c: before the repair a name is required only when the group has a rules key
  ELSE IF ~Present(d.g.name) /\ (Present(d.g.rules) \/ "F9c" \notin Gaps) THEN "group:noname"
  ELSE "none"

\* group.Name as seen by parseGroups' duplicate-name map
GroupNameSet(d) == d.gitem = "map" /\ d.g.name \in {"ok", "dupOther", "dup"} /\ GKeyReached(d, "name")
\* the focus rule was appended to group.Rules
RuleParsed(d) == d.gitem = "map" /\ d.g.rules \in {"ok", "dup"} /\ GKeyReached(d, "rules")

\* --- parser.Parse + parseGroups: the file-level error (a PathError entry replacing everything else)
PintFile(d) ==
  CASE d.top \in {"emptyFile", "commentOnly", "nullDoc", "groupsNull", "groupsEmpty"} -> "none"
    [] d.top \in {"seq", "scalarStr", "scalarInt"} -> "file:top:type"
    [] d.top \in {"groupsInt", "groupsStr", "groupsBool", "groupsMap"} -> "file:groups:type"
    [] d.top = "unknownKeyFirst" -> "file:top:unknown"
    [] OTHER ->
       \* the groups list is walked first: duplicate group names end the file
       IF d.g.name = "dupOther" /\ GroupNameSet(d) THEN "file:dupname"
       ELSE CASE d.top = "unknownKey"  -> "file:top:unknown"
              [] d.top = "nonStrKey"   -> "file:top:keytype"
              [] d.top = "multiDoc"    -> "file:multidoc"
              [] d.top = "multiDocBad" -> "file:top:type"
              \* F9d: before the repair a repeated groups key is just walked again
              [] d.top \in {"dupGroupsEmpty", "dupGroupsOther"} -> IF "F9d" \in Gaps THEN "none" ELSE "file:top:dup"
              [] OTHER -> "none"

\* --- parseRuleStrict + parseRule: "valid" or the error of the focus rule
FirstDup(r) ==
  LET bad == {i \in 1..Len(ROrder) : r[ROrder[i]] = "dup"} IN
  IF bad = {} THEN "none" ELSE ROrder[CHOOSE i \in bad : \A j \in bad : i <= j]
FirstBadType(r) ==
  LET o == <<"record", "alert", "expr", "for", "keep_firing_for">>
      bad == {i \in 1..Len(o) : Present(r[o[i]]) /\ ~IsTag(Tag(r[o[i]]), "str")} IN
  IF bad = {} THEN "none" ELSE o[CHOOSE i \in bad : \A j \in bad : i <= j]
MapBadType(st) == st \in {"int", "str", "seq", "bool"}      \* null passes isTag(.., mapTag)

\* unpackNodes / yaml.v3 merge: keys of the merged mapping are added unless the mapping itself has them
\* (both pint, since the repair of F9f, and Prometheus): an inline `for: 1x` counts when the rule has no `for`
Eff(r) == IF r.merge = "inlineFor" /\ r.for = "absent" THEN [r EXCEPT !.for = "badDur"] ELSE r

PintRule(d) ==
  LET r == Eff(d.r)
      rec == Present(r.record)
      alr == Present(r.alert)
      exp == Present(r.expr) IN
  IF d.ritem \in {"str", "int", "seq"} THEN "rule:type"
  ELSE IF d.ritem \in {"null", "emptyMap"} THEN "rule:incomplete"
  ELSE IF r.unknown = "present" THEN "rule:unknown"
  ELSE IF FirstDup(r) # "none" THEN "rule:dup:" \o FirstDup(r)
  ELSE IF rec /\ alr THEN "rule:both"
  ELSE IF exp /\ ~alr /\ ~rec THEN "rule:incomplete"
  ELSE IF rec /\ Present(r.for) THEN "rule:recfield:for"
  ELSE IF rec /\ Present(r.keep_firing_for) THEN "rule:recfield:keep_firing_for"
  ELSE IF rec /\ Present(r.annotations) THEN "rule:recfield:annotations"
  ELSE IF FirstBadType(r) # "none" THEN "rule:" \o FirstBadType(r) \o ":type"
  ELSE IF MapBadType(r.labels) THEN "rule:labels:type"
  ELSE IF MapBadType(r.annotations) THEN "rule:annotations:type"
  ELSE IF StringMapErr(r.labels) # "none" THEN "rule:labels:" \o StringMapErr(r.labels)
  ELSE IF StringMapErr(r.annotations) # "none" THEN "rule:annotations:" \o StringMapErr(r.annotations)
  \* ensureRequiredKeys(record), ensureRequiredKeys(alert)
  ELSE IF rec /\ ValueEmpty(r.record) THEN "rule:record:empty"
  ELSE IF rec /\ ~exp THEN "rule:noexpr"
  ELSE IF rec /\ ValueEmpty(r.expr) THEN "rule:expr:empty"
  ELSE IF alr /\ ValueEmpty(r.alert) THEN "rule:alert:empty"
  ELSE IF alr /\ ~exp THEN "rule:noexpr"
  ELSE IF alr /\ ValueEmpty(r.expr) THEN "rule:expr:empty"
  ELSE IF rec /\ RecordNameInvalid(r.record, d.names) THEN "rule:record:name"
  ELSE IF rec /\ r.record = "braces" /\ "F9a" \notin Gaps THEN "rule:record:braces"      \* F9a
  ELSE IF (rec \/ alr) /\ (NameInvalid(r.labels, d.names) \/ r.labels = "nameLabel") THEN "rule:labels:name"
  ELSE IF alr /\ NameInvalid(r.annotations, d.names) THEN "rule:annotations:name"
  ELSE IF (rec \/ alr) /\ exp THEN "valid"
  ELSE "rule:incomplete"                       \* parseRule's isEmpty result (strict.go turns it into an error)

\* --- the default offline checks that can reach severity >= Bug on a valid rule of this vocabulary
PintChecks(d) ==
  LET r == Eff(d.r)
      alerting == Present(r.alert)
      syntax == r.expr = "badPromql" IN
  (IF syntax THEN {"check:syntax"} ELSE {})
  \* checkTemplateSyntax: ParseTest, then Expand - every text that fails to parse or to execute is Fatal
  \cup (IF alerting /\ ~syntax /\ (r.labels \in TemplateSt \/ r.annotations \in TemplateSt)
        THEN {"check:template"} ELSE {})
  \cup (IF alerting /\ ~syntax /\ r.labels = "valueTemplate" THEN {"check:template:value"} ELSE {})
  \cup (IF alerting /\ (r.for \in {"badDur", "empty", "null", "nullWord"} \/ r.keep_firing_for \in {"badDur", "empty", "null", "nullWord"})
        THEN {"check:for"} ELSE {})

\* --- discovery.readRules + GetChecksForEntry: stage codes of every problem with severity >= Bug
PintStages(d) ==
  IF PintFile(d) # "none" THEN {PintFile(d)}
  ELSE IF ~GroupRendered(d) THEN {}
  ELSE (IF PintGroup(d) # "none" THEN {PintGroup(d)} ELSE {})
       \cup (IF RuleParsed(d)
             THEN IF PintRule(d) = "valid" THEN PintChecks(d) ELSE {PintRule(d)}
             ELSE {})

PintClean(d) == PintStages(d) = {}

-----------------------------------------------------------------------------
(* Doc side: Prometheus model/rulefmt (v0.303) + yaml.v3 decoding rules.    *)
(*   string field   <- any scalar (int/bool are taken as their text), null  *)
(*                     gives "", seq/map fail                               *)
(*   model.Duration <- string parsed by ParseDuration; null gives 0         *)
(*   int field      <- integers only; null gives 0                          *)
(*   map[string]string <- mapping of scalars; null gives nil               *)
(*   KnownFields(true): unknown keys fail; repeated mapping keys fail       *)
(*   a null item of a sequence of structs is dropped                        *)

\* text a string field ends up with: "" or non-empty
StrDecodes(st) == st \notin {"seq", "map", "dup"}
StrNonEmpty(st) == st \notin {"absent", "empty", "null", "nullWord"}
DurDecodes(st) == st \in {"absent", "ok", "null", "nullWord", "zero"}
DurNonZero(st) == st = "ok"
MapDecodes(st) == st \notin {"int", "str", "seq", "bool", "dup", "valSeq", "valMap", "dupInner"}
MapNonEmpty(st) == st \notin {"absent", "emptyMap", "null"}

PromRuleOK(d) ==
  LET r == Eff(d.r)
      recSet == StrNonEmpty(r.record)
      alrSet == StrNonEmpty(r.alert) IN
  CASE d.ritem = "null" -> TRUE                          \* dropped from the list
    [] d.ritem \in {"str", "int", "seq"} -> FALSE        \* cannot unmarshal into rulefmt.Rule
    [] d.ritem = "emptyMap" -> FALSE                     \* one of 'record' or 'alert' must be set
    [] OTHER ->
       \* decode
       /\ r.unknown = "absent"
       /\ StrDecodes(r.record) /\ StrDecodes(r.alert) /\ StrDecodes(r.expr)
       /\ DurDecodes(r.for) /\ DurDecodes(r.keep_firing_for)
       /\ MapDecodes(r.labels) /\ MapDecodes(r.annotations)
       \* Rule.Validate
       /\ ~(recSet /\ alrSet)
       /\ (recSet \/ alrSet)
       /\ StrNonEmpty(r.expr) /\ r.expr # "badPromql"
       /\ (recSet => /\ ~MapNonEmpty(r.annotations)
                     /\ ~DurNonZero(r.for)
                     /\ ~DurNonZero(r.keep_firing_for)
                     /\ ~RecordNameInvalid(r.record, d.names)
                     /\ r.record # "braces")
       /\ ~NameInvalid(r.labels, d.names) /\ r.labels # "nameLabel"
       /\ ~NameInvalid(r.annotations, d.names)
       \* testTemplateParsing: alerting rules only, parse errors only
       /\ (alrSet => ~TemplateParseErr(r.labels) /\ ~TemplateParseErr(r.annotations))

PromGroupOK(d) ==
  LET g == d.g IN
  CASE d.gitem = "null" -> TRUE
    [] d.gitem \in {"str", "int", "seq"} -> FALSE
    [] d.gitem = "emptyMap" -> FALSE                     \* Groupname must not be empty
    [] OTHER ->
       /\ g.unknown = "absent" /\ g.partial_response_strategy = "absent"
       /\ StrDecodes(g.name)
       /\ DurDecodes(g.interval) /\ DurDecodes(g.query_offset)
       /\ g.limit \in {"absent", "ok", "neg", "null", "float"}          \* yaml.v3 truncates a float into an int field
       /\ MapDecodes(g.labels)
       /\ g.rules \in {"absent", "ok", "null", "emptyList"}
       \* RuleGroups.Validate
       /\ StrNonEmpty(g.name)
       /\ g.name # "dupOther"
       /\ ~NameInvalid(g.labels, d.names) /\ g.labels # "nameLabel"
       /\ (g.rules = "ok" => PromRuleOK(d))

PromAccepts(d) ==
  CASE d.top \in {"emptyFile", "commentOnly", "nullDoc", "groupsNull", "groupsEmpty"} -> TRUE
    [] d.top \in {"seq", "scalarStr", "scalarInt", "groupsInt", "groupsStr", "groupsBool", "groupsMap"} -> FALSE
    [] d.top \in {"unknownKey", "unknownKeyFirst", "nonStrKey", "dupGroupsEmpty", "dupGroupsOther"} -> FALSE
    [] OTHER -> PromGroupOK(d)             \* ok; multiDoc*: only the first document is read

-----------------------------------------------------------------------------
(* State machine: deviate one more field.                                  *)
VARIABLES doc,   \* the abstract document
          n      \* number of fields deviating from the baseline (= Cardinality(Devs(doc)))
vars == <<doc, n>>

Kinds == {"recording", "alerting"}
Orders == {"rulesLast", "rulesFirst"}

Init == /\ \E k \in Kinds, nm \in NamesSet, o \in Orders : doc = Baseline(k, nm, o)
        /\ n = 0

\* fields around which the deepest level of deviation is concentrated
CoreG == {"name", "rules", "labels"}
CoreR == {"record", "alert", "expr", "merge", "labels", "annotations"}
Last == CoreOnly /\ n = MaxDev - 1

Base == Baseline(doc.kind, doc.names, doc.order)

\* one more field leaves the baseline; fields that are not rendered never deviate
Deviate(d2) ==
  /\ n < MaxDev
  /\ Normal(d2)
  /\ doc' = d2
  /\ n' = n + 1

Next ==
  \/ \E t \in TopDom \ {"ok"} : ~Last /\ doc.top = "ok" /\ Deviate([doc EXCEPT !.top = t])
  \/ \E s \in Item \ {"map"} : ~Last /\ doc.gitem = "map" /\ Deviate([doc EXCEPT !.gitem = s])
  \/ \E s \in Item \ {"map"} : ~Last /\ doc.ritem = "map" /\ Deviate([doc EXCEPT !.ritem = s])
  \/ \E f \in GFields : \E s \in GDom(f) \ {Base.g[f]} :
        (Last => f \in CoreG) /\ doc.g[f] = Base.g[f] /\ Deviate([doc EXCEPT !.g[f] = s])
  \/ \E f \in RFields : \E s \in RDom(f) \ {Base.r[f]} :
        (Last => f \in CoreR) /\ doc.r[f] = Base.r[f] /\ Deviate([doc EXCEPT !.r[f] = s])

Spec == Init /\ [][Next]_vars

\* C01 at model level
Inv_C01 == PintClean(doc) => PromAccepts(doc)

\* the same with the documents of the gaps declared open (F9a-d) left out: must hold without exception
KnownGap(d) ==
  \/ "F9a" \in Gaps /\ d.r.record = "braces" /\ d.names = "utf8"
  \/ "F9b" \in Gaps /\ (d.g.labels \in {"nameLabel", "badNameEmpty"} \/ (d.g.labels = "badNameDash" /\ d.names = "legacy"))
  \/ "F9c" \in Gaps /\ (d.gitem = "emptyMap" \/ (d.gitem = "map" /\ ~Present(d.g.name) /\ ~Present(d.g.rules)))
  \/ "F9d" \in Gaps /\ d.top \in {"dupGroupsEmpty", "dupGroupsOther"}
  \/ "F9e" \in Gaps /\ (d.r.record = "nullWord" \/ d.r.alert = "nullWord" \/ d.r.expr = "nullWord")
Inv_C01_ModuloKnown == KnownGap(doc) \/ Inv_C01

Inv_Count == n = Cardinality(Devs(doc))

\* GEN: one case per document
EmitCase == PrintT(<<"CASE", ToJson(doc)>>)
=============================================================================
