---------------------------- MODULE StrictSchema ----------------------------
(***************************************************************************)
(* C01 - a file pint passes in strict mode is loadable by Prometheus.      *)
(*                                                                         *)
(* An abstract rule document is a top-level shape, one focus group and one *)
(* focus rule; every field of both carries a STATUS (absent, ok, empty,    *)
(* mistyped as int/bool/seq/map/null, duplicated, or a field-specific      *)
(* invalid value).  harness/schemadoc renders every status to one fixed    *)
(* YAML text; nothing else is known about a status outside this module.    *)
(*                                                                         *)
(* Impl side : PintStages(d) transcribes, early return by early return,    *)
(*             parser.Parse -> strict.go parseGroups / parseGroup /        *)
(*             parseRuleStrict -> parser.go parseRule, discovery.readRules *)
(*             (which entries exist), checks/error.go (Fatal yaml/parse),  *)
(*             promql/syntax (Fatal), alerts/template (Fatal / Bug) and    *)
(*             alerts/for (Bug).  Its value is the set of stage codes of   *)
(*             all problems with severity >= Bug.                          *)
(* Doc side  : PromAccepts(d) transcribes Prometheus model/rulefmt         *)
(*             Parse (yaml.v3 strict decode into RuleGroups) + Validate.   *)
(*             It is written from rulefmt.go and yaml.v3's decoding rules, *)
(*             independently of pint.                                      *)
(* Property  : PintStages(d) = {}  =>  PromAccepts(d).                      *)
(*                                                                         *)
(* The state machine grows a document from the all-valid baseline by       *)
(* deviating one field at a time (at most MaxDev deviations), so TLC       *)
(* visits every document with <= MaxDev simultaneously non-baseline fields.*)
(***************************************************************************)
EXTENDS Naturals, Sequences, FiniteSets, TLC, Json

CONSTANTS MaxDev,     \* number of fields that may deviate from the baseline at once
          NamesSet,   \* subset of {"utf8", "legacy"}: parser.names / model.NameValidationScheme
          SchemaSet,  \* subset of {"prometheus", "thanos"}: parser.schema (the property is claimed for prometheus only)
          CoreOnly,   \* BOOLEAN: the last deviation (the MaxDev-th) is restricted to the core fields
          Gaps        \* subset of {"F9a","F9b","F9c","F9d","F9e","F9g"}: validations of rulefmt that the implementation
                      \* under test still lacks (open entries of known_findings.json; {} once all are repaired)

-----------------------------------------------------------------------------
(* Vocabulary.                                                             *)

\* "null" is rendered as an empty value (key:), "nullWord" as the word null
Scalar == {"absent", "ok", "empty", "int", "bool", "seq", "map", "null", "nullWord", "dup"}
\* valBadUtf8: the value holds a raw 0xFF byte (not valid UTF-8): the YAML reader refuses the whole stream
MapSt  == {"absent", "ok", "emptyMap", "null", "int", "str", "seq", "bool", "dup",
           "valInt", "valBool", "valNull", "valSeq", "valMap", "dupInner", "valBadUtf8",
           "badNameEmpty", "badNameDash", "nameLabel"}
Item   == {"map", "null", "emptyMap", "str", "int", "seq"}

\* template texts of a label / annotation value:
\*   badTemplate     {{ $nope }}            parses with an error (undefined variable)
\*   unclosedAction  {{ $labels.instance    action opened, never closed
\*   unclosedComment {{/* TODO              comment opened, never closed
\*   unclosedBrace   {{ $value }            closing delimiter incomplete
\*   execTemplate    {{ .Nope }}            parses, fails only when executed
\*   tplUnknownFunc  {{ nofunc 1 }}         function not defined: a parse error
\*   tplQueryBad     {{ query "sum(" }}     parses; pint's stub query function parses the PromQL and fails at expansion
\*   tplPathPrefix   {{ pathPrefix }}       parses; fails when expanded outside a web handler
\*   tplExternal     {{ $externalLabels.foo }} {{ $externalURL }}
\*   tplQuery        {{ query "up" | first | value }}
\*   tplArgs         {{ with args 1 2 }}{{ .arg0 }}{{ end }}
TemplateSt == {"badTemplate", "unclosedAction", "unclosedComment", "unclosedBrace", "tplUnknownFunc",
               "execTemplate", "tplQueryBad", "tplPathPrefix"}
\* templates both sides are happy with
TemplateOkSt == {"tplExternal", "tplQuery", "tplArgs"}
\* text/template.Parse fails on these (both pint's ParseTest and rulefmt's testTemplateParsing see that)
TemplateParseErr(st) == st \in {"badTemplate", "unclosedAction", "unclosedComment", "unclosedBrace", "tplUnknownFunc"}

GFields == {"name", "interval", "query_offset", "limit", "labels", "rules", "partial_response_strategy", "unknown"}
RFields == {"record", "alert", "expr", "merge", "for", "keep_firing_for", "labels", "annotations", "unknown"}

\* duration value classes: neg -1m, huge 99999999999y (out of range), float 1.5m, zero 0s, int0 the integer 0
DurClasses == {"badDur", "neg", "huge", "float", "zero", "int0"}
GDom(f) == CASE f = "name"         -> Scalar \cup {"dupOther"}
             [] f = "interval"     -> Scalar \cup DurClasses
             [] f = "query_offset" -> Scalar \cup DurClasses
             \* quotedInt "10" (a string for YAML); zero 0; hex 0x10; exp 1e3 (a float for YAML);
             \* u64 9223372036854775808 (an integer for YAML, too large for Go's int); huge 99999999999999999999 (a float)
             [] f = "limit"        -> {"absent", "ok", "empty", "str", "quotedInt", "float", "neg", "bool", "seq", "map", "null", "dup",
                                       "zero", "hex", "exp", "u64", "huge"}
             \* tier*: the group has a second label `tier` no rule of the vocabulary overrides:
             \*        tierBadTemplate  tier: "{{ $nope }}"      tierValueTemplate  tier: "{{ $value }}"
             [] f = "labels"       -> MapSt \cup TemplateSt \cup TemplateOkSt \cup {"valueTemplate", "tierBadTemplate", "tierValueTemplate"}
             [] f = "rules"        -> {"ok", "absent", "null", "emptyList", "int", "str", "map", "bool", "dup"}
             \* ok warn; badValue maybe; int 1; null
             [] f = "partial_response_strategy" -> {"absent", "ok", "badValue", "int", "null"}
             [] f = "unknown"      -> {"absent", "present"}

\* utf8: "job:üp" / "Über alert"; dot: job.up
RDom(f) == CASE f = "record"          -> Scalar \cup {"braces", "space", "utf8", "dot"}
             [] f = "alert"           -> Scalar \cup {"utf8"}
             \* blank: " " - not empty for YAML or for the required-key test, but no PromQL expression
             [] f = "expr"            -> Scalar \cup {"badPromql", "blank"}
             [] f = "for"             -> Scalar \cup {"badDur", "zero"}
             [] f = "keep_firing_for" -> Scalar \cup {"badDur", "zero"}
             [] f = "labels"          -> MapSt \cup TemplateSt \cup TemplateOkSt \cup {"valueTemplate"}
             [] f = "annotations"     -> MapSt \cup TemplateSt \cup TemplateOkSt
             [] f = "unknown"         -> {"absent", "present"}
             \* a merge key with an inline mapping, written right after expr:  <<: {}   or   <<: {for: 1x}
             [] f = "merge"           -> {"absent", "inlineEmpty", "inlineFor"}

TopDom == {"ok", "emptyFile", "nullDoc", "commentOnly", "seq", "scalarStr", "scalarInt",
           "unknownKey", "unknownKeyFirst", "nonStrKey", "dupGroupsEmpty", "dupGroupsOther",
           "multiDoc", "multiDocBad",
           "groupsNull", "groupsEmpty", "groupsInt", "groupsStr", "groupsBool", "groupsMap"}

\* top-level shapes that carry the focus group list (the others have no group at all)
TopHasGroups(top) == top \in {"ok", "unknownKey", "unknownKeyFirst", "nonStrKey", "dupGroupsEmpty",
                              "dupGroupsOther", "multiDoc", "multiDocBad"}

BaseG == [name |-> "ok", interval |-> "ok", query_offset |-> "ok", limit |-> "ok", labels |-> "ok",
          rules |-> "ok", partial_response_strategy |-> "absent", unknown |-> "absent"]
BaseR(kind) ==
  IF kind = "alerting"
  THEN [record |-> "absent", alert |-> "ok", expr |-> "ok", merge |-> "absent", for |-> "ok", keep_firing_for |-> "ok",
        labels |-> "ok", annotations |-> "ok", unknown |-> "absent"]
  ELSE [record |-> "ok", alert |-> "absent", expr |-> "ok", merge |-> "absent", for |-> "absent", keep_firing_for |-> "absent",
        labels |-> "ok", annotations |-> "absent", unknown |-> "absent"]

\* g2: a second, valid group ("other", one valid rule) before / after the focus group
\* r2: a second, valid rule before / after the focus rule in the focus group
SiblingDom == {"absent", "before", "after"}

Baseline(kind, names, order, schema) ==
  [names |-> names, kind |-> kind, order |-> order, schema |-> schema, top |-> "ok", gitem |-> "map", ritem |-> "map",
   g2 |-> "absent", r2 |-> "absent", g |-> BaseG, r |-> BaseR(kind)]

\* file order of the group keys (schemadoc renders them in this order)
GOrder(d) == IF d.order = "rulesFirst"
             THEN <<"rules", "name", "interval", "query_offset", "limit", "labels", "partial_response_strategy", "unknown">>
             ELSE <<"name", "interval", "query_offset", "limit", "labels", "partial_response_strategy", "unknown", "rules">>
ROrder == <<"record", "alert", "expr", "for", "keep_firing_for", "labels", "annotations">>

\* what is rendered at all
GroupRendered(d) == TopHasGroups(d.top)
GFieldsRendered(d) == GroupRendered(d) /\ d.gitem = "map"
RuleRendered(d) == GFieldsRendered(d) /\ d.g.rules \in {"ok", "dup"}
RFieldsRendered(d) == RuleRendered(d) /\ d.ritem = "map"

\* deviations from the baseline, as strings "g.name=empty" (the signature of a document)
Devs(d) ==
  LET b == Baseline(d.kind, d.names, d.order, d.schema) IN
  (IF d.top # b.top THEN {"top=" \o d.top} ELSE {})
  \cup (IF d.g2 # b.g2 THEN {"g2=" \o d.g2} ELSE {})
  \cup (IF d.r2 # b.r2 THEN {"r2=" \o d.r2} ELSE {})
  \cup (IF d.gitem # b.gitem THEN {"gitem=" \o d.gitem} ELSE {})
  \cup (IF d.ritem # b.ritem THEN {"ritem=" \o d.ritem} ELSE {})
  \cup {"g." \o f \o "=" \o d.g[f] : f \in {x \in GFields : d.g[x] # b.g[x]}}
  \cup {"r." \o f \o "=" \o d.r[f] : f \in {x \in RFields : d.r[x] # b.r[x]}}

\* fields that are not rendered stay at the baseline (no hidden deviations)
Normal(d) ==
  LET b == Baseline(d.kind, d.names, d.order, d.schema) IN
  /\ (~GroupRendered(d) => d.gitem = b.gitem /\ d.g2 = b.g2)
  /\ (~RuleRendered(d) => d.r2 = b.r2)
  /\ (~GFieldsRendered(d) => d.g = b.g)
  /\ (~RuleRendered(d) => d.ritem = b.ritem)
  /\ (~RFieldsRendered(d) => d.r = b.r)

-----------------------------------------------------------------------------
(* Impl side: pint.                                                        *)

\* yaml.v3 short tag of the value rendered for a scalar status ("ok" of limit is an integer)
Tag(st) == CASE st \in {"int", "neg"} -> "int"
             [] st = "bool"  -> "bool"
             [] st = "seq"   -> "seq"
             [] st = "map"   -> "map"
             [] st \in {"null", "nullWord"} -> "null"
             [] st = "float" -> "float"
             [] OTHER        -> "str"
\* parser.isTag: a null value passes every tag test
IsTag(tag, expected) == tag = "null" \/ tag = expected
Present(st) == st # "absent"
\* YamlNode.Value = "": before the repair F9e the word null keeps its text as the value
ValueEmpty(st) == st \in {"empty", "null"} \/ (st = "nullWord" /\ "F9e" \notin Gaps)

\* model.LabelName.IsValid / IsValidMetricName under the configured scheme, per rendered text
NameInvalid(st, names) == st = "badNameEmpty" \/ (st = "badNameDash" /\ names = "legacy")
RecordNameInvalid(st, names) == names = "legacy" /\ st \in {"braces", "space", "int", "utf8", "dot"}

\* validateStringMap: first entry whose value is not a string (null passes), or a repeated key
StringMapErr(st) == CASE st \in {"valInt", "valBool", "valSeq", "valMap"} -> "valtype"
                      [] st = "dupInner" -> "dupinner"
                      [] OTHER -> "none"

\* --- parseGroup: one key of the focus group, in file order; "none" or the error it returns with
GKeyErr(d, k) ==
  LET st == d.g[k] IN
  IF st = "absent" THEN "none"
  ELSE CASE k = "name" ->
              IF st \in {"int", "bool", "seq", "map", "null", "nullWord"} THEN "group:name:type"
              ELSE IF st = "empty" THEN "group:name:empty"
              ELSE IF st = "dup" THEN "group:dup:name" ELSE "none"
         [] k \in {"interval", "query_offset"} ->
              IF st \in {"int", "int0", "bool", "seq", "map", "null", "nullWord"} THEN "group:" \o k \o ":type"
              \* model.ParseDuration: no sign, no fraction, must fit in int64 nanoseconds
              ELSE IF st \in {"empty", "badDur", "neg", "huge", "float"} THEN "group:" \o k \o ":value"
              ELSE IF st = "dup" THEN "group:dup:" \o k ELSE "none"
         [] k = "limit" ->
              \* only the !!int tag is looked at; F9g: the strconv error of an integer too large for int is dropped
              IF st \in {"ok", "neg", "zero", "hex"} THEN "none"
              ELSE IF st = "u64" /\ "F9g" \in Gaps THEN "none"
              ELSE IF st = "dup" THEN "group:dup:limit" ELSE "group:limit:type"
         [] k = "labels" ->
              \* entry.val.ShortTag() != mapTag : null does NOT pass here
              IF st \in {"int", "str", "seq", "bool", "null"} THEN "group:labels:type"
              ELSE IF StringMapErr(st) # "none" THEN "group:labels:" \o StringMapErr(st)
              \* F9b: label names are validated only by the repaired parseGroup
              ELSE IF "F9b" \notin Gaps /\ (NameInvalid(st, d.names) \/ st = "nameLabel") THEN "group:labels:name"
              ELSE IF st = "dup" THEN "group:dup:labels"
              ELSE "none"
         [] k = "rules" ->
              IF st \in {"int", "str", "map", "bool"} THEN "group:rules:type"
              ELSE IF st = "dup" THEN "group:dup:rules" ELSE "none"
         [] k = "partial_response_strategy" ->
              IF d.schema # "thanos" THEN "group:partial_response_strategy:schema"
              ELSE IF st = "int" THEN "group:partial_response_strategy:type"          \* isTag(.., strTag): null passes
              ELSE IF st \in {"badValue", "null"} THEN "group:partial_response_strategy:value"
              ELSE "none"
         [] k = "unknown" -> "group:unknown"

\* index of the first key that returns with an error (0 = none)
FirstGErr(d) ==
  LET o == GOrder(d)
      bad == {i \in 1..Len(o) : GKeyErr(d, o[i]) # "none"} IN
  IF bad = {} THEN 0 ELSE CHOOSE i \in bad : \A j \in bad : i <= j
IndexOf(seq, x) == CHOOSE i \in 1..Len(seq) : seq[i] = x

\* was key k processed (its case body run) before parseGroup returned?
GKeyReached(d, k) == FirstGErr(d) = 0 \/ IndexOf(GOrder(d), k) <= FirstGErr(d)

PintGroup(d) ==
  IF d.gitem \in {"str", "int", "seq"} THEN "group:type"
  ELSE IF d.gitem = "null" THEN "none"                        \* isTag(null, map); no keys; nothing required
  ELSE IF d.gitem = "emptyMap" THEN (IF "F9c" \in Gaps THEN "none" ELSE "group:noname")
  ELSE IF FirstGErr(d) # 0 THEN GKeyErr(d, GOrder(d)[FirstGErr(d)])
  \* F9c: before the repair a name is required only when the group has a rules key
  ELSE IF ~Present(d.g.name) /\ (Present(d.g.rules) \/ "F9c" \notin Gaps) THEN "group:noname"
  ELSE "none"

\* group.Labels was assigned (the labels key was processed without an error of its own)
GroupLabelsSet(d) == /\ d.gitem = "map" /\ Present(d.g.labels) /\ GKeyReached(d, "labels")
                     /\ GKeyErr(d, "labels") \in {"none", "group:dup:labels"}

\* group.Name as seen by parseGroups' duplicate-name map
GroupNameSet(d) == d.gitem = "map" /\ d.g.name \in {"ok", "dupOther", "dup"} /\ GKeyReached(d, "name")
\* the focus rule was appended to group.Rules
RuleParsed(d) == d.gitem = "map" /\ d.g.rules \in {"ok", "dup"} /\ GKeyReached(d, "rules")

\* --- parser.Parse + parseGroups: the file-level error (a PathError entry replacing everything else)
\* a raw byte that is not UTF-8 anywhere in the stream: yaml.v3's reader fails on the first Decode
RawBadUtf8(d) == \/ (GFieldsRendered(d) /\ d.g.labels = "valBadUtf8")
                 \/ (RFieldsRendered(d) /\ (d.r.labels = "valBadUtf8" \/ d.r.annotations = "valBadUtf8"))

PintFile(d) ==
  IF RawBadUtf8(d) THEN "file:yaml" ELSE
  CASE d.top \in {"emptyFile", "commentOnly", "nullDoc", "groupsNull", "groupsEmpty"} -> "none"
    [] d.top \in {"seq", "scalarStr", "scalarInt"} -> "file:top:type"
    [] d.top \in {"groupsInt", "groupsStr", "groupsBool", "groupsMap"} -> "file:groups:type"
    [] d.top = "unknownKeyFirst" -> "file:top:unknown"
    [] OTHER ->
       \* the groups list is walked first: duplicate group names end the file
       IF d.g.name = "dupOther" /\ GroupNameSet(d) THEN "file:dupname"
       ELSE CASE d.top = "unknownKey"  -> "file:top:unknown"
              [] d.top = "nonStrKey"   -> "file:top:keytype"
              [] d.top = "multiDoc"    -> "file:multidoc"
              [] d.top = "multiDocBad" -> "file:top:type"
              \* F9d: before the repair a repeated groups key is just walked again
              [] d.top \in {"dupGroupsEmpty", "dupGroupsOther"} -> IF "F9d" \in Gaps THEN "none" ELSE "file:top:dup"
              [] OTHER -> "none"

\* --- parseRuleStrict + parseRule: "valid" or the error of the focus rule
FirstDup(r) ==
  LET bad == {i \in 1..Len(ROrder) : r[ROrder[i]] = "dup"} IN
  IF bad = {} THEN "none" ELSE ROrder[CHOOSE i \in bad : \A j \in bad : i <= j]
FirstBadType(r) ==
  LET o == <<"record", "alert", "expr", "for", "keep_firing_for">>
      bad == {i \in 1..Len(o) : Present(r[o[i]]) /\ ~IsTag(Tag(r[o[i]]), "str")} IN
  IF bad = {} THEN "none" ELSE o[CHOOSE i \in bad : \A j \in bad : i <= j]
MapBadType(st) == st \in {"int", "str", "seq", "bool"}      \* null passes isTag(.., mapTag)

\* unpackNodes / yaml.v3 merge: keys of the merged mapping are added unless the mapping itself has them
\* (both pint, since the repair of F9f, and Prometheus): an inline `for: 1x` counts when the rule has no `for`
Eff(r) == IF r.merge = "inlineFor" /\ r.for = "absent" THEN [r EXCEPT !.for = "badDur"] ELSE r

PintRule(d) ==
  LET r == Eff(d.r)
      rec == Present(r.record)
      alr == Present(r.alert)
      exp == Present(r.expr) IN
  IF d.ritem \in {"str", "int", "seq"} THEN "rule:type"
  ELSE IF d.ritem \in {"null", "emptyMap"} THEN "rule:incomplete"
  ELSE IF r.unknown = "present" THEN "rule:unknown"
  ELSE IF FirstDup(r) # "none" THEN "rule:dup:" \o FirstDup(r)
  ELSE IF rec /\ alr THEN "rule:both"
  ELSE IF exp /\ ~alr /\ ~rec THEN "rule:incomplete"
  ELSE IF rec /\ Present(r.for) THEN "rule:recfield:for"
  ELSE IF rec /\ Present(r.keep_firing_for) THEN "rule:recfield:keep_firing_for"
  ELSE IF rec /\ Present(r.annotations) THEN "rule:recfield:annotations"
  ELSE IF FirstBadType(r) # "none" THEN "rule:" \o FirstBadType(r) \o ":type"
  ELSE IF MapBadType(r.labels) THEN "rule:labels:type"
  ELSE IF MapBadType(r.annotations) THEN "rule:annotations:type"
  ELSE IF StringMapErr(r.labels) # "none" THEN "rule:labels:" \o StringMapErr(r.labels)
  ELSE IF StringMapErr(r.annotations) # "none" THEN "rule:annotations:" \o StringMapErr(r.annotations)
  \* ensureRequiredKeys(record), ensureRequiredKeys(alert)
  ELSE IF rec /\ ValueEmpty(r.record) THEN "rule:record:empty"
  ELSE IF rec /\ ~exp THEN "rule:noexpr"
  ELSE IF rec /\ ValueEmpty(r.expr) THEN "rule:expr:empty"
  ELSE IF alr /\ ValueEmpty(r.alert) THEN "rule:alert:empty"
  ELSE IF alr /\ ~exp THEN "rule:noexpr"
  ELSE IF alr /\ ValueEmpty(r.expr) THEN "rule:expr:empty"
  ELSE IF rec /\ RecordNameInvalid(r.record, d.names) THEN "rule:record:name"
  ELSE IF rec /\ r.record = "braces" /\ "F9a" \notin Gaps THEN "rule:record:braces"      \* F9a
  ELSE IF (rec \/ alr) /\ (NameInvalid(r.labels, d.names) \/ r.labels = "nameLabel") THEN "rule:labels:name"
  ELSE IF alr /\ NameInvalid(r.annotations, d.names) THEN "rule:annotations:name"
  ELSE IF (rec \/ alr) /\ exp THEN "valid"
  ELSE "rule:incomplete"                       \* parseRule's isEmpty result (strict.go turns it into an error)

\* --- the default offline checks that can reach severity >= Bug on a valid rule of this vocabulary
\* discovery.Entry.Labels(): group labels merged with the rule's, the rule's entry wins for the same key.
\* Every label map of the vocabulary uses the key "team", except the invalid-name ones and the empty maps.
RuleHasTeam(st) == st \notin {"absent", "emptyMap", "null", "badNameEmpty", "badNameDash", "nameLabel"}
GroupLabelSeen(d) == GroupLabelsSet(d) /\ ~RuleHasTeam(Eff(d.r).labels)

PintChecks(d) ==
  LET r == Eff(d.r)
      alerting == Present(r.alert)
      syntax == r.expr \in {"badPromql", "blank"}
      \* the group's `team` label is seen unless the rule overrides it, its `tier` label always
      gl == IF GroupLabelsSet(d) /\ d.g.labels = "tierBadTemplate" THEN "badTemplate"
            ELSE IF GroupLabelsSet(d) /\ d.g.labels = "tierValueTemplate" THEN "valueTemplate"
            ELSE IF GroupLabelSeen(d) THEN d.g.labels ELSE "ok" IN
  (IF syntax THEN {"check:syntax"} ELSE {})
  \* checkTemplateSyntax: ParseTest, then Expand - every text that fails to parse or to execute is Fatal
  \cup (IF alerting /\ ~syntax /\ (r.labels \in TemplateSt \/ r.annotations \in TemplateSt \/ gl \in TemplateSt)
        THEN {"check:template"} ELSE {})
  \cup (IF alerting /\ ~syntax /\ (r.labels = "valueTemplate" \/ gl = "valueTemplate") THEN {"check:template:value"} ELSE {})
  \cup (IF alerting /\ (r.for \in {"badDur", "empty", "null", "nullWord"} \/ r.keep_firing_for \in {"badDur", "empty", "null", "nullWord"})
        THEN {"check:for"} ELSE {})

\* the sibling rule (r2) is valid and has no labels of its own: an alerting sibling sees every group label
SiblingChecks(d) ==
  IF d.r2 # "absent" /\ d.kind = "alerting" /\ GroupLabelsSet(d)
  THEN (IF d.g.labels \in TemplateSt \cup {"tierBadTemplate"} THEN {"check:template"} ELSE {})
       \cup (IF d.g.labels \in {"valueTemplate", "tierValueTemplate"} THEN {"check:template:value"} ELSE {})
  ELSE {}

\* --- discovery.readRules + GetChecksForEntry: stage codes of every problem with severity >= Bug
PintStages(d) ==
  IF PintFile(d) # "none" THEN {PintFile(d)}
  ELSE IF ~GroupRendered(d) THEN {}
  ELSE (IF PintGroup(d) # "none" THEN {PintGroup(d)} ELSE {})
       \cup (IF RuleParsed(d)
             THEN (IF PintRule(d) = "valid" THEN PintChecks(d) ELSE {PintRule(d)}) \cup SiblingChecks(d)
             ELSE {})

PintClean(d) == PintStages(d) = {}

-----------------------------------------------------------------------------
(* Doc side: Prometheus model/rulefmt (v0.303) + yaml.v3 decoding rules.    *)
(*   string field   <- any scalar (int/bool are taken as their text), null  *)
(*                     gives "", seq/map fail                               *)
(*   model.Duration <- string parsed by ParseDuration; null gives 0         *)
(*   int field      <- integers only; null gives 0                          *)
(*   map[string]string <- mapping of scalars; null gives nil               *)
(*   KnownFields(true): unknown keys fail; repeated mapping keys fail       *)
(*   a null item of a sequence of structs is dropped                        *)

\* text a string field ends up with: "" or non-empty
StrDecodes(st) == st \notin {"seq", "map", "dup"}
StrNonEmpty(st) == st \notin {"absent", "empty", "null", "nullWord"}
DurDecodes(st) == st \in {"absent", "ok", "null", "nullWord", "zero", "int0"}       \* the integer 0 is read as the text "0"
DurNonZero(st) == st = "ok"
MapDecodes(st) == st \notin {"int", "str", "seq", "bool", "dup", "valSeq", "valMap", "dupInner", "valBadUtf8"}
MapNonEmpty(st) == st \notin {"absent", "emptyMap", "null"}

PromRuleOK(d) ==
  LET r == Eff(d.r)
      recSet == StrNonEmpty(r.record)
      alrSet == StrNonEmpty(r.alert) IN
  CASE d.ritem = "null" -> TRUE                          \* dropped from the list
    [] d.ritem \in {"str", "int", "seq"} -> FALSE        \* cannot unmarshal into rulefmt.Rule
    [] d.ritem = "emptyMap" -> FALSE                     \* one of 'record' or 'alert' must be set
    [] OTHER ->
       \* decode
       /\ r.unknown = "absent"
       /\ StrDecodes(r.record) /\ StrDecodes(r.alert) /\ StrDecodes(r.expr)
       /\ DurDecodes(r.for) /\ DurDecodes(r.keep_firing_for)
       /\ MapDecodes(r.labels) /\ MapDecodes(r.annotations)
       \* Rule.Validate
       /\ ~(recSet /\ alrSet)
       /\ (recSet \/ alrSet)
       /\ StrNonEmpty(r.expr) /\ r.expr \notin {"badPromql", "blank"}
       /\ (recSet => /\ ~MapNonEmpty(r.annotations)
                     /\ ~DurNonZero(r.for)
                     /\ ~DurNonZero(r.keep_firing_for)
                     /\ ~RecordNameInvalid(r.record, d.names)
                     /\ r.record # "braces")
       /\ ~NameInvalid(r.labels, d.names) /\ r.labels # "nameLabel"
       /\ ~NameInvalid(r.annotations, d.names)
       \* testTemplateParsing: alerting rules only, parse errors only
       /\ (alrSet => ~TemplateParseErr(r.labels) /\ ~TemplateParseErr(r.annotations))

PromGroupOK(d) ==
  LET g == d.g IN
  CASE d.gitem = "null" -> TRUE
    [] d.gitem \in {"str", "int", "seq"} -> FALSE
    [] d.gitem = "emptyMap" -> FALSE                     \* Groupname must not be empty
    [] OTHER ->
       /\ g.unknown = "absent" /\ g.partial_response_strategy = "absent"
       /\ StrDecodes(g.name)
       /\ DurDecodes(g.interval) /\ DurDecodes(g.query_offset)
       \* yaml.v3 truncates a float into an int field (1.5, 1e3) but refuses what does not fit (u64, huge)
       /\ g.limit \in {"absent", "ok", "neg", "null", "float", "zero", "hex", "exp"}
       /\ MapDecodes(g.labels)
       /\ g.rules \in {"absent", "ok", "null", "emptyList"}
       \* RuleGroups.Validate
       /\ StrNonEmpty(g.name)
       /\ g.name # "dupOther"
       /\ ~NameInvalid(g.labels, d.names) /\ g.labels # "nameLabel"
       /\ (g.rules = "ok" => PromRuleOK(d))

PromAccepts(d) ==
  IF RawBadUtf8(d) THEN FALSE ELSE
  CASE d.top \in {"emptyFile", "commentOnly", "nullDoc", "groupsNull", "groupsEmpty"} -> TRUE
    [] d.top \in {"seq", "scalarStr", "scalarInt", "groupsInt", "groupsStr", "groupsBool", "groupsMap"} -> FALSE
    [] d.top \in {"unknownKey", "unknownKeyFirst", "nonStrKey", "dupGroupsEmpty", "dupGroupsOther"} -> FALSE
    [] OTHER -> PromGroupOK(d)             \* ok; multiDoc*: only the first document is read

-----------------------------------------------------------------------------
(* State machine: deviate one more field.                                  *)
VARIABLES doc,   \* the abstract document
          n      \* number of fields deviating from the baseline (= Cardinality(Devs(doc)))
vars == <<doc, n>>

Kinds == {"recording", "alerting"}
Orders == {"rulesLast", "rulesFirst"}

Init == /\ \E k \in Kinds, nm \in NamesSet, o \in Orders, sc \in SchemaSet : doc = Baseline(k, nm, o, sc)
        /\ n = 0

\* fields around which the deepest level of deviation is concentrated
CoreG == {}
CoreR == {"record", "alert", "expr"}
Last == CoreOnly /\ n = MaxDev - 1

Base == Baseline(doc.kind, doc.names, doc.order, doc.schema)

\* one more field leaves the baseline; fields that are not rendered never deviate
Deviate(d2) ==
  /\ n < MaxDev
  /\ Normal(d2)
  /\ doc' = d2
  /\ n' = n + 1

Next ==
  \/ \E t \in TopDom \ {"ok"} : ~Last /\ doc.top = "ok" /\ Deviate([doc EXCEPT !.top = t])
  \/ \E s \in Item \ {"map"} : ~Last /\ doc.gitem = "map" /\ Deviate([doc EXCEPT !.gitem = s])
  \/ \E s \in Item \ {"map"} : ~Last /\ doc.ritem = "map" /\ Deviate([doc EXCEPT !.ritem = s])
  \/ \E s \in SiblingDom \ {"absent"} : ~Last /\ doc.g2 = "absent" /\ Deviate([doc EXCEPT !.g2 = s])
  \/ \E s \in SiblingDom \ {"absent"} : ~Last /\ doc.r2 = "absent" /\ Deviate([doc EXCEPT !.r2 = s])
  \/ \E f \in GFields : \E s \in GDom(f) \ {Base.g[f]} :
        (Last => f \in CoreG) /\ doc.g[f] = Base.g[f] /\ Deviate([doc EXCEPT !.g[f] = s])
  \/ \E f \in RFields : \E s \in RDom(f) \ {Base.r[f]} :
        (Last => f \in CoreR) /\ doc.r[f] = Base.r[f] /\ Deviate([doc EXCEPT !.r[f] = s])

Spec == Init /\ [][Next]_vars

\* C01 at model level
\* claimed for the Prometheus schema only: with the Thanos schema pint accepts partial_response_strategy by design
Inv_C01 == (doc.schema = "prometheus" /\ PintClean(doc)) => PromAccepts(doc)

\* the same with the documents of the gaps declared open (F9a-d) left out: must hold without exception
KnownGap(d) ==
  \/ "F9a" \in Gaps /\ d.r.record = "braces" /\ d.names = "utf8"
  \/ "F9b" \in Gaps /\ (d.g.labels \in {"nameLabel", "badNameEmpty"} \/ (d.g.labels = "badNameDash" /\ d.names = "legacy"))
  \/ "F9c" \in Gaps /\ (d.gitem = "emptyMap" \/ (d.gitem = "map" /\ ~Present(d.g.name) /\ ~Present(d.g.rules)))
  \/ "F9d" \in Gaps /\ d.top \in {"dupGroupsEmpty", "dupGroupsOther"}
  \/ "F9e" \in Gaps /\ (d.r.record = "nullWord" \/ d.r.alert = "nullWord" \/ d.r.expr = "nullWord")
  \/ "F9g" \in Gaps /\ d.g.limit = "u64"
Inv_C01_ModuloKnown == KnownGap(doc) \/ Inv_C01

Inv_Count == n = Cardinality(Devs(doc))

\* GEN: one case per document
EmitCase == PrintT(<<"CASE", ToJson(doc)>>)
=============================================================================
