SPECIFICATION TraceSpec
CONSTANTS
  MaxBlocks = 4
  MaxMatch = 2
  MaxIgnore = 2
  MaxMatchConds = 3
  MaxIgnoreConds = 3
  Shared = FALSE
  Reduced = FALSE
  WithAlt = TRUE
CHECK_DEADLOCK FALSE
