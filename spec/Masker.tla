------------------------------- MODULE Masker -------------------------------
(***************************************************************************)
(* The line masker of pint: parser/read.go ContentReader.                  *)
(*                                                                         *)
(* Impl side  : Step(flags, line) transcribes parseComments() +            *)
(*              emptyCurrentLine() over the four Go flags                  *)
(*              skipAll / skipNext / autoReset / inBegin.                  *)
(* Doc side   : DocStep(mode, line) is the documented exclusion            *)
(*              (docs/ignoring.md): after ignore/file, between             *)
(*              ignore/begin and the next ignore/end, the line after       *)
(*              ignore/next-line, the text in front of ignore/line.        *)
(* Property   : C10 non-interference - replacing an excluded line by any   *)
(*              other line does not change what survives masking           *)
(*              (surviving text, surviving comments, collected file        *)
(*              comments, "file ignored" flag).                            *)
(***************************************************************************)
EXTENDS Naturals, Sequences, FiniteSets, TLC, Json

CONSTANTS MaxLen,       \* bound on the number of lines
          TextOnCtl     \* BOOLEAN: allow text in front of control comments other than ignore/line

Payload == {"P1", "P2"}
CtlCls  == {"IgnLine", "NextLine", "Begin", "End", "IgnFile", "FileCmt", "RuleCmt", "BadCmt"}
Cls     == CtlCls \cup {"Plain"}

\* A line: class of the trailing pint comment ("Plain" = none) and the text in front of it.
Line == [cls : {"Plain"}, text : Payload \cup {"none"}]
        \cup [cls : {"IgnLine"}, text : {"none", "P1"}]
        \cup [cls : CtlCls \ {"IgnLine"}, text : IF TextOnCtl THEN {"none", "P1"} ELSE {"none"}]

Flags == [skipAll : BOOLEAN, skipNext : BOOLEAN, autoReset : BOOLEAN, inBegin : BOOLEAN]
Flags0 == [skipAll |-> FALSE, skipNext |-> FALSE, autoReset |-> FALSE, inBegin |-> FALSE]

-----------------------------------------------------------------------------
(* Impl: what one call of readNextLine does to the flags and to the line.  *)

\* emptyCurrentLine: bytes in front of the first pint comment are blanked; with inBegin everything is.
Emptied(fl, ln) == [text |-> "blank", cmt |-> IF fl.inBegin \/ ln.cls = "Plain" THEN "blank" ELSE ln.cls]
Kept(ln)        == [text |-> IF ln.text = "none" THEN "blank" ELSE ln.text,
                    cmt  |-> IF ln.cls = "Plain" THEN "blank" ELSE ln.cls]

\* Result of one step: new flags, what survives of the line, whether the comment is appended to
\* ContentReader.comments (file/owner, file/disable, file/snooze, invalid comments), and whether the
\* "file excluded" diagnostic is appended.
\* isExcludedComment: a comment on the line after ignore/next-line, or inside a begin/end block
\* (other than begin/end themselves), is inert: the loop over the line's comments is abandoned, the
\* comment list is dropped and the whole line is blanked by the skipNext branch.
ExcludedComment(fl, ln) ==
  /\ ln.cls # "Plain"
  /\ IF fl.inBegin THEN ln.cls \notin {"Begin", "End"} ELSE fl.skipNext
AllBlank == [text |-> "blank", cmt |-> "blank"]

Step(fl, ln) ==
  IF fl.skipAll
  THEN [fl |-> fl, out |-> Emptied(fl, ln), coll |-> FALSE, diag |-> FALSE]
  ELSE IF ExcludedComment(fl, ln)
  THEN \* found = FALSE, nothing collected; falls into `case r.skipNext` with no comments
       IF fl.skipNext
       THEN [fl  |-> IF fl.autoReset THEN [fl EXCEPT !.skipNext = FALSE] ELSE fl,
             out |-> AllBlank, coll |-> FALSE, diag |-> FALSE]
       ELSE [fl |-> fl, out |-> Kept(ln), coll |-> FALSE, diag |-> FALSE]
  ELSE
    LET coll == ln.cls \in {"FileCmt", "BadCmt"} IN
    CASE ln.cls = "IgnFile"  ->
           [fl   |-> [fl EXCEPT !.skipNext = TRUE, !.autoReset = FALSE, !.skipAll = TRUE],
            out  |-> Emptied(fl, ln), coll |-> coll, diag |-> TRUE]
      [] ln.cls = "IgnLine"  ->
           [fl   |-> IF fl.inBegin THEN fl ELSE [fl EXCEPT !.skipNext = FALSE, !.autoReset = TRUE],
            out  |-> Emptied(fl, ln), coll |-> coll, diag |-> FALSE]
      [] ln.cls = "NextLine" ->
           [fl   |-> [fl EXCEPT !.skipNext = TRUE, !.autoReset = TRUE],
            out  |-> Kept(ln), coll |-> coll, diag |-> FALSE]
      [] ln.cls = "Begin"    ->
           \* a nested begin is still inside the block: only the comment itself is kept
           [fl   |-> [fl EXCEPT !.skipNext = TRUE, !.autoReset = FALSE, !.inBegin = TRUE],
            out  |-> IF fl.inBegin THEN [text |-> "blank", cmt |-> "Begin"] ELSE Kept(ln),
            coll |-> coll, diag |-> FALSE]
      [] ln.cls = "End"      ->
           [fl   |-> [fl EXCEPT !.skipNext = FALSE, !.autoReset = TRUE, !.inBegin = FALSE],
            out  |-> Kept(ln), coll |-> coll, diag |-> FALSE]
      [] OTHER ->
           IF fl.skipNext
           THEN [fl  |-> IF fl.autoReset THEN [fl EXCEPT !.skipNext = FALSE] ELSE fl,
                 out |-> Emptied(fl, ln), coll |-> coll, diag |-> FALSE]
           ELSE [fl |-> fl, out |-> Kept(ln), coll |-> coll, diag |-> FALSE]

\* Fold of Step over a whole file: sequence of per-line results.
RECURSIVE ImplRunFrom(_, _, _)
ImplRunFrom(fl, f, k) ==
  IF k > Len(f) THEN <<>>
  ELSE LET r == Step(fl, f[k]) IN <<r>> \o ImplRunFrom(r.fl, f, k + 1)
ImplRun(f) == ImplRunFrom(Flags0, f, 1)

\* Observable result of masking: surviving text/comment per line, lines whose comment was collected,
\* whether the file got the "excluded" diagnostic (then readRules reports only that).
ImplOut(f) ==
  LET r == ImplRun(f)
      dg == \E k \in 1..Len(f) : r[k].diag IN
  IF dg
  THEN \* discovery.readRules: a file carrying the "excluded" diagnostic yields only that entry plus
       \* one entry per invalid comment collected; nothing else of the file is looked at.
       [lines |-> <<>>, coll |-> {k \in 1..Len(f) : r[k].coll /\ f[k].cls = "BadCmt"}, diag |-> TRUE]
  ELSE \* of the comments that survive as YAML comments only rule-level ones are ever read again
       \* (parser.parseRule keeps comments.IsRuleComment types); ignore-family comments act through
       \* the flags and file-level ones through `coll`.
       [lines |-> [k \in 1..Len(f) |-> [text |-> r[k].out.text,
                                         cmt  |-> IF r[k].out.cmt = "RuleCmt" THEN "RuleCmt" ELSE "blank"]],
        coll  |-> {k \in 1..Len(f) : r[k].coll},
        diag  |-> FALSE]

-----------------------------------------------------------------------------
(* Doc: documented exclusion as a three-mode fold.                          *)
\* mode: "Normal" | "Next" (previous line was a live ignore/next-line) | "Block" | "File"
\* Result per line: excl \in {"no", "prefix", "whole"} and the next mode.
DocStep(mode, ln) ==
  CASE mode = "File"  -> [mode |-> "File", excl |-> "whole"]
    [] mode = "Block" -> IF ln.cls = "End" THEN [mode |-> "Normal", excl |-> "no"]
                                          ELSE [mode |-> "Block", excl |-> "whole"]
    [] mode = "Next"  -> [mode |-> "Normal", excl |-> "whole"]
    [] OTHER ->
        CASE ln.cls = "IgnFile"  -> [mode |-> "File",   excl |-> "prefix"]
          [] ln.cls = "IgnLine"  -> [mode |-> "Normal", excl |-> "prefix"]
          [] ln.cls = "NextLine" -> [mode |-> "Next",   excl |-> "no"]
          [] ln.cls = "Begin"    -> [mode |-> "Block",  excl |-> "no"]
          [] OTHER               -> [mode |-> "Normal", excl |-> "no"]

RECURSIVE DocRunFrom(_, _, _)
DocRunFrom(mode, f, k) ==
  IF k > Len(f) THEN <<>>
  ELSE LET r == DocStep(mode, f[k]) IN <<[excl |-> r.excl, mode |-> mode]>> \o DocRunFrom(r.mode, f, k + 1)
DocRun(f) == DocRunFrom("Normal", f, 1)
\* documented mode after the last line of f
RECURSIVE DocEndFrom(_, _, _)
DocEndFrom(mode, f, k) == IF k > Len(f) THEN mode ELSE DocEndFrom(DocStep(mode, f[k]).mode, f, k + 1)
DocEndMode(f) == DocEndFrom("Normal", f, 1)

\* Lines a user may put in place of excluded line k without changing the documented structure:
\* anything, except that inside a begin/end block the replacement must not be the terminating `end`
\* (that would be a different block) - and an `end` that terminates a block is not excluded at all.
Allowed(f, k, d) ==
  CASE d[k].excl = "whole"  -> IF d[k].mode = "Block" THEN {ln \in Line : ln.cls # "End"} ELSE Line
    [] d[k].excl = "prefix" -> {ln \in Line : ln.cls = f[k].cls}
    [] OTHER                -> {f[k]}

Replace(f, k, ln) == [f EXCEPT ![k] = ln]

\* All single-line variants of f on its excluded lines. Multi-line replacements are chains of these:
\* a replacement of an excluded line never changes which lines are excluded.
Variants(f) ==
  LET d == DocRun(f) IN
  {Replace(f, k, ln) : <<k, ln>> \in {p \in (1..Len(f)) \X Line : p[2] \in Allowed(f, p[1], d)}}

\* For every excluded line the surviving content must not depend on what was written there.
NonInterference(f) == \A g \in Variants(f) : ImplOut(g) = ImplOut(f)

-----------------------------------------------------------------------------
(* State machine: a file is grown line by line (GEN), and read line by line *)
(* by the impl machine (the action trace validation binds to).              *)
VARIABLES file, i, fl, out, collected, diag
vars == <<file, i, fl, out, collected, diag>>

Init == /\ file = <<>> /\ i = 0 /\ fl = Flags0 /\ out = <<>> /\ collected = {} /\ diag = FALSE

\* the environment appends a line and the reader consumes it (readNextLine)
ReadLine(ln) ==
  /\ Len(file) < MaxLen
  /\ LET r == Step(fl, ln) IN
     /\ file' = Append(file, ln)
     /\ i' = i + 1
     /\ fl' = r.fl
     /\ out' = Append(out, r.out)
     /\ collected' = IF r.coll THEN collected \cup {i + 1} ELSE collected
     /\ diag' = (diag \/ r.diag)

Next == \E ln \in Line : ReadLine(ln)
Spec == Init /\ [][Next]_vars

\* the stepwise machine and the fold agree (sanity of the transcription)
Inv_FoldAgrees == LET r == ImplRun(file) IN
  /\ out = [k \in 1..Len(file) |-> r[k].out]
  /\ collected = {k \in 1..Len(file) : r[k].coll}
  /\ diag = \E k \in 1..Len(file) : r[k].diag

\* C10 at model level
Inv_C10 == NonInterference(file)

\* GEN: one case per distinct file (always true; prints as a side effect)
EmitCase == Len(file) = 0 \/ PrintT(<<"CASE", ToJson([file |-> file, doc |-> DocRun(file), endMode |-> DocEndMode(file)])>>)

\* flags stay inside the combinations the code can reach (binding aid)
Inv_Flags == /\ (fl.skipAll => fl.skipNext /\ ~fl.autoReset)
             /\ (fl.inBegin /\ ~fl.skipAll => TRUE)
=============================================================================
