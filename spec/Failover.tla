------------------------------- MODULE Failover -------------------------------
(***************************************************************************)
(* Failover between the upstreams of one `prometheus {}` block.            *)
(*                                                                         *)
(* Impl side : internal/promapi                                            *)
(*   errors.go     tryDecodingAPIError, decodeErrorType, IsUnavailableError,*)
(*                 isUnsupportedError                       RunError, ...  *)
(*   prometheus.go processJob (unsupported API handling)    ProcessJob     *)
(*   failover.go   FailoverGroup.Query / RangeQuery / Config / Flags /     *)
(*                 Metadata: the five ordered retry loops   Try            *)
(*   checks/base.go problemFromError + the checks' ErrUnsupported branch   *)
(*                                                          ImplProblem    *)
(* Doc side  : the statement of C15 (and docs/configuration.md, `failover` *)
(*   and `required`): Doc_Contact, Doc_Result, Doc_Severity.               *)
(*                                                                         *)
(* A case: a fault mode per upstream (in configured order), the endpoint,  *)
(* `required`.                                                             *)
(***************************************************************************)
EXTENDS Integers, Sequences, FiniteSets, TLC, Json

CONSTANTS N,               \* number of upstreams (uri + failover list)
          MaxFaults,       \* GEN/MC: at most this many non-healthy upstreams
          TwoTimeouts      \* GEN/MC: allow more than one upstream in mode "timeout"

Modes == {"healthy",
          "refused",       \* nothing listens
          "timeout",       \* no answer within the client's deadline
          "http500",       \* 500, plain text body
          "json5xx",       \* 503, JSON errorType=server_error
          "json503un",     \* 503, JSON errorType=unavailable: a real Prometheus whose TSDB is not ready
          "bad_data",      \* 400, JSON errorType=bad_data
          "exec422",       \* 422, JSON errorType=execution (e.g. many-to-many matching)
          "http404",       \* 404, plain text body
          "truncated",     \* 200, connection closed in the middle of the body
          "cutjson",       \* 200, HTTP-complete, JSON document ends at a token boundary inside "data"
          "exec500"}       \* 500, JSON errorType=execution
Endpoints == {"query", "query_range", "config", "flags", "metadata"}
OptionalAPIs == {"config", "flags", "metadata"}

VARIABLES modes, ep, required,   \* the case
          i,                     \* next upstream to try
          contacted,             \* upstreams that received a request, in order
          disabled,              \* upstreams whose API was marked unsupported (unsupporedAPIs.disable)
          res                    \* [done, ok, err, at]: outcome of the FailoverGroup call
vars == <<modes, ep, required, i, contacted, disabled, res>>

-----------------------------------------------------------------------------
(* Impl: one request                                                       *)

\* what the HTTP round trip yields
Http(m) ==
  CASE m = "healthy"   -> [transport |-> FALSE, status |-> 200, json |-> TRUE,  etype |-> "",             cut |-> FALSE]
    [] m = "refused"   -> [transport |-> TRUE,  status |-> 0,   json |-> FALSE, etype |-> "",             cut |-> FALSE]
    [] m = "timeout"   -> [transport |-> TRUE,  status |-> 0,   json |-> FALSE, etype |-> "",             cut |-> FALSE]
    [] m = "http500"   -> [transport |-> FALSE, status |-> 500, json |-> FALSE, etype |-> "",             cut |-> FALSE]
    [] m = "json5xx"   -> [transport |-> FALSE, status |-> 503, json |-> TRUE,  etype |-> "server_error", cut |-> FALSE]
    [] m = "json503un" -> [transport |-> FALSE, status |-> 503, json |-> TRUE,  etype |-> "unavailable",  cut |-> FALSE]
    [] m = "bad_data"  -> [transport |-> FALSE, status |-> 400, json |-> TRUE,  etype |-> "bad_data",     cut |-> FALSE]
    [] m = "exec422"   -> [transport |-> FALSE, status |-> 422, json |-> TRUE,  etype |-> "execution",    cut |-> FALSE]
    [] m = "http404"   -> [transport |-> FALSE, status |-> 404, json |-> FALSE, etype |-> "",             cut |-> FALSE]
    [] m = "truncated" -> [transport |-> FALSE, status |-> 200, json |-> TRUE,  etype |-> "",             cut |-> TRUE]
    [] m = "cutjson"   -> [transport |-> FALSE, status |-> 200, json |-> TRUE,  etype |-> "",             cut |-> TRUE]
    [] m = "exec500"   -> [transport |-> FALSE, status |-> 500, json |-> TRUE,  etype |-> "execution",    cut |-> FALSE]

\* errors.go decodeErrorType
DecodeErrorType(s) ==
  IF s \in {"bad_data", "timeout", "canceled", "execution", "bad_response", "server_error", "client_error"} THEN s
  ELSE IF s \in {"unavailable", "internal"} THEN "server_error"     \* Prometheus' own 5xx types (repair of F20, commit b48406b)
  ELSE "unknown"

\* errors.go tryDecodingAPIError (status is not 2xx)
TryDecodingAPIError(h, e) ==
  IF h.status = 404 /\ e \in OptionalAPIs THEN "unsupported"
  ELSE IF ~h.json
       THEN CASE h.status \div 100 = 4 -> "client_error"
              [] h.status \div 100 = 5 -> "server_error"
              [] OTHER                 -> "bad_response"
       ELSE DecodeErrorType(h.etype)

\* querier.Run: "none" = success; "transport" = an error that is not an APIError; otherwise APIError.ErrorType
RunError(m, e) ==
  LET h == Http(m) IN
  IF h.transport THEN "transport"
  ELSE IF h.status \div 100 # 2 THEN TryDecodingAPIError(h, e)
  ELSE IF h.cut THEN "bad_response"          \* streamSamples & co: JSON parse error
  ELSE "none"

\* prometheus.go processJob: an unsupported API is disabled and reported as the sentinel ErrUnsupported
ProcessJob(err) == IF err = "unsupported" THEN "ErrUnsupported" ELSE err

\* errors.go IsUnavailableError: anything that is not an APIError counts as unavailable
IsUnavailableError(err) == IF err \in {"transport", "ErrUnsupported"} THEN TRUE ELSE err = "server_error"

\* failover.go: the stop rule of the five loops
StopsAt(err, e) ==
  IF e \in OptionalAPIs THEN ~IsUnavailableError(err) /\ err # "ErrUnsupported"
                        ELSE ~IsUnavailableError(err)

-----------------------------------------------------------------------------
(* Impl: the loop                                                          *)

NoRes == [done |-> FALSE, ok |-> FALSE, err |-> "", at |-> 0]

Faults(ms) == Cardinality({k \in 1..N : ms[k] # "healthy"})
Timeouts(ms) == Cardinality({k \in 1..N : ms[k] = "timeout"})
\* every upstream down (the outage the severity clause is about) is always in scope
AllDown(ms) == \A k \in 1..N : ms[k] \in {"refused", "timeout", "http500", "json5xx", "json503un"}
InScope(ms) == (Faults(ms) <= MaxFaults \/ AllDown(ms)) /\ (TwoTimeouts \/ Timeouts(ms) <= 1)

Init ==
  /\ modes \in {ms \in [1..N -> Modes] : InScope(ms)}
  /\ ep \in Endpoints
  /\ required \in BOOLEAN
  /\ i = 1 /\ contacted = <<>> /\ disabled = {} /\ res = NoRes

\* prom.<Endpoint>(...) on upstream i, then the loop's decision
Try ==
  /\ ~res.done /\ i <= N
  /\ LET raw == IF i \in disabled THEN "unsupported" ELSE RunError(modes[i], ep)
         err == ProcessJob(raw) IN
     /\ contacted' = IF i \in disabled THEN contacted ELSE Append(contacted, i)
     /\ disabled' = IF raw = "unsupported" THEN disabled \cup {i} ELSE disabled
     /\ IF err = "none" THEN res' = [done |-> TRUE, ok |-> TRUE, err |-> "none", at |-> i]
        ELSE IF StopsAt(err, ep) \/ i = N THEN res' = [done |-> TRUE, ok |-> FALSE, err |-> err, at |-> i]
        ELSE res' = res
  /\ i' = i + 1
  /\ UNCHANGED <<modes, ep, required>>

Finished == res.done /\ UNCHANGED vars
Next == Try \/ Finished
Spec == Init /\ [][Next]_vars

\* the same loop as a function of the case (used by JUDGE for the binding)
RECURSIVE Loop(_, _, _, _)
Loop(ms, e, k, seen) ==
  LET err == ProcessJob(RunError(ms[k], e)) IN
  IF err = "none" THEN [contacted |-> Append(seen, k), ok |-> TRUE, err |-> "none", at |-> k]
  ELSE IF StopsAt(err, e) \/ k = N THEN [contacted |-> Append(seen, k), ok |-> FALSE, err |-> err, at |-> k]
  ELSE Loop(ms, e, k + 1, Append(seen, k))
ImplOutcome(ms, e) == Loop(ms, e, 1, <<>>)

\* checks: ErrUnsupported disables the check silently; otherwise base.go problemFromError
\* (IsQueryTooExpensive does not apply to the error texts of this vocabulary)
ImplProblem(out, req, checkSeverity) ==
  IF out.ok THEN "none"
  ELSE IF out.err = "ErrUnsupported" THEN "none"
  ELSE IF IsUnavailableError(out.err) THEN (IF req THEN "Bug" ELSE "Warning")
  ELSE checkSeverity

-----------------------------------------------------------------------------
(* Doc side                                                                *)

\* how the statement classifies what an upstream does
DocClass(m, e) ==
  CASE m = "healthy" -> "answers"
    [] m \in {"refused", "timeout", "http500", "json5xx", "json503un"} -> "unavailable"   \* connection error, timeout, server (5xx) error
    [] m \in {"bad_data", "exec422"} -> "query"                                            \* caused by the query itself
    [] m = "http404" -> IF e \in OptionalAPIs THEN "unsupported"    \* named deviation UnsupportedFallsThrough: deliberate
                                              ELSE "final"           \* not a connection error, timeout or 5xx
    [] m \in {"truncated", "cutjson", "exec500"} -> "ambiguous"     \* the statement does not decide these

MayContinue(c) == c \in {"unavailable", "ambiguous", "unsupported"}
MayStop(c)     == c \in {"answers", "query", "final", "ambiguous", "unsupported"}

\* contacted: exactly the upstreams 1..j in order; later ones only after errors that allow failing over;
\* stopping before the end only at an upstream that answered or whose error is to be returned as is
Doc_Contact(ms, e, cs) ==
  /\ Len(cs) >= 1 /\ Len(cs) <= N
  /\ \A k \in 1..Len(cs) : cs[k] = k
  /\ \A k \in 1..(Len(cs) - 1) : MayContinue(DocClass(ms[k], e))
  /\ Len(cs) < N => MayStop(DocClass(ms[Len(cs)], e))

\* the result is the last contacted upstream's answer or error
Doc_Result(ms, e, cs, ok, at) ==
  /\ at = Len(cs)
  /\ ok <=> DocClass(ms[Len(cs)], e) = "answers"

AllUnavailable(ms, e) == \A k \in 1..N : DocClass(ms[k], e) = "unavailable"
AnsweredByHealthy(ms, e) == \E j \in 1..N : /\ DocClass(ms[j], e) = "answers"
                                            /\ \A k \in 1..(j - 1) : DocClass(ms[k], e) = "unavailable"

\* what an online check may report: sev = "none" | "Warning" | "Bug" | ... of its "unable to run checks" problem
Doc_Severity(ms, e, req, sev) ==
  /\ AllUnavailable(ms, e) => sev = (IF req THEN "Bug" ELSE "Warning")
  /\ AnsweredByHealthy(ms, e) => sev = "none"

Inv_C15 ==
  res.done => /\ Doc_Contact(modes, ep, contacted)
              /\ Doc_Result(modes, ep, contacted, res.ok, res.at)
              /\ Doc_Severity(modes, ep, required, ImplProblem(res, required, "Bug"))
Inv_LoopAgrees ==
  res.done => /\ ImplOutcome(modes, ep).contacted = contacted
                                 /\ ImplOutcome(modes, ep).ok = res.ok /\ ImplOutcome(modes, ep).err = res.err

\* GEN: one case per initial state
EmitCase == IF i = 1 THEN PrintT(<<"CASE", ToJson([modes |-> modes, ep |-> ep, required |-> required])>>) ELSE TRUE
=============================================================================
