------------------------------- MODULE Failover -------------------------------
(***************************************************************************)
(* Failover between the upstreams of one `prometheus {}` block.            *)
(*                                                                         *)
(* Impl side : internal/promapi                                            *)
(*   errors.go     tryDecodingAPIError, decodeErrorType, IsUnavailableError,*)
(*                 isUnsupportedError                       RunError, ...  *)
(*   prometheus.go processJob (unsupported API handling)    ProcessJob     *)
(*   failover.go   FailoverGroup.Query / RangeQuery / Config / Flags /     *)
(*                 Metadata: the five ordered retry loops   Try            *)
(*   checks/base.go problemFromError + the checks' ErrUnsupported branch   *)
(*                                             ImplProblem, ImplDisabled   *)
(*   failover.go IsEnabledForPath (config ServersForPath)   Routed         *)
(*   prometheus.go unsupporedAPIs + cache on a repeated call SecondCallAsks*)
(* Doc side  : the statement of C15 (and docs/configuration.md, `failover` *)
(*   and `required`): Doc_Contact, Doc_Result, Doc_Severity.               *)
(*                                                                         *)
(* A case: a fault mode per upstream (in configured order), the endpoint,  *)
(* `required`.                                                             *)
(***************************************************************************)
EXTENDS Integers, Sequences, FiniteSets, TLC, Json

CONSTANTS N,               \* number of upstreams (uri + failover list)
          MaxFaults,       \* GEN/MC: at most this many non-healthy upstreams
          TwoTimeouts      \* GEN/MC: allow more than one upstream in mode "timeout"

Modes == {"healthy",
          "refused",       \* nothing listens
          "timeout",       \* no answer within the client's deadline
          "http500",       \* 500, plain text body
          "json5xx",       \* 503, JSON errorType=server_error
          "json503un",     \* 503, JSON errorType=unavailable: a real Prometheus whose TSDB is not ready
          "bad_data",      \* 400, JSON errorType=bad_data
          "exec422",       \* 422, JSON errorType=execution (e.g. many-to-many matching)
          "http404",       \* 404, plain text body
          "truncated",     \* 200, connection closed in the middle of the body
          "cutjson",       \* 200, HTTP-complete, JSON document ends at a token boundary inside "data"
          "exec500"}       \* 500, JSON errorType=execution
Endpoints == {"query", "query_range", "config", "flags", "metadata"}
OptionalAPIs == {"config", "flags", "metadata"}

\* path routing of the server (`include` / `exclude` of the prometheus block against the rule file's path):
\* "none" = no such pattern configured, "hit" = a pattern matches the path, "miss" = patterns exist, none matches
PathMatch == {"none", "hit", "miss"}

VARIABLES modes, ep, required,   \* the case
          inc, exc,              \* path routing of the case
          i,                     \* next upstream to try
          contacted,             \* upstreams that received a request, in order
          disabled,              \* upstreams whose API was marked unsupported (unsupporedAPIs.disable)
          res                    \* [done, ok, err, at]: outcome of the FailoverGroup call
vars == <<modes, ep, required, inc, exc, i, contacted, disabled, res>>

-----------------------------------------------------------------------------
(* Impl: one request                                                       *)

\* what the HTTP round trip yields
Http(m) ==
  CASE m = "healthy"   -> [transport |-> FALSE, status |-> 200, json |-> TRUE,  etype |-> "",             cut |-> FALSE]
    [] m = "refused"   -> [transport |-> TRUE,  status |-> 0,   json |-> FALSE, etype |-> "",             cut |-> FALSE]
    [] m = "timeout"   -> [transport |-> TRUE,  status |-> 0,   json |-> FALSE, etype |-> "",             cut |-> FALSE]
    [] m = "http500"   -> [transport |-> FALSE, status |-> 500, json |-> FALSE, etype |-> "",             cut |-> FALSE]
    [] m = "json5xx"   -> [transport |-> FALSE, status |-> 503, json |-> TRUE,  etype |-> "server_error", cut |-> FALSE]
    [] m = "json503un" -> [transport |-> FALSE, status |-> 503, json |-> TRUE,  etype |-> "unavailable",  cut |-> FALSE]
    [] m = "bad_data"  -> [transport |-> FALSE, status |-> 400, json |-> TRUE,  etype |-> "bad_data",     cut |-> FALSE]
    [] m = "exec422"   -> [transport |-> FALSE, status |-> 422, json |-> TRUE,  etype |-> "execution",    cut |-> FALSE]
    [] m = "http404"   -> [transport |-> FALSE, status |-> 404, json |-> FALSE, etype |-> "",             cut |-> FALSE]
    [] m = "truncated" -> [transport |-> FALSE, status |-> 200, json |-> TRUE,  etype |-> "",             cut |-> TRUE]
    [] m = "cutjson"   -> [transport |-> FALSE, status |-> 200, json |-> TRUE,  etype |-> "",             cut |-> TRUE]
    [] m = "exec500"   -> [transport |-> FALSE, status |-> 500, json |-> TRUE,  etype |-> "execution",    cut |-> FALSE]

\* errors.go decodeErrorType
DecodeErrorType(s) ==
  IF s \in {"bad_data", "timeout", "canceled", "execution", "bad_response", "server_error", "client_error"} THEN s
  ELSE IF s \in {"unavailable", "internal"} THEN "server_error"     \* Prometheus' own 5xx types (repair of F20, commit b48406b)
  ELSE "unknown"

\* errors.go tryDecodingAPIError (status is not 2xx)
TryDecodingAPIError(h, e) ==
  IF h.status = 404 /\ e \in OptionalAPIs THEN "unsupported"
  ELSE IF ~h.json
       THEN CASE h.status \div 100 = 4 -> "client_error"
              [] h.status \div 100 = 5 -> "server_error"
              [] OTHER                 -> "bad_response"
       ELSE DecodeErrorType(h.etype)

\* querier.Run: "none" = success; "transport" = an error that is not an APIError; otherwise APIError.ErrorType
RunError(m, e) ==
  LET h == Http(m) IN
  IF h.transport THEN "transport"
  ELSE IF h.status \div 100 # 2 THEN TryDecodingAPIError(h, e)
  ELSE IF h.cut THEN "bad_response"          \* streamSamples & co: JSON parse error
  ELSE "none"

\* prometheus.go processJob: an unsupported API is disabled and reported as the sentinel ErrUnsupported
ProcessJob(err) == IF err = "unsupported" THEN "ErrUnsupported" ELSE err

\* errors.go IsUnavailableError: anything that is not an APIError counts as unavailable
IsUnavailableError(err) == IF err \in {"transport", "ErrUnsupported"} THEN TRUE ELSE err = "server_error"

\* failover.go: the stop rule of the five loops
StopsAt(err, e) ==
  IF e \in OptionalAPIs THEN ~IsUnavailableError(err) /\ err # "ErrUnsupported"
                        ELSE ~IsUnavailableError(err)

-----------------------------------------------------------------------------
(* Impl: the loop                                                          *)

NoRes == [done |-> FALSE, ok |-> FALSE, err |-> "", at |-> 0]

\* failover.go IsEnabledForPath (used by config.PrometheusGenerator.ServersForPath when checks are created):
\* no patterns at all -> enabled; an exclude match wins; then an include match enables; otherwise NOT enabled
Routed(in, ex) ==
  IF in = "none" /\ ex = "none" THEN TRUE
  ELSE IF ex = "hit" THEN FALSE
  ELSE in = "hit"
\* docs/configuration.md: `include` - only matching paths use the server; `exclude` - matching paths never use it;
\* exclude takes precedence. (Not part of C15; Routed and DocRouted differ for exclude-only configurations
\* whose patterns do not match: in = "none", ex = "miss".)
DocRouted(in, ex) == ex # "hit" /\ in \in {"none", "hit"}

Faults(ms) == Cardinality({k \in 1..N : ms[k] # "healthy"})
Timeouts(ms) == Cardinality({k \in 1..N : ms[k] = "timeout"})
\* every upstream down (the outage the severity clause is about) is always in scope
AllDown(ms) == \A k \in 1..N : ms[k] \in {"refused", "timeout", "http500", "json5xx", "json503un"}
InScope(ms) == (Faults(ms) <= MaxFaults \/ AllDown(ms)) /\ (TwoTimeouts \/ Timeouts(ms) <= 1)

AllHealthy == [k \in 1..N |-> "healthy"]
Init ==
  /\ \/ /\ modes \in {ms \in [1..N -> Modes] : InScope(ms)}      \* fault cases, plain routing
        /\ required \in BOOLEAN
        /\ inc = "none" /\ exc = "none"
     \/ /\ modes = AllHealthy                                        \* routing cases
        /\ required = FALSE
        /\ inc \in PathMatch /\ exc \in PathMatch /\ <<inc, exc>> # <<"none", "none">>
  /\ ep \in Endpoints
  /\ i = 1 /\ contacted = <<>> /\ disabled = {} /\ res = NoRes

\* prom.<Endpoint>(...) on upstream i, then the loop's decision
\* a server that is not routed to the file gets no check at all: nothing is asked
NotRouted ==
  /\ ~res.done /\ ~Routed(inc, exc)
  /\ res' = [done |-> TRUE, ok |-> FALSE, err |-> "notrouted", at |-> 0]
  /\ UNCHANGED <<modes, ep, required, inc, exc, i, contacted, disabled>>

Try ==
  /\ ~res.done /\ i <= N /\ Routed(inc, exc)
  /\ LET raw == IF i \in disabled THEN "unsupported" ELSE RunError(modes[i], ep)
         err == ProcessJob(raw) IN
     /\ contacted' = IF i \in disabled THEN contacted ELSE Append(contacted, i)
     /\ disabled' = IF raw = "unsupported" THEN disabled \cup {i} ELSE disabled
     /\ IF err = "none" THEN res' = [done |-> TRUE, ok |-> TRUE, err |-> "none", at |-> i]
        ELSE IF StopsAt(err, ep) \/ i = N THEN res' = [done |-> TRUE, ok |-> FALSE, err |-> err, at |-> i]
        ELSE res' = res
  /\ i' = i + 1
  /\ UNCHANGED <<modes, ep, required, inc, exc>>

Finished == res.done /\ UNCHANGED vars
Next == Try \/ NotRouted \/ Finished
Spec == Init /\ [][Next]_vars

\* the same loop as a function of the case (used by JUDGE for the binding)
RECURSIVE Loop(_, _, _, _)
Loop(ms, e, k, seen) ==
  LET err == ProcessJob(RunError(ms[k], e)) IN
  IF err = "none" THEN [contacted |-> Append(seen, k), ok |-> TRUE, err |-> "none", at |-> k]
  ELSE IF StopsAt(err, e) \/ k = N THEN [contacted |-> Append(seen, k), ok |-> FALSE, err |-> err, at |-> k]
  ELSE Loop(ms, e, k + 1, Append(seen, k))
ImplOutcome(ms, e) == Loop(ms, e, 1, <<>>)

\* checks: ErrUnsupported disables the check silently; otherwise base.go problemFromError
\* (IsQueryTooExpensive does not apply to the error texts of this vocabulary)
ImplProblem(out, req, checkSeverity) ==
  IF out.ok THEN "none"
  ELSE IF out.err = "ErrUnsupported" THEN "none"
  ELSE IF IsUnavailableError(out.err) THEN (IF req THEN "Bug" ELSE "Warning")
  ELSE checkSeverity

\* the online check used per endpoint and the API it depends on
CheckOf(e) == CASE e = "query" -> "query/cost" [] e = "query_range" -> "alerts/count" [] e = "config" -> "alerts/external_labels"
                [] e = "flags" -> "promql/range_query" [] OTHER -> "promql/counter"
APIPath(e) == CASE e = "config" -> "/api/v1/status/config" [] e = "flags" -> "/api/v1/status/flags" [] OTHER -> "/api/v1/metadata"

\* checks: on ErrUnsupported the check registers itself as disabled for that API (FailoverGroup.DisableCheck);
\* cmd/pint copies this into Summary.MarkCheckDisabled -> one {API, checks} item per server
ImplDisabled(out, e) ==
  IF ~out.ok /\ out.err = "ErrUnsupported" THEN {<<APIPath(e), CheckOf(e)>>} ELSE {}

\* a second, identical call on the same group: an upstream whose API was marked unsupported is not asked again
\* (unsupporedAPIs), a successful answer comes from the cache; everything else is asked again
SecondCallAsks(ms, e) ==
  LET o == ImplOutcome(ms, e) IN
  {k \in 1..Len(o.contacted) :
     /\ ProcessJob(RunError(ms[k], e)) # "ErrUnsupported"
     /\ ~(o.ok /\ k = o.at)}

\* uptime: alerts/count asks count(<uptime metric>) once its own range query returned series
ImplAsksUptime(ms, e) == e = "query_range" /\ ImplOutcome(ms, e).ok

-----------------------------------------------------------------------------
(* Doc side                                                                *)

\* how the statement classifies what an upstream does
DocClass(m, e) ==
  CASE m = "healthy" -> "answers"
    [] m \in {"refused", "timeout", "http500", "json5xx", "json503un"} -> "unavailable"   \* connection error, timeout, server (5xx) error
    [] m \in {"bad_data", "exec422"} -> "query"                                            \* caused by the query itself
    [] m = "http404" -> IF e \in OptionalAPIs THEN "unsupported"    \* named deviation UnsupportedFallsThrough: deliberate
                                              ELSE "final"           \* not a connection error, timeout or 5xx
    [] m \in {"truncated", "cutjson", "exec500"} -> "ambiguous"     \* the statement does not decide these

MayContinue(c) == c \in {"unavailable", "ambiguous", "unsupported"}
MayStop(c)     == c \in {"answers", "query", "final", "ambiguous", "unsupported"}

\* contacted: exactly the upstreams 1..j in order; later ones only after errors that allow failing over;
\* stopping before the end only at an upstream that answered or whose error is to be returned as is
Doc_Contact(ms, e, cs) ==
  /\ Len(cs) >= 1 /\ Len(cs) <= N
  /\ \A k \in 1..Len(cs) : cs[k] = k
  /\ \A k \in 1..(Len(cs) - 1) : MayContinue(DocClass(ms[k], e))
  /\ Len(cs) < N => MayStop(DocClass(ms[Len(cs)], e))

\* the result is the last contacted upstream's answer or error
Doc_Result(ms, e, cs, ok, at) ==
  /\ at = Len(cs)
  /\ ok <=> DocClass(ms[Len(cs)], e) = "answers"

AllUnavailable(ms, e) == \A k \in 1..N : DocClass(ms[k], e) = "unavailable"
AnsweredByHealthy(ms, e) == \E j \in 1..N : /\ DocClass(ms[j], e) = "answers"
                                            /\ \A k \in 1..(j - 1) : DocClass(ms[k], e) = "unavailable"

\* what an online check may report: sev = "none" | "Warning" | "Bug" | ... of its "unable to run checks" problem
Doc_Severity(ms, e, req, sev) ==
  /\ AllUnavailable(ms, e) => sev = (IF req THEN "Bug" ELSE "Warning")
  /\ AnsweredByHealthy(ms, e) => sev = "none"

Inv_C15 ==
  (res.done /\ Routed(inc, exc)) => /\ Doc_Contact(modes, ep, contacted)
              /\ Doc_Result(modes, ep, contacted, res.ok, res.at)
              /\ Doc_Severity(modes, ep, required, ImplProblem(res, required, "Bug"))
Inv_LoopAgrees ==
  (res.done /\ Routed(inc, exc)) => /\ ImplOutcome(modes, ep).contacted = contacted
                                 /\ ImplOutcome(modes, ep).ok = res.ok /\ ImplOutcome(modes, ep).err = res.err

\* GEN: one case per initial state
\* unsupported upstreams are exactly the contacted ones that answered 404 on an optional API
Inv_Disabled ==
  res.done => disabled = {k \in 1..Len(contacted) : modes[contacted[k]] = "http404" /\ ep \in OptionalAPIs}

EmitCase == IF i = 1 /\ ~res.done THEN PrintT(<<"CASE", ToJson([modes |-> modes, ep |-> ep, required |-> required, inc |-> inc, exc |-> exc])>>) ELSE TRUE
=============================================================================
