--------------------------- MODULE SeriesCheckTrace ---------------------------
(***************************************************************************)
(* JUDGE for C16. One record per scenario run by the real                  *)
(* checks.NewSeriesCheck against the real PromQL engine (promfake engine   *)
(* mode): the scenario, the problems reported (class, severity, whether a  *)
(* diagnostic points into the selector), the probing queries the server    *)
(* saw, and the ground truth (selector evaluated on the same engine:       *)
(* instant at now; the metric over the lookback).                          *)
(*   VERDICT  P1 and P2 with antecedents taken from the engine's truth     *)
(*   TRUTH    the scenario's own idea of the antecedents must agree with   *)
(*            the engine (otherwise the harness synthesised wrong data)    *)
(*   DRIFT    problems / probes differ from the impl-shaped Verdict        *)
(***************************************************************************)
EXTENDS SeriesCheck

TraceLog == ndJsonDeserialize("c16_trace.ndjson")

VARIABLES l, done
tvars == <<vars, l, done>>
Rec == TraceLog[l]
ToSet(sq) == {sq[i] : i \in 1..Len(sq)}

TraceInit == /\ sc = [shape |-> "bare", ha |-> "never", hb |-> "never", up |-> "always", rules |-> "none", exempt |-> "none", wrap |-> "cmp"]
             /\ pc = "idle" /\ out = [probes |-> << >>, problems |-> {}]
             /\ l = 1 /\ done = FALSE

TScenario ==
  /\ l <= Len(TraceLog) /\ Rec.ev = "Scenario"
  /\ LET s == [shape |-> Rec.shape, ha |-> Rec.han, hb |-> Rec.hbn, up |-> Rec.upn, rules |-> Rec.rules, exempt |-> Rec.exempt, wrap |-> Rec.wrap]
         Obs(i) == [class |-> Rec.problems[i].class, sev |-> Rec.problems[i].severity, at |-> Rec.problems[i].at,
                    about |-> Rec.problems[i].about, ago |-> Rec.problems[i].ago]
         all == {Obs(i) : i \in 1..Len(Rec.problems)}
         onsel == {Obs(i) : i \in {j \in 1..Len(Rec.problems) : Rec.problems[j].onsel}}
         returnsNow == Rec.truth_instant > 0
         noSample == Rec.truth_range_points = 0
         wellformed == s \in Scenario /\ ToSet(Rec.ha) = Hist(s.ha) /\ ToSet(Rec.hb) = Hist(s.hb) /\ ToSet(Rec.up) = UpHist(s.up)
         m == Verdict(s)
         sig == s
     IN
     /\ IF wellformed THEN TRUE ELSE PrintT(<<"TRUTH", Rec.id, ToJson([what |-> "scenario record malformed"])>>)
     /\ wellformed =>
        /\ sc' = s /\ out' = m
        /\ IF P1(returnsNow, onsel) THEN TRUE
           ELSE PrintT(<<"VIOL", Rec.id, ToJson([prop |-> "P1", sc |-> sig, problems |-> all, truth_instant |-> Rec.truth_instant])>>)
        /\ IF P2(noSample, s, onsel) THEN TRUE
           ELSE PrintT(<<"VIOL", Rec.id, ToJson([prop |-> "P2", sc |-> sig, problems |-> all, truth_range_points |-> Rec.truth_range_points])>>)
        /\ IF ReturnsNow(s) = returnsNow /\ NoSample(s) = noSample THEN TRUE
           ELSE PrintT(<<"TRUTH", Rec.id, ToJson([sc |-> sig, model_now |-> ReturnsNow(s), engine_instant |-> Rec.truth_instant,
                                                  model_nosample |-> NoSample(s), engine_points |-> Rec.truth_range_points])>>)
        /\ IF m.problems = all /\ m.probes = Rec.probes THEN TRUE
           ELSE PrintT(<<"DRIFT", Rec.id, ToJson([sc |-> sig, expected |-> m, problems |-> all, probes |-> Rec.probes])>>)
     /\ ~wellformed => UNCHANGED <<sc, out>>
  /\ pc' = "done" /\ l' = l + 1 /\ UNCHANGED done

TDone == /\ l = Len(TraceLog) + 1 /\ ~done
         /\ done' = TRUE /\ PrintT(<<"DONE", l - 1>>)
         /\ UNCHANGED <<vars, l>>

TraceNext == TScenario \/ TDone
TraceSpec == TraceInit /\ [][TraceNext]_tvars
=============================================================================
