--------------------------- MODULE LayoutWrapTrace ---------------------------
(***************************************************************************)
(* JUDGE for C19.  Every record: one layout with its wrapper (`lay`), the  *)
(* unwrapped document (`base`), the wrapped document (`lines`) and what    *)
(* pint's real parser found: strict and relaxed mode on the unwrapped      *)
(* document, relaxed mode on the wrapped one.                              *)
(* Verdict predicates, evaluated on the recorded real outputs:             *)
(*   modes  the document is valid in strict mode and relaxed mode does not *)
(*          yield the same rules (type, name, Lines, every value and its   *)
(*          positions);                                                    *)
(*   wrap   relaxed mode on the wrapped document does not yield the rules  *)
(*          of the unwrapped one displaced by (dLine, dCol) - the wrapper's *)
(*          lines and indentation, computed by Layout!Render.              *)
(* Binding: both documents are the renderings of the layout; the rules     *)
(* found in the unwrapped document are the rules the layout wrote.         *)
(***************************************************************************)
EXTENDS Layout

CONSTANT TraceFile
TraceLog == ndJsonDeserialize(TraceFile)

VARIABLES l, done
tvars == <<l, done>>
Rec == TraceLog[l]
TraceInit == l = 1 /\ done = FALSE

Emit(tag, id, r) == PrintT(<<tag, id, ToJson(r)>>)

\* what C19 compares of a rule
ProjNode(nd) == [field |-> nd.field, raw |-> nd.raw, pos |-> nd.pos]
\* ng: the rule is the first one of its group, gn / gl: name|interval|query_offset and limit of that group
\* (the partition of the rules into groups and the group they belong to are compared too)
ProjRule(r)  == [type |-> r.type, name |-> r.name, first |-> r.first, last |-> r.last, err |-> r.err, ng |-> r.ng, gn |-> r.gn, gl |-> r.gl,
                 nodes |-> [k \in DOMAIN r.nodes |-> ProjNode(r.nodes[k])]]
ProjFile(f)  == [k \in DOMAIN f.rules |-> ProjRule(f.rules[k])]

\* displacement of an observed position range: the cell of an empty line stays in column 1 unless the
\* document is embedded in a block scalar (there the wrapper indents empty lines too)
IsBlank(base, ln) == ln \in DOMAIN base /\ base[ln] = ""
DispPos(ps, dL, dC, embed, base) ==
  [k \in DOMAIN ps |-> IF ~embed /\ IsBlank(base, ps[k].l) THEN [l |-> ps[k].l + dL, f |-> ps[k].f, t |-> ps[k].t]
                       ELSE [l |-> ps[k].l + dL, f |-> ps[k].f + dC, t |-> ps[k].t + dC]]
DispRule(r, dL, dC, embed, base) ==
  [r EXCEPT !.first = @ + dL, !.last = @ + dL,
            !.nodes = [k \in DOMAIN r.nodes |-> [r.nodes[k] EXCEPT !.pos = DispPos(@, dL, dC, embed, base)]]]
Displaced(rs, dL, dC, embed, base) == [k \in DOMAIN rs |-> DispRule(rs[k], dL, dC, embed, base)]

RECURSIVE LevelSig(_, _)
LevelSig(ls, i) ==
  IF i > Len(ls) THEN ""
  ELSE (IF ls[i].seq THEN "s" ELSE "m") \o Digit(ls[i].step) \o (IF ls[i].key = "rules" THEN "r" ELSE "k")
       \o (IF ls[i].sl THEN "l" ELSE "") \o (IF ls[i].sibB THEN "b" ELSE "") \o (IF ls[i].sibA THEN "a" ELSE "") \o (IF i < Len(ls) THEN "." ELSE "") \o LevelSig(ls, i + 1)
WrapShape(lay) == lay.base \o ":" \o (IF lay.wrap.levels = <<>> THEN "-" ELSE LevelSig(lay.wrap.levels, 1))
                  \o (IF lay.wrap.embed THEN ":embed" ELSE "") \o (IF lay.wrap.embed2 THEN "2" ELSE "") \o (IF lay.wrap.mix THEN ":mix" ELSE "")
                  \o (IF lay.wrap.docE # "none" THEN ":" \o lay.wrap.docE ELSE "") \o (IF lay.wrap.docB THEN ":docB" ELSE "") \o (IF lay.wrap.docA THEN ":docA" ELSE "")
HasSeq(lay) == \E i \in DOMAIN lay.wrap.levels : lay.wrap.levels[i].seq

\* first difference between two rule sequences, for the report
Diff(a, b) ==
  IF Len(a) # Len(b) THEN "count"
  ELSE LET S == {k \in DOMAIN a : a[k] # b[k]} IN
       IF S = {} THEN "none"
       ELSE LET k == CHOOSE m \in S : \A o \in S : m <= o IN
            CASE a[k].type # b[k].type \/ a[k].name # b[k].name \/ a[k].err # b[k].err -> "rule"
              [] a[k].ng # b[k].ng \/ a[k].gn # b[k].gn -> "group"
              [] a[k].gl # b[k].gl -> "group.limit"
              [] a[k].first # b[k].first \/ a[k].last # b[k].last -> "lines"
              [] Len(a[k].nodes) # Len(b[k].nodes) -> "fields"
              [] \E j \in DOMAIN a[k].nodes : a[k].nodes[j].field # b[k].nodes[j].field \/ a[k].nodes[j].raw # b[k].nodes[j].raw -> "value"
              [] OTHER -> "pos"

Judge(rec, R) ==
  LET lay   == rec.lay
      S     == ProjFile(rec.strict)
      X     == ProjFile(rec.relaxed)
      W0    == ProjFile(rec.wrapped)
      \* the extra list item of a mixed list (`- mx:` holding `- alert: SibM`) must be found, as a group of its own,
      \* wherever relaxed mode reports it; the remaining rules are compared in order
      mixK  == {k \in DOMAIN W0 : W0[k].name = "SibM"}
      mixOK == IF lay.wrap.mix THEN Cardinality(mixK) = 1 /\ \A k \in mixK : W0[k].ng /\ W0[k].err = "" ELSE mixK = {}
      WW    == SelectSeq(W0, LAMBDA r : r.name # "SibM")
      \* sibling keys of the wrapper that hold a rule list of their own contribute R.nB rules in front and R.nA behind,
      \* each a group of its own
      sized == Len(WW) >= R.nB + R.nA
      W     == IF sized THEN SubSeq(WW, R.nB + 1, Len(WW) - R.nA) ELSE WW
      sibs  == /\ sized
               /\ \A k \in 1..R.nB : WW[k].name = "SibB" /\ WW[k].ng /\ WW[k].err = ""
               /\ \A k \in (Len(WW) - R.nA + 1)..Len(WW) : WW[k].name = "SibA" /\ WW[k].ng /\ WW[k].err = ""
      want  == Displaced(X, R.dLine, R.dCol, lay.wrap.embed, rec.base)
      \* binding: the parser finds in the unwrapped document the rules the layout wrote - judged on the strict
      \* result for a rule file (relaxed /= strict is then the `modes` verdict), on the relaxed one for a bare list
      ref   == IF lay.base = "doc" THEN rec.strict ELSE rec.relaxed
      RP    == ProjFile(ref)
      found == /\ ref.err = "" /\ ref.panic = ""
               /\ Len(RP) = Len(R.baseRules)
               /\ \A i \in DOMAIN RP : RP[i].type = R.baseRules[i].type /\ RP[i].name = R.baseRules[i].name /\ RP[i].err = ""
  IN
  /\ IF LineT(R.lines) = rec.lines /\ LineT(R.baseLines) = rec.base /\ found THEN TRUE
     ELSE Emit("UNEXP", rec.id, [what |-> "render/rules", shape |-> WrapShape(lay)])
  \* strict-valid file: relaxed mode yields the same rules
  /\ IF lay.base = "doc"
     THEN IF rec.strict.err = "" /\ rec.strict.panic = "" /\ \A i \in DOMAIN S : S[i].err = ""
          THEN IF S = X THEN TRUE
               ELSE Emit("VIOL", rec.id, [kind |-> "modes", diff |-> Diff(S, X), shape |-> "doc:-", seq |-> FALSE])
          ELSE Emit("UNEXP", rec.id, [what |-> "not strict-valid: " \o rec.strict.err, shape |-> WrapShape(lay)])
     ELSE TRUE
  \* wrapped = displaced(unwrapped)
  /\ IF rec.wrapped.err = "" /\ rec.wrapped.panic = "" /\ W = want /\ sibs /\ mixOK THEN TRUE
     ELSE Emit("VIOL", rec.id, [kind |-> "wrap", diff |-> IF rec.wrapped.err # "" \/ rec.wrapped.panic # "" THEN "error"
                                                        ELSE IF W = want THEN (IF sibs THEN "mixed" ELSE "siblings") ELSE Diff(want, W),
                                shape |-> WrapShape(lay), seq |-> HasSeq(lay)])

TCase ==
  /\ l <= Len(TraceLog) /\ Rec.ev = "Case"
  /\ Judge(Rec, Render(Rec.lay))
  /\ l' = l + 1 /\ UNCHANGED done

TDone ==
  /\ l = Len(TraceLog) + 1 /\ ~done
  /\ done' = TRUE /\ PrintT(<<"DONE", l - 1>>)
  /\ UNCHANGED l

TraceNext == TCase \/ TDone
TraceSpec == TraceInit /\ [][TraceNext]_tvars
=============================================================================
