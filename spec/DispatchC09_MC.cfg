SPECIFICATION Spec
CONSTANTS
  MaxBlocks = 1
  MaxMatch = 1
  MaxIgnore = 0
  MaxMatchConds = 2
  MaxIgnoreConds = 0
  Shared = FALSE
  Reduced = FALSE
  WithAlt = FALSE
INVARIANTS Inv_C09 Inv_Shortcut
CHECK_DEADLOCK FALSE
