--------------------------- MODULE RangeSliceTrace ---------------------------
(***************************************************************************)
(* JUDGE for C13: validates what the real promapi.Prometheus.RangeQuery    *)
(* did against a presence-model server (harness/promfake).                 *)
(*   Query    the case + the slices the client really requested            *)
(*            -> binding: requested slices = QuerySlices (DRIFT otherwise) *)
(*   Respond  a held slice response was released (real arrival order)      *)
(*            -> the Respond(k) action of RangeSlice                       *)
(*   Result   the Series.Ranges the client returned                        *)
(*            -> VERDICT: equal to ONE unsliced evaluation over the        *)
(*               recorded window on the recorded grid (Doc side only)      *)
(*            -> binding: equal to Merge;Sort of the model (DRIFT)         *)
(* The verdict uses only recorded values and the Doc-side operators        *)
(* UnslicedOf / GapIffAbsent; it does not depend on the impl-shaped part.  *)
(***************************************************************************)
EXTENDS RangeSlice

TraceLog == ndJsonDeserialize("c13_trace.ndjson")

VARIABLES l, cid, done,
          bound,       \* the real run still follows the model step by step
          obsSlices,   \* slices recorded (requested at the server) for the current query
          sessStarts   \* starts of all slices requested so far in the current session
tvars == <<vars, l, cid, done, bound, obsSlices, sessStarts>>

Rec == TraceLog[l]
ToSet(sq) == {sq[i] : i \in 1..Len(sq)}

TraceInit ==
  /\ step = 1 /\ start = 0 /\ end = 1 /\ unit = 1 /\ slices = << >> /\ pres = [f \in Series |-> {}]
  /\ cur = <<0, 0, FALSE>> /\ pc = "idle" /\ pending = {} /\ collected = << >> /\ ranges = << >> /\ arrival = << >>
  /\ q = 1 /\ delta = -1 /\ skew = 0 /\ cache = << >> /\ miss = {} /\ hist = << >>
  /\ l = 1 /\ cid = 0 /\ done = FALSE /\ bound = FALSE /\ obsSlices = << >> /\ sessStarts = {}

\* ascending sequence of a finite set of integers
RECURSIVE AscSeq(_)
AscSeq(S) == IF S = {} THEN << >> ELSE LET m == MinOf(S) IN << m >> \o AscSeq(S \ {m})
RECURSIVE ConcatCached(_, _, _, _)
ConcatCached(sl, ks, c, st) ==        \* answers of the cached slices ks (ascending) of sl
  IF ks = << >> THEN << >> ELSE c[CacheKey(sl[Head(ks)], st)] \o ConcatCached(sl, Tail(ks), c, st)

\* a query of a session begins. q = 1: a new session (fresh cache).
\* gated (hook H3 present): every slice result - cache hit or server answer - waits at the client's "got"
\* gate and is let through by a Respond record, so the model collects nothing by itself.
\* not gated (fallback): slices found in the cache are answered by processJob without a request; they reach
\* the collection loop while the requests of the others are still held by the server, so the model collects
\* them first (in slice order).
TQuery ==
  /\ l <= Len(TraceLog) /\ Rec.ev = "Query"
  /\ step' = Rec.step /\ start' = Rec.start /\ end' = Rec.end /\ unit' = Rec.unit /\ q' = Rec.q
  /\ pres' = [f \in Series |-> IF f <= Len(Rec.pres) THEN ToSet(Rec.pres[f]) ELSE {}]
  /\ skew' = Rec.end - Rec.start - Rec.dur
  /\ LET sl == QuerySlices(Rec.start, Rec.end, Rec.step, Rec.dur)
         c0 == IF Rec.q = 1 THEN << >> ELSE cache
         ms == {i \in 1..Len(sl) : CacheKey(sl[i], Rec.step) \notin DOMAIN c0}
         hits == IF Rec.gated THEN << >> ELSE AscSeq((1..Len(sl)) \ ms)
         asked == [i \in 1..Cardinality(ms) |-> sl[AscSeq(ms)[i]]]
     IN
     /\ slices' = sl /\ miss' = ms /\ cache' = c0
     /\ pending' = IF Rec.gated THEN 1..Len(sl) ELSE ms
     /\ collected' = ConcatCached(sl, hits, c0, Rec.step)
     /\ arrival' = hits
     /\ bound' = (Rec.exact /\ Rec.slices = asked /\ (Rec.q = 1 \/ pc = "done"))
     /\ IF bound' THEN TRUE
        ELSE PrintT(<<"DRIFT", Rec.id, ToJson([what |-> "slices", q |-> Rec.q, expected |-> asked, observed |-> Rec.slices])>>)
     /\ pc' = IF pending' = {} THEN "merge" ELSE "wait"
  /\ obsSlices' = Rec.slices
  /\ sessStarts' = (IF Rec.q = 1 THEN {} ELSE sessStarts) \cup {Rec.slices[i].s : i \in 1..Len(Rec.slices)}
  /\ ranges' = << >> /\ cur' = <<0, 0, FALSE>>
  /\ cid' = Rec.id /\ l' = l + 1 /\ UNCHANGED <<done, delta, hist>>

\* Rec.k is the slice of the model (by its start) whose result was let through / whose response was released
TRespond ==
  /\ l <= Len(TraceLog) /\ Rec.ev = "Respond"
  /\ IF bound /\ pc = "wait" /\ Rec.k \in pending
     THEN Respond(Rec.k) /\ UNCHANGED bound
     ELSE /\ UNCHANGED vars /\ bound' = FALSE
          /\ IF bound THEN PrintT(<<"DRIFT", cid, ToJson([what |-> "respond", k |-> Rec.k])>>) ELSE TRUE
  /\ l' = l + 1 /\ UNCHANGED <<cid, done, obsSlices, sessStarts>>

\* The one unsliced evaluation the result is compared with. Its grid is anchored at a slice start the
\* client really requested in this session (a follow-up query may take its first slices from the cache,
\* so the anchor can stem from an earlier query); it covers the whole window of the query, i.e. it begins
\* no later than the first grid point at or after `start`, and it ends at the last point requested (at
\* least `end`). Any such evaluation is accepted - the property does not say how far before `start` the
\* client may look.
RECURSIVE MaxEnd(_, _)
MaxEnd(sl, k) == IF k > Len(sl) THEN end ELSE Max2(sl[k].e, MaxEnd(sl, k + 1))
RefHi == MaxEnd(obsSlices, 1)
Anchors == LET as == {a \in sessStarts : a - step < start /\ a <= RefHi} IN IF as = {} THEN {start} ELSE as
Fits(obs, a) == /\ SameAsUnsliced(obs, pres, a, a, RefHi, step, unit)
                /\ GapIffAbsent(obs, pres, a, a, RefHi, step, unit)

TResult ==
  /\ l <= Len(TraceLog) /\ Rec.ev = "Result"
  /\ LET obs == Rec.ranges
         wellformed == Rec.err = "" /\ \A i \in 1..Len(obs) : obs[i].fp \in Series
         ok == wellformed /\ \E a \in Anchors : Fits(obs, a)
     IN
     /\ IF ok THEN TRUE
        ELSE PrintT(<<"VIOL", cid, ToJson([step |-> step, start |-> start, end |-> end, unit |-> unit, q |-> q,
                                           pres |-> pres, order |-> arrival, slices |-> obsSlices,
                                           got |-> obs, err |-> Rec.err,
                                           want |-> [f \in Series |-> UnslicedOf(pres, f, MinOf(Anchors), MinOf(Anchors), RefHi, step, unit)]])>>)
     /\ IF bound /\ pc = "merge" /\ Rec.err = ""
        THEN IF Finish(collected, step) = obs THEN TRUE
             ELSE PrintT(<<"DRIFT", cid, ToJson([what |-> "ranges", expected |-> Finish(collected, step), observed |-> obs])>>)
        ELSE IF bound THEN PrintT(<<"DRIFT", cid, ToJson([what |-> "incomplete", pending |-> pending])>>) ELSE TRUE
     /\ ranges' = obs
  /\ pc' = IF bound /\ pc = "merge" THEN "done" ELSE "idle"
  /\ bound' = FALSE
  /\ l' = l + 1
  /\ UNCHANGED <<step, start, end, unit, slices, pres, cur, pending, collected, arrival, q, delta, skew, cache, miss, hist,
                 cid, done, obsSlices, sessStarts>>

\* Environment assumptions E3 / E4 of RangeSlice, checked against the real thing in every run:
\* Go's Time.Round / Duration.Round on the offsets the cases use, and the evaluation timestamps of the real
\* PromQL engine for a range query whose start is not a multiple of the step.
TProbe ==
  /\ l <= Len(TraceLog) /\ Rec.ev = "EnvProbe"
  /\ LET okRound == \A i \in 1..Len(Rec.rounds) : RoundTo(Rec.rounds[i].t, Rec.rounds[i].d) = Rec.rounds[i].r
         okDur == \A i \in 1..Len(Rec.durs) : RoundTo(7200, Rec.durs[i].st) = Rec.durs[i].r
         okGrid == \A i \in 1..Len(Rec.grids) :
                     EvalTimes([s |-> Rec.grids[i].s, e |-> Rec.grids[i].e], Rec.grids[i].st) = ToSet(Rec.grids[i].ts)
     IN IF okRound /\ okDur /\ okGrid THEN TRUE
        ELSE PrintT(<<"TRUTH", 0, ToJson([round |-> okRound, dur |-> okDur, grid |-> okGrid])>>)
  /\ l' = l + 1 /\ UNCHANGED <<vars, cid, done, bound, obsSlices, sessStarts>>

TDone ==
  /\ l = Len(TraceLog) + 1 /\ ~done
  /\ done' = TRUE /\ PrintT(<<"DONE", l - 1>>)
  /\ UNCHANGED <<vars, l, cid, bound, obsSlices, sessStarts>>

TraceNext == TProbe \/ TQuery \/ TRespond \/ TResult \/ TDone
TraceSpec == TraceInit /\ [][TraceNext]_tvars
=============================================================================
