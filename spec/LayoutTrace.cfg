SPECIFICATION TraceSpec
CONSTANTS
  TraceFile = "c06_trace.ndjson"
CHECK_DEADLOCK FALSE
