SPECIFICATION TraceSpec
CONSTANTS
  Shapes = {}
  Ws = {1}
  MaxJobs = 0
  MaxPerJob = 0
  MaxReports = 0
CHECK_DEADLOCK FALSE
