---------------------------- MODULE PromClientGen ----------------------------
(* GEN for C14 trace validation: the workload space (callers x workers x question mix x fault plan x *)
(* latency class x concurrent cache gc x cache clock advance). One CASE line per workload; the driver draws a seeded       *)
(* sample from it and attaches a perturbation seed. Schedules themselves are not generated here:     *)
(* they are produced by the real scheduler under perturbation and validated by PromClientTrace.      *)
EXTENDS Naturals, TLC, Json

VARIABLES w

Ks     == {2, 3, 4, 8, 16, 32, 64}
Cs     == {1, 2, 4, 16}
Mixes  == {"same", "two", "distinct", "endpoints", "range1", "rangeTwin", "rangeDisjoint", "rangeShort", "rangeShortSame", "rangeMulti", "mixed"}
Faults == {"none", "first", "flaky"}
Lats   == {"none", "short", "long"}
Clocks == {"none", "short", "mid", "long"}   \* second round of callers after the cache clock advanced 30 s / 400 s / 2 h and gc ran

Init == w \in [k : Ks, c : Cs, mix : Mixes, fault : Faults, lat : Lats, gc : BOOLEAN, clock : Clocks]
Next == UNCHANGED w
Spec == Init /\ [][Next]_w
EmitCase == PrintT(<<"CASE", ToJson(w)>>)
=============================================================================
