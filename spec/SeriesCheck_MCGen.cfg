SPECIFICATION Spec
INVARIANTS Inv_P1 Inv_P2 EmitCase
CHECK_DEADLOCK FALSE
