SPECIFICATION Spec
CONSTANTS
  Stratum = "all"
INVARIANTS Inv_P1 Inv_P2 EmitCase
CHECK_DEADLOCK FALSE
