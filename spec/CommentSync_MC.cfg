SPECIFICATION Spec
CONSTANTS
  MaxRuns = 2
  MaxSeeds = 1
  Budgets = {0, 1, 2}
  Platforms = {"gitlab", "github"}
  Strips = {FALSE}
  Shifts = {0}
  Mods = {"all", "first"}
  Probs = {"P1", "P2", "P4"}
  Pads = {0}
  Padfs = {0}
  Showdups = {FALSE}
  FaultOps = {}
  FaultKs = {}
VIEW view
INVARIANTS Inv_ErrReported Inv_Covered Inv_KeepsCovered Inv_NoTwin Inv_StaleGone Inv_Foreign Inv_Idempotent Inv_Converges Inv_Accounting Inv_FoldAgrees
CHECK_DEADLOCK FALSE
