SPECIFICATION TraceSpec
CONSTANTS
  MaxReports = 3
  GenOnly = TRUE
  MaxSteps = 3
CHECK_DEADLOCK FALSE
