------------------------------ MODULE LabelFlow ------------------------------
(***************************************************************************)
(* PromQL label flow: pint's abstract interpretation against PromQL's own  *)
(* label semantics (properties C04 and C12).                               *)
(*                                                                         *)
(* Impl side : Abs(e) transcribes internal/parser/utils/source.go          *)
(*             (walkNode, walkAggregation, parseAggregation, parseCall,    *)
(*             parsePromQLFunc, parseBinOps, checkConditions, canJoin,     *)
(*             calculateStaticReturn, CanHaveLabel) - one operator per Go  *)
(*             function, same names, same order of updates.                *)
(* Doc side  : Conc(e, db) is PromQL's evaluation of e over a database:    *)
(*             written from the Prometheus documentation of selectors,     *)
(*             vector matching, aggregation and functions (and validated   *)
(*             against the real engine by trace validation - it is never   *)
(*             trusted for a verdict).                                     *)
(* Properties: Inv_C04 - every series of Conc(e,db) is consistent with a   *)
(*             live branch of Abs(e);  Inv_C12 - a part flagged dead       *)
(*             contributes nothing on databases whose series carry every   *)
(*             label the query names.                                      *)
(* Generator : expressions are grown on a small operand stack: leaves are  *)
(*             pushed, unary constructors rewrite the top, binary ones pop *)
(*             two operands (GEN and MC share it).                         *)
(***************************************************************************)
EXTENDS Integers, Sequences, FiniteSets, TLC, Json

CONSTANTS
  MaxDepth,      \* nesting depth bound of generated expressions (leaves have depth 0)
  MaxStack,      \* operand stack bound (2: at most one pending operand)
  MaxBinNest,    \* bound on the nesting of binary nodes (1: operands of a binary node contain no binary node)
  MatcherKinds,  \* matcher kinds allowed on label a
  MatcherKindsB, \* matcher kinds allowed on label b
  Leaves,        \* subset of {"sel","seloff","num","time","vec"}
  UnFns,         \* subset of {"abs","neg","scalar","vecs","absent","rate","lot","lotsub","absentot","lrepc","lrepa","lrepcx","lrepdel","lrepdelx","ljoin","ljoine",
                 \*            "sort","clampmax","round","timestamp","maxot","countot","presentot","hq"}
  AggOps,        \* subset of {"sum","count","topk","cv","group","max","min"}
  AggLabelSets,  \* label sets usable in by()/without()
  ArithOps, CmpOps, SetOps,  \* binary operators
  MatchSets,     \* label sets usable in on()/ignoring()
  GroupIncs,     \* label sets usable in group_left()/group_right(); {} switches grouping off
  IgnEmpty,      \* BOOLEAN: also generate `ignoring()` with an empty list
  DupLabels,     \* BOOLEAN: also generate by()/without() lists that repeat a label
  Fixes,         \* which repairs proposed under /verif/fixes the analysed tree contains: subset of {"F6", "OnForced", "EmptyEq", "StaticVal", "LrepEmpty"}
  DBSeries,      \* bound on the number of series per metric in a database
  DBA, DBB, DBC, \* label values (besides absent) stored series may carry for a, b, c
  DBVals         \* sample values of stored series

NaN   == -2000000000       \* stands for the float NaN
TimeV == 3600              \* time() at the evaluation timestamp
SamplesInRange == 20       \* samples of one series inside a [5m] range (one every 15s)
StoredLabels == {"a", "b", "c"}
Labels == StoredLabels \cup {"n"}       \* "n" is __name__
Absent == "-"

IsArith(op) == op \in {"+", "-", "*"}
IsCmp(op)   == op \in {"==", "!=", ">", "<", ">=", "<="}
IsSet(op)   == op \in {"and", "or", "unless"}

-----------------------------------------------------------------------------
(*                         Expressions (abstract syntax)                    *)

Sel(m, ma, mb, off) == [k |-> "sel", m |-> m, ma |-> ma, mb |-> mb, off |-> off]
Num(v)              == [k |-> "num", v |-> v]
TimeE               == [k |-> "time"]
VecE(e)             == [k |-> "vec", e |-> e]
Fn(f, e)            == [k |-> "fn", f |-> f, e |-> e, dst |-> "", src |-> "", re |-> "", repl |-> ""]
LRep(e, dst, repl, src, re) == [k |-> "fn", f |-> "lrep", e |-> e, dst |-> dst, src |-> src, re |-> re, repl |-> repl]
LJoin(e, dst, sep)  == [k |-> "fn", f |-> "ljoin", e |-> e, dst |-> dst, src |-> "", re |-> "", repl |-> sep]   \* repl holds the separator
\* dup: the first label of the list is written twice, `by(a, a, b)`; grouping is by label *sets* on both sides
Agg(op, mod, ls, dup, e) == [k |-> "agg", op |-> op, mod |-> mod, ls |-> ls, dup |-> dup, e |-> e]
Bin(op, bool, vm, ls, grp, inc, l, r) ==
  [k |-> "bin", op |-> op, bool |-> bool, vm |-> vm, ls |-> ls, grp |-> grp, inc |-> inc, l |-> l, r |-> r]

RECURSIVE Ty(_)
Ty(e) == CASE e.k \in {"num", "time"} -> "s"
           [] e.k = "fn" /\ e.f = "scalar" -> "s"
           [] e.k = "bin" -> IF Ty(e.l) = "s" /\ Ty(e.r) = "s" THEN "s" ELSE "v"
           [] OTHER -> "v"

RECURSIVE HasTime(_)
HasTime(e) == CASE e.k = "time" -> TRUE
                [] e.k \in {"sel", "num"} -> FALSE
                [] e.k = "bin" -> HasTime(e.l) \/ HasTime(e.r)
                [] OTHER -> HasTime(e.e)

RECURSIVE HasOr(_)
HasOr(e) == CASE e.k \in {"sel", "num", "time"} -> FALSE
              [] e.k = "bin" -> e.op = "or" \/ HasOr(e.l) \/ HasOr(e.r)
              [] OTHER -> HasOr(e.e)

\* label names the text of the query mentions
RECURSIVE Named(_)
Named(e) ==
  CASE e.k = "sel" -> (IF e.ma = "none" THEN {} ELSE {"a"}) \cup (IF e.mb = "none" THEN {} ELSE {"b"})
    [] e.k \in {"num", "time"} -> {}
    [] e.k = "vec" -> Named(e.e)
    [] e.k = "fn"  -> Named(e.e) \cup (CASE e.f = "lrep" -> {e.dst, e.src} [] e.f = "ljoin" -> {e.dst, "a", "b"} [] OTHER -> {})
    [] e.k = "agg" -> Named(e.e) \cup e.ls \cup (IF e.op = "cv" THEN {"c"} ELSE {})
    [] e.k = "bin" -> Named(e.l) \cup Named(e.r) \cup e.ls \cup e.inc

-----------------------------------------------------------------------------
(*        Impl side: internal/parser/utils/source.go, function by function  *)

Source0 == [ret |-> "none", inc |-> {}, exc |-> {}, gua |-> {}, fixed |-> FALSE, dead |-> FALSE,
            always |-> FALSE, known |-> FALSE, val |-> 0, cond |-> FALSE,
            sgua |-> {}, seq |-> {},          \* of Source.Selector: labels with =/=~ matchers, labels with = matchers
            joins |-> <<>>, unl |-> <<>>,
            dkind |-> "", dpath |-> "none"]   \* which rule set `dead`, and at which binary node (model bookkeeping)

\* func (s Source) CanHaveLabel(name string) bool
CanHaveLabel(s, name) ==
  IF name \in s.exc THEN FALSE
  ELSE IF name \in s.inc THEN TRUE
  ELSE IF name \in s.gua THEN TRUE
  ELSE ~s.fixed

includeLabel(s, names)     == [s EXCEPT !.exc = @ \ names, !.inc = @ \cup names]
\* appends *all* names as soon as one of them is not excluded (as written in Go)
maybeIncludeLabel(s, names) == IF \E nm \in names : nm \notin s.exc THEN [s EXCEPT !.inc = @ \cup names] ELSE s
restrictIncludedLabels(s, names)   == [s EXCEPT !.inc = @ \cap names]
guaranteeLabel(s, names)   == [s EXCEPT !.exc = @ \ names, !.gua = @ \cup names]
restrictGuaranteedLabels(s, names) == [s EXCEPT !.gua = @ \cap names]
excludeLabel(s, names)     == [s EXCEPT !.exc = @ \cup names, !.inc = @ \ names, !.gua = @ \ names]

\* matcher kinds: which are `=`, which are `=` or `=~`
\* (fix EmptyEq: labelsFromSelectors skips `label=""`, which matches series *without* the label)
EqKinds == IF "EmptyEq" \in Fixes THEN {"eq", "eqy"} ELSE {"eq", "eqy", "empty"}
GuaKinds == EqKinds \cup {"re", "reany", "reopt"}
SelLabels(e, kinds) == (IF e.ma \in kinds THEN {"a"} ELSE {}) \cup (IF e.mb \in kinds THEN {"b"} ELSE {})

\* func checkConditions(s, op, isBool) (isConditional, _)
checkConditions(s, op) == IF s.cond THEN TRUE ELSE IsCmp(op)

\* func canJoin(ls, rs Source, vm *VectorMatching) bool
\* (fix F6: labels listed in ignoring(...) take no part in matching and are skipped)
canJoin(ls, rs, on, ml) ==
  IF on /\ ml = {} THEN TRUE
  ELSE IF on THEN \A nm \in ml : ~(CanHaveLabel(ls, nm) /\ ~CanHaveLabel(rs, nm))
  ELSE \A nm \in (IF "F6" \in Fixes THEN ls.gua \ ml ELSE ls.gua) : ~(CanHaveLabel(ls, nm) /\ ~CanHaveLabel(rs, nm))
\* (fix OnForced) func joinSide(orig, s, vm): with on(...) the listed labels are force-included on the result, so the
\* source as it was before that is the one canJoin must look at
joinSide(orig, s, on) == IF "OnForced" \in Fixes /\ on THEN orig ELSE s

ArithV(op, x, y) == IF x = NaN \/ y = NaN THEN NaN
                    ELSE CASE op = "+" -> x + y [] op = "-" -> x - y [] op = "*" -> x * y
CmpV(op, x, y) == IF x = NaN \/ y = NaN THEN op = "!="
                  ELSE CASE op = "==" -> x = y [] op = "!=" -> x # y [] op = ">" -> x > y
                         [] op = "<" -> x < y [] op = ">=" -> x >= y [] op = "<=" -> x <= y

\* func calculateStaticReturn(expr, ls, rs, op, isDead) (float64, bool, ...): result [val, dead, fresh]
calculateStaticReturn(ls, rs, op, isDead) ==
  IF IsCmp(op) THEN
    IF ~CmpV(op, ls.val, rs.val) THEN [val |-> ls.val, dead |-> TRUE, fresh |-> TRUE]
    ELSE [val |-> ls.val, dead |-> isDead, fresh |-> FALSE]
  ELSE IF IsArith(op) THEN [val |-> ArithV(op, ls.val, rs.val), dead |-> isDead, fresh |-> FALSE]
  ELSE [val |-> ls.val, dead |-> isDead, fresh |-> FALSE]

\* (fix StaticVal: constructs that change the sample value drop KnownReturn, unary minus negates the number, absent()
\*  forgets AlwaysReturns / KnownReturn / IsDead of its argument, a filtering comparison keeps the vector side's number)
SV == "StaticVal" \in Fixes
forgetValue(s) == IF SV THEN [s EXCEPT !.known = FALSE] ELSE s
applyStatic(s, ls, rs, op, path) ==
  IF ls.always /\ rs.always /\ ls.known /\ rs.known
  THEN LET c == calculateStaticReturn(ls, rs, op, ls.dead) IN
       [s EXCEPT !.val = c.val, !.dead = c.dead,
                 !.dkind = IF c.fresh THEN "static" ELSE @, !.dpath = IF c.fresh THEN path ELSE @]
  ELSE s

markDead(s, kind, path) == [s EXCEPT !.dead = TRUE, !.dkind = kind, !.dpath = path]

SeqMap(q, F(_)) == [i \in 1..Len(q) |-> F(q[i])]
\* for _, x := range xs { for _, y := range ys { out = append(out, F(x, y)) } }
SeqCross(xs, ys, F(_, _)) ==
  [k \in 1..(Len(xs) * Len(ys)) |-> F(xs[((k - 1) \div Len(ys)) + 1], ys[((k - 1) % Len(ys)) + 1])]

RECURSIVE walkNode(_, _)

\* func parseAggregation(expr, n) []Source
parseAggregation(e, path) ==
  SeqMap(walkNode(e.e, path \o "e"), LAMBDA s0 :
    LET s1 == IF e.mod = "without" THEN excludeLabel(s0, e.ls)
              ELSE IF e.ls = {} THEN [s0 EXCEPT !.inc = {}, !.gua = {}, !.fixed = TRUE]
              ELSE LET a == IF ~s0.fixed THEN maybeIncludeLabel(s0, e.ls) ELSE s0
                       b == restrictGuaranteedLabels(a, e.ls)
                       c == restrictIncludedLabels(b, e.ls)
                   IN [c EXCEPT !.fixed = TRUE]
    IN [s1 EXCEPT !.ret = "vector"])

\* func walkAggregation(expr, n) []Source
walkAggregation(e, path) ==
  CASE e.op \in {"sum", "group", "max", "min"} -> SeqMap(parseAggregation(e, path), LAMBDA s : excludeLabel(s, {"n"}))
    [] e.op = "count" -> SeqMap(parseAggregation(e, path), LAMBDA s : excludeLabel(forgetValue(s), {"n"}))
    [] e.op = "cv"    -> SeqMap(parseAggregation(e, path), LAMBDA s :
                          excludeLabel(guaranteeLabel(includeLabel(forgetValue(s), {"c"}), {"c"}), {"n"}))
    [] e.op = "topk" -> walkNode(e.e, path \o "e")

\* func parsePromQLFunc(s, expr, n) Source   (the families the fragment uses)
parsePromQLFunc(s, e) ==
  CASE e.f \in {"abs", "rate", "clampmax", "round", "timestamp"} -> guaranteeLabel(forgetValue([s EXCEPT !.ret = "vector"]), s.sgua)
    [] e.f \in {"lot", "lotsub", "maxot", "countot", "presentot", "hq"} -> guaranteeLabel([s EXCEPT !.ret = "vector"], s.sgua)
    [] e.f = "sort" -> [s EXCEPT !.ret = "vector"]         \* "sort", "sort_desc": no change to labels, nothing guaranteed
    [] e.f \in {"absent", "absentot"} ->
         LET a0 == [s EXCEPT !.ret = "vector", !.fixed = TRUE, !.inc = {}, !.gua = {}]
             a == IF SV THEN [a0 EXCEPT !.always = FALSE, !.known = FALSE, !.dead = FALSE, !.dkind = "", !.dpath = "none"] ELSE a0
         IN guaranteeLabel(includeLabel(a, s.seq), s.seq)
    \* (fix LrepEmpty: label_replace with an empty replacement removes the label, nothing is guaranteed)
    [] e.f = "lrep" /\ e.repl = "" /\ "LrepEmpty" \in Fixes -> [s EXCEPT !.ret = "vector"]
    [] e.f \in {"lrep", "ljoin"} -> guaranteeLabel([s EXCEPT !.ret = "vector"], {e.dst})
    [] e.f = "scalar" ->
         LET a == [s EXCEPT !.ret = "scalar", !.inc = {}, !.gua = {}, !.fixed = TRUE, !.always = TRUE]
         IN IF SV /\ s.dead THEN [a EXCEPT !.dead = FALSE, !.known = FALSE, !.dkind = "", !.dpath = "none"] ELSE a

\* func parseCall(expr, n) []Source : vector / matrix arguments are walked, scalar and string ones are not
parseCall(e, path) == SeqMap(walkNode(e.e, path \o "e"), LAMBDA es : parsePromQLFunc(es, e))

\* vector(<scalar>) and time(): no vector argument -> one fresh source
parseCallNoVectorArg(e, path) ==
  IF e.k = "time"
  THEN <<[Source0 EXCEPT !.ret = "scalar", !.fixed = TRUE, !.always = TRUE]>>
  ELSE LET vs == walkNode(e.e, path \o "e")
           base == [Source0 EXCEPT !.ret = "vector", !.fixed = TRUE, !.always = TRUE]
           RECURSIVE fold(_, _)
           fold(s, i) == IF i > Len(vs) THEN s
                         ELSE fold(IF vs[i].known THEN [s EXCEPT !.val = vs[i].val, !.known = TRUE] ELSE s, i + 1)
       IN <<fold(base, 1)>>

\* func parseBinOps(expr, n) []Source
parseBinOps(e, path) ==
  LET lhs == walkNode(e.l, path \o "l")
      rhs == walkNode(e.r, path \o "r")
      on  == e.vm = "on"
      vv  == Ty(e.l) = "v" /\ Ty(e.r) = "v"
      joinAll(orig, s, others) ==   \* for _, rs := range rhs { if !canJoin {rs.IsDead = true}; s.Joins = append(s.Joins, rs) }
        [s EXCEPT !.joins = @ \o SeqMap(others, LAMBDA o :
            IF canJoin(joinSide(orig, s, on), o, on, e.ls) THEN o ELSE markDead(o, "join", path))]
  IN
  CASE ~vv ->    \* n.VectorMatching == nil
         SeqCross(lhs, rhs, LAMBDA ls0, rs0 :
           LET ls == [ls0 EXCEPT !.cond = checkConditions(ls0, e.op)]
               rs == [rs0 EXCEPT !.cond = checkConditions(rs0, e.op)]
               side == IF ls.ret \in {"vector", "matrix"} THEN ls
                       ELSE IF rs.ret \in {"vector", "matrix"} THEN rs ELSE ls
               r == applyStatic(side, ls, rs, e.op, path)
           IN IF SV /\ IsCmp(e.op) /\ ~e.bool THEN [r EXCEPT !.val = side.val] ELSE r)
    [] vv /\ ~IsSet(e.op) /\ e.grp = "none" ->    \* CardOneToOne
         SeqMap(lhs, LAMBDA s0 :
           LET s1 == IF on
                     THEN restrictGuaranteedLabels(restrictIncludedLabels(
                            includeLabel([s0 EXCEPT !.fixed = TRUE], e.ls), e.ls), e.ls)
                     ELSE LET RECURSIVE fold(_, _)
                              fold(s, i) == IF i > Len(rhs) THEN s
                                            ELSE fold(applyStatic(s, s, [rhs[i] EXCEPT !.cond = checkConditions(rhs[i], e.op)], e.op, path), i + 1)
                          IN fold(excludeLabel(s0, e.ls), 1)
               s2 == joinAll(s0, s1, rhs)
           IN [s2 EXCEPT !.cond = checkConditions(s2, e.op)])
    [] vv /\ ~IsSet(e.op) /\ e.grp = "right" ->   \* CardOneToMany: labels come from the right hand side
         SeqMap(rhs, LAMBDA s0 :
           LET s1 == includeLabel(s0, e.inc)
               s2 == IF on THEN includeLabel(s1, e.ls) ELSE s1
               s3 == joinAll(s0, s2, lhs)
           IN [s3 EXCEPT !.cond = checkConditions(s3, e.op)])
    [] vv /\ ~IsSet(e.op) /\ e.grp = "left" ->    \* CardManyToOne
         SeqMap(lhs, LAMBDA s0 :
           LET s1 == includeLabel(s0, e.inc)
               s2 == IF on THEN includeLabel(s1, e.ls) ELSE s1
               s3 == joinAll(s0, s2, rhs)
           IN [s3 EXCEPT !.cond = checkConditions(s3, e.op)])
    [] vv /\ IsSet(e.op) ->                        \* CardManyToMany
         LET doLhs(s0) ==
               LET s1 == IF on THEN includeLabel(s0, e.ls) ELSE s0
                   rhsConditional == \E i \in 1..Len(rhs) : rhs[i].cond
                   flagged == SeqMap(rhs, LAMBDA o : IF canJoin(joinSide(s0, s1, on), o, on, e.ls) THEN o ELSE markDead(o, "join", path))
                   s2 == CASE e.op = "unless" ->
                                LET killed == on /\ e.ls = {} /\ \E i \in 1..Len(rhs) : rhs[i].always /\ ~rhs[i].cond
                                    a == IF killed THEN markDead(s1, "unless", path) ELSE s1
                                IN [a EXCEPT !.unl = @ \o flagged]
                           [] e.op = "and" -> [s1 EXCEPT !.joins = @ \o flagged]
                           [] e.op = "or"  -> s1
               IN IF e.op = "and" /\ rhsConditional THEN [s2 EXCEPT !.cond = TRUE] ELSE s2
             lhsCanBeEmpty == \E i \in 1..Len(lhs) : ~lhs[i].always \/ lhs[i].cond
             left == SeqMap(lhs, doLhs)
         IN IF e.op = "or"
            THEN left \o SeqMap(rhs, LAMBDA s : IF ~lhsCanBeEmpty THEN markDead(s, "or", path) ELSE s)
            ELSE left

\* func walkNode(expr, node) []Source
walkNode(e, path) ==
  CASE e.k = "sel" ->
         LET s == [Source0 EXCEPT !.ret = "vector", !.sgua = SelLabels(e, GuaKinds), !.seq = SelLabels(e, EqKinds)]
         IN <<excludeLabel(guaranteeLabel(s, s.sgua), SelLabels(e, {"empty"}))>>
    [] e.k = "num" -> <<[Source0 EXCEPT !.ret = "scalar", !.known = TRUE, !.val = e.v, !.fixed = TRUE, !.always = TRUE]>>
    [] e.k \in {"time", "vec"} -> parseCallNoVectorArg(e, path)
    [] e.k = "fn" /\ e.f = "neg" ->                               \* UnaryExpr
         SeqMap(walkNode(e.e, path \o "e"), LAMBDA s : IF SV /\ s.val # NaN THEN [s EXCEPT !.val = 0 - @] ELSE s)
    [] e.k = "fn"  -> parseCall(e, path)
    [] e.k = "agg" -> walkAggregation(e, path)
    [] e.k = "bin" -> parseBinOps(e, path)

Abs(e) == walkNode(e, "")

\* what trace validation compares with the real []Source
RECURSIVE ProjSource(_)
ProjSource(s) == [inc |-> s.inc, exc |-> s.exc, gua |-> s.gua, fixed |-> s.fixed, dead |-> s.dead,
                  always |-> s.always, known |-> s.known, val |-> s.val, ret |-> s.ret, cond |-> s.cond,
                  joins |-> SeqMap(s.joins, ProjSource), unl |-> SeqMap(s.unl, ProjSource)]
AbsProj(e) == SeqMap(Abs(e), ProjSource)

\* Source.WalkSources
RECURSIVE WalkSources(_)
WalkSources(s) == {s} \cup UNION {WalkSources(s.joins[i]) : i \in 1..Len(s.joins)}
                      \cup UNION {WalkSources(s.unl[i]) : i \in 1..Len(s.unl)}
\* dead-code problems promql/impossible raises because of the binary node at `path`
FlagsAt(e, path) ==
  LET br == Abs(e) IN
  {s.dkind : s \in {x \in UNION {WalkSources(br[i]) : i \in 1..Len(br)} : x.dead /\ x.dpath = path}}

-----------------------------------------------------------------------------
(*     Doc side: PromQL's own semantics over a database (set of series)     *)
\* a series: labels n (= __name__), a, b, c (Absent when missing) and a sample value v

VecR(S) == [t |-> "v", s |-> S]
ScaR(x) == [t |-> "s", x |-> x]
ErrR    == [t |-> "err"]
Lbl(s)  == <<s.n, s.a, s.b, s.c>>
NoLabels(v) == [n |-> Absent, a |-> Absent, b |-> Absent, c |-> Absent, v |-> v]
\* "vector cannot contain metrics with the same labelset"
Uniq(T, cnt) == IF Cardinality({Lbl(t) : t \in T}) # cnt THEN ErrR ELSE VecR(T)
MapSeries(S, F(_)) == Uniq({F(s) : s \in S}, Cardinality(S))
DropName(s) == [s EXCEPT !.n = Absent]
StrOrEmpty(x) == IF x = Absent THEN "" ELSE x
FmtV(v) == IF v = NaN THEN "NaN" ELSE ToString(v)

MatchOK(kind, val) ==
  CASE kind = "none" -> TRUE       [] kind = "eq" -> val = "x"      [] kind = "eqy" -> val = "y"
    [] kind = "neq" -> val # "x"   [] kind = "re" -> val = "x"      [] kind = "nre" -> val # "x"
    [] kind = "empty" -> val = Absent [] kind = "nonempty" -> val # Absent [] kind = "reany" -> TRUE
    [] kind = "reopt" -> val = "x" \/ val = Absent       \* =~"x|"

RECURSIVE SumV(_)
SumV(S) == IF S = {} THEN 0 ELSE LET s == CHOOSE x \in S : TRUE IN ArithV("+", s.v, SumV(S \ {s}))

\* labels of the series absent() returns: the `=` matchers of a plain selector argument
AbsentLabels(arg) ==
  IF arg.k = "sel"
  THEN [NoLabels(1) EXCEPT !.a = CASE arg.ma = "eq" -> "x" [] arg.ma = "eqy" -> "y" [] OTHER -> Absent,
                           !.b = CASE arg.mb = "eq" -> "x" [] arg.mb = "eqy" -> "y" [] OTHER -> Absent]
  ELSE NoLabels(1)

Sig(s, on, ls) == IF on THEN [l \in ls |-> s[l]] ELSE [l \in StoredLabels \ ls |-> s[l]]

Aggregate(e, S) ==
  LET keep == IF e.mod = "without" THEN StoredLabels \ e.ls ELSE e.ls
      Key(s) == [l \in keep |-> s[l]]
      Mk(key, v) == [l \in Labels \cup {"v"} |-> IF l = "v" THEN v ELSE IF l \in keep THEN key[l] ELSE Absent]
      keys == {Key(s) : s \in S}
  IN CASE e.op = "sum"   -> VecR({Mk(key, SumV({s \in S : Key(s) = key})) : key \in keys})
       [] e.op = "count" -> VecR({Mk(key, Cardinality({s \in S : Key(s) = key})) : key \in keys})
       [] e.op = "group" -> VecR({Mk(key, 1) : key \in keys})
       [] e.op \in {"max", "min"} ->     \* NaN only if every sample of the group is NaN
            LET pick(G) == LET nums == {s.v : s \in G} \ {NaN}
                           IN IF nums = {} THEN NaN
                              ELSE CHOOSE x \in nums : \A y \in nums : IF e.op = "max" THEN x >= y ELSE x <= y
            IN VecR({Mk(key, pick({s \in S : Key(s) = key})) : key \in keys})
       [] e.op = "topk"  -> VecR(S)          \* topk(9, ...): more than any group holds
       [] e.op = "cv"    ->   \* the value label is set first, then the ordinary grouping applies (by() keeps it)
            LET keep2 == IF e.mod = "without" THEN StoredLabels \ e.ls ELSE e.ls \cup {"c"}
                Key2(s) == [l \in keep2 |-> IF l = "c" THEN FmtV(s.v) ELSE s[l]]
                Mk2(key, v) == [l \in Labels \cup {"v"} |-> IF l = "v" THEN v ELSE IF l \in keep2 THEN key[l] ELSE Absent]
            IN VecR({Mk2(key, Cardinality({s \in S : Key2(s) = key})) : key \in {Key2(s) : s \in S}})

\* arithmetic / comparison between two instant vectors (VectorBinop + resultMetric)
VectorBinop(e, L, R) ==
  LET on    == e.vm = "on"
      many  == IF e.grp = "right" THEN R ELSE L
      one   == IF e.grp = "right" THEN L ELSE R
      drop  == ~IsCmp(e.op) \/ e.bool
      pairs == {p \in many \X one : Sig(p[1], on, e.ls) = Sig(p[2], on, e.ls)}
      fl(p) == IF e.grp = "right" THEN p[2].v ELSE p[1].v
      fr(p) == IF e.grp = "right" THEN p[1].v ELSE p[2].v
      kept  == {p \in pairs : IsCmp(e.op) /\ ~e.bool => CmpV(e.op, fl(p), fr(p))}
      val(p) == IF IsCmp(e.op)
                THEN (IF e.bool THEN (IF CmpV(e.op, fl(p), fr(p)) THEN 1 ELSE 0) ELSE fl(p))
                ELSE ArithV(e.op, fl(p), fr(p))
      metric(p) ==
        [l \in Labels |->
           IF l \in e.inc THEN p[2][l]
           ELSE IF l = "n" THEN (IF drop \/ (e.grp = "none" /\ on) THEN Absent ELSE p[1].n)
           ELSE IF e.grp = "none" /\ on /\ l \notin e.ls THEN Absent
           ELSE IF e.grp = "none" /\ ~on /\ l \in e.ls THEN Absent
           ELSE p[1][l]]
      out(p) == LET m == metric(p) IN [n |-> m["n"], a |-> m["a"], b |-> m["b"], c |-> m["c"], v |-> val(p)]
  IN IF many = {} \/ one = {} THEN VecR({})
     ELSE IF \E s, t \in one : s # t /\ Sig(s, on, e.ls) = Sig(t, on, e.ls) THEN ErrR     \* many-to-many
     ELSE IF e.grp = "none" /\ \E p, q \in kept : p # q /\ Sig(p[1], on, e.ls) = Sig(q[1], on, e.ls) THEN ErrR
     ELSE Uniq({out(p) : p \in kept}, Cardinality(kept))

VectorScalarBinop(e, S, x, swap) ==
  LET lf(s) == IF swap THEN x ELSE s.v
      rf(s) == IF swap THEN s.v ELSE x
  IN IF IsCmp(e.op)
     THEN IF e.bool
          THEN MapSeries(S, LAMBDA s : [DropName(s) EXCEPT !.v = IF CmpV(e.op, lf(s), rf(s)) THEN 1 ELSE 0])
          ELSE VecR({s \in S : CmpV(e.op, lf(s), rf(s))})
     ELSE MapSeries(S, LAMBDA s : [DropName(s) EXCEPT !.v = ArithV(e.op, lf(s), rf(s))])

SetOp(e, L, R) ==
  LET on == e.vm = "on"
      sigs(X) == {Sig(s, on, e.ls) : s \in X}
  IN CASE e.op = "and"    -> VecR({s \in L : Sig(s, on, e.ls) \in sigs(R)})
       [] e.op = "unless" -> VecR({s \in L : Sig(s, on, e.ls) \notin sigs(R)})
       [] e.op = "or"     -> LET T == L \cup {s \in R : Sig(s, on, e.ls) \notin sigs(L)}
                             IN Uniq(T, Cardinality(T))

LabelReplace(e, S) ==
  MapSeries(S, LAMBDA s :
    LET src == StrOrEmpty(s[e.src])
        hit == IF e.re = ".*" THEN TRUE ELSE src = e.re
    IN IF hit THEN [s EXCEPT ![e.dst] = IF e.repl = "" THEN Absent ELSE e.repl] ELSE s)

RECURSIVE Conc(_, _)
Conc(e, db) ==
  CASE e.k = "sel"  -> VecR({s \in db : s.n = e.m /\ MatchOK(e.ma, s.a) /\ MatchOK(e.mb, s.b)})
    [] e.k = "num"  -> ScaR(e.v)
    [] e.k = "time" -> ScaR(TimeV)
    [] e.k = "vec"  -> LET x == Conc(e.e, db) IN IF x.t = "err" THEN x ELSE VecR({NoLabels(x.x)})
    [] e.k = "agg"  -> LET x == Conc(e.e, db) IN IF x.t = "err" THEN x ELSE Aggregate(e, x.s)
    [] e.k = "fn"   ->
         LET x == Conc(e.e, db) IN
         IF x.t = "err" THEN x
         ELSE (CASE e.f = "abs"    -> MapSeries(x.s, LAMBDA s : [DropName(s) EXCEPT !.v = IF s.v = NaN \/ s.v >= 0 THEN s.v ELSE 0 - s.v])
                [] e.f = "neg"    -> MapSeries(x.s, LAMBDA s : [DropName(s) EXCEPT !.v = IF s.v = NaN THEN NaN ELSE 0 - s.v])
                [] e.f = "rate"   -> MapSeries(x.s, LAMBDA s : [DropName(s) EXCEPT !.v = 0])
                [] e.f \in {"lot", "lotsub", "sort"} -> x
                [] e.f \in {"round", "maxot"} -> MapSeries(x.s, DropName)
                [] e.f = "clampmax" -> MapSeries(x.s, LAMBDA s : [DropName(s) EXCEPT !.v = IF s.v # NaN /\ s.v > 1 THEN 1 ELSE s.v])
                \* timestamp of the sample: a plain selector with offset 1m sees the sample written one minute earlier
                [] e.f = "timestamp" -> MapSeries(x.s, LAMBDA s : [DropName(s) EXCEPT !.v = IF e.e.k = "sel" /\ e.e.off THEN TimeV - 60 ELSE TimeV])
                [] e.f = "countot" -> MapSeries(x.s, LAMBDA s : [DropName(s) EXCEPT !.v = SamplesInRange])
                [] e.f = "presentot" -> MapSeries(x.s, LAMBDA s : [DropName(s) EXCEPT !.v = 1])
                [] e.f = "hq" -> VecR({})       \* histogram_quantile: series without an `le` label are ignored
                [] e.f = "scalar" -> IF Cardinality(x.s) = 1 THEN ScaR((CHOOSE s \in x.s : TRUE).v) ELSE ScaR(NaN)
                [] e.f \in {"absent", "absentot"} -> IF x.s = {} THEN VecR({AbsentLabels(e.e)}) ELSE VecR({})
                [] e.f = "lrep"   -> LabelReplace(e, x.s)
                [] e.f = "ljoin"  -> MapSeries(x.s, LAMBDA s :
                                        LET j == StrOrEmpty(s.a) \o e.repl \o StrOrEmpty(s.b)
                                        IN [s EXCEPT ![e.dst] = IF j = "" THEN Absent ELSE j]))
    [] e.k = "bin"  ->
         LET x == Conc(e.l, db)
             y == Conc(e.r, db)
         IN IF x.t = "err" THEN x ELSE IF y.t = "err" THEN y
            ELSE CASE x.t = "s" /\ y.t = "s" ->
                        IF IsCmp(e.op) THEN ScaR(IF CmpV(e.op, x.x, y.x) THEN 1 ELSE 0) ELSE ScaR(ArithV(e.op, x.x, y.x))
                   [] x.t = "v" /\ y.t = "s" -> VectorScalarBinop(e, x.s, y.x, FALSE)
                   [] x.t = "s" /\ y.t = "v" -> VectorScalarBinop(e, y.s, x.x, TRUE)
                   [] IsSet(e.op) -> SetOp(e, x.s, y.s)
                   [] OTHER -> VectorBinop(e, x.s, y.s)

\* what a rule evaluating e produces: a scalar becomes one sample without labels, an error produces nothing
Result(e, db) == LET x == Conc(e, db) IN
  CASE x.t = "v" -> x.s [] x.t = "s" -> {NoLabels(x.x)} [] x.t = "err" -> {}

-----------------------------------------------------------------------------
(*                              Properties                                  *)

Carried(s) == {l \in Labels : s[l] # Absent}
ConsistentWith(br, names) == \A l \in names : CanHaveLabel(br, l)
\* C04: every returned series is consistent with some live branch
SoundOn(branches, names) == \E i \in 1..Len(branches) : ~branches[i].dead /\ ConsistentWith(branches[i], names)
C04_HoldsOn(br, res) == \A s \in res : SoundOn(br, Carried(s))
C04_Holds(e, db) == C04_HoldsOn(Abs(e), Result(e, db))

\* C12: what a flagged part may still do. kind: join | or | unless | static
\*  - a side that can never be matched (join) under and / arithmetic / comparison, a statically false
\*    comparison and `unless on()` against something that always returns: the operation returns nothing;
\*  - a right hand side that can never be matched under `unless`, or that is never used under `or`:
\*    the operation returns exactly what its left hand side returns.
ExpectEmpty(kind, op) == kind \in {"static", "unless"} \/ (kind = "join" /\ op # "unless")
\* a join / static verdict concerns one pair of branches: judged when both operands have a single branch
Judged(e, kind)       == kind \in {"or", "unless"} \/ (~HasOr(e.l) /\ ~HasOr(e.r))
PremiseOn(named, db)  == \A s \in db : \A l \in named : s[l] # Absent
Premise(e, db)        == PremiseOn(Named(e) \ {"n"}, db)
\* (a database on which the operation fails to evaluate - duplicate series, many-to-many matching - says nothing)
C12_HoldsOn(e, kinds, db) ==
  Conc(e, db).t = "err" \/
  \A kind \in kinds :
     IF ExpectEmpty(kind, e.op) THEN Result(e, db) = {} ELSE Result(e, db) = Result(e.l, db)
JudgedFlags(e) == IF e.k = "bin" THEN {kind \in FlagsAt(e, "") : Judged(e, kind)} ELSE {}
C12_Holds(e, db) == Premise(e, db) => C12_HoldsOn(e, JudgedFlags(e), db)

-----------------------------------------------------------------------------
(*                     Databases explored by the model checker              *)
ValsOf(S) == S \cup {Absent}
SeriesOf(m) == [n : {m}, a : ValsOf(DBA), b : ValsOf(DBB), c : ValsOf(DBC), v : DBVals]
MetricDBs(m) == {{}} \cup {{s} : s \in SeriesOf(m)}
                \cup (IF DBSeries >= 2 THEN UNION {{{s, t} : t \in {u \in SeriesOf(m) : Lbl(u) # Lbl(s)}} : s \in SeriesOf(m)} ELSE {})
DBs == {x \cup y : x \in MetricDBs("m"), y \in MetricDBs("n")}

-----------------------------------------------------------------------------
(*                     Generator: operand stack machine                     *)
VARIABLE stk        \* sequence of [e, d, nb]: expression, its nesting depth, its nesting of binary nodes
vars == <<stk>>

BKinds == MatcherKindsB
LeafSet ==
  (IF "sel" \in Leaves THEN {Sel(m, ma, mb, FALSE) : m \in {"m", "n"}, ma \in MatcherKinds, mb \in BKinds} ELSE {})
  \cup (IF "seloff" \in Leaves THEN {Sel("m", ma, "none", TRUE) : ma \in MatcherKinds} ELSE {})
  \cup (IF "num" \in Leaves THEN {Num(v) : v \in {0, 1, 2}} ELSE {})
  \cup (IF "time" \in Leaves THEN {TimeE} ELSE {})
  \cup (IF "vec" \in Leaves THEN {VecE(Num(v)) : v \in {0, 1}} ELSE {})

UnarySet(e) ==
  LET v == Ty(e) = "v" IN
  (IF v THEN {Fn(f, e) : f \in UnFns \cap {"abs", "neg", "scalar", "absent", "lotsub", "sort", "clampmax", "round", "timestamp", "hq"}} ELSE {})
  \cup (IF ~v /\ "vecs" \in UnFns /\ e.k # "num" THEN {VecE(e)} ELSE {})
  \cup (IF e.k = "sel" THEN {Fn(f, e) : f \in UnFns \cap {"rate", "lot", "absentot", "maxot", "countot", "presentot"}} ELSE {})
  \cup (IF v /\ "lrepc" \in UnFns THEN {LRep(e, "c", "x", "a", ".*")} ELSE {})
  \cup (IF v /\ "lrepcx" \in UnFns THEN {LRep(e, "c", "x", "a", "x")} ELSE {})
  \cup (IF v /\ "lrepa" \in UnFns THEN {LRep(e, "a", "x", "b", ".*")} ELSE {})
  \cup (IF v /\ "lrepdel" \in UnFns THEN {LRep(e, "a", "", "b", ".*")} ELSE {})
  \cup (IF v /\ "lrepdelx" \in UnFns THEN {LRep(e, "a", "", "a", "x")} ELSE {})
  \cup (IF v /\ "ljoin" \in UnFns THEN {LJoin(e, "c", ",")} ELSE {})
  \cup (IF v /\ "ljoine" \in UnFns THEN {LJoin(e, "c", "")} ELSE {})
  \cup (IF v THEN {Agg(op, mod, ls, FALSE, e) : op \in AggOps, mod \in {"by", "without"}, ls \in AggLabelSets} ELSE {})
  \cup (IF v /\ DupLabels THEN {Agg(op, mod, ls, TRUE, e) : op \in AggOps, mod \in {"by", "without"}, ls \in AggLabelSets \ {{}}} ELSE {})
  \cup (IF v THEN {Agg(op, "none", {}, FALSE, e) : op \in AggOps} ELSE {})

BinarySet(l, r) ==
  LET vv == Ty(l) = "v" /\ Ty(r) = "v"
      ss == Ty(l) = "s" /\ Ty(r) = "s"
      mods == {<<"none", {}>>} \cup {<<"on", ls>> : ls \in MatchSets} \cup {<<"ign", ls>> : ls \in MatchSets \ {{}}}
              \cup (IF IgnEmpty THEN {<<"ign", {}>>} ELSE {})
      \* group_left / group_right need an explicit on(...) / ignoring(...)
      grps(md) == {<<"none", {}>>} \cup
                  {<<g, inc>> : g \in (IF md[1] = "none" THEN {} ELSE {"left", "right"}),
                                inc \in {i \in GroupIncs : md[1] # "on" \/ i \cap md[2] = {}}}
      arith == IF HasTime(l) \/ HasTime(r) THEN ArithOps \ {"*"} ELSE ArithOps
  IN
  (IF vv THEN UNION {{Bin(op, FALSE, md[1], md[2], g[1], g[2], l, r) : op \in arith \cup CmpOps, g \in grps(md)} : md \in mods} ELSE {})
  \cup (IF vv THEN UNION {{Bin(op, TRUE, md[1], md[2], g[1], g[2], l, r) : op \in CmpOps, g \in grps(md)} : md \in mods} ELSE {})
  \cup (IF vv THEN {Bin(op, FALSE, md[1], md[2], "none", {}, l, r) : op \in SetOps, md \in mods} ELSE {})
  \cup (IF ~vv /\ ~ss THEN {Bin(op, b, "none", {}, "none", {}, l, r) : op \in arith, b \in {FALSE}} ELSE {})
  \cup (IF ~vv /\ ~ss THEN {Bin(op, b, "none", {}, "none", {}, l, r) : op \in CmpOps, b \in BOOLEAN} ELSE {})
  \cup (IF ss THEN {Bin(op, FALSE, "none", {}, "none", {}, l, r) : op \in arith} ELSE {})
  \cup (IF ss THEN {Bin(op, TRUE, "none", {}, "none", {}, l, r) : op \in CmpOps} ELSE {})

Init == stk \in {<<[e |-> x, d |-> 0, nb |-> 0]>> : x \in LeafSet}

\* operands are only started / grown while the pending binary node can still respect MaxDepth
Push == /\ Len(stk) < MaxStack
        /\ stk[Len(stk)].d < MaxDepth /\ stk[Len(stk)].nb < MaxBinNest
        /\ \E x \in LeafSet : stk' = Append(stk, [e |-> x, d |-> 0, nb |-> 0])
Unary == /\ Len(stk) >= 1
         /\ LET top == stk[Len(stk)] IN
            /\ top.d < MaxDepth
            /\ Len(stk) = 1 \/ top.d + 1 < MaxDepth
            /\ \E x \in UnarySet(top.e) : stk' = [stk EXCEPT ![Len(stk)] = [e |-> x, d |-> top.d + 1, nb |-> top.nb]]
Binary == /\ Len(stk) >= 2
          /\ LET r == stk[Len(stk)]
                 l == stk[Len(stk) - 1]
                 d == (IF l.d > r.d THEN l.d ELSE r.d) + 1
                 nb == (IF l.nb > r.nb THEN l.nb ELSE r.nb) + 1
             IN /\ d <= MaxDepth /\ nb <= MaxBinNest
                /\ \E x \in BinarySet(l.e, r.e) : stk' = Append(SubSeq(stk, 1, Len(stk) - 2), [e |-> x, d |-> d, nb |-> nb])
Next == Push \/ Unary \/ Binary
Spec == Init /\ [][Next]_vars

Done == Len(stk) = 1
Cur  == stk[1].e

\* both hoist everything that does not depend on the database out of the quantifier
Bad_C04(e) == LET br == Abs(e) IN \E db \in DBs : ~C04_HoldsOn(br, Result(e, db))
Bad_C12(e) == LET kinds == JudgedFlags(e)
                  named == Named(e) \ {"n"}
              IN kinds # {} /\ \E db \in DBs : PremiseOn(named, db) /\ ~C12_HoldsOn(e, kinds, db)
Inv_C04 == Done => ~Bad_C04(Cur)
Inv_C12 == Done => ~Bad_C12(Cur)
\* GEN: one case per finished expression
EmitCase == Done => PrintT(<<"CASE", ToJson([e |-> Cur, dbs |-> <<>>])>>)
\* MC leads: print (with a witness database) instead of stopping, so that one run reports every violating expression
Wit_C04(e) == LET br == Abs(e) IN CHOOSE db \in DBs : ~C04_HoldsOn(br, Result(e, db))
Wit_C12(e) == LET kinds == JudgedFlags(e)
                  named == Named(e) \ {"n"}
              IN CHOOSE db \in DBs : PremiseOn(named, db) /\ ~C12_HoldsOn(e, kinds, db)
Lead_C04 == Done => IF ~Bad_C04(Cur) THEN TRUE ELSE PrintT(<<"LEAD", ToJson([p |-> "C04", e |-> Cur, dbs |-> <<Wit_C04(Cur)>>])>>)
Lead_C12 == Done => IF ~Bad_C12(Cur) THEN TRUE ELSE PrintT(<<"LEAD", ToJson([p |-> "C12", e |-> Cur, dbs |-> <<Wit_C12(Cur)>>])>>)
=============================================================================
