----------------------------- MODULE MaskerTrace -----------------------------
(***************************************************************************)
(* JUDGE for C10: validates what the real ContentReader did (events        *)
(* recorded through the verif hook parser.VerifReadLines) against the      *)
(* ReadLine action of Masker, and evaluates the non-interference verdict   *)
(* on the outcomes the real lint pipeline produced for the variants of     *)
(* every excluded line.                                                    *)
(*   Reset     start of a case (a new file)                                *)
(*   ReadLine  one readNextLine call: abstract line + flags/out observed   *)
(*   Variants  outcome of running the real pipeline on all replacements of *)
(*             excluded line k: number of distinct observable results      *)
(*   Shift     outcome of removing an excluded block: only line shift?     *)
(***************************************************************************)
EXTENDS Masker

TraceLog == ndJsonDeserialize("c10_trace.ndjson")

VARIABLES l, cid, done
tvars == <<vars, l, cid, done>>

Rec == TraceLog[l]

TraceInit == Init /\ l = 1 /\ cid = 0 /\ done = FALSE

TReset ==
  /\ l <= Len(TraceLog) /\ Rec.ev = "Reset"
  /\ file' = <<>> /\ i' = 0 /\ fl' = Flags0 /\ out' = <<>> /\ collected' = {} /\ diag' = FALSE
  /\ cid' = Rec.id /\ l' = l + 1 /\ UNCHANGED done

\* binding: the real reader's flags, surviving text/comment and collection agree with Step
Bind(r, rec) ==
  /\ r.fl = [skipAll |-> rec.skipAll, skipNext |-> rec.skipNext, autoReset |-> rec.autoReset, inBegin |-> rec.inBegin]
  /\ r.out = [text |-> rec.otext, cmt |-> rec.ocmt]
  /\ r.coll = rec.coll
  /\ r.diag = rec.diag

TReadLine ==
  /\ l <= Len(TraceLog) /\ Rec.ev = "ReadLine"
  /\ LET ln == [cls |-> Rec.cls, text |-> Rec.text] IN
     /\ ReadLine(ln)
     /\ IF Bind(Step(fl, ln), Rec) THEN TRUE
        ELSE PrintT(<<"DRIFT", cid, ToJson([line |-> i + 1, expected |-> Step(fl, ln), observed |-> Rec])>>)
  /\ l' = l + 1 /\ UNCHANGED <<cid, done>>

ClsStr(f) == [k \in 1..Len(f) |-> f[k].cls \o (IF f[k].text = "none" THEN "" ELSE "+" \o f[k].text)]

\* the verdict: all replacements of the excluded line gave one and the same observable result
TVariants ==
  /\ l <= Len(TraceLog) /\ Rec.ev = "Variants"
  /\ IF Rec.distinct = 1 THEN TRUE
     ELSE PrintT(<<"VIOL", cid, ToJson([lines |-> ClsStr(file), k |-> Rec.k, at |-> Rec.at, mode |-> Rec.mode,
                                         doc |-> DocRun(file)[Rec.k], diff |-> Rec.diff])>>)
  /\ l' = l + 1 /\ UNCHANGED <<vars, cid, done>>

\* inserting an excluded block only shifts line numbers
TShift ==
  /\ l <= Len(TraceLog) /\ Rec.ev = "Shift"
  /\ IF Rec.same THEN TRUE
     ELSE PrintT(<<"VIOL", cid, ToJson([lines |-> ClsStr(file), k |-> 0, at |-> Rec.at, mode |-> Rec.mode,
                                         doc |-> "shift", diff |-> Rec.diff])>>)
  /\ l' = l + 1 /\ UNCHANGED <<vars, cid, done>>

TDone ==
  /\ l = Len(TraceLog) + 1 /\ ~done
  /\ done' = TRUE /\ PrintT(<<"DONE", l - 1>>)
  /\ UNCHANGED <<vars, l, cid>>

TraceNext == TReset \/ TReadLine \/ TVariants \/ TShift \/ TDone
TraceSpec == TraceInit /\ [][TraceNext]_tvars
=============================================================================
