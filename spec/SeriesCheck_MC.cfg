SPECIFICATION Spec
CONSTANTS
  Stratum = "all"
INVARIANTS Inv_P1 Inv_P2
CHECK_DEADLOCK FALSE
