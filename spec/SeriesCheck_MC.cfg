SPECIFICATION Spec
INVARIANTS Inv_P1 Inv_P2
CHECK_DEADLOCK FALSE
