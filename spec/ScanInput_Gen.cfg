SPECIFICATION Spec
CONSTANTS
  MaxRules = 2
  Kinds = {"clean", "bare", "tmpl", "regexp", "agg", "broken", "both"}
  Cfgs = {"none", "same", "mixed"}
  Twos = {FALSE, TRUE}
INVARIANTS EmitCase
CHECK_DEADLOCK FALSE
