SPECIFICATION Spec
CONSTANTS
  MaxRules = 2
  Kinds = {"clean", "bare", "tmpl", "regexp", "agg", "broken", "both", "ovr", "smelly"}
  Cfgs = {"none", "same", "mixed"}
  Twos = {FALSE, TRUE}
  Grps = {FALSE, TRUE}
  Syms = {FALSE}
INVARIANTS EmitCase
CHECK_DEADLOCK FALSE
