------------------------------ MODULE ScanTrace ------------------------------
(***************************************************************************)
(* JUDGE for C11.                                                          *)
(*   File   the real reports of one input, per job, projected (strings as  *)
(*          ranks, Rule.IsSame classes, content class ids)                 *)
(*   Order  one arrival order replayed into the real Summary.Report ->     *)
(*          SortReports -> Dedup -> console/JSON reporters: observed final *)
(*          order (content classes), duplicate marks, hashes of 3 console  *)
(*          renderings, the JSON document and the set of severities        *)
(*   BinFile / Bin   runs of the real race-instrumented binary             *)
(* (4a) verdict : every order renders exactly like the canonical order     *)
(*                (--workers 1); every binary run equals the --workers 1   *)
(*                run; no data race report.                                *)
(* (4b) binding : the replayed order is an order-preserving interleaving   *)
(*                of the jobs; Process(order) of the spec gives the        *)
(*                observed final order and duplicate marks (n <= 20).      *)
(* A violation is classified by the premise failures of the input (which   *)
(* pairs of reports of different jobs the sort key does not separate).     *)
(***************************************************************************)
EXTENDS Scan

TraceLog == ndJsonDeserialize("c11_trace.ndjson")

VARIABLES l, fid, done2, frec, base, ebase,
          fby       \* the reports of the current input by uid (spec records)
tvars == <<vars, l, fid, done2, frec, base, ebase, fby>>
Rec == TraceLog[l]

NoFile == [n |-> 0]
TraceInit == InitC /\ l = 1 /\ fid = 0 /\ done2 = FALSE /\ frec = NoFile /\ base = <<>> /\ ebase = "" /\ fby = <<>>

RangeS(s) == {s[k] : k \in 1..Len(s)}
\* report record of the spec from a projected real report
Rp(r) == [uid |-> r.uid, cid |-> r.cid, path |-> r.path, sym |-> r.sym, owner |-> r.owner, first |-> r.first, last |-> r.last,
          rlast |-> r.rlast, rule |-> r.rule, name |-> r.name, sev |-> r.sev, rep |-> r.rep, sum |-> r.sum, det |-> r.det,
          anchor |-> r.anchor, diags |-> r.diags]
FileJobs(f) == [j \in 1..Len(f.shape) |-> SelectSeq([k \in 1..Len(f.reports) |-> Rp(f.reports[k])], LAMBDA r : f.reports[r.uid].job = j)]

\* the tree's cmpDiagnostics as observed by EXEC (File.alldiags): all diagnostics (fix 1d0c953, F17/F18) or, on a
\* tree without the fix, the first one only
CmpReportsT(all, a, b) == CmpReportsV(all, a, b)
ProcessT(all, order) == ProcessV(all, order)

\* why the sort key may fail to separate two reports of different jobs
PairKind(all, a, b, reps) ==
  LET sa == [a EXCEPT !.diags = SortDiags(@)]
      sb == [b EXCEPT !.diags = SortDiags(@)]
      c1 == CmpReportsT(all, sa, sb)
      c2 == CmpReportsT(all, sb, sa)
      rn == reps[a.rep] IN
  IF RKey(a) = RKey(b) THEN (IF IsEqual(a, b) = IsEqual(b, a) THEN "ok" ELSE "merge-asymmetric:" \o rn)
  ELSE IF IsEqual(a, b) \/ IsEqual(b, a) THEN "merge-distinct:" \o rn
  ELSE IF c1 = 0 /\ c2 = 0 THEN
         (IF Len(a.diags) > 1 /\ Len(b.diags) > 1 /\ CmpSeqD(SortDiags(a.diags), SortDiags(b.diags), 1) # 0
          THEN "tie-after-first-diagnostic:" \o rn ELSE "tie-on-all-keys:" \o rn)
  ELSE IF c1 # 0 - c2 THEN "inconsistent-compare:" \o rn
  ELSE "ok"
PremiseKinds(f) ==
  LET js == FileJobs(f) IN
  UNION {{PairKind(f.alldiags, a, b, f.reps) : a \in RangeS(js[p[1]]), b \in RangeS(js[p[2]])} :
           p \in {q \in (1..Len(js)) \X (1..Len(js)) : q[1] < q[2]}} \ {"ok"}

\* Beyond 20 elements slices.SortStableFunc merges insertion-sorted blocks with symMerge, which is not transcribed.
\* When the comparison is a strict weak order on the reports of the input, every stable sorting algorithm yields the
\* same sequence, so the insertion sort of the spec predicts the result for any length. The comparison is a
\* lexicographic combination of total orders except for cmpDiagnostics, which answers -1 in both directions for two
\* empty lists: the inputs without two such reports tying on the first six keys are exactly the safe ones.
WeakOrder(f) ==
  \A a, b \in 1..f.n :
     (a < b /\ Len(f.reports[a].diags) = 0 /\ Len(f.reports[b].diags) = 0) =>
        ~(/\ f.reports[a].path = f.reports[b].path /\ f.reports[a].first = f.reports[b].first /\ f.reports[a].last = f.reports[b].last
          /\ f.reports[a].sev = f.reports[b].sev /\ f.reports[a].rep = f.reports[b].rep /\ f.reports[a].sum = f.reports[b].sum)

TFile ==
  /\ l <= Len(TraceLog) /\ Rec.ev = "File"
  /\ fid' = Rec.id /\ frec' = Rec /\ base' = <<>>
  /\ fby' = [u \in 1..Rec.n |-> Rp(Rec.reports[u])]
  /\ IF PremiseKinds(Rec) = {} THEN TRUE ELSE PrintT(<<"PREMISE", Rec.id, ToJson(PremiseKinds(Rec))>>)
  /\ l' = l + 1 /\ UNCHANGED <<vars, done2, ebase>>

\* the jobs executed in another order (files parsed afresh): what each (entry, check) job reports must not change
TExec ==
  /\ l <= Len(TraceLog) /\ Rec.ev = "Exec" /\ Rec.id = fid
  /\ ebase' = IF Rec.base THEN Rec.h ELSE ebase
  /\ IF Rec.base \/ Rec.h = ebase THEN TRUE
     ELSE PrintT(<<"VIOL", fid, ToJson([cfg |-> frec.cfg, rules |-> frec.rules, two |-> frec.two, grp |-> frec.grp, sym |-> frec.sym, kinds |-> {},
                                        what |-> [exec |-> Rec.kind]])>>)
  /\ l' = l + 1 /\ UNCHANGED <<vars, fid, done2, frec, base, fby>>

Sig(what) == [cfg |-> frec.cfg, rules |-> frec.rules, two |-> frec.two, grp |-> frec.grp, sym |-> frec.sym, what |-> what, kinds |-> PremiseKinds(frec)]

TOrder ==
  /\ l <= Len(TraceLog) /\ Rec.ev = "Order" /\ Rec.id = fid
  /\ LET ord == [k \in 1..Len(Rec.order) |-> fby[Rec.order[k]]]
         \* every report exactly once, and per job in emission order (uids are numbered job by job in emission order)
         reachable == /\ Len(Rec.order) = frec.n /\ RangeS(Rec.order) = 1..frec.n
                      /\ \A a, b \in 1..Len(Rec.order) :
                            (a < b /\ frec.reports[Rec.order[a]].job = frec.reports[Rec.order[b]].job) => Rec.order[a] < Rec.order[b]
         diffs == IF Rec.canon THEN {} ELSE {k \in 1..Len(base) : base[k] # Rec.h[k]}
     IN
     /\ base' = IF Rec.canon THEN Rec.h ELSE base
     /\ IF diffs = {} THEN TRUE
        ELSE PrintT(<<"VIOL", fid, ToJson([Sig("order") EXCEPT !.what = [outputs |-> diffs, order |-> Rec.order, oid |-> Rec.oid]])>>)
     /\ IF reachable THEN TRUE
        ELSE PrintT(<<"DRIFT", fid, ToJson([what |-> "replayed order is not an interleaving of the jobs", order |-> Rec.order])>>)
     /\ IF (frec.n > 20 /\ ~WeakOrder(frec)) \/ ~reachable \/ ~Rec.bind THEN TRUE
        ELSE LET s == ProcessT(frec.alldiags, ord) IN
             IF /\ [k \in 1..Len(s) |-> s[k].r.cid] = Rec.final
                /\ [k \in 1..Len(s) |-> s[k].dup] = Rec.dup
                /\ [k \in 1..Len(s) |-> Len(s[k].dups)] = Rec.ndups THEN TRUE
             ELSE PrintT(<<"DRIFT", fid, ToJson([what |-> "Report/SortReports/Dedup", oid |-> Rec.oid, order |-> Rec.order,
                                                  expected |-> [k \in 1..Len(s) |-> s[k].r.cid], observed |-> Rec.final,
                                                  expdup |-> [k \in 1..Len(s) |-> s[k].dup], obsdup |-> Rec.dup])>>)
  /\ l' = l + 1 /\ UNCHANGED <<vars, fid, done2, frec, fby, ebase>>

TBinFile ==
  /\ l <= Len(TraceLog) /\ Rec.ev = "BinFile"
  /\ fid' = Rec.id /\ frec' = Rec /\ base' = <<>> /\ fby' = <<>>
  /\ l' = l + 1 /\ UNCHANGED <<vars, done2, ebase>>

TBin ==
  /\ l <= Len(TraceLog) /\ Rec.ev = "Bin" /\ Rec.id = fid
  /\ LET h == <<Rec.stderr, Rec.json, Rec.exit>>
         diffs == IF Rec.base THEN {} ELSE {k \in 1..3 : base[k] # h[k]} IN
     /\ base' = IF Rec.base THEN h ELSE base
     /\ IF diffs = {} /\ ~Rec.race THEN TRUE
        ELSE PrintT(<<"VIOL", fid, ToJson([cfg |-> frec.cfg, rules |-> frec.rules, two |-> frec.two, grp |-> frec.grp, sym |-> frec.sym, kinds |-> {},
                                           what |-> [binary |-> TRUE, outputs |-> diffs, race |-> Rec.race, workers |-> Rec.workers,
                                                     procs |-> Rec.procs, seed |-> Rec.seed]])>>)
  /\ l' = l + 1 /\ UNCHANGED <<vars, fid, done2, frec, fby, ebase>>

TDone ==
  /\ l = Len(TraceLog) + 1 /\ ~done2
  /\ done2' = TRUE /\ PrintT(<<"DONE", l - 1>>)
  /\ UNCHANGED <<vars, l, fid, frec, base, ebase, fby>>

TraceNext == TFile \/ TExec \/ TOrder \/ TBinFile \/ TBin \/ TDone
TraceSpec == TraceInit /\ [][TraceNext]_tvars
=============================================================================
