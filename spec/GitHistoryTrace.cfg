SPECIFICATION TraceSpec
CONSTANTS
  NPaths = 4
  Kinds = {"rec", "alr"}
  Names = {"n1"}
  Bodies = {"v1"}
  Labs = {"l1"}
  Cmts = {"none"}
  Pads = {0}
  Exts = {"x0"}
  MaxRules = 1000
  MaxForkRules = 1000
  MaxCommits = 1000
  MaxBaseAdv = 1000
  MaxMerge = 1000
  PairOps = {}
  OpSet = {"BaseAdvance", "MergeBase"}
  ForkFdis = FALSE
  TombRename = TRUE
  MatchMode = "any"
CHECK_DEADLOCK FALSE
