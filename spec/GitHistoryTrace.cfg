SPECIFICATION TraceSpec
CONSTANTS
  NPaths = 4
  Kinds = {"rec", "alr"}
  Names = {"n1"}
  Bodies = {"v1"}
  Labs = {"l1"}
  Cmts = {"none"}
  Pads = {0}
  Exts = {"x0"}
  MaxRules = 1000
  MaxForkRules = 1000
  MaxCommits = 1000
  MaxBaseAdv = 1000
  OpSet = {"BaseAdvance"}
  ForkFdis = FALSE
  TombRename = TRUE
  MatchMode = "any"
CHECK_DEADLOCK FALSE
