SPECIFICATION SpecC
CONSTANTS
  Shapes = {}
  Ws = {1}
  MaxJobs = 3
  MaxPerJob = 2
  MaxReports = 3
INVARIANTS Inv_C11
CHECK_DEADLOCK FALSE
