---------------------------- MODULE DispatchC08 ----------------------------
(***************************************************************************)
(* C08 - every check is switched on and off by the name it reports under.  *)
(*                                                                         *)
(* Behaviour (decision-table family): a configuration scenario is grown by *)
(* actions (Prometheus servers, rule{} block layout, pre-existing          *)
(* checks{disabled}), then one switching mechanism with its argument is    *)
(* chosen; `Eval` is the Impl operator chain of Dispatch                   *)
(*   ActionSetup -> GetChecksForEntry                                      *)
(* for the three entry classes (live rule, removed rule, unparsable rule). *)
(* Doc side: DocKeeps(mech, args, reporter) - which reporters may still    *)
(* emit, by NAME only (docs/ignoring.md "Disabling checks globally",       *)
(* docs/checks/*.md "How to disable it", docs/index.md offline, --enabled   *)
(* usage text, configuration.md rule{enable/disable}).                     *)
(* Property: the instances that run in the variant are exactly the         *)
(* instances of the base run whose reporter DocKeeps - i.e. name and       *)
(* reporter coincide on every registry row.                                *)
(***************************************************************************)
EXTENDS Dispatch

CONSTANTS MinProms, MaxProms,   \* number of Prometheus servers explored (0..2)
          Layouts,       \* subset of 0..4: block layouts explored
          PreIds,        \* subset of 0..2: 0 nothing, 1 pre-existing checks { disabled = [...] }, 2 a first rule{} block
                         \*   that enables every check by name (rule { enable = [...] })
          Pairs,         \* BOOLEAN: also pairs of names for the list mechanisms
          Commands,      \* subset of {"lint", "ci"}
          Hists          \* `ci` histories: subset of {"added", "modified", "moved"} (how the rule file came to be on the branch)

PromPool == << [name |-> "prom", tags |-> <<"t1">>], [name |-> "p2", tags |-> <<"t1", "t2">>] >>

Blk(kinds, locked) == [kinds |-> kinds, enable |-> <<>>, disable |-> <<>>, locked |-> locked, match |-> <<>>, ignore |-> <<>>, marker |-> ""]
KV(k, v) == [kind |-> k, v |-> v]
AllKindsV1 == [i \in DOMAIN CfgRows |-> KV(CfgRows[i].kind, 1)]

\* rule{} block layouts
Layout(n) ==
  CASE n = 0 -> <<>>                                                   \* no rule blocks at all
    [] n = 1 -> <<Blk(AllKindsV1, FALSE)>>                             \* one block configuring every kind
    [] n = 2 -> <<Blk(SubSeq(AllKindsV1, 1, 8), FALSE),                \* kinds split over two blocks
                  Blk(SubSeq(AllKindsV1, 9, Len(AllKindsV1)), FALSE)>>
    [] n = 3 -> <<Blk(<<KV("cost", 1), KV("alerts", 1), KV("for", 1), KV("range_query", 1), KV("report", 1)>>, FALSE),
                  \* same kinds again: identical settings (de-duplicated by String()) and different ones; locked
                  Blk(<<KV("cost", 2), KV("alerts", 2), KV("for", 1), KV("keep_firing_for", 2), KV("range_query", 2), KV("report", 2)>>, TRUE)>>
    [] n = 4 -> <<Blk(<<KV("reject_lk", 1), KV("reject_lv", 1), KV("reject_ak", 1), KV("reject_av", 2),
                        KV("aggregate_keep", 2), KV("annotation", 2), KV("label", 2), KV("link", 2), KV("name", 2)>>, FALSE)>>

\* pre-existing checks { disabled = [...] }
PreDisabledList(n) == IF n = 1 THEN <<"promql/rate", "rule/for">> ELSE <<>>
EnableAllBlock == [kinds |-> <<>>, enable |-> CheckNames, disable |-> <<>>, locked |-> FALSE, match |-> <<>>, ignore |-> <<>>, marker |-> ""]

\* mechanisms
DisableMechs == {"cfgDisabled", "cliDisabled", "ruleDisable"}
EnableMechs  == {"cfgEnabled", "cliEnabled"}
ListMechs    == DisableMechs \cup EnableMechs
NameSet      == Range(CheckNames)

\* regular expressions for --disabled (SetDisabledChecks expands them over CheckNames)
CliRegexps == { [form |-> "pre", a |-> "promql/", b |-> ""], [form |-> "pre", a |-> "alerts/", b |-> ""],
                [form |-> "suf", a |-> "/for", b |-> ""], [form |-> "any", a |-> "", b |-> ""],
                [form |-> "galt", a |-> "rule/report", b |-> "query/cost"],
                [form |-> "has", a |-> "e/r", b |-> ""], [form |-> "pre", a |-> "promql/range", b |-> ""],
                [form |-> "lit", a |-> "for", b |-> ""],
                [form |-> "suf", a |-> "/series", b |-> ""], [form |-> "has", a |-> "ql/", b |-> ""], [form |-> "pre", a |-> "rule/", b |-> ""],
                [form |-> "some", a |-> "", b |-> ""], [form |-> "galt", a |-> "alerts/for", b |-> "rule/for"],
                [form |-> "pre", a |-> "query", b |-> ""], [form |-> "lit", a |-> "promql/rate", b |-> ""],
                [form |-> "has", a |-> "_", b |-> ""], [form |-> "suf", a |-> "t", b |-> ""] }

VARIABLES hist,    \* ci history (lint: "added", unused)
          pre,     \* chosen PreIds element
          phase,   \* "proms" | "layout" | "pre" | "mech" | "eval"
          cfg,     \* scenario configuration (base run)
          layout,  \* layout id (for the case record)
          mech,    \* chosen mechanism
          args,    \* Seq of patterns (names are lit patterns)
          cmd      \* pint command
vars == <<hist, pre, phase, cfg, layout, mech, args, cmd>>

Cfg0 == [proms |-> <<>>, blocks |-> <<>>, enabled |-> <<>>, disabled |-> <<>>]

Init == hist = "added" /\ pre = 0 /\ phase = "proms" /\ cfg = Cfg0 /\ layout = 0 /\ mech = "none" /\ args = <<>> /\ cmd = "lint"

AddProm ==
  /\ phase = "proms" /\ Len(cfg.proms) < MaxProms
  /\ cfg' = [cfg EXCEPT !.proms = Append(cfg.proms, PromPool[Len(cfg.proms) + 1])]
  /\ UNCHANGED <<hist, pre, phase, layout, mech, args, cmd>>

PromsDone == phase = "proms" /\ Len(cfg.proms) >= MinProms /\ phase' = "layout" /\ UNCHANGED <<hist, pre, cfg, layout, mech, args, cmd>>

ChooseLayout(n) ==
  /\ phase = "layout"
  /\ cfg' = [cfg EXCEPT !.blocks = Layout(n)] /\ layout' = n /\ phase' = "pre"
  /\ UNCHANGED <<hist, pre, mech, args, cmd>>

ChoosePre(n, c, h) ==
  /\ phase = "pre" /\ (c = "lint" => h = "added") /\ hist' = h
  /\ cfg' = IF n = 2 THEN [cfg EXCEPT !.blocks = <<EnableAllBlock>> \o cfg.blocks] ELSE [cfg EXCEPT !.disabled = PreDisabledList(n)]
  /\ pre' = n /\ cmd' = c /\ phase' = "mech"
  /\ UNCHANGED <<layout, mech, args>>

\* with the enable-everything block in front, checks{disabled} / --disabled / --offline are overridden by it
\* (docs/configuration.md: "Enabling checks here will overwrite check { disable = [...] } settings"): only the
\* mechanisms that must still work are generated there
ChooseMech(m, a) ==
  /\ phase = "mech"
  /\ (pre = 2 => m \in {"ruleDisable", "cfgEnabled", "cliEnabled"})
  /\ mech' = m /\ args' = a /\ phase' = "eval"
  /\ UNCHANGED <<hist, pre, cfg, layout, cmd>>

NamePatterns == {<<Lit(n)>> : n \in NameSet}
PairPatterns == IF Pairs THEN {<<Lit(n), Lit(m)>> : <<n, m>> \in {p \in NameSet \X NameSet : p[1] # p[2]}} ELSE {}

Next ==
  \/ AddProm \/ PromsDone
  \/ \E n \in Layouts : ChooseLayout(n)
  \/ \E n \in PreIds, c \in Commands, h \in Hists \cup {"added"} : ChoosePre(n, c, h)
  \/ \E m \in ListMechs, a \in NamePatterns \cup PairPatterns : ChooseMech(m, a)
  \/ \E re \in CliRegexps : ChooseMech("cliDisabled", <<re>>)
  \/ \E a \in NamePatterns : /\ ReSrc(a[1]) \notin Range(cfg.disabled)   \* rule{enable=[N]} over checks{disabled=[N]}
                             /\ ChooseMech("ruleEnable", a)
  \/ ChooseMech("offline", <<>>)
  \/ \E a \in NamePatterns : ChooseMech("offlineEnabled", a)     \* --offline together with --enabled N

Spec == Init /\ [][Next]_vars

-----------------------------------------------------------------------------
(* Impl: how a mechanism reaches the code.                                  *)
ArgNames(a) == [i \in DOMAIN a |-> ReSrc(a[i])]
SwitchBlock(en, dis) == [kinds |-> <<>>, enable |-> en, disable |-> dis, locked |-> FALSE, match |-> <<>>, ignore |-> <<>>, marker |-> ""]

\* configuration text of the variant run
VariantCfg(c, m, a) ==
  CASE m = "cfgDisabled" -> [c EXCEPT !.disabled = c.disabled \o ArgNames(a)]
    [] m = "cfgEnabled"  -> [c EXCEPT !.enabled = ArgNames(a)]
    [] m = "ruleDisable" -> [c EXCEPT !.blocks = Append(c.blocks, SwitchBlock(<<>>, ArgNames(a)))]
    [] m = "ruleEnable"  -> [c EXCEPT !.disabled = c.disabled \o ArgNames(a),
                                      !.blocks = Append(c.blocks, SwitchBlock(ArgNames(a), <<>>))]
    [] OTHER             -> c
\* command-line flags of the variant run
VariantFlags(m, a) ==
  CASE m = "cliDisabled"    -> [NoFlags EXCEPT !.disabled = a]
    [] m = "cliEnabled"     -> [NoFlags EXCEPT !.enabled = ArgNames(a)]
    [] m = "offline"        -> [NoFlags EXCEPT !.offline = TRUE]
    [] m = "offlineEnabled" -> [NoFlags EXCEPT !.offline = TRUE, !.enabled = ArgNames(a)]
    [] OTHER                -> NoFlags

\* entry classes: (rule | error) x change state. `pint lint` only produces "noop"; `pint ci` produces all of them
\* (an unparsable rule even shows up twice: once as found on the branch, once "noop" from the working tree).
EntryClasses == {"rule", "error"} \X {"noop", "added", "modified", "removed"}

\* checks pint runs for an entry of class cls = <<kind, state>>
ImplChecks(c, fl, command, cls) == GetChecksForEntry(ActionSetup(c, fl), PlainEntry(cls[1], cls[2]), command)
\* an emitting instance is identified the way pint identifies it: by its String() (plus entry class and reporter)
InstKey(cls, pr) == <<cls, pr.str, pr.rep>>
ImplInstances(c, fl, command) ==
  UNION {{InstKey(cls, pr) : pr \in Range(ImplChecks(c, fl, command, cls))} : cls \in EntryClasses}

-----------------------------------------------------------------------------
(* Doc: which reporters may still emit - by name only.                      *)
\* names selected by the arguments: a name selects itself; a --disabled regular expression selects the
\* names it matches entirely (patterns are fully anchored)
DocNames(a) == {n \in NameSet : \E i \in DOMAIN a : FullMatch(a[i], n)}
\* docs/index.md + checks pages: checks that need a Prometheus server or (rule/link) the network.
\* Written from the documentation: every check whose page says "enabled by default for all configured
\* Prometheus servers" except rule/duplicate (which never sends a query), the configurable checks whose
\* page asks for a `prometheus` block (alerts/count, query/cost) and rule/link (sends HTTP requests).
DocOnline == {"alerts/absent", "alerts/count", "alerts/external_labels", "labels/conflict", "promql/counter",
              "promql/range_query", "promql/rate", "promql/series", "promql/vector_matching", "query/cost", "rule/link"}

DocKeeps(m, a, rep) ==
  CASE m \in DisableMechs     -> rep \notin DocNames(a)
    [] m \in EnableMechs      -> rep \in DocNames(a) \/ rep \in ParseErrorReporters
    [] m = "offline"          -> rep \notin DocOnline
    [] m = "offlineEnabled"   -> (rep \in DocNames(a) /\ rep \notin DocOnline) \/ rep \in ParseErrorReporters
    [] m = "ruleEnable"       -> TRUE     \* configuration.md: rule{enable} overrides checks{disabled}

-----------------------------------------------------------------------------
BaseInstances    == ImplInstances(cfg, NoFlags, cmd)
VariantInstances == ImplInstances(VariantCfg(cfg, mech, args), VariantFlags(mech, args), cmd)

\* C08 at model level
Inv_C08 == phase = "eval" => VariantInstances = {k \in BaseInstances : DocKeeps(mech, args, k[3])}

\* the documented list of online checks is the list --offline disables (binding of the two tables)
Inv_OnlineList == Range(OnlineChecks) = DocOnline
\* every registry row is registered under the name it reports under, and that name is switchable
Inv_Registry ==
  /\ \A i \in DOMAIN BaseRows : BaseRows[i].reg = BaseRows[i].rep /\ BaseRows[i].reg \in NameSet
  /\ \A i \in DOMAIN PromRows : PromRows[i].reg = PromRows[i].rep /\ PromRows[i].reg \in NameSet
  /\ \A i \in DOMAIN CfgRows  : CfgRows[i].reg = CfgRows[i].rep   /\ CfgRows[i].reg \in NameSet
  /\ NameSet = {BaseRows[i].reg : i \in DOMAIN BaseRows} \cup {PromRows[i].reg : i \in DOMAIN PromRows}
                 \cup {CfgRows[i].reg : i \in DOMAIN CfgRows}

\* GEN: one case per evaluated input
CaseRec == [layout |-> layout, pre |-> pre, hist |-> hist, nproms |-> Len(cfg.proms), cmd |-> cmd, mech |-> mech, args |-> args, argsrc |-> ArgNames(args),
            bcfg |-> cfg, vcfg |-> VariantCfg(cfg, mech, args), vflags |-> VariantFlags(mech, args)]
EmitCase == phase # "eval" \/ PrintT(<<"CASE", ToJson(CaseRec)>>)
=============================================================================
