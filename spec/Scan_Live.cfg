SPECIFICATION FairSpecB
CONSTANTS
  Shapes <- MCShapes
  Ws = {1, 2}
  MaxJobs = 0
  MaxPerJob = 0
  MaxReports = 0
PROPERTIES Termination
