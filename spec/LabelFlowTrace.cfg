\* JUDGE configuration (generator constants are unused by the trace specification).
SPECIFICATION TraceSpec
CONSTANTS
  MaxDepth = 0
  MaxStack = 0
  MaxBinNest = 0
  MatcherKinds = {}
  MatcherKindsB = {}
  Leaves = {}
  UnFns = {}
  AggOps = {}
  AggLabelSets = {}
  ArithOps = {}
  CmpOps = {}
  SetOps = {}
  MatchSets = {}
  GroupIncs = {}
  IgnEmpty = FALSE
  DupLabels = FALSE
  Fixes = {}
  DBSeries = 0
  DBA = {}
  DBB = {}
  DBC = {}
  DBVals = {}
CHECK_DEADLOCK FALSE
