-------------------------------- MODULE Pint --------------------------------
(***************************************************************************)
(* End-to-end composition of the pipeline of `pint lint` on a small        *)
(* instance: per file                                                      *)
(*   Masker (spec/Masker.tla, ContentReader)        M!ImplOut / M!DocRun   *)
(*   -> abstract parse (entries: valid rule | rule error | path error)     *)
(*   -> Dispatch (spec/Dispatch.tla)                GetChecksForEntry      *)
(*   -> Scan (spec/Scan.tla)   the channel machine S!NextB and the fold    *)
(*                             S!Process (Summary.Report, sort, dedup)     *)
(*   -> Exit (spec/Exit.tla)   E!CountBySeverity / LintFailProblems /      *)
(*                             ExitOf                                      *)
(* The modules are instantiated, not copied. The composition states what   *)
(* no single module states:                                                *)
(*  (a) Inv_ProblemIffLiveDispatched: a problem is reported (and counts    *)
(*      for the exit status) iff its check is documented to run            *)
(*      (C08 names, C07 comments) on a rule of a line that the             *)
(*      documentation of ignore comments leaves live (C10);                *)
(*  (b) Inv_MaskedCommentsInert: control comments on masked lines never    *)
(*      change what is dispatched (C10 o C07);                             *)
(*  (c) Inv_WorkersCommute: for every --offline / --disabled choice the    *)
(*      result of every schedule of W workers is the result of one worker  *)
(*      (C08 o C11).                                                       *)
(* Instance: 2 files; file 1 = a fixed recording rule + up to MaxBody      *)
(* generated lines, file 2 = the fixed rule + up to 1 alerting rule;       *)
(* three checks (alerts/comparison, rule/report at severity bug,           *)
(* promql/series against a server nobody listens on).                      *)
(***************************************************************************)
EXTENDS Dispatch

CONSTANTS MaxBody,      \* generated lines in file 1
          PWs,          \* worker counts explored by the channel machine
          MaxScanJobs   \* inputs with more jobs are only run with one worker (state space)

\* Scan's variables keep their names so that INSTANCE binds them implicitly
VARIABLES shape, W, next, jobsClosed, jobsQ, wk, wgLeft, resultsClosed, resultsQ, arrived, done, jobs
scanVars == <<shape, W, next, jobsClosed, jobsQ, wk, wgLeft, resultsClosed, resultsQ, arrived, done, jobs>>

VARIABLES pc,      \* "build" | "flags" | "read" | "dispatch" | "scan" | "exit" | "end"
          body,    \* generated lines of file 1 (Masker!Line records)
          two,     \* BOOLEAN: file 2 holds an alerting rule
          opts,    \* [prom : BOOLEAN, offline : BOOLEAN, disabled : Seq STRING]
          entries, \* Seq of [file, line, e (Dispatch entry)]
          joblist, \* Seq of [file, line, pr (parsedRule), emits : BOOLEAN]
          result   \* [reports : set of <<file, line, reporter>>, exit : 0 | 1]
vars == <<scanVars, pc, body, two, opts, entries, joblist, result>>

M == INSTANCE Masker WITH MaxLen <- 8, TextOnCtl <- TRUE, file <- <<>>, i <- 0, fl <- 0, out <- <<>>, collected <- {}, diag <- FALSE
S == INSTANCE Scan WITH Shapes <- {}, Ws <- PWs, MaxJobs <- 0, MaxPerJob <- 0, MaxReports <- 0
E == INSTANCE Exit WITH MaxReports <- 0, GenOnly <- TRUE, case <- 0, pc <- 0, summary <- <<>>, minSeverity <- 0, failOn <- 0,
                        failed <- FALSE, out <- 0

-----------------------------------------------------------------------------
(* Input vocabulary: Masker lines.  P1 = an alerting rule `{alert: P1, expr: up}`, P2 = a rule without expr *)
ML(c, t) == [cls |-> c, text |-> t]
BodyLines == { ML("Plain", "P1"), ML("Plain", "P2"), ML("RuleCmt", "P1"), ML("IgnLine", "P1"), ML("NextLine", "none"),
               ML("Begin", "none"), ML("End", "none"), ML("IgnFile", "none"), ML("FileCmt", "none") }
\* the three header lines and the fixed rule every file starts with (line 4)
Header == << ML("Plain", "none"), ML("Plain", "none"), ML("Plain", "none"), ML("Plain", "P1") >>
FixedLine == 4
FileOf(f) == IF f = 1 THEN Header \o body ELSE Header \o (IF two THEN <<ML("Plain", "P1")>> ELSE <<>>)

ThreeChecks == <<"alerts/comparison", "rule/report", "promql/series">>
CfgOf(o) == [proms    |-> IF o.prom THEN <<[name |-> "prom", tags |-> <<>>]>> ELSE <<>>,
             blocks   |-> <<[kinds |-> <<[kind |-> "report", v |-> 1]>>, enable |-> <<>>, disable |-> <<>>, locked |-> FALSE,
                             match |-> <<>>, ignore |-> <<>>, marker |-> ""]>>,
             enabled  |-> ThreeChecks, disabled |-> <<>>]
FlagsOf(o) == [disabled |-> [k \in DOMAIN o.disabled |-> Lit(o.disabled[k])], enabled |-> <<>>, offline |-> o.offline]

-----------------------------------------------------------------------------
(* Abstract parse: what discovery.readRules makes of the masked file.       *)
\* RuleCmt is `# pint disable alerts/comparison`, FileCmt `# pint file/disable alerts/comparison` (harness texts)
EntryAt(f, k, ln, mo, fileDis) ==
  LET base == PlainEntry("rule", "noop") IN
  IF ln.text = "P2"
  THEN [file |-> f, line |-> k, e |-> [PlainEntry("error", "noop") EXCEPT !.errReporter = "yaml/parse"]]
  ELSE [file |-> f, line |-> k,
        e |-> [base EXCEPT !.rkind = IF k = FixedLine THEN "recording" ELSE "alerting",
                           !.fileDisabled = fileDis,
                           !.comments = IF mo.cmt = "RuleCmt"
                                        THEN <<[type |-> "disable", match |-> "alerts/comparison", future |-> FALSE]>> ELSE <<>>]]

RECURSIVE EntriesFrom(_, _, _, _, _)
EntriesFrom(f, fl, io, k, fileDis) ==
  IF k > Len(fl) THEN <<>>
  ELSE (IF io.lines[k].text \in {"P1", "P2"} THEN <<EntryAt(f, k, fl[k], io.lines[k], fileDis)>> ELSE <<>>)
       \o EntriesFrom(f, fl, io, k + 1, fileDis)

ParseFile(f) ==
  LET fl == FileOf(f)
      io == M!ImplOut(fl) IN
  IF io.diag      \* ignore/file: the whole file becomes one informational path error
  THEN <<[file |-> f, line |-> (CHOOSE k \in DOMAIN fl : fl[k].cls = "IgnFile"),
          e |-> [PlainEntry("error", "noop") EXCEPT !.errReporter = "ignore/file"]]>>
  ELSE EntriesFrom(f, fl, io, 1, IF io.coll # {} THEN <<"alerts/comparison">> ELSE <<>>)

\* which dispatched checks report a problem on these rules (the rule texts of the harness):
\* alerts/comparison only on alerting rules (`up` never compares), the others always
Emits(e, pr) == IF pr.rep = "alerts/comparison" THEN e.rkind = "alerting" ELSE TRUE
SevOf(rep) == CASE rep \in {"alerts/comparison", "promql/series"} -> E!Warning
                [] rep = "rule/report" -> E!Bug
                [] rep = "yaml/parse" -> E!Fatal
                [] rep = "ignore/file" -> E!Information

JobsOf(es, o) ==
  Flatten([k \in DOMAIN es |->
     LET prs == GetChecksForEntry(ActionSetup(CfgOf(o), FlagsOf(o)), es[k].e, "lint") IN
     [j \in DOMAIN prs |-> [file |-> es[k].file, line |-> es[k].line, pr |-> prs[j], emits |-> Emits(es[k].e, prs[j])]]])

\* a report in the record shape of Scan (strings as ranks)
RepRank(rep) == CASE rep = "alerts/comparison" -> 1 [] rep = "ignore/file" -> 2 [] rep = "promql/series" -> 3
                  [] rep = "rule/report" -> 4 [] rep = "yaml/parse" -> 5
ScanReport(jb) ==
  [path |-> jb.file, sym |-> jb.file, owner |-> 0, first |-> jb.line, last |-> jb.line, rlast |-> jb.line,
   rule |-> jb.file * 100 + jb.line, name |-> jb.line, sev |-> SevOf(jb.pr.rep), rep |-> RepRank(jb.pr.rep), sum |-> RepRank(jb.pr.rep),
   det |-> 0, anchor |-> 0, diags |-> <<>>]

\* fold + exit for an arrival order (sequence of <<job, k>>)
Outcome(jl, order) ==
  LET reps == [k \in DOMAIN order |-> ScanReport(jl[order[k][1]])]
      s    == S!Process(reps)
      flat == [k \in DOMAIN s |-> [sev |-> s[k].r.sev]]
      n    == E!LintFailProblems(E!CountBySeverity(flat), E!Bug) IN
  [reports |-> {<<s[k].r.path, s[k].r.first, s[k].r.rep>> : k \in DOMAIN s}, exit |-> E!ExitOf(n > 0)]

ShapeOf(jl) == [j \in DOMAIN jl |-> IF jl[j].emits THEN 1 ELSE 0]
CanonicalOrder(jl) == SelectSeq([j \in DOMAIN jl |-> <<j, 1>>], LAMBDA p : jl[p[1]].emits)

-----------------------------------------------------------------------------
Init == /\ pc = "build" /\ body = <<>> /\ two \in BOOLEAN /\ opts = [prom |-> FALSE, offline |-> FALSE, disabled |-> <<>>]
        /\ entries = <<>> /\ joblist = <<>> /\ result = [reports |-> {}, exit |-> 0]
        /\ shape = <<>> /\ W = 1 /\ next = 1 /\ jobsClosed = FALSE /\ jobsQ = <<>> /\ wk = <<>> /\ wgLeft = 0
        /\ resultsClosed = FALSE /\ resultsQ = <<>> /\ arrived = <<>> /\ done = FALSE /\ jobs = <<>>

AddLine(ln) == /\ pc = "build" /\ Len(body) < MaxBody /\ body' = Append(body, ln)
               /\ UNCHANGED <<scanVars, pc, two, opts, entries, joblist, result>>
BuildDone == /\ pc = "build" /\ pc' = "flags" /\ UNCHANGED <<scanVars, body, two, opts, entries, joblist, result>>

ChooseFlags(p, off, dis) ==
  /\ pc = "flags" /\ opts' = [prom |-> p, offline |-> off, disabled |-> dis] /\ pc' = "read"
  /\ UNCHANGED <<scanVars, body, two, entries, joblist, result>>

\* Masker + parse of both files (files are read in path order)
ReadFiles == /\ pc = "read" /\ entries' = ParseFile(1) \o ParseFile(2) /\ pc' = "dispatch"
             /\ UNCHANGED <<scanVars, body, two, opts, joblist, result>>

\* GetChecksForEntry for every entry, then the channel machine is started (checkRules)
DispatchAll(w) ==
  /\ pc = "dispatch"
  /\ LET jl == JobsOf(entries, opts) IN
     /\ joblist' = jl
     /\ (Len(jl) > MaxScanJobs => w = 1)
     /\ shape' = ShapeOf(jl) /\ W' = w /\ next' = 1 /\ jobsClosed' = FALSE /\ jobsQ' = <<>>
     /\ wk' = [x \in 1..w |-> [pc |-> "recv", job |-> 0, k |-> 0]] /\ wgLeft' = w
     /\ resultsClosed' = FALSE /\ resultsQ' = <<>> /\ arrived' = <<>> /\ done' = FALSE /\ jobs' = <<>>
  /\ pc' = "scan"
  /\ UNCHANGED <<body, two, opts, entries, result>>

ScanStep == /\ pc = "scan" /\ ~done /\ S!NextB /\ UNCHANGED <<pc, body, two, opts, entries, joblist, result>>

Fold == /\ pc = "scan" /\ done /\ result' = Outcome(joblist, arrived) /\ pc' = "end"
        /\ UNCHANGED <<scanVars, body, two, opts, entries, joblist>>

DisabledChoices == {<<>>, <<"alerts/comparison">>, <<"rule/report">>, <<"promql/series">>}
Next == \/ \E ln \in BodyLines : AddLine(ln)
        \/ BuildDone
        \/ \E p, off \in BOOLEAN, dis \in DisabledChoices : ChooseFlags(p, off, dis)
        \/ ReadFiles
        \/ \E w \in PWs : DispatchAll(w)
        \/ ScanStep
        \/ Fold
Spec == Init /\ [][Next]_vars

-----------------------------------------------------------------------------
(* Doc side of the composition.                                             *)
\* C10: lines the documentation of ignore comments leaves live
DocLive(fl) == LET d == M!DocRun(fl) IN {k \in DOMAIN fl : d[k].excl = "no"}
DocFileIgnored(fl) == \E k \in DOMAIN fl : M!DocRun(fl)[k].excl = "prefix" /\ fl[k].cls = "IgnFile"
\* C08 + C07: which check names report on a live rule line
DocRuns(rep, o, fl, k) ==
  /\ rep \notin Range(o.disabled)
  /\ (o.offline => rep # "promql/series")
  /\ (rep = "promql/series" => o.prom)
  /\ (rep = "alerts/comparison" =>
        /\ k # FixedLine                                                  \* nothing to compare in a recording rule
        /\ fl[k].cls # "RuleCmt"                                           \* # pint disable alerts/comparison on the rule
        /\ ~\E x \in DocLive(fl) : fl[x].cls = "FileCmt")                  \* # pint file/disable alerts/comparison, live
DocReports(f, o) ==
  LET fl == FileOf(f) IN
  IF DocFileIgnored(fl)
  THEN {<<f, CHOOSE k \in DOMAIN fl : fl[k].cls = "IgnFile", RepRank("ignore/file")>>}
  ELSE UNION {IF fl[k].text = "P2" THEN {<<f, k, RepRank("yaml/parse")>>}
              ELSE IF fl[k].text = "P1"
              THEN {<<f, k, RepRank(rep)>> : rep \in {r \in Range(ThreeChecks) : DocRuns(r, o, fl, k)}}
              ELSE {} : k \in DocLive(fl)}
DocAllReports(o) == DocReports(1, o) \cup DocReports(2, o)
DocExit(o) == IF \E r \in DocAllReports(o) : r[3] \in {RepRank("rule/report"), RepRank("yaml/parse")} THEN 1 ELSE 0

\* (a)
Inv_ProblemIffLiveDispatched ==
  pc = "end" => result.reports = DocAllReports(opts) /\ result.exit = DocExit(opts)

\* (b) replacing every documented-masked line by an empty line changes no dispatched job
Blanked(fl) == [k \in DOMAIN fl |-> IF k \in DocLive(fl) \/ M!DocRun(fl)[k].excl = "prefix" THEN fl[k] ELSE ML("Plain", "none")]
JobKeys(jl) == {<<jl[j].file, jl[j].line, jl[j].pr.str>> : j \in DOMAIN jl}
Inv_MaskedCommentsInert ==
  (pc = "scan" /\ next = 1 /\ arrived = <<>>) =>        \* once per input: right after the dispatch
    LET fl == FileOf(1)  bl == Blanked(fl)  io == M!ImplOut(bl) IN
    JobKeys(joblist) =
      JobKeys(JobsOf((IF io.diag THEN ParseFile(1)
                      ELSE EntriesFrom(1, bl, io, 1, IF io.coll # {} THEN <<"alerts/comparison">> ELSE <<>>)) \o ParseFile(2), opts))

\* (c) every schedule of the channel machine gives the one-worker result
Inv_WorkersCommute == pc = "end" => result = Outcome(joblist, CanonicalOrder(joblist))

\* the channel machine keeps its own invariants inside the composition
Inv_Scan == pc = "scan" => S!Inv_Caps /\ S!Inv_NoSendOnClosed

\* GEN: one case per input (emitted when the files are about to be dispatched); the harness runs it with every worker count
CaseRec == [body |-> body, two |-> two, opts |-> opts, ws |-> PWs, files |-> <<FileOf(1), FileOf(2)>>]
EmitCase == pc # "dispatch" \/ PrintT(<<"CASE", ToJson(CaseRec)>>)
\* GEN stops there
GenConstraint == pc # "scan"
=============================================================================
