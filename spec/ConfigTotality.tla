--------------------------- MODULE ConfigTotality ---------------------------
(***************************************************************************)
(* C18 - an accepted configuration never crashes a later lint run.         *)
(*                                                                         *)
(* Impl side : a table of every configuration option whose value is parsed *)
(*   or expanded at use time, with the validator applied by config.Load    *)
(*   (the validate() methods of internal/config/*.go, Validate() of the    *)
(*   check settings) and the constructor / expansion used later            *)
(*   (config.parseRule, strictRegex / MustCompileRegexes, newFailoverGroup,*)
(*   TemplatedRegexp.MustExpand in the checks, getSeverity, parseDuration  *)
(*   with the error dropped), plus the condition under which a check       *)
(*   reaches that use for a given rule, and checks/template.go             *)
(*   newTemplateContext / Expand (which rule fields a template sees).      *)
(*   The run is a staged machine Load -> ParseRule -> RunChecks.           *)
(* Doc side  : docs/configuration.md - a configuration is either rejected  *)
(*   when loaded or usable on any rule file; patterns may reference        *)
(*   $alert $record $for $labels.x $annotations.x.  The promise has no     *)
(*   exceptions, so the Doc side is the single invariant                   *)
(*        Inv_C18 == accepted => ~panicked.                                *)
(***************************************************************************)
EXTENDS Naturals, Sequences, FiniteSets, TLC, Json

CONSTANTS MustExpandTotal,  \* TRUE: MustExpand returns a never-matching regexp when Expand fails (fixed code)
                            \* FALSE: MustExpand returns nil (the code before the F7 fix)
          Full              \* TRUE: every (option value, rule) pair; FALSE: rule-independent values meet fewer rules

-----------------------------------------------------------------------------
(* Values: class, concrete text, whether the standard validator of the     *)
(* option type accepts it, and for templates: how text/template treats it  *)
(* and which rule fields it substitutes.                                   *)
Fields == {"alert", "record", "for", "labels.foo", "labels.summary", "annotations.summary"}
\* ok: accepted as written; okA: accepted between ^ and $ (what "fully anchored" patterns are compiled as)
\* pos: where a template puts the substituted text - "start" (followed by .*), "afterStar" (.* in front, end of
\* pattern behind), "inGroup" (between parentheses)
\* okG: accepted inside "^(?:" ... ")$" (what match/ignore patterns are compiled as since pint groups them)
V(cls, text, ok) == [cls |-> cls, text |-> text, ok |-> ok, okA |-> ok, okG |-> ok, tmpl |-> "none", refs |-> {}, pos |-> "start"]
VA(cls, text, ok, okA, okG) == [cls |-> cls, text |-> text, ok |-> ok, okA |-> okA, okG |-> okG, tmpl |-> "none", refs |-> {}, pos |-> "start"]
T(cls, text, ok, tmpl, refs) == [cls |-> cls, text |-> text, ok |-> ok, okA |-> ok, okG |-> ok, tmpl |-> tmpl, refs |-> refs, pos |-> "start"]
TP(cls, text, refs, pos) == [cls |-> cls, text |-> text, ok |-> TRUE, okA |-> TRUE, okG |-> TRUE, tmpl |-> "ok", refs |-> refs, pos |-> pos]

\* Go regexp syntax (regexp.Compile)
RegexpValues == {
  V("all", ".*", TRUE), V("plain", "foo.*", TRUE), V("lit", "foo", TRUE), V("alt", "(a|b)+\\.yml", TRUE), V("empty", "", TRUE),
  V("invParen", "(", FALSE), V("invBracket", "[a", FALSE), V("invRepeat", "a{2,1}", FALSE),
  \* not regexps on their own, but "^*$" and "^\$" are: accepted wherever validation anchors first
  VA("invStar", "*", FALSE, TRUE, FALSE), VA("invEscape", "\\", FALSE, TRUE, FALSE),
  \* an unterminated \Q quotes everything that follows: fine alone and before "$", but it swallows the ")" of a group
  VA("openQuote", "\\Qabc", TRUE, TRUE, FALSE) }

\* regexp + text/template; tmpl: none | ok | parseErr (template.Parse fails) | execErr (Execute fails on every
\* rule, the empty one included) | execErrIfAlert (Execute fails only when $alert is non-empty)
TemplatedValues == RegexpValues \cup {
  T("refAlert",   "{{ $alert }}.*",               TRUE,  "ok", {"alert"}),
  T("refRecord",  "{{ $record }}.*",              TRUE,  "ok", {"record"}),
  T("refFor",     "{{ $for }}.*",                 TRUE,  "ok", {"for"}),
  T("refLabel",   "{{ $labels.foo }}.*",          TRUE,  "ok", {"labels.foo"}),
  T("refLabelQ",  "{{ $labels.summary }}.*",      TRUE,  "ok", {"labels.summary"}),
  T("refAnn",     "{{ $annotations.summary }}.*", TRUE,  "ok", {"annotations.summary"}),
  T("refMissing", "{{ $labels.nope }}.*",         TRUE,  "ok", {}),
  T("refTwo",     "{{ $alert }}{{ $labels.foo }}.*", TRUE, "ok", {"alert", "labels.foo"}),
  TP("refLabelEnd",   ".*{{ $labels.foo }}",   {"labels.foo"}, "afterStar"),
  TP("refAlertEnd",   ".*{{ $alert }}",        {"alert"},      "afterStar"),
  TP("refLabelGroup", "({{ $labels.foo }})?",  {"labels.foo"}, "inGroup"),
  TP("refRecordGroup", "({{ $record }})?",     {"record"},     "inGroup"),
  T("refInvalid", "({{ $alert }}",                FALSE, "ok", {"alert"}),
  T("undefVar",   "{{ $nope }}.*",                FALSE, "parseErr", {}),
  T("undefExpr",  "{{ $expr }}.*",                FALSE, "parseErr", {}),
  T("tmplSyntax", "{{ .",                         FALSE, "parseErr", {}),
  T("undefFunc",  "{{ xxx }}",                    FALSE, "parseErr", {}),
  T("nilCmd",     "{{nil}}",                      FALSE, "execErr", {}),
  T("condExec",   "{{ if $alert }}{{ slice $alert 0 9 }}{{ end }}.*", TRUE, "execErrIfAlert", {}) }

\* prometheus/common model.ParseDuration
DurationValues == {
  V("valid", "5m", TRUE), V("compound", "1h30m", TRUE), V("zero", "0s", TRUE), V("empty", "", FALSE),
  V("invUnit", "5x", FALSE), V("negative", "-5m", FALSE), V("bare", "5", FALSE), V("overflow", "9999999999y", FALSE) }

\* config.parseDurationMatch:  [op SPACE] duration
DurMatchValues == {
  V("plain", "5m", TRUE), V("gt", "> 5m", TRUE), V("le", "<= 1h", TRUE), V("ne", "!= 0s", TRUE), V("empty", "", FALSE),
  V("badOp", "~ 5m", FALSE), V("badDur", "> 5x", FALSE), V("noDur", "> ", FALSE), V("twoSpaces", ">  5m", FALSE) }

\* checks.ParseSeverity
SeverityValues == {
  V("info", "info", TRUE), V("warning", "warning", TRUE), V("bug", "bug", TRUE), V("fatal", "fatal", TRUE),
  V("empty", "", FALSE), V("unknown", "critical", FALSE), V("capital", "Bug", FALSE) }

\* enumerations: the valid members are given per option, everything else is "bogus"
EnumValues(valid) == {V("valid:" \o x, x, TRUE) : x \in valid} \cup {V("bogus", "bogus", FALSE), V("empty", "", FALSE)}

CheckNameValues == {
  V("offline", "promql/syntax", TRUE), V("online", "promql/series", TRUE), V("configured", "rule/name", TRUE),
  V("bogus", "bogus/check", FALSE), V("tagged", "promql/series(+tag)", FALSE), V("empty", "", FALSE) }

IntValues == { V("zero", "0", TRUE), V("one", "1", TRUE), V("big", "100000", TRUE), V("negative", "-1", FALSE) }

\* PromQL vector selectors (promParser.ParseMetricSelector)
SelectorValues == {
  V("name", "foo", TRUE), V("matchers", "foo{a=\"b\"}", TRUE), V("empty", "", FALSE), V("unclosed", "foo{", FALSE),
  V("notSelector", "sum(foo)", FALSE) }

\* prometheus `uptime` is checked with go/parser.ParseExpr (a Go expression, not PromQL)
UptimeValues == {
  V("name", "up", TRUE), V("empty", "", TRUE), V("goExpr", "a+b", TRUE), V("matchers", "up{job=\"x\"}", FALSE),
  V("unclosed", "up{", FALSE), V("twoWords", "foo bar", FALSE) }

StringValues == { V("text", "some text", TRUE), V("empty", "", FALSE), V("meta", "({{ [ \\", TRUE), V("dollar", "$1 $5 ${x}", TRUE),
                  \* link uri rewrite: what the link pattern captured is spliced into the URL that is requested
                  V("capture", "http://127.0.0.1:1/$1", TRUE) }

URIValues == { V("http", "http://127.0.0.1:1", TRUE), V("path", "http://127.0.0.1:1/prom/", TRUE), V("empty", "", FALSE),
               V("noScheme", "127.0.0.1:1", FALSE), V("badPort", "http://127.0.0.1:x", FALSE), V("space", "http://a b", FALSE) }

\* text/template strings of discovery{} templates (rendered per discovered server with missingkey=error; the
\* rendered prometheus{} block is validated again before use)
DTemplateValues == {
  V("plain", "prom", TRUE), V("empty", "", FALSE), V("refVar", "x{{ $name }}", TRUE), V("undefVar", "{{ $nope }}", TRUE),
  V("missingField", "{{ .nope }}", TRUE), V("syntax", "{{ .", TRUE), V("rendersBadRe", "(", TRUE), V("space", "a b", TRUE) }

\* prometheus tags must not contain spaces or newlines
TagValues == { V("plain", "t1", TRUE), V("meta", "(+x)", TRUE), V("empty", "", TRUE), V("space", "a b", FALSE), V("newline", "a\nb", FALSE) }

\* files named in tls{}: config.Load reads the CA file (a missing file is an error, junk is silently ignored)
PathValues == { V("missing", "/nonexistent/verif.pem", FALSE), V("junk", "junk.pem", TRUE), V("empty", "", TRUE) }
DirValues  == { V("exists", "servers", TRUE), V("missing", "nonexistent", TRUE), V("empty", "", TRUE), V("file", "rules.yml", TRUE) }

\* PromQL accepted by parser.DecodeExpr (discovery prometheusQuery)
PromQLValues == { V("selector", "up", TRUE), V("expr", "count(up) by (job)", TRUE), V("empty", "", FALSE), V("unclosed", "up{", FALSE) }

BoolValues == { V("true", "true", TRUE), V("false", "false", TRUE) }

ValuesOf(type) ==
  CASE type = "regexp"     -> RegexpValues
    [] type = "tregexp"    -> TemplatedValues
    [] type = "rawtregexp" -> TemplatedValues
    [] type = "duration"   -> DurationValues
    [] type = "durmatch"   -> DurMatchValues
    [] type = "severity"   -> SeverityValues
    [] type = "kind"       -> EnumValues({"alerting", "recording"})
    [] type = "state"      -> EnumValues({"any", "added", "modified", "renamed", "removed", "unmodified"})
    [] type = "command"    -> EnumValues({"lint", "ci", "watch"})
    [] type = "schema"     -> EnumValues({"prometheus", "thanos"})
    [] type = "names"      -> EnumValues({"legacy", "utf-8"})
    [] type = "checkname"  -> CheckNameValues
    [] type = "int"        -> IntValues
    [] type = "selector"   -> SelectorValues
    [] type = "uptime"     -> UptimeValues
    [] type = "string"     -> StringValues
    [] type = "uri"        -> URIValues
    [] type = "dtmpl"      -> DTemplateValues
    [] type = "tag"        -> TagValues
    [] type = "path"       -> PathValues
    [] type = "dir"        -> DirValues
    [] type = "promql"     -> PromQLValues
    [] type = "bool"       -> BoolValues
    [] type = "checkblock" -> EnumValues({"promql/series", "promql/regexp"}) \cup {V("otherCheck", "promql/rate", FALSE)}

-----------------------------------------------------------------------------
(* The option table.                                                        *)
(*  vb (validatedBy):  std     the standard validator of the type          *)
(*                     grouped Match.validate: regexp.Compile(v) and then   *)
(*                             the grouped anchored form matchRegex uses    *)
(*                     none    nothing looks at the value when loading      *)
(*     and how an empty string is treated:  emptyOk  TRUE: "not set"        *)
(*  ub (usedBy):       MustExpand   TemplatedRegexp.MustExpand(rule).Match  *)
(*                     strictRegex  regexp.MustCompile("^" + v + "$")       *)
(*                     matchRegex   regexp.MustCompile("^(?:" + v + ")$")   *)
(*                     render       discovery template: rendered per server *)
(*                                  with text/template, the result goes     *)
(*                                  through PrometheusConfig.validate; any   *)
(*                                  failure is an error return              *)
(*                     ciOnly       only `pint ci` reporters read it        *)
(*                     newRequest   spliced into a URL for http.NewRequest  *)
(*                                  (an error is reported as a problem)     *)
(*                     dropErr      parsed again, error dropped, zero value *)
(*                     plain        used as a string / number               *)
(*  reach: which rules make a check (or the dispatcher) evaluate the value  *)
(*                     loopStep     used as the increment of a loop over    *)
(*                                  a time range (promapi FindGaps)         *)
(*  mode:  offline = `pint --offline lint`, online = `pint lint` (needed by *)
(*         checks that --offline disables: rule/link, promql/range_query),  *)
(*         prom = `pint lint` with a prometheus{} block pointing at a       *)
(*         server that has data (the checks that query a server)            *)
O(id, type, vb, emptyOk, ub, reach, mode) ==
  [id |-> id, type |-> type, vb |-> vb, emptyOk |-> emptyOk, ub |-> ub, reach |-> reach, mode |-> mode, pair |-> FALSE]

\* an ignore block needs a condition: an empty path / name / kind / for is "not set" and leaves the block empty
MatchOptions(b) == {   \* config/match.go Match.validate / Match.IsMatch, for b = "match" | "ignore"
  O("rule." \o b \o ".path", "regexp", "grouped", b = "match", "matchRegex", "always", "offline"),
  O("rule." \o b \o ".name", "regexp", "grouped", b = "match", "matchRegex", "always", "offline"),
  O("rule." \o b \o ".label.key", "regexp", "grouped", TRUE, "matchRegex", "always", "offline"),
  O("rule." \o b \o ".label.value", "regexp", "grouped", TRUE, "matchRegex", "always", "offline"),
  O("rule." \o b \o ".annotation.key", "regexp", "grouped", TRUE, "matchRegex", "always", "offline"),
  O("rule." \o b \o ".annotation.value", "regexp", "grouped", TRUE, "matchRegex", "always", "offline"),
  O("rule." \o b \o ".kind",             "kind",     "std",  b = "match",  "plain",       "always", "offline"),
  O("rule." \o b \o ".state",            "state",    "std",  FALSE, "plain",       "always", "offline"),
  O("rule." \o b \o ".command",          "command",  "none", TRUE,  "plain",       "always", "offline"),
  O("rule." \o b \o ".for",              "durmatch", "std",  b = "match",  "dropErr",     "always", "offline"),
  \* never validated; Match.validate does not count it as a condition either, so EXEC writes it next to
  \* kind = "alerting" inside ignore blocks
  O("rule." \o b \o ".keep_firing_for",  "durmatch", "none", TRUE,  "dropErr",     "always", "offline") }

SeverityOptions == { O("rule." \o b \o ".severity", "severity", "std", TRUE, "dropErr", "always",
                        IF b \in {"cost", "alerts"} THEN "prom" ELSE IF b \in {"link", "range_query"} THEN "online" ELSE "offline") :
  b \in {"aggregate", "annotation", "label", "cost", "alerts", "for", "keep_firing_for", "range_query",
         "report", "reject", "link", "name"} }

Options ==
  MatchOptions("match") \cup MatchOptions("ignore") \cup SeverityOptions \cup {
  \* templated patterns: validated by New(Raw)TemplatedRegexp on an empty rule, expanded per rule by MustExpand
  O("rule.aggregate.name",           "tregexp",    "std", FALSE, "MustExpand", "always",    "offline"),
  O("rule.annotation.key",           "tregexp",    "std", FALSE, "MustExpand", "alertFull", "offline"),
  O("rule.annotation.token",         "rawtregexp", "std", TRUE,  "MustExpand", "alertFull", "offline"),
  O("rule.annotation.value",         "tregexp",    "std", TRUE,  "MustExpand", "alertFull", "offline"),
  O("rule.label.key",                "tregexp",    "std", FALSE, "MustExpand", "alertFull", "offline"),
  O("rule.label.token",              "rawtregexp", "std", TRUE,  "MustExpand", "full",      "offline"),
  O("rule.label.value",              "tregexp",    "std", TRUE,  "MustExpand", "full",      "offline"),
  O("rule.reject.label_keys",        "tregexp",    "std", TRUE,  "MustExpand", "full",      "offline"),
  O("rule.reject.label_values",      "tregexp",    "std", TRUE,  "MustExpand", "full",      "offline"),
  O("rule.reject.annotation_keys",   "tregexp",    "std", TRUE,  "MustExpand", "alertFull", "offline"),
  O("rule.reject.annotation_values", "tregexp",    "std", TRUE,  "MustExpand", "alertFull", "offline"),
  O("rule.name.regex",               "tregexp",    "std", TRUE,  "MustExpand", "always",    "offline"),
  O("rule.link.regex",               "tregexp",    "std", TRUE,  "MustExpand", "alertFull", "online"),
  \* durations: validated by parseDuration, parsed again in parseRule with the error dropped
  O("rule.cost.maxEvaluationDuration", "duration", "std", TRUE,  "dropErr", "always", "prom"),
  O("rule.alerts.range",             "duration",   "std", TRUE,  "dropErr", "always", "prom"),
  O("rule.alerts.step",              "duration",   "std", TRUE,  "loopStep", "alerting", "prom"),
  O("rule.alerts.resolve",           "duration",   "std", TRUE,  "dropErr", "always", "prom"),
  O("rule.for.min",                  "duration",   "std", TRUE,  "dropErr", "always", "offline"),
  O("rule.for.max",                  "duration",   "std", TRUE,  "dropErr", "always", "offline"),
  O("rule.keep_firing_for.min",      "duration",   "std", TRUE,  "dropErr", "always", "offline"),
  O("rule.keep_firing_for.max",      "duration",   "std", TRUE,  "dropErr", "always", "offline"),
  O("rule.range_query.max",          "duration",   "nonzero", FALSE, "dropErr", "always", "online"),
  O("rule.link.timeout",             "duration",   "std", TRUE,  "dropErr", "alertFull", "online"),
  O("rule.link.uri",                 "string",     "none", TRUE, "newRequest", "alertFull", "online"),
  O("rule.report.comment",           "string",     "std", FALSE, "plain",   "always", "offline"),
  O("rule.enable",                   "checkname",  "std", FALSE, "plain",   "always", "offline"),
  O("rule.disable",                  "checkname",  "std", FALSE, "plain",   "always", "offline"),
  O("rule.cost.maxSeries",           "int",        "std", TRUE,  "plain",   "always", "prom"),
  O("rule.alerts.minCount",          "int",        "std", TRUE,  "plain",   "always", "prom"),
  \* top-level blocks
  O("parser.include",                "regexp",     "std", TRUE,  "strictRegex", "always", "offline"),
  O("parser.exclude",                "regexp",     "std", TRUE,  "strictRegex", "always", "offline"),
  O("parser.relaxed",                "regexp",     "std", TRUE,  "strictRegex", "always", "offline"),
  O("parser.schema",                 "schema",     "std", TRUE,  "plain",   "always", "offline"),
  O("parser.names",                  "names",      "std", TRUE,  "plain",   "always", "offline"),
  O("owners.allowed",                "regexp",     "std", TRUE,  "strictRegex", "always", "offline"),
  O("checks.enabled",                "checkname",  "std", FALSE, "plain",   "always", "offline"),
  O("checks.disabled",               "checkname",  "std", FALSE, "plain",   "always", "offline"),
  O("ci.maxCommits",                 "int",        "positive", FALSE, "plain", "always", "offline"),
  O("check.series.ignoreMetrics",    "regexp",     "anchored", TRUE, "plain", "always", "prom"),
  O("check.series.lookbackRange",    "duration",   "std", TRUE,  "plain",   "always", "prom"),
  O("check.series.lookbackStep",     "duration",   "std", TRUE,  "loopStep", "recording", "prom"),
  O("check.series.fallbackTimeout",  "duration",   "std", TRUE,  "plain",   "always", "prom"),
  O("check.series.ignoreLabelsValue", "selector",  "std", FALSE, "plain",   "always", "prom"),
  \* prometheus{}: newFailoverGroup (strictRegex on include/exclude, parseDuration on timeout with the error dropped)
  O("prometheus.include",            "regexp",     "std", TRUE,  "strictRegex", "always", "prom"),
  O("prometheus.exclude",            "regexp",     "std", TRUE,  "strictRegex", "always", "prom"),
  O("prometheus.timeout",            "duration",   "std", TRUE,  "dropErr", "always", "prom"),
  O("prometheus.uptime",             "uptime",     "std", TRUE,  "plain",   "always", "prom"),
  O("prometheus.uri",                "uri",        "std", FALSE, "plain",   "always", "prom"),
  O("prometheus.failover",           "uri",        "none", TRUE, "plain",   "always", "prom"),
  O("prometheus.concurrency",        "int",        "none", TRUE, "plain",   "always", "prom"),
  O("prometheus.rateLimit",          "int",        "none", TRUE, "plain",   "always", "prom"),
  O("prometheus.publicURI",          "uri",        "none", TRUE, "plain",   "always", "prom"),
  O("prometheus.headers",            "string",     "none", TRUE, "plain",   "always", "prom"),
  O("prometheus.tags",               "tag",        "std",  TRUE, "plain",   "always", "prom"),
  O("prometheus.required",           "bool",       "std",  TRUE, "plain",   "always", "prom"),
  O("prometheus.tls.serverName",     "string",     "none", TRUE, "plain",   "always", "prom"),
  O("prometheus.tls.caCert",         "path",       "std",  TRUE, "plain",   "always", "prom"),
  O("prometheus.tls.clientCert",     "path",       "never", TRUE, "plain",  "always", "prom"),   \* needs clientKey
  O("prometheus.tls.skipVerify",     "bool",       "std",  TRUE, "plain",   "always", "prom"),
  \* check "..." {} blocks: only promql/series and promql/regexp have settings
  O("check.name",                    "checkblock", "std",  FALSE, "plain",  "always", "offline"),
  O("check.regexp.smelly",           "bool",       "std",  TRUE, "plain",   "always", "offline"),
  O("check.series.ignoreMatchingElsewhere", "selector", "std", FALSE, "plain", "always", "prom"),
  O("ci.baseBranch",                 "string",     "none", TRUE, "plain",   "always", "offline"),
  \* discovery{}: Discover runs before the checks of a non-offline run; every failure is an error return (exit 1)
  O("discovery.filepath.directory",  "dir",        "none", TRUE, "plain",   "always", "prom"),
  O("discovery.filepath.match",      "regexp",     "std",  TRUE, "strictRegex", "always", "prom"),
  O("discovery.filepath.ignore",     "regexp",     "std",  TRUE, "strictRegex", "always", "prom"),
  O("discovery.filepath.template.name",    "dtmpl", "none", FALSE, "render", "always", "prom"),
  O("discovery.filepath.template.uri",     "dtmpl", "none", FALSE, "render", "always", "prom"),
  O("discovery.filepath.template.publicURI", "dtmpl", "none", TRUE, "render", "always", "prom"),
  O("discovery.filepath.template.failover", "dtmpl", "none", TRUE, "render", "always", "prom"),
  O("discovery.filepath.template.include", "dtmpl", "none", TRUE, "render", "always", "prom"),
  O("discovery.filepath.template.exclude", "dtmpl", "none", TRUE, "render", "always", "prom"),
  O("discovery.filepath.template.tags",    "dtmpl", "none", TRUE, "render", "always", "prom"),
  O("discovery.filepath.template.headers", "dtmpl", "none", TRUE, "render", "always", "prom"),
  O("discovery.filepath.template.timeout", "duration", "std", TRUE, "dropErr", "always", "prom"),
  O("discovery.filepath.template.uptime",  "uptime", "none", TRUE, "plain", "always", "prom"),  \* checked only after rendering
  O("discovery.query.uri",           "uri",        "none", TRUE, "plain",   "always", "prom"),
  O("discovery.query.query",         "promql",     "std",  FALSE, "plain",  "always", "prom"),
  O("discovery.query.timeout",       "duration",   "std",  TRUE, "dropErr", "always", "prom"),
  O("discovery.query.template.name", "dtmpl",      "none", FALSE, "render", "always", "prom"),
  O("discovery.query.template.uri",  "dtmpl",      "none", FALSE, "render", "always", "prom"),
  O("discovery.query.template.include", "dtmpl",   "none", TRUE, "render", "always", "prom"),
  \* repository{}: validated by Load, used by `pint ci` only (reporters); a lint run never looks at them
  O("repository.bitbucket.uri",      "string",     "none", FALSE, "ciOnly", "always", "offline"),
  O("repository.bitbucket.timeout",  "duration",   "std",  TRUE,  "ciOnly", "always", "offline"),
  O("repository.bitbucket.project",  "string",     "none", FALSE, "ciOnly", "always", "offline"),
  O("repository.bitbucket.repository", "string",   "none", FALSE, "ciOnly", "always", "offline"),
  O("repository.bitbucket.maxComments", "int",     "std",  TRUE,  "ciOnly", "always", "offline"),
  O("repository.github.baseuri",     "uri",        "std",  TRUE,  "ciOnly", "always", "offline"),
  O("repository.github.uploaduri",   "uri",        "std",  TRUE,  "ciOnly", "always", "offline"),
  O("repository.github.timeout",     "duration",   "std",  TRUE,  "ciOnly", "always", "offline"),
  O("repository.github.owner",       "string",     "none", FALSE, "ciOnly", "always", "offline"),
  O("repository.github.repo",        "string",     "none", FALSE, "ciOnly", "always", "offline"),
  O("repository.github.maxComments", "int",        "std",  TRUE,  "ciOnly", "always", "offline"),
  O("repository.gitlab.uri",         "string",     "none", TRUE,  "ciOnly", "always", "offline"),
  O("repository.gitlab.timeout",     "duration",   "none", TRUE,  "ciOnly", "always", "offline"),   \* GitLab.validate never parses it
  O("repository.gitlab.project",     "int",        "positive", FALSE, "ciOnly", "always", "offline"),
  O("repository.gitlab.maxComments", "int",        "std",  TRUE,  "ciOnly", "always", "offline") }

OptionById(id) == CHOOSE o \in Options : o.id = id

-----------------------------------------------------------------------------
(* Rule-content classes: one rule per file.                                 *)
(*  kind   alerting | recording                                             *)
(*  shape  full (labels foo, annotations summary + link, for,              *)
(*         keep_firing_for) | bare | pair (the full rule twice) | broken    *)
(*  where  which field carries the metacharacter text                       *)
Metas == { [m |-> "paren",   text |-> "("],
           [m |-> "bracket", text |-> "[a"],
           [m |-> "close",   text |-> "a)b"],
           [m |-> "star",    text |-> "*"],
           [m |-> "escape",  text |-> "\\"],
           [m |-> "tmpl",    text |-> "{{"] }
NoMeta == [m |-> "none", text |-> ""]
\* a link annotation whose query string holds an invalid percent escape: url.Parse accepts it, a rewrite that moves
\* it into the path makes http.NewRequest fail
PctMeta == [m |-> "pct", text |-> "http://127.0.0.1:1/?%zz"]

\* Go regexp syntax: does substituting the text (after the literal "a" when `prefixed`: rule names are "a" + text)
\* at the given position leave an invalid pattern?
\* `raw`: the pattern is compiled as written (token options), otherwise between ^ and $.
MetaBreaks(m, pos, prefixed, raw) ==
  CASE m \in {"paren", "bracket", "close"} -> TRUE
    \* "^*" is accepted, "*" alone, ".**" and "(*)" are not, "a*" always is
    [] m = "star"   -> ~prefixed /\ (pos # "start" \/ raw)
    \* "\." and "\$" are escapes, "(\)" loses its closing parenthesis, a trailing backslash is an error
    [] m = "escape" -> pos = "inGroup" \/ (raw /\ pos = "afterStar")
    [] OTHER        -> FALSE                           \* "{{" is literal text for the regexp

MetaByName(m) == IF m = "none" THEN NoMeta ELSE IF m = "pct" THEN PctMeta ELSE CHOOSE x \in Metas : x.m = m
ValueOf(type, cls) == CHOOSE v \in ValuesOf(type) : v.cls = cls

R(kind, shape, where, meta) ==
  [kind |-> kind, shape |-> shape, where |-> where, meta |-> meta.m,
   name    |-> IF where = "name"    THEN "a" \o meta.text ELSE "a1",
   foo     |-> IF where = "foo"     THEN meta.text ELSE "bar",
   summary |-> IF where = "summary" THEN meta.text ELSE "text",
   link    |-> IF where = "link"    THEN meta.text ELSE "http://127.0.0.1:1/doc"]

Rules ==
  {R(k, s, "none", NoMeta) : k \in {"alerting", "recording"}, s \in {"full", "bare"}}
  \cup {R(k, s, "name", m) : k \in {"alerting", "recording"}, s \in {"full", "bare"}, m \in Metas}
  \cup {R(k, "full", "foo", m) : k \in {"alerting", "recording"}, m \in Metas}
  \cup {R("alerting", "full", "summary", m) : m \in Metas}
  \* two copies of the full rule in one file: the same pattern is rendered to the same text twice
  \cup {R(k, "pair", "none", NoMeta) : k \in {"alerting", "recording"}}
  \cup {R(k, "pair", "foo", m) : k \in {"alerting", "recording"}, m \in Metas}
  \* a rule that fails to parse (record: foo{job="api"}): only the error is reported, but the dispatcher still
  \* evaluates every match/ignore block for it
  \cup {R("recording", "broken", "none", NoMeta)}
  \cup {R("alerting", "full", "link", PctMeta)}

IsFull(r) == r.shape \in {"full", "pair"}
RuleSig(r) == r.kind \o "/" \o r.shape \o "/" \o r.where \o "=" \o r.meta

-----------------------------------------------------------------------------
(* Impl: config.Load                                                        *)
Validates(o, v) ==
  IF v.text = "" THEN o.emptyOk
  ELSE CASE o.vb = "none"     -> TRUE
         [] o.vb = "never"    -> FALSE                                        \* tls: clientCert without clientKey
         [] o.vb = "std"      -> IF o.type = "tregexp" THEN v.okA ELSE v.ok   \* NewTemplatedRegexp anchors, then compiles
         [] o.vb = "anchored" -> v.okA                                        \* PromqlSeriesSettings.Validate
         [] o.vb = "grouped"  -> v.ok /\ v.okG                                \* validateMatchRegex (F25 fix)
         [] o.vb = "nonzero"  -> v.ok /\ v.cls # "zero"          \* range_query max cannot be zero
         [] o.vb = "positive" -> v.ok /\ v.cls # "zero"          \* ci maxCommits cannot be <= 0

(* Impl: checks/template.go newTemplateContext - which text a reference substitutes *)
\* `led`: the template writes other text (a non-empty $alert) directly in front of the label value
FieldBreaks(r, f, pos, led, raw) ==
  CASE f = "alert"      -> r.kind = "alerting"  /\ r.where = "name" /\ MetaBreaks(r.meta, pos, TRUE, raw)
    [] f = "record"     -> r.kind = "recording" /\ r.where = "name" /\ MetaBreaks(r.meta, pos, TRUE, raw)
    [] f = "for"        -> FALSE
    [] f = "labels.foo" -> IsFull(r) /\ r.where = "foo" /\ MetaBreaks(r.meta, pos, led, raw)
    \* alerting rules: annotations are copied into the Labels map, $annotations stays empty
    [] f = "labels.summary"      -> r.kind = "alerting" /\ IsFull(r) /\ r.where = "summary"
                                    /\ MetaBreaks(r.meta, pos, FALSE, raw)
    [] f = "annotations.summary" -> FALSE

\* TemplatedRegexp.Expand(rule) returns an error
ExpandErr(o, v, r) ==
  \/ v.tmpl = "execErrIfAlert" /\ r.kind = "alerting"
  \/ \E f \in v.refs : FieldBreaks(r, f, v.pos, v.cls = "refTwo" /\ r.kind = "alerting", o.type = "rawtregexp")

(* Impl: does a check evaluate the option's value for this rule              *)
Reaches(o, v, r) ==
  \* a rule that failed to parse only gets the error check: no configured check looks at it, the dispatcher
  \* (match / ignore blocks) does
  /\ r.shape = "broken" => o.ub \in {"matchRegex", "dropErr", "plain"}
  /\ CASE o.reach = "always"    -> TRUE
       [] o.reach = "full"      -> IsFull(r)
       [] o.reach = "alertFull" -> r.kind = "alerting" /\ IsFull(r)
       [] o.reach = "alerting"  -> r.kind = "alerting"
       [] o.reach = "recording" -> r.kind = "recording"

\* the use site panics
UseFails(o, v, r) ==
  CASE o.ub = "MustExpand"  -> Reaches(o, v, r) /\ ExpandErr(o, v, r) /\ ~MustExpandTotal
    [] o.ub = "strictRegex" -> Reaches(o, v, r) /\ ~v.okA      \* MustCompile("^v$"); unreachable after Compile(v):
                                                               \* anchoring a valid regexp keeps it valid (AnchorProbe)
    [] o.ub = "matchRegex"  -> Reaches(o, v, r) /\ ~v.okG      \* unreachable since validate compiles the same form
    \* rule/link: a rewritten URI that http.NewRequest refuses ("%zz") is reported as "link check failed"
    \* (before the F26 fix the error was dropped and http.Client.Do(nil) crashed)
    [] o.ub = "newRequest"  -> FALSE
    [] OTHER                -> FALSE

Accepts(o, v)   == Validates(o, v)
Panics(o, v, r) == UseFails(o, v, r)

-----------------------------------------------------------------------------
(* Two options in one block whose use sites interact: the first decides     *)
(* whether the second is evaluated for a rule.                              *)
(*  keyHits     label V1 { token|value = V2 }: the value pattern is only    *)
(*              expanded for labels the key selects (alerting: key regexp   *)
(*              matches "foo"; recording: a label literally named V1)       *)
(*  keyHitsAnn  annotation V1 { value = V2 }: key regexp matches "summary"  *)
(*  notIgnored  rule { ignore { name = V1 } name V2 {} }: an ignored rule   *)
(*              never reaches the rule/name check                           *)
(*  kindMatches rule { match { kind = V1 } name V2 {} }                     *)
PairDefs == {
  [id |-> "pair.label.key+token",            a |-> "rule.label.key",        b |-> "rule.label.token",       link |-> "keyHits"],
  [id |-> "pair.label.key+value",            a |-> "rule.label.key",        b |-> "rule.label.value",       link |-> "keyHits"],
  [id |-> "pair.annotation.key+value",       a |-> "rule.annotation.key",   b |-> "rule.annotation.value",  link |-> "keyHitsAnn"],
  [id |-> "pair.ignore.name+name",           a |-> "rule.ignore.name",      b |-> "rule.name.regex",        link |-> "notIgnored"],
  [id |-> "pair.match.kind+name",            a |-> "rule.match.kind",       b |-> "rule.name.regex",        link |-> "kindMatches"],
  [id |-> "pair.match.label.key+value",      a |-> "rule.match.label.key",  b |-> "rule.match.label.value", link |-> "always"],
  [id |-> "pair.for.min+max",                a |-> "rule.for.min",          b |-> "rule.for.max",           link |-> "always"],
  [id |-> "pair.prometheus.include+exclude", a |-> "prometheus.include",    b |-> "prometheus.exclude",     link |-> "always"] }
PairById(id) == CHOOSE p \in PairDefs : p.id = id
PairClasses == {"all", "plain", "lit", "empty", "invParen", "invStar", "openQuote", "refLabel", "refAlert", "condExec",
                "valid", "zero", "invUnit", "valid:alerting", "valid:recording", "bogus"}
PairValues(type) == {v \in ValuesOf(type) : v.cls \in PairClasses}

Linked(p, v1, r) ==
  CASE p.link = "keyHits"     -> IsFull(r) /\ IF r.kind = "alerting" THEN v1.cls \in {"all", "plain", "lit"} ELSE v1.cls = "lit"
    [] p.link = "keyHitsAnn"  -> IsFull(r) /\ r.kind = "alerting" /\ v1.cls = "all"
    [] p.link = "notIgnored"  -> v1.cls # "all"
    [] p.link = "kindMatches" -> v1.text = "" \/ v1.text = r.kind
    [] OTHER                  -> TRUE
PairAccepts(p, v1, v2) ==
  /\ Validates(OptionById(p.a), v1) /\ Validates(OptionById(p.b), v2)
  /\ p.id = "pair.for.min+max" => ~(v1.text = "" /\ v2.text = "")      \* "must set either min or max option, or both"
PairPanics(p, v1, v2, r) ==
  \/ UseFails(OptionById(p.a), v1, r)
  \/ Linked(p, v1, r) /\ UseFails(OptionById(p.b), v2, r)

\* Not a crash: a zero step makes promapi.SeriesTimeRanges.FindGaps (`for t := start; t < end; t = t.Add(step)`)
\* spin forever as soon as a range query returns a series (checks.AlertsCheck; checks.SeriesCheck for a metric that
\* is absent now but has history). Neither validator refuses a zero step. A stall is not a crash: outside C18
\* (fixes/c18-zero-step-hangs.patch is kept for reference); JUDGE binds recorded hangs to this operator and the
\* driver prints them as NOTE.
Stalls(o, v, r) == o.ub = "loopStep" /\ Reaches(o, v, r) /\ Accepts(o, v) /\ v.cls = "zero"

-----------------------------------------------------------------------------
(* State machine: choose a case, load the configuration, lint the rule.     *)
VARIABLES opt, val, val2, rule, pc, accepted, panicked
vars == <<opt, val, val2, rule, pc, accepted, panicked>>
None == [cls |-> "none", text |-> "", refs |-> {}, tmpl |-> "none"]

Init == opt = None /\ val = None /\ val2 = None /\ rule = None /\ pc = "ChooseOption" /\ accepted = FALSE /\ panicked = FALSE

ChooseOption(o) == pc = "ChooseOption" /\ opt' = o /\ pc' = "ChooseValue" /\ UNCHANGED <<val, val2, rule, accepted, panicked>>
\* a pair is handled as its first option carrying the pair definition along
PairOpt(p) == [pdef |-> p] @@ [OptionById(p.a) EXCEPT !.id = p.id, !.pair = TRUE]
ChoosePair(p)   == pc = "ChooseOption" /\ opt' = PairOpt(p) /\ pc' = "ChooseValue" /\ UNCHANGED <<val, val2, rule, accepted, panicked>>
ChooseValue(v)  == /\ pc = "ChooseValue" /\ val' = v /\ pc' = IF opt.pair THEN "ChooseValue2" ELSE "ChooseRule"
                   /\ ~(opt.id = "prometheus.rateLimit" /\ v.cls = "one")   \* one request per second is slow by design
                   /\ UNCHANGED <<opt, val2, rule, accepted, panicked>>
ChooseValue2(v) == pc = "ChooseValue2" /\ val2' = v /\ pc' = "ChooseRule" /\ UNCHANGED <<opt, val, rule, accepted, panicked>>
\* values that do not look at the rule meet the four plain rules and one rule per metacharacter position
Thin(r) == r.where = "none" \/ r.meta = "paren" \/ r.where = "link"
ChooseRule(r)   == /\ pc = "ChooseRule"
                   /\ Full \/ val.refs # {} \/ val.tmpl = "execErrIfAlert" \/ val2.refs # {} \/ val2.tmpl = "execErrIfAlert"
                      \/ IF opt.ub \in {"MustExpand", "strictRegex", "matchRegex", "newRequest"} THEN Thin(r)
                         \* values that are only parsed or copied meet one rule of each kind and the unparsable rule
                         ELSE r.where = "none" /\ r.shape \in {"full", "broken"}
                   /\ opt.pair => (r.where \in {"none", "foo"} /\ r.meta \in {"none", "paren"} /\ r.shape \in {"full", "bare"})
                   \* a stalling run costs EXEC its whole deadline: one rule of each kind is enough
                   /\ (opt.ub = "loopStep" /\ val.cls = "zero") => (r.where = "none" /\ r.shape = "full")
                   \* the link annotation variant only matters to the link check
                   /\ r.where = "link" => (Full \/ opt.id \in {"rule.link.uri", "rule.link.regex", "rule.link.timeout"})
                   /\ rule' = r /\ pc' = "Load" /\ UNCHANGED <<opt, val, val2, accepted, panicked>>
CaseAccepts == IF opt.pair THEN PairAccepts(opt.pdef, val, val2) ELSE Accepts(opt, val)
CasePanics  == IF opt.pair THEN PairPanics(opt.pdef, val, val2, rule) ELSE Panics(opt, val, rule)
\* config.Load: every validate() method
Load == /\ pc = "Load" /\ accepted' = CaseAccepts
        /\ pc' = IF CaseAccepts THEN "Lint" ELSE "Rejected"
        /\ UNCHANGED <<opt, val, val2, rule, panicked>>
\* GetChecksForEntry -> parseRule -> checks (scanWorker goroutine): a panic kills the process
Lint == /\ pc = "Lint" /\ panicked' = CasePanics /\ pc' = "Done"
        /\ UNCHANGED <<opt, val, val2, rule, accepted>>

Next == \/ \E o \in Options : ChooseOption(o)
        \/ \E p \in PairDefs : ChoosePair(p)
        \/ (pc = "ChooseValue" /\ \E v \in (IF opt.pair THEN PairValues(opt.type) ELSE ValuesOf(opt.type)) : ChooseValue(v))
        \/ (pc = "ChooseValue2" /\ \E v \in PairValues(OptionById(opt.pdef.b).type) : ChooseValue2(v))
        \/ (pc = "ChooseRule" /\ \E r \in Rules : ChooseRule(r))
        \/ Load \/ Lint
Spec == Init /\ [][Next]_vars

\* C18
Inv_C18 == accepted => ~panicked
\* every rejected value is one the validator is documented to refuse (no accepted-but-unusable class is hidden
\* behind a rejection): values the type's validator accepts are only rejected for being empty / zero
Inv_RejectsOnlyInvalid == (pc = "Rejected" /\ ~opt.pair) =>
  (~val.ok \/ val.text = "" \/ val.cls = "zero" \/ (opt.vb = "grouped" /\ ~val.okG) \/ opt.vb = "never")
\* the assumption behind every strictRegex use: what regexp.Compile accepts stays valid between ^ and $
Inv_AnchorKeepsValid == \A v \in RegexpValues : v.ok => v.okA
\* ... which does not hold for the grouped form (\Q): that is why Match.validate has to compile the grouped form itself
Inv_GroupedNeedsOwnValidation == \E v \in RegexpValues : v.ok /\ ~v.okG

CaseOf(o, v, r) == [opt |-> o.id, type |-> o.type, mode |-> o.mode, cls |-> v.cls, text |-> v.text,
                    pair |-> o.pair, cls2 |-> val2.cls, text2 |-> val2.text,
                    rule |-> [kind |-> r.kind, shape |-> r.shape, where |-> r.where, meta |-> r.meta,
                              name |-> r.name, foo |-> r.foo, summary |-> r.summary, link |-> r.link]]
\* GEN: one case per (option, value, rule)
EmitCase == pc # "Load" \/ PrintT(<<"CASE", ToJson(CaseOf(opt, val, rule))>>)
=============================================================================
