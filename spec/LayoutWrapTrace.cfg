SPECIFICATION TraceSpec
CONSTANTS
  TraceFile = "c19_trace.ndjson"
CHECK_DEADLOCK FALSE
