------------------------ MODULE ConfigTotalityTrace ------------------------
(***************************************************************************)
(* JUDGE for C18: one record per (configuration, rule file) executed with  *)
(* the real pint binary (harness exec-c18).                                *)
(*   AnchorProbe  the real regexp package was asked, for every short       *)
(*                metacharacter string, whether it compiles alone but not  *)
(*                between ^ and $ (the assumption behind strictRegex), and *)
(*                whether it compiles alone but not inside ^(?: )$         *)
(*   Case   opt, cls, rule   the abstract case                             *)
(*          accepted         `pint config` exited 0 on the generated HCL   *)
(*          ran, exit, panic what `pint [--offline] lint` did on the rule  *)
(*          hang             the run outlived the deadline twice (reported *)
(*                           as a lead: a stall is not a crash)            *)
(* Verdict (4a): accepted /\ (panic \/ exit \notin {0,1})  is a violation. *)
(* Binding (4b): accepted = Accepts(opt, value), crash = Panics(...).      *)
(***************************************************************************)
EXTENDS ConfigTotality

TraceLog == ndJsonDeserialize("c18_trace.ndjson")

VARIABLES l, done
tvars == <<vars, l, done>>
Rec == TraceLog[l]

TraceInit == Init /\ l = 1 /\ done = FALSE

Crashed(r) == r.ran /\ ~r.hang /\ (r.panic \/ r.exit \notin {0, 1})

TAnchorProbe ==
  /\ l <= Len(TraceLog) /\ Rec.ev = "AnchorProbe"
  /\ IF Rec.witnesses = 0 THEN TRUE
     ELSE PrintT(<<"DRIFT", 0, ToJson([what |-> "a regexp valid alone but not between ^ and $ exists", example |-> Rec.example])>>)
  \* the grouped form is different (Inv_GroupedNeedsOwnValidation): the probe must find the \Q family
  /\ IF Rec.groupedWitnesses > 0 THEN TRUE
     ELSE PrintT(<<"DRIFT", 0, ToJson([what |-> "no regexp is valid alone but invalid inside ^(?: )$", example |-> ""])>>)
  /\ l' = l + 1 /\ UNCHANGED <<vars, done>>

TCase ==
  /\ l <= Len(TraceLog) /\ Rec.ev = "Case"
  /\ LET pd == IF Rec.pair THEN PairById(Rec.opt) ELSE [a |-> Rec.opt, b |-> Rec.opt, id |-> Rec.opt, link |-> "always"]
         o == [OptionById(pd.a) EXCEPT !.id = Rec.opt]
         v == ValueOf(o.type, Rec.cls)
         v2 == IF Rec.pair THEN ValueOf(OptionById(pd.b).type, Rec.cls2) ELSE None
         r == R(Rec.rule.kind, Rec.rule.shape, Rec.rule.where, MetaByName(Rec.rule.meta))
         acc == IF Rec.pair THEN PairAccepts(pd, v, v2) ELSE Accepts(o, v)
         pan == IF Rec.pair THEN PairPanics(pd, v, v2, r) ELSE Panics(o, v, r)
         sig == "C18:" \o o.id \o ":" \o v.cls \o (IF Rec.pair THEN "+" \o v2.cls ELSE "") \o ":" \o RuleSig(r) IN
     /\ IF Rec.accepted /\ Crashed(Rec)
        THEN PrintT(<<"VIOL", Rec.id, ToJson([sig |-> sig, opt |-> o.id, cls |-> v.cls, text |-> v.text, rule |-> Rec.rule,
                                               exit |-> Rec.exit, panic |-> Rec.panic, where |-> Rec.frame])>>)
        ELSE TRUE
     /\ IF Rec.hang THEN PrintT(<<"HANG", Rec.id, sig>>) ELSE TRUE
     /\ IF Rec.accepted = acc /\ Crashed(Rec) = (acc /\ pan)
           /\ (Rec.accepted => Rec.ran) /\ v.text = Rec.text /\ v2.text = Rec.text2
           /\ Rec.hang = (~Rec.pair /\ Stalls(o, v, r)) /\ Rec.mode = o.mode
        THEN TRUE
        ELSE PrintT(<<"DRIFT", Rec.id, ToJson([sig |-> sig, text |-> v.text,
                       expected |-> [accepted |-> acc, crash |-> (acc /\ pan)],
                       observed |-> [accepted |-> Rec.accepted, crash |-> Crashed(Rec), exit |-> Rec.exit, hang |-> Rec.hang,
                                     err |-> Rec.loadErr]])>>)
  /\ l' = l + 1 /\ UNCHANGED <<vars, done>>

TDone ==
  /\ l = Len(TraceLog) + 1 /\ ~done
  /\ done' = TRUE /\ PrintT(<<"DONE", l - 1>>)
  /\ UNCHANGED <<vars, l>>

TraceNext == TAnchorProbe \/ TCase \/ TDone
TraceSpec == TraceInit /\ [][TraceNext]_tvars
=============================================================================
