SPECIFICATION GenSpec
CONSTANTS
  MaxRuns = 4
  MaxSeeds = 3
  Budgets = {0, 1, 2, 3}
  Platforms = {"gitlab", "github", "bitbucket"}
  Strips = {FALSE, TRUE}
  Shifts = {0, 1}
  Mods = {"all", "first"}
  Probs = {"P1", "P2", "P3", "P4", "P5", "P6", "P7"}
  Pads = {0, 35}
  Padfs = {0, 35}
  Showdups = {FALSE, TRUE}
  FaultOps = {"list", "create", "delete", "summary"}
  FaultKs = {1, 2}
INVARIANTS EmitCase
CHECK_DEADLOCK FALSE
