----------------------------- MODULE SeriesCheck -----------------------------
(***************************************************************************)
(* promql/series: internal/checks/promql_series.go, at the level of the    *)
(* probing queries it sends and the class of verdict it reaches.           *)
(*                                                                         *)
(* Scenario (what the server holds and what the rule file says):           *)
(*   one metric m with two candidate series A = m{l="v1"}, B = m{l="v2"},  *)
(*   each with a history over the lookback window; the uptime metric with  *)
(*   its own history; the rule under test uses ONE selector on m of one of *)
(*   five shapes (or ALERTS{alertname="X"}); other rules in the checked    *)
(*   set; an exemption (comment or configuration).                         *)
(*                                                                         *)
(* Time: the lookback window [From, Until] is 8 h, Until = now. Histories  *)
(* are sets of 30-minute cells; cell c = [From + 10m + 30m*c, +30m), so    *)
(* every edge of a history is >= 10 minutes (2 lookback steps) away from   *)
(* the thresholds the check compares with (From + step, Until - step,      *)
(* Until - min-age for whole-hour min-ages). Minutes since From are used   *)
(* where the check compares instants.                                      *)
(*                                                                         *)
(* Impl side : Verdict(sc) - the decision tree, stage by stage.            *)
(* Doc side  : P1, P2 (docs/checks/promql/series.md): the only predicates  *)
(*             that carry a verdict.                                       *)
(***************************************************************************)
EXTENDS Integers, Sequences, FiniteSets, TLC, Json

CONSTANT Stratum    \* "all": every data history; "never": only scenarios whose metric never had a sample (P2 stratum);
                    \* "now": only scenarios whose selector returns series now (P1 stratum);
                    \* "queued": the series appears while the probe is queued (history "appearing", nowhere else)

Cells == -3..15
InWin == -1..15              \* cells that reach into the lookback window
NowCell == 15                \* the cell containing now
Step == 5                    \* lookbackStep, minutes
Lookback == 480              \* lookbackRange, minutes

HistNames == {"never", "always", "gone_long", "gone_mid", "gone_recent", "flap_now", "flap_gone", "new_recent", "new_long", "appearing"}
Hist(h) == CASE h = "never"       -> {}
             [] h = "always"      -> Cells
             [] h = "gone_long"   -> -3..6      \* last seen about 4h20m ago
             [] h = "gone_mid"    -> -3..10     \* about 2h20m ago: beyond the default min-age (2h), inside 3h
             [] h = "gone_recent" -> -3..12     \* about 1h20m ago: inside the default min-age, beyond 1h
             [] h = "flap_now"    -> (-3..3) \cup (6..9) \cup (12..15)
             [] h = "flap_gone"   -> (-3..3) \cup (6..9)
             [] h = "new_recent"  -> 13..15
             [] h = "new_long"    -> 4..15
             [] h = "appearing"   -> {15}       \* the first sample is written while the check's first probe waits in the
                                                \* client's queue (one worker, busy with a slow query): Stratum "queued" only
UpNames == {"always", "gap", "none"}
\* "gap": the uptime metric exists exactly where the history flap_gone has samples, so that a series with that history
\* has NO gap that Prometheus' own uptime does not explain (FindGaps only counts points covered by the uptime ranges)
UpHist(u) == CASE u = "always" -> Cells [] u = "gap" -> (-3..3) \cup (6..9) [] u = "none" -> {}

Shapes == {"bare", "eq", "nm", "re", "neq", "nolabel", "alerts"}    \* nm: {__name__="m", l="v1"}
RuleSets == {"none", "rr_same", "rr_other", "alert_same", "alert_other", "alert_named"}
            \* alert_named: an ALERTING rule whose name equals the metric name - it produces ALERTS series, not the metric
Exempts == {"none", "disable", "disable_other", "snooze", "snooze_expired", "ignore", "ignore_other", "minage1h", "minage3h"}

\* how the selector is used in the rule expression: `sel > 0`, `sum(sel) > 0`, `rate(sel[5m]) > 0`,
\* `sel * zf > 0`, `zf * sel > 0` where zf is a second metric that never existed (so the rule has two
\* selectors and the other one always earns a Bug of its own). The check extracts the selectors
\* (getNonFallbackSelectors) in source order.
\* `m{z="1"} * sel > 0` with `# pint disable promql/series(m{z="1"})`: another selector of the SAME metric is
\* switched off by a selector-scoped comment, which must not silence the selector under test.
\* `sum(sel) / (sum(zf) or vector(1)) > 0`: the OTHER operand has a vector() fallback (documented: that operand is
\* not checked), the selector under test has none and must still be checked.
\* `histogram_fraction(0, 1024, rate(sel[5m])) > 0`: the vector is the THIRD argument of the call.
Wraps == {"cmp", "sum", "rate", "mul_first", "mul_second", "same_second", "div_fallback", "hfrac"}

Scenario == [shape : Shapes, ha : HistNames, hb : HistNames, up : UpNames, rules : RuleSets, exempt : Exempts, wrap : Wraps]

-----------------------------------------------------------------------------
(* What the server holds, per selector                                     *)

SelText(sh) == CASE sh = "bare" -> "M" [] sh = "eq" -> "M{l='v1'}" [] sh = "nm" -> "{__name__='M',l='v1'}" [] sh = "re" -> "M{l=~'v.*'}"
                 [] sh = "neq" -> "M{l!='v1'}" [] sh = "nolabel" -> "M{k='v'}" [] sh = "alerts" -> "ALERTS{alertname='X'}"
\* cells in which the selector returns something (the alerts shape stores both series with alertname="X")
SelCells(sc) == CASE sc.shape \in {"bare", "re", "alerts"} -> Hist(sc.ha) \cup Hist(sc.hb)
                  [] sc.shape \in {"eq", "nm"} -> Hist(sc.ha)
                  [] sc.shape = "neq"     -> Hist(sc.hb)
                  [] sc.shape = "nolabel" -> {}
MetricCells(sc) == Hist(sc.ha) \cup Hist(sc.hb)      \* the bare metric: stripLabels(selector)

-----------------------------------------------------------------------------
(* Ranges and gaps as the client computes them (RangeQuery + FindGaps), in *)
(* minutes since From.                                                     *)

Max2(a, b) == IF a > b THEN a ELSE b
Min2(a, b) == IF a < b THEN a ELSE b
Runs(S) ==      \* maximal runs <<a, b>> of consecutive cells of S that reach into the window
  LET W == S \cap InWin IN
  {ab \in W \X W : /\ ab[1] <= ab[2]
                   /\ \A c \in ab[1]..ab[2] : c \in W
                   /\ (ab[1] - 1) \notin W /\ (ab[2] + 1) \notin W}
\* a series seen from cell a to cell b: first sample at 10+30a, last at 39+30b, visible 5 more minutes
\* (lookback delta), range end = last grid point + step - 1s
RangeOf(ab) == [s |-> Max2(0, 10 + 30 * ab[1]), e |-> Min2(Lookback + 4, 40 + 30 * ab[2] + 7)]
Ranges(S) == {RangeOf(ab) : ab \in Runs(S)}
Oldest(R) == CHOOSE x \in {r.s : r \in R} : \A r \in R : x <= r.s
Newest(R) == CHOOSE x \in {r.e : r \in R} : \A r \in R : x >= r.e
\* FindGaps: grid points not covered by the series but covered by the uptime ranges. A missing uptime
\* metric is replaced by one dummy range over the whole window.
UpCells(sc) == IF UpHist(sc.up) = {} THEN Cells ELSE UpHist(sc.up)
GapCells(S, sc) == (InWin \ S) \cap UpCells(sc)
GapRuns(S, sc) == LET G == GapCells(S, sc) IN
  {ab \in G \X G : /\ ab[1] <= ab[2] /\ \A c \in ab[1]..ab[2] : c \in G
                   /\ (ab[1] - 1) \notin G /\ (ab[2] + 1) \notin G}
Touch(x, y) == x[1] <= y[2] + 1 /\ y[1] <= x[2] + 1     \* promapi.Overlaps incl. its one-step adjacency

-----------------------------------------------------------------------------
(* Exemptions and rules                                                    *)

Skipped(sc)   == sc.exempt \in {"disable", "snooze"}          \* isDisabled / isSnoozed
Ignored(sc)   == sc.exempt = "ignore"                          \* ignoreMetrics matches: Bug -> Warning
Sev(sc)       == IF Ignored(sc) THEN "Warning" ELSE "Bug"      \* textAndSeverity
MinAge(sc)    == CASE sc.exempt = "minage1h" -> 60 [] sc.exempt = "minage3h" -> 180 [] OTHER -> 120
HasRR(sc)     == sc.rules = "rr_same"
HasAlert(sc)  == sc.rules = "alert_same"
Orphans(sc)   == IF sc.exempt = "disable_other"
                 THEN {[class |-> "orphan-comment", sev |-> "Warning", at |-> "rule", about |-> "-", ago |-> -1]} ELSE {}

-----------------------------------------------------------------------------
(* Impl: the decision tree. Result: probes sent (in order) and problems.   *)

\* a problem: class of the message, severity, what the diagnostic underlines (the whole selector, one matcher, the
\* whole rule expression, or "other" = the other selector of a two-selector rule), the label / matcher the message
\* names ("-" = none) and "last present X ago" in half hours (-1 = not stated)
PX(class, sev, at, about, ago) == [class |-> class, sev |-> sev, at |-> at, about |-> about, ago |-> ago]
P(class, sev) == PX(class, sev, "selector", "-", -1)
Out(probes, problems, sc) == [probes |-> probes, problems |-> problems \cup Orphans(sc)]

PosLabel(sh) == CASE sh \in {"eq", "nm", "re"} -> "l" [] sh = "nolabel" -> "k" [] OTHER -> "-"   \* labelNames / positive matcher
\* series with the label of the positive matcher (for absent(m{label=~".+"}))
WithLabel(sc) == IF PosLabel(sc.shape) = "l" THEN MetricCells(sc) ELSE {}
\* series matching the single positive matcher alone (stage 5..7 query)
MatchCells(sc) == CASE sc.shape \in {"eq", "nm"} -> Hist(sc.ha) [] sc.shape = "re" -> MetricCells(sc) [] OTHER -> {}
\* ... rendered with the metric name in front (labelSelector: Name = metricName, the one matcher)
MatchText(sh) == CASE sh \in {"eq", "nm"} -> "M{l='v1'}" [] sh = "re" -> "M{l=~'v.*'}" [] sh = "nolabel" -> "M{k='v'}" [] OTHER -> "-"

MatcherText(sh) == CASE sh \in {"eq", "nm"} -> "l='v1'" [] sh = "re" -> "l=~'v.*'" [] sh = "nolabel" -> "k='v'" [] OTHER -> "-"
\* sinceDesc(newest(ranges)) in half hours: the range ends 5..10 minutes after the last sample of the run
AgoOf(R) == (Lookback - Newest(R)) \div 30

I(q) == "i:" \o q
R(q) == "r:" \o q

\* the selector under test; prior = an earlier selector of the same rule has already produced a problem
Target(sc, prior) ==
  LET sel == SelText(sc.shape)
      lbl == PosLabel(sc.shape)
      p1  == << I("count(" \o sel \o ")") >>
      p2  == p1 \o << R("count(UP)"), R("count(M)") >>
      p3  == p2 \o << R("absent(M{" \o lbl \o "=~'.+'})") >>
      p4  == p3 \o << R("count(" \o MatchText(sc.shape) \o ")") >>
      trs == Ranges(MetricCells(sc))
      baseGaps == GapRuns(MetricCells(sc), sc)
      \* stage 3: absent(m{label=~".+"})
      absCells == Cells \ WithLabel(sc)
      absRanges == Ranges(absCells)
      absGaps == GapCells(absCells, sc)
      labelNever == /\ lbl # "-" /\ absRanges # {} /\ trs # {}      \* an absent range touches a series range
                    /\ Cardinality(absRanges) = 1 /\ absGaps = {}
      \* stage 5..7
      lr == Ranges(MatchCells(sc))
      lGaps == GapRuns(MatchCells(sc), sc)
      gapOutside == \E lg \in lGaps : ~ \E bg \in baseGaps : Touch(lg, bg)
  IN
  IF Skipped(sc) THEN Out(<< >>, {}, sc)
  ELSE IF sc.shape = "alerts"                                                   \* 0. ALERTS / ALERTS_FOR_STATE
       THEN IF HasAlert(sc) THEN Out(<< >>, {}, sc) ELSE Out(<< >>, {P("unknown-alert", "Bug")}, sc)
  ELSE IF NowCell \in SelCells(sc) THEN Out(p1, {}, sc)                         \* 1. the selector returns series
  ELSE IF trs = {}                                                              \* 2. never there
       THEN IF HasRR(sc) THEN Out(p2, {P("rr", "Information")}, sc) ELSE Out(p2, {P("never", Sev(sc))}, sc)
  ELSE IF labelNever THEN Out(p3, {PX("label-never", "Bug", "selector", lbl, -1)}, sc)   \* 3. label never there
  ELSE LET pp == IF lbl = "-" THEN p2 ELSE p3 IN
  IF prior THEN Out(pp, {}, sc)          \* `if len(problems) > 0 { continue }` looks at the problems of the whole rule
  ELSE IF Cardinality(trs) = 1 /\ Oldest(trs) <= Step /\ Newest(trs) < Lookback - Step      \* 4. was always there, now gone
  THEN IF Newest(trs) >= Lookback - MinAge(sc) THEN Out(pp, {}, sc) ELSE Out(pp, {PX("disappeared", Sev(sc), "selector", "-", AgoOf(trs))}, sc)
  ELSE LET valueProblem ==                                                            \* 5..7: the positive matcher alone
             IF lbl = "-" THEN {}
             ELSE IF lr = {} THEN {PX("value-never", Sev(sc), "matcher", MatcherText(sc.shape), -1)}   \* 5. value never there
             ELSE IF Cardinality(lr) = 1 /\ Newest(lr) < Lookback - Step
                  THEN IF gapOutside /\ Newest(lr) < Lookback - MinAge(sc)
                       THEN {PX("value-disappeared", Sev(sc), "matcher", MatcherText(sc.shape), AgoOf(lr))}   \* 6. value gone for > min-age
                       ELSE {}                                                           \*    (recently, or inside gaps of the metric)
             ELSE IF Cardinality(lr) > 1 /\ lGaps # {} THEN {PX("value-sometimes", "Warning", "matcher", MatcherText(sc.shape), -1)}   \* 7.
             ELSE {}
           last == IF lbl = "-" THEN pp ELSE p4
       IN
       IF valueProblem # {} THEN Out(last, valueProblem, sc)
       ELSE IF trs # {} /\ baseGaps # {} THEN Out(last, {P("sometimes", "Warning")}, sc)  \* 8. sometimes there
       ELSE Out(last, {}, sc)

\* the other selector of the mul_* wrappers: a metric that never existed and that nothing exempts
ZFProbes == << I("count(ZF)"), R("count(UP)"), R("count(ZF)") >>
ZFProblems == {PX("never", "Bug", "other", "-", -1)}
RECURSIVE DedupFrom(_, _, _)
DedupFrom(sq, k, acc) == IF k > Len(sq) THEN acc
                         ELSE DedupFrom(sq, k + 1, IF \E i \in 1..Len(acc) : acc[i] = sq[k] THEN acc ELSE Append(acc, sq[k]))
Dedup(sq) == DedupFrom(sq, 1, << >>)       \* identical range queries are answered by the client's cache

Verdict(sc) ==
  CASE sc.wrap = "mul_first"  -> LET t == Target(sc, FALSE) IN
                                 [probes |-> Dedup(t.probes \o ZFProbes), problems |-> t.problems \cup ZFProblems]
    [] sc.wrap = "mul_second" -> LET t == Target(sc, TRUE) IN
                                 [probes |-> Dedup(ZFProbes \o t.probes), problems |-> t.problems \cup ZFProblems]
    [] OTHER -> Target(sc, FALSE)
\* problems that point at the selector under test (the mul_* wrappers add a Bug for the other selector)
OnTarget(sc) == Target(sc, sc.wrap = "mul_second").problems \ Orphans(sc)

-----------------------------------------------------------------------------
(* Doc side: the two documented promises (docs/checks/promql/series.md)    *)

MissingClasses == {"never", "rr", "label-never", "disappeared", "value-never", "value-disappeared", "value-sometimes", "sometimes"}
                  \* all reported under the summary "query on nonexistent series"

\* P1: an instant query for the selector currently returns series => no "missing"-type problem
P1(returnsNow, problems) == returnsNow => ~ \E p \in problems : p.class \in MissingClasses

\* P2: the metric had no sample at all in the lookback, no rule of the checked set produces it, and
\* there is no explicit exemption => a Bug (or worse) for that selector
Produced(sc) == IF sc.shape = "alerts" THEN sc.rules = "alert_same" ELSE sc.rules = "rr_same"
Exempt(sc)   == sc.exempt \in {"disable", "snooze", "ignore", "minage1h", "minage3h"}
P2(noSample, sc, problems) ==
  (noSample /\ ~Produced(sc) /\ ~Exempt(sc)) => \E p \in problems : p.sev \in {"Bug", "Fatal"}

\* what the scenario says about the two antecedents (checked against the real engine by JUDGE)
ReturnsNow(sc) == NowCell \in SelCells(sc)
NoSample(sc)   == MetricCells(sc) \cap InWin = {}

-----------------------------------------------------------------------------
(* State machine: Choose a scenario, Eval it.                              *)

VARIABLES sc, pc, out
vars == <<sc, pc, out>>

\* scenarios on which the documentation is silent stay out: the alerts shape with rule sets about
\* recording rules and vice versa are harmless and kept
Init == /\ sc \in [shape : Shapes, ha : {"never"}, hb : {"never"}, up : {"always"}, rules : {"none"}, exempt : {"none"}, wrap : Wraps]
        /\ pc = "data" /\ out = [probes |-> << >>, problems |-> {}]
Regular == HistNames \ {"appearing"}
ChooseData ==  /\ pc = "data"
               /\ \E a \in (CASE Stratum = "never" -> {"never"} [] Stratum = "queued" -> {"appearing"} [] OTHER -> Regular),
                     b \in (IF Stratum \in {"never", "queued"} THEN {"never"} ELSE Regular),
                     u \in (IF Stratum = "queued" THEN {"always"} ELSE UpNames) :
                       /\ sc' = [sc EXCEPT !.ha = a, !.hb = b, !.up = u]
                       /\ Stratum = "now" => NowCell \in SelCells(sc')
                       /\ Stratum = "queued" => sc.shape \in {"bare", "eq", "nm", "re"}
               /\ pc' = "rules" /\ UNCHANGED out
ChooseRules == /\ pc = "rules"
               /\ \E r \in (IF Stratum = "queued" THEN {"none"} ELSE RuleSets),
                     e \in (IF Stratum = "queued" THEN {"none", "ignore_other", "snooze_expired"} ELSE Exempts) :
                       sc' = [sc EXCEPT !.rules = r, !.exempt = e]
               /\ pc' = "eval" /\ UNCHANGED out
Eval ==        /\ pc = "eval" /\ out' = Verdict(sc) /\ pc' = "done" /\ UNCHANGED sc
Next == ChooseData \/ ChooseRules \/ Eval
Spec == Init /\ [][Next]_vars

Inv_P1 == pc = "done" => P1(ReturnsNow(sc), OnTarget(sc))
Inv_P2 == pc = "done" => P2(NoSample(sc), sc, OnTarget(sc))
\* not vacuous: both antecedents and every class occur (checked by the driver through EmitCase counts)

CellSeq(S) == LET RECURSIVE F(_) F(k) == IF k > 15 THEN << >> ELSE (IF k \in S THEN << k >> ELSE << >>) \o F(k + 1) IN F(-3)
CaseOf == [shape |-> sc.shape, ha |-> CellSeq(Hist(sc.ha)), hb |-> CellSeq(Hist(sc.hb)), up |-> CellSeq(UpHist(sc.up)),
           noup |-> sc.up = "none", rules |-> sc.rules, exempt |-> sc.exempt,
           han |-> sc.ha, hbn |-> sc.hb, upn |-> sc.up, wrap |-> sc.wrap]
EmitCase == pc = "done" => PrintT(<<"CASE", ToJson(CaseOf)>>)
=============================================================================
