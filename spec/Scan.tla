-------------------------------- MODULE Scan --------------------------------
(***************************************************************************)
(* Fan-out / fan-in of pint's check jobs and the folding of their reports  *)
(* (property C11).                                                         *)
(*                                                                         *)
(* Part A  pure transcriptions of internal/reporter/reporter.go:           *)
(*           Report.isEqual, Summary.Report/hasReport  -> IsEqual, Collect *)
(*           SortReports, cmpDiags, cmpDiagnostics     -> SortReports, ... *)
(*           slices.SortStableFunc (n <= 20: insertion sort)               *)
(*           Dedup, isSameIssue                        -> Dedup, ...       *)
(*           console / JSON reporters (what they read) -> RenderAll        *)
(* Part B  the channel machine of cmd/pint/scan.go checkRules/scanWorker:  *)
(*           dispatcher, W workers, closer, collector; opaque reports.     *)
(*           Termination, nothing lost, no send on a closed channel, and   *)
(*           the arrival orders are exactly order-preserving interleavings *)
(*           of the per-job report sequences.                              *)
(* Part C  C11 at model level: for every bag of reports (grown from atoms  *)
(*           that tie on prefixes of the sort key) satisfying the premise  *)
(*           under which the order is total, every interleaving renders    *)
(*           like the canonical one.                                       *)
(* Strings are represented by their rank (order preserving).               *)
(***************************************************************************)
EXTENDS Integers, Sequences, FiniteSets, TLC, Json

CONSTANTS Shapes,     \* Part B: set of job shapes; a shape is a sequence of job sizes (reports per job)
          Ws,         \* Part B: set of worker counts
          MaxJobs, MaxPerJob, MaxReports   \* Part C: bounds of the bags

-----------------------------------------------------------------------------
(* Part A                                                                   *)
Cmp(a, b) == IF a < b THEN 0 - 1 ELSE IF a > b THEN 1 ELSE 0
RECURSIVE OrSeq(_, _)
OrSeq(s, k) == IF k > Len(s) THEN 0 ELSE IF s[k] # 0 THEN s[k] ELSE OrSeq(s, k + 1)
CmpOr(s) == OrSeq(s, 1)                                        \* cmp.Or

\* reporter.go cmpDiags
CmpDiags(a, b) == CmpOr(<<Cmp(b.fc, a.fc), Cmp(a.lc, b.lc), Cmp(a.msg, b.msg)>>)

\* slices.SortStableFunc for n <= 20 elements (one insertionSortCmpFunc block):
\*   for i := a + 1; i < b; i++ { for j := i; j > a && cmp(data[j], data[j-1]) < 0; j-- { swap(j, j-1) } }
Swap(s, a, b) == [s EXCEPT ![a] = s[b], ![b] = s[a]]
RECURSIVE BubbleD(_, _)
BubbleD(s, j) == IF j > 1 /\ CmpDiags(s[j], s[j - 1]) < 0 THEN BubbleD(Swap(s, j, j - 1), j - 1) ELSE s
RECURSIVE ISortD(_, _)
ISortD(s, i) == IF i > Len(s) THEN s ELSE ISortD(BubbleD(s, i), i + 1)
SortDiags(ds) == ISortD(ds, 2)

\* slices.CompareFunc(sa, sb, cmpDiags): element-wise, the shorter sequence first
RECURSIVE CmpSeqD(_, _, _)
CmpSeqD(sa, sb, k) ==
  IF k > Len(sa) /\ k > Len(sb) THEN 0
  ELSE IF k > Len(sa) THEN 0 - 1 ELSE IF k > Len(sb) THEN 1
  ELSE IF CmpDiags(sa[k], sb[k]) # 0 THEN CmpDiags(sa[k], sb[k]) ELSE CmpSeqD(sa, sb, k + 1)
\* reporter.go cmpDiagnostics, exactly as written (the slices are already sorted when it is called).
\* Before fix 1d0c953 (finding F17) the last line compared only the first diagnostics:
\* CmpDiags(SortDiags(sa)[1], SortDiags(sb)[1]) - ScanTrace keeps that variant to classify a regression.
CmpDiagnostics(sa, sb) ==
  IF Len(sa) = 0 THEN 0 - 1
  ELSE IF Len(sb) = 0 THEN 1
  ELSE CmpSeqD(SortDiags(sa), SortDiags(sb), 1)

\* the comparison of SortReports
CmpReports(a, b) ==
  CmpOr(<<Cmp(a.path, b.path), Cmp(a.first, b.first), Cmp(a.last, b.last), Cmp(a.sev, b.sev),
          Cmp(a.rep, b.rep), Cmp(a.sum, b.sum), CmpDiagnostics(a.diags, b.diags)>>)
RECURSIVE BubbleR(_, _)
BubbleR(s, j) == IF j > 1 /\ CmpReports(s[j], s[j - 1]) < 0 THEN BubbleR(Swap(s, j, j - 1), j - 1) ELSE s
RECURSIVE ISortR(_, _)
ISortR(s, i) == IF i > Len(s) THEN s ELSE ISortR(BubbleR(s, i), i + 1)
SortReports(s) == LET pre == [k \in 1..Len(s) |-> [s[k] EXCEPT !.diags = SortDiags(@)]] IN ISortR(pre, 2)

\* reporter.go isSameDiagnostics / Report.isEqual (r.isEqual(nr)), exactly as written:
\* note r.Problem.Lines.Last is compared with nr.Rule.Lines.Last
SameDiagnostics(sa, sb) ==
  /\ Len(sa) = Len(sb)
  /\ \A i \in 1..Len(sa) : \E j \in 1..Len(sb) : sa[i].fc = sb[j].fc /\ sa[i].lc = sb[j].lc /\ sa[i].msg = sb[j].msg
IsEqual(r, nr) ==
  /\ nr.sym = r.sym /\ nr.path = r.path /\ nr.owner = r.owner
  /\ r.first = nr.first
  /\ r.last = nr.rlast
  /\ nr.rule = r.rule                                      \* Rule.IsSame (class computed by EXEC with the real method)
  /\ nr.rep = r.rep /\ nr.sum = r.sum
  /\ SameDiagnostics(nr.diags, r.diags)
  /\ nr.sev = r.sev
\* Summary.Report / hasReport
Collect(s, r) == IF \E k \in 1..Len(s) : IsEqual(s[k], r) THEN s ELSE Append(s, r)
RECURSIVE CollectFrom(_, _, _)
CollectFrom(s, order, k) == IF k > Len(order) THEN s ELSE CollectFrom(Collect(s, order[k]), order, k + 1)
CollectAll(order) == CollectFrom(<<>>, order, 1)

\* isSameDiagnosticsMessage / isSameIssue
SameMessages(sa, sb) == /\ Len(sa) = Len(sb)
                        /\ \A i \in 1..Len(sa) : \E j \in 1..Len(sb) : sa[i].msg = sb[j].msg
SameIssue(r, nr) == nr.rep = r.rep /\ nr.sum = r.sum /\ nr.sev = r.sev /\ SameMessages(r.diags, nr.diags)

\* Summary.Dedup: elements are [r, dup (IsDuplicate), dups (indices of Duplicates)]
RECURSIVE DedupInner(_, _, _)
DedupInner(s, i, j) ==
  IF j > Len(s) THEN s
  ELSE IF i = j \/ s[j].dup \/ Len(s[j].dups) > 0 \/ ~SameIssue(s[i].r, s[j].r) THEN DedupInner(s, i, j + 1)
  ELSE DedupInner([s EXCEPT ![j].dup = TRUE, ![i].dups = Append(@, j)], i, j + 1)
RECURSIVE DedupOuter(_, _)
DedupOuter(s, i) ==
  IF i > Len(s) THEN s
  ELSE IF s[i].dup THEN DedupOuter(s, i + 1)
  ELSE DedupOuter(DedupInner(s, i, 1), i + 1)
Dedup(s) == DedupOuter([k \in 1..Len(s) |-> [r |-> s[k], dup |-> FALSE, dups |-> <<>>]], 1)

\* checkRules' collector followed by what actionLint does before the reporters run
Process(order) == LET col == CollectAll(order) srt == SortReports(col) IN Dedup(srt)

\* SortReports for a tree whose cmpDiagnostics compares all diagnostics (`all`, as pinned: fix 1d0c953) or only the
\* first one (a tree without that fix); the comparison is written lazily (cmp.Or returns the first non-zero of its
\* seven arguments) because JUDGE evaluates it tens of thousands of times. Diagnostics are already sorted.
CmpDiagnosticsV(all, sa, sb) ==
  IF Len(sa) = 0 THEN 0 - 1 ELSE IF Len(sb) = 0 THEN 1
  ELSE IF all THEN CmpSeqD(sa, sb, 1) ELSE CmpDiags(sa[1], sb[1])
CmpReportsV(all, a, b) ==
  IF a.path # b.path THEN Cmp(a.path, b.path)
  ELSE IF a.first # b.first THEN Cmp(a.first, b.first)
  ELSE IF a.last # b.last THEN Cmp(a.last, b.last)
  ELSE IF a.sev # b.sev THEN Cmp(a.sev, b.sev)
  ELSE IF a.rep # b.rep THEN Cmp(a.rep, b.rep)
  ELSE IF a.sum # b.sum THEN Cmp(a.sum, b.sum)
  ELSE CmpDiagnosticsV(all, a.diags, b.diags)
RECURSIVE BubbleV(_, _, _)
BubbleV(all, s, j) == IF j > 1 /\ CmpReportsV(all, s[j], s[j - 1]) < 0 THEN BubbleV(all, Swap(s, j, j - 1), j - 1) ELSE s
RECURSIVE ISortV(_, _, _)
ISortV(all, s, i) == IF i > Len(s) THEN s ELSE ISortV(all, BubbleV(all, s, i), i + 1)
ProcessV(all, order) ==
  LET col == CollectAll(order)
      pre == [k \in 1..Len(col) |-> [col[k] EXCEPT !.diags = SortDiags(@)]]
      srt == ISortV(all, pre, 2) IN
  Dedup(srt)

\* What the reporters read.  Console: per report above the minimal severity that is not a hidden duplicate.
RKey(r) == [path |-> r.path, sym |-> r.sym, owner |-> r.owner, first |-> r.first, last |-> r.last, rlast |-> r.rlast,
            rule |-> r.rule, name |-> r.name, sev |-> r.sev, rep |-> r.rep, sum |-> r.sum, det |-> r.det,
            anchor |-> r.anchor, diags |-> SortDiags(r.diags)]
ConsoleLine(e, showDup) == [k |-> RKey(e.r), ndups |-> IF showDup THEN 0 ELSE Len(e.dups)]
Console(s, showDup, minSev) ==
  LET keep(e) == e.r.sev >= minSev /\ (showDup \/ ~e.dup) IN
  [k \in 1..Len(SelectSeq(s, keep)) |-> ConsoleLine(SelectSeq(s, keep)[k], showDup)]
JsonOut(s) == [k \in 1..Len(s) |-> [path |-> s[k].r.path, owner |-> s[k].r.owner, rep |-> s[k].r.rep, sum |-> s[k].r.sum,
                                     det |-> s[k].r.det, sev |-> s[k].r.sev, first |-> s[k].r.first, last |-> s[k].r.last]]
\* exit status of `pint lint`: the severities present
Severities(s) == {s[k].r.sev : k \in 1..Len(s)}
RenderAll(s) == <<Console(s, FALSE, 0), Console(s, TRUE, 0), Console(s, FALSE, 2), JsonOut(s), Severities(s)>>

\* order-preserving interleavings of the per-job sequences
RECURSIVE Interleavings(_)
Interleavings(jobs) ==
  IF \A k \in 1..Len(jobs) : jobs[k] = <<>> THEN {<<>>}
  ELSE UNION {{<<Head(jobs[k])>> \o rest : rest \in Interleavings([jobs EXCEPT ![k] = Tail(@)])} :
               k \in {n \in 1..Len(jobs) : jobs[n] # <<>>}}
RECURSIVE Flatten(_, _)
Flatten(jobs, k) == IF k > Len(jobs) THEN <<>> ELSE jobs[k] \o Flatten(jobs, k + 1)
Canonical(jobs) == Flatten(jobs, 1)                      \* the arrival order with one worker

\* The premise under which SortReports is a total order on what survives Summary.Report:
\* two reports of different jobs are either interchangeable for every reader, or never merged and strictly
\* and consistently ordered by the sort key.
Premise(jobs) ==
  \A i, j \in 1..Len(jobs) : i # j =>
    \A a \in {jobs[i][k] : k \in 1..Len(jobs[i])}, b \in {jobs[j][k] : k \in 1..Len(jobs[j])} :
       \/ RKey(a) = RKey(b) /\ (IsEqual(a, b) <=> IsEqual(b, a))
       \/ /\ ~IsEqual(a, b) /\ ~IsEqual(b, a)
          /\ CmpReports(a, b) # 0 /\ CmpReports(a, b) = 0 - CmpReports(b, a)
\* a report is never merged with / ordered against a report of its own job inconsistently with emission order
\* only when it could interact with other jobs; within one job emission order is kept by every interleaving.
C11Holds(jobs) == \A o \in Interleavings(jobs) : RenderAll(Process(o)) = RenderAll(Process(Canonical(jobs)))

-----------------------------------------------------------------------------
(* Part B: cmd/pint/scan.go                                                  *)
VARIABLES shape, W,
          next,          \* dispatcher: index of the next job to send
          jobsClosed, jobsQ,
          wk,            \* worker -> [pc, job, k]   pc: "recv" | "emit" | "done"
          wgLeft,        \* sync.WaitGroup counter
          resultsClosed, resultsQ,
          arrived,       \* what the collector has handed to summary.Report, in order
          done,
          jobs           \* Part C: the bag (sequence of jobs, each a sequence of reports)
vars == <<shape, W, next, jobsClosed, jobsQ, wk, wgLeft, resultsClosed, resultsQ, arrived, done, jobs>>

NJobs == Len(shape)
Cap == 5 * W                                               \* make(chan ..., workers*5)

InitB == /\ shape \in Shapes /\ W \in Ws
         /\ next = 1 /\ jobsClosed = FALSE /\ jobsQ = <<>>
         /\ wk = [w \in 1..W |-> [pc |-> "recv", job |-> 0, k |-> 0]]
         /\ wgLeft = W /\ resultsClosed = FALSE /\ resultsQ = <<>> /\ arrived = <<>> /\ done = FALSE
         /\ jobs = <<>>

\* dispatcher goroutine: jobs <- scanJob{...}   (blocks while the channel is full)
Dispatch == /\ next <= NJobs /\ Len(jobsQ) < Cap
            /\ jobsQ' = Append(jobsQ, next) /\ next' = next + 1
            /\ UNCHANGED <<shape, W, jobsClosed, wk, wgLeft, resultsClosed, resultsQ, arrived, done, jobs>>
\* defer close(jobs)
CloseJobs == /\ next = NJobs + 1 /\ ~jobsClosed /\ jobsClosed' = TRUE
             /\ UNCHANGED <<shape, W, next, jobsQ, wk, wgLeft, resultsClosed, resultsQ, arrived, done, jobs>>
\* scanWorker: for job := range jobs { problems := job.check.Check(...)
TakeJob(w) == /\ wk[w].pc = "recv" /\ jobsQ # <<>>
              /\ LET jb == Head(jobsQ) IN
                 wk' = [wk EXCEPT ![w] = IF shape[jb] = 0 THEN [pc |-> "recv", job |-> 0, k |-> 0]
                                                          ELSE [pc |-> "emit", job |-> jb, k |-> 1]]
              /\ jobsQ' = Tail(jobsQ)
              /\ UNCHANGED <<shape, W, next, jobsClosed, wgLeft, resultsClosed, resultsQ, arrived, done, jobs>>
\*   for _, problem := range problems { results <- reporter.Report{...} }   (blocks while full)
Emit(w) == /\ wk[w].pc = "emit" /\ Len(resultsQ) < Cap
           /\ resultsQ' = Append(resultsQ, <<wk[w].job, wk[w].k>>)
           /\ wk' = [wk EXCEPT ![w] = IF wk[w].k = shape[wk[w].job] THEN [pc |-> "recv", job |-> 0, k |-> 0]
                                                                     ELSE [@ EXCEPT !.k = @ + 1]]
           /\ UNCHANGED <<shape, W, next, jobsClosed, jobsQ, wgLeft, resultsClosed, arrived, done, jobs>>
\* the range loop ends when jobs is closed and drained; defer wg.Done()
WorkerExit(w) == /\ wk[w].pc = "recv" /\ jobsQ = <<>> /\ jobsClosed
                 /\ wk' = [wk EXCEPT ![w].pc = "done"] /\ wgLeft' = wgLeft - 1
                 /\ UNCHANGED <<shape, W, next, jobsClosed, jobsQ, resultsClosed, resultsQ, arrived, done, jobs>>
\* go func() { defer close(results); wg.Wait() }()
Closer == /\ wgLeft = 0 /\ ~resultsClosed /\ resultsClosed' = TRUE
          /\ UNCHANGED <<shape, W, next, jobsClosed, jobsQ, wk, wgLeft, resultsQ, arrived, done, jobs>>
\* for result := range results { summary.Report(result) }
CollectOne == /\ resultsQ # <<>>
              /\ arrived' = Append(arrived, Head(resultsQ)) /\ resultsQ' = Tail(resultsQ)
              /\ UNCHANGED <<shape, W, next, jobsClosed, jobsQ, wk, wgLeft, resultsClosed, done, jobs>>
Finish == /\ resultsQ = <<>> /\ resultsClosed /\ ~done /\ done' = TRUE
          /\ UNCHANGED <<shape, W, next, jobsClosed, jobsQ, wk, wgLeft, resultsClosed, resultsQ, arrived, jobs>>
Terminated == done /\ UNCHANGED vars

NextB == Dispatch \/ CloseJobs \/ (\E w \in 1..W : TakeJob(w) \/ Emit(w) \/ WorkerExit(w)) \/ Closer \/ CollectOne \/ Finish
SpecB == InitB /\ [][NextB \/ Terminated]_vars
FairSpecB == InitB /\ [][NextB \/ Terminated]_vars /\ WF_vars(NextB)

ShapeJobs == [j \in 1..NJobs |-> [k \in 1..shape[j] |-> <<j, k>>]]
Inv_NoSendOnClosed == resultsClosed => \A w \in 1..W : wk[w].pc # "emit"
Inv_Caps == Len(jobsQ) <= Cap /\ Len(resultsQ) <= Cap
\* nothing is lost, nothing is duplicated, every job's reports arrive in emission order
Inv_ArrivalIsInterleaving == done => arrived \in Interleavings(ShapeJobs)
Termination == <>done
\* GEN: one case per reachable arrival order (arrived is part of the state)
EmitOrder == done => PrintT(<<"CASE", ToJson([shape |-> shape, w |-> W, order |-> arrived])>>)

-----------------------------------------------------------------------------
(* Part C: bags of reports grown from atoms                                 *)
Base == [path |-> 1, sym |-> 1, owner |-> 0, first |-> 5, last |-> 5, rlast |-> 5, rule |-> 1, name |-> 1, sev |-> 2,
         rep |-> 1, sum |-> 1, det |-> 0, anchor |-> 0, diags |-> <<[fc |-> 3, lc |-> 5, msg |-> 1, pos |-> 1]>>]
Atoms == {"base", "path", "first", "last", "sev", "rep", "sum", "fc", "lc", "msg", "det", "pos", "nodiag", "diag2", "name"}
AtomReport(a) ==
  CASE a = "base"   -> Base
    [] a = "path"   -> [Base EXCEPT !.path = 2, !.sym = 2]
    [] a = "first"  -> [Base EXCEPT !.first = 4]
    [] a = "last"   -> [Base EXCEPT !.last = 6]                      \* a problem that does not end on the rule's last line
    [] a = "sev"    -> [Base EXCEPT !.sev = 1]
    [] a = "rep"    -> [Base EXCEPT !.rep = 2]
    [] a = "sum"    -> [Base EXCEPT !.sum = 2]
    [] a = "fc"     -> [Base EXCEPT !.diags = <<[fc |-> 4, lc |-> 5, msg |-> 1, pos |-> 1]>>]
    [] a = "lc"     -> [Base EXCEPT !.diags = <<[fc |-> 3, lc |-> 6, msg |-> 1, pos |-> 1]>>]
    [] a = "msg"    -> [Base EXCEPT !.diags = <<[fc |-> 3, lc |-> 5, msg |-> 2, pos |-> 1]>>]
    [] a = "det"    -> [Base EXCEPT !.det = 1]                       \* same problem, other details text
    [] a = "pos"    -> [Base EXCEPT !.diags = <<[fc |-> 3, lc |-> 5, msg |-> 1, pos |-> 2]>>]   \* differs only in Pos
    [] a = "nodiag" -> [Base EXCEPT !.diags = <<>>]
    [] a = "diag2"  -> [Base EXCEPT !.diags = <<[fc |-> 3, lc |-> 5, msg |-> 1, pos |-> 1], [fc |-> 1, lc |-> 2, msg |-> 3, pos |-> 1]>>]
    [] OTHER        -> [Base EXCEPT !.name = 2, !.rule = 2]

InitC == /\ jobs = <<>>
         /\ shape = <<>> /\ W = 1 /\ next = 1 /\ jobsClosed = FALSE /\ jobsQ = <<>> /\ wk = <<>> /\ wgLeft = 0
         /\ resultsClosed = FALSE /\ resultsQ = <<>> /\ arrived = <<>> /\ done = FALSE
NReports == LET RECURSIVE n(_) n(k) == IF k = 0 THEN 0 ELSE Len(jobs[k]) + n(k - 1) IN n(Len(jobs))
AddJob(a) == /\ Len(jobs) < MaxJobs /\ NReports < MaxReports
             /\ jobs' = Append(jobs, <<AtomReport(a)>>)
             /\ UNCHANGED <<shape, W, next, jobsClosed, jobsQ, wk, wgLeft, resultsClosed, resultsQ, arrived, done>>
AddToLastJob(a) == /\ Len(jobs) > 0 /\ Len(jobs[Len(jobs)]) < MaxPerJob /\ NReports < MaxReports
                   /\ jobs' = [jobs EXCEPT ![Len(jobs)] = Append(@, AtomReport(a))]
                   /\ UNCHANGED <<shape, W, next, jobsClosed, jobsQ, wk, wgLeft, resultsClosed, resultsQ, arrived, done>>
NextC == \E a \in Atoms : AddJob(a) \/ AddToLastJob(a)
SpecC == InitC /\ [][NextC]_vars

Inv_C11 == Premise(jobs) => C11Holds(jobs)
Inv_LazyAgrees == \A o \in Interleavings(jobs) : ProcessV(TRUE, o) = Process(o)
\* vacuity guards: the premise is satisfiable by bags with cross-job ties, and not every bag satisfies C11
Never_PremiseWithTies == ~(Len(jobs) >= 2 /\ Premise(jobs) /\ \E i, j \in 1..Len(jobs) : i # j /\ RKey(jobs[i][1]) = RKey(jobs[j][1]))
Never_C11Fails == C11Holds(jobs)
=============================================================================
