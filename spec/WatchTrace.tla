----------------------------- MODULE WatchTrace -----------------------------
(***************************************************************************)
(* JUDGE for the watch-mode growth of the Exit family: the real            *)
(* `pint watch glob` daemon was run for a few iterations per scenario      *)
(* (harness exec-c05-watch), the rule file was rewritten between           *)
(* iterations and /metrics + /health were scraped after every iteration.   *)
(*   WStart  scenario  flags and the content each iteration will find      *)
(*   WStep   k, iterations (pint_check_iterations_total), present/problems *)
(*           (pint_problems), exported (pint_problem series), health       *)
(*   WStop   exit status after SIGTERM                                     *)
(*   WDied   the daemon exited on its own (instead of WStep.. WStop)       *)
(* Every step replays Watch!Tick and compares the scrape with              *)
(* Watch!Collect (binding: DRIFT) and with the documented behaviour        *)
(* W1-W3 (WVIOL; not part of C05's verdict).                               *)
(***************************************************************************)
EXTENDS Watch

TraceLog == ndJsonDeserialize("c05_watch_trace.ndjson")

VARIABLES l, done
tvars == <<wvars, vars, l, done>>
Rec == TraceLog[l]

TraceInit ==
  /\ wcase = [minSev |-> "UNSET", maxProblems |-> 0, showDup |-> FALSE, steps |-> <<>>]
  /\ wpc = "Grow" /\ wk = 0 /\ wsummary = NoSummary /\ witer = 0 /\ wlast = "none"
  /\ ExitFrozen /\ l = 1 /\ done = FALSE

SeqSetW(s) == {s[x] : x \in 1..Len(s)}

TWStart ==
  /\ l <= Len(TraceLog) /\ Rec.ev = "WStart"
  /\ wcase' = Rec.scenario /\ wpc' = "Running" /\ wk' = 0 /\ wsummary' = NoSummary /\ witer' = 0 /\ wlast' = "none"
  /\ l' = l + 1 /\ UNCHANGED <<vars, done>>

TWStep ==
  /\ l <= Len(TraceLog) /\ Rec.ev = "WStep"
  /\ Rec.k = wk + 1
  /\ Tick
  /\ LET j   == wcase.steps[wk + 1]
         min == ParseSeverity(FlagValue(wcase.minSev, "bug")).sev
         sc  == Collect(wsummary', min, wcase.maxProblems, wcase.showDup)
         obs == SeqSetW(Rec.exported)
         sig == [flags |-> [minSev |-> wcase.minSev, maxProblems |-> wcase.maxProblems, showDup |-> wcase.showDup],
                 steps |-> wcase.steps, k |-> wk + 1] IN
     \* binding: the scrape is what Collect computes from the summary the model holds
     /\ IF sc.present = Rec.present /\ sc.problems = Rec.problems /\ sc.exported = obs /\ Rec.iterations = witer'
        THEN TRUE
        ELSE PrintT(<<"DRIFT", Rec.id, ToJson([watch |-> sig, expected |-> [present |-> sc.present, problems |-> sc.problems,
                       exported |-> sc.exported, iterations |-> witer'],
                       observed |-> [present |-> Rec.present, problems |-> Rec.problems, exported |-> Rec.exported,
                                     iterations |-> Rec.iterations]])>>)
     \* documented behaviour on the recorded outputs
     /\ LET w1 == j = Missing \/ (Rec.present /\ Rec.problems = DocTotal(j, wcase.minSev, wcase.showDup))
            w2 == j = Missing \/
                  (/\ Len(Rec.exported) = Cardinality(obs)
                   /\ Cardinality(obs) = IF wcase.maxProblems > 0 /\ wcase.maxProblems < Rec.problems
                                         THEN wcase.maxProblems ELSE Rec.problems
                   /\ \A m \in obs : /\ m.content = j
                                     /\ \E e \in DocVisible(j, wcase.minSev) : e.rule = m.rule /\ DocLower(e.sev) = m.sev)
            w3 == Rec.health /\ Rec.iterations = wk + 1 IN
        IF w1 /\ w2 /\ w3 THEN TRUE
        ELSE PrintT(<<"WVIOL", Rec.id, ToJson([watch |-> sig, w1 |-> w1, w2 |-> w2, w3 |-> w3, problems |-> Rec.problems,
                                                 exported |-> Rec.exported, iterations |-> Rec.iterations, health |-> Rec.health])>>)
  /\ l' = l + 1 /\ UNCHANGED <<vars, done>>

TWStop ==
  /\ l <= Len(TraceLog) /\ Rec.ev = "WStop"
  /\ wk = Len(wcase.steps) /\ wpc' = "Stopped"
  /\ IF Rec.exit = 0 THEN TRUE ELSE PrintT(<<"WVIOL", Rec.id, ToJson([watch |-> wcase, exit |-> Rec.exit])>>)
  /\ l' = l + 1 /\ UNCHANGED <<wcase, wk, wsummary, witer, wlast, vars, done>>

\* the daemon exited on its own in every attempt to run the scenario
TWDied ==
  /\ l <= Len(TraceLog) /\ Rec.ev = "WDied"
  /\ PrintT(<<"WVIOL", Rec.id, ToJson([watch |-> wcase, died |-> Rec.msg])>>)
  /\ l' = l + 1 /\ UNCHANGED <<wvars, vars, done>>

TDone ==
  /\ l = Len(TraceLog) + 1 /\ ~done
  /\ done' = TRUE /\ PrintT(<<"DONE", l - 1>>)
  /\ UNCHANGED <<wvars, vars, l>>

TraceNext == TWStart \/ TWStep \/ TWStop \/ TWDied \/ TDone
TraceSpec == TraceInit /\ [][TraceNext]_tvars
=============================================================================
