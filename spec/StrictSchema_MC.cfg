SPECIFICATION Spec
CONSTANTS
  MaxDev = 2
  NamesSet = {"utf8", "legacy"}
  CoreOnly = FALSE
  Gaps = {"F9a", "F9b", "F9c", "F9d", "F9e"}
INVARIANTS Inv_C01_ModuloKnown
CHECK_DEADLOCK FALSE
