SPECIFICATION Spec
CONSTANTS
  MaxDev = 2
  NamesSet = {"utf8", "legacy"}
  SchemaSet = {"prometheus", "thanos"}
  CoreOnly = FALSE
  Gaps = {}
INVARIANTS Inv_C01_ModuloKnown
CHECK_DEADLOCK FALSE
