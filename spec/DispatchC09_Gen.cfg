SPECIFICATION Spec
CONSTANTS
  MaxBlocks = 1
  MaxMatch = 1
  MaxIgnore = 1
  MaxMatchConds = 1
  MaxIgnoreConds = 1
  Shared = FALSE
  Reduced = FALSE
  WithAlt = FALSE
INVARIANTS EmitCase
CHECK_DEADLOCK FALSE
