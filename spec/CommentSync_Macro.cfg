SPECIFICATION MacroSpec
CONSTANTS
  MaxRuns = 2
  MaxSeeds = 1
  Budgets = {0, 1, 2, 3}
  Platforms = {"gitlab", "github"}
  Strips = {FALSE}
  Shifts = {0, 1}
  Mods = {"all", "first"}
  Probs = {"P1", "P2", "P3", "P4"}
  Pads = {0}
  Padfs = {0}
  Showdups = {FALSE}
  FaultOps = {}
  FaultKs = {}
VIEW view
PROPERTIES Prop_C17
CHECK_DEADLOCK FALSE
