------------------------------- MODULE Layout -------------------------------
(***************************************************************************)
(* Layout of a Prometheus rule document and where every scalar lands.      *)
(*                                                                         *)
(* A layout is an abstract description of how a rule file is written:      *)
(* per rule the order of its fields, per scalar a style (plain, quoted,    *)
(* literal/folded block with chomping and indentation indicators,          *)
(* multi-line plain/quoted), a value class (words), a shape (how the words *)
(* are spread over lines), indentation, comments and blank lines, flow     *)
(* mappings for labels; plus a wrapper (parent keys, sequence levels,      *)
(* sibling keys, extra documents, YAML embedded in a literal block).       *)
(*                                                                         *)
(* The module RENDERS the layout (sequence of lines) and does the          *)
(* LINE/COLUMN ARITHMETIC: for every scalar the region of the file its     *)
(* value characters may come from (ExpectedSpan: `allow`), the exact cells *)
(* pint's diags.NewPositionRange produces for regular scalars (`pos`,      *)
(* transcribing the per-line ranges built by appendPosition: value         *)
(* characters of a line plus the newline cell len(line)+1 when the value   *)
(* continues), the rule line ranges accumulated by parser.parseRule        *)
(* (ExpectedLines) and the displacement (dLine, dCol) that                 *)
(* Parser.parseNode / PositionRanges.AddOffset apply for nested and        *)
(* embedded documents.                                                     *)
(*                                                                         *)
(* Columns and lengths are BYTES. The character '@' in a text stands for   *)
(* one 2-byte rune (the harness substitutes it); every text fragment       *)
(* carries the number of its placeholders in `x`.                          *)
(***************************************************************************)
EXTENDS Integers, Sequences, FiniteSets, TLC, Json

-----------------------------------------------------------------------------
(* Text fragments                                                          *)
F(t)        == [t |-> t, x |-> 0]
FX(t, x)    == [t |-> t, x |-> x]
Cat(a, b)   == [t |-> a.t \o b.t, x |-> a.x + b.x]
Cat3(a,b,c) == Cat(Cat(a, b), c)
BL(a)       == Len(a.t) + a.x
Empty       == F("")

SpTab == [n \in 0..80 |->
  LET RECURSIVE S(_)
      S(k) == IF k = 0 THEN "" ELSE " " \o S(k - 1)
  IN S(n)]
Sp(n)  == SpTab[n]
FSp(n) == F(Sp(n))

(* Words: value text `t`, its spelling inside single quotes `sq` and double quotes `dq`. *)
Wd(t)          == [t |-> t, sq |-> t, dq |-> t, x |-> 0]
WdQ(t, sq, dq) == [t |-> t, sq |-> sq, dq |-> dq, x |-> 0]
WdU(t, x)      == [t |-> t, sq |-> t, dq |-> t, x |-> x]

QuoteOf(style) == CASE style \in {"sq", "msq"} -> "s"
                    [] style \in {"dq", "mdq"} -> "d"
                    [] OTHER -> "p"
Src(w, q) == [t |-> (CASE q = "s" -> w.sq [] q = "d" -> w.dq [] OTHER -> w.t), x |-> w.x]
Escaped(w, q) == Src(w, q).t # w.t

(* Text kinds of the rule fields and their value classes. *)
TextKind(key) == CASE key = "alert" -> "text"
                   [] key = "record" -> "metric"
                   [] key = "expr" -> "expr"
                   [] key \in {"for", "keep_firing_for"} -> "dur"
                   [] key \in {"lkey", "akey"} -> "ident"
                   [] key = "aval" -> "atext"
                   [] OTHER -> "text"            \* label values

Classes(tk) == CASE tk = "text"   -> {"one", "spaces", "special", "rune", "repeat", "escnl", "tab", "esctab", "escbs"}
                 [] tk = "atext"  -> {"one", "spaces", "special", "rune", "repeat", "escnl", "tmpl", "tmpll", "tab", "esctab", "escbs"}
                 [] tk = "expr"   -> {"one", "spaces", "special", "rune", "repeat"}
                 [] tk = "metric" -> {"one", "repeat"}
                 [] tk = "dur"    -> {"one"}
                 [] OTHER         -> {"one"}

\* words of a value: (text kind, class, text of the key in front of it)
Words(tk, cls, key) ==
  CASE tk = "expr" ->
        (CASE cls = "one"     -> <<Wd("up")>>
           [] cls = "spaces"  -> <<WdQ("sum(foo{job=~\"bar\"})", "sum(foo{job=~\"bar\"})", "sum(foo{job=~\\\"bar\\\"})"),
                                   Wd("by"), Wd("(job)"), Wd(">"),
                                   WdQ("bar{job=~\"b\"}", "bar{job=~\"b\"}", "bar{job=~\\\"b\\\"}")>>
           [] cls = "special" -> <<WdQ("foo:bar{a=\"x#y:z\",b='q'}", "foo:bar{a=\"x#y:z\",b=''q''}", "foo:bar{a=\\\"x#y:z\\\",b='q'}"),
                                   Wd(">"), Wd("1")>>
           [] cls = "rune"    -> <<[t |-> "foo{a=\"@\"}", sq |-> "foo{a=\"@\"}", dq |-> "foo{a=\\\"@\\\"}", x |-> 1],
                                   Wd(">"), Wd("0")>>
           [] OTHER           -> <<Wd(key)>>)
    [] tk = "metric" -> IF cls = "repeat" THEN <<Wd(key)>> ELSE <<Wd("foo:sum")>>
    [] tk = "dur"    -> <<Wd("5m")>>
    [] tk = "ident"  -> <<Wd(key)>>
    [] OTHER ->
        (CASE cls = "one"     -> <<Wd("Foo")>>
           [] cls = "spaces"  -> <<Wd("Foo"), Wd("is"), Wd("down")>>
           [] cls = "special" -> <<Wd("Foo#1"), Wd("a:b"), WdQ("it's", "it''s", "it's"),
                                   WdQ("\"q\"", "\"q\"", "\\\"q\\\""), WdQ("b\\s", "b\\s", "b\\\\s")>>
           [] cls = "rune"    -> <<WdU("caf@", 1), Wd("down"), WdU("@@", 2)>>
           [] cls = "escnl"   -> <<WdQ("x y", "x y", "x\\ny"), Wd("z")>>
           \* "%t" stands for one tab byte (2 characters, 1 byte: x = -1); esctab spells it `\t` inside double quotes
           [] cls = "tab"     -> <<[t |-> "x%ty", sq |-> "x%ty", dq |-> "x%ty", x |-> -1], Wd("z")>>
           [] cls = "esctab"  -> <<WdQ("x%ty", "x%ty", "x\\ty"), Wd("z")>>
           \* an escaped backslash directly in front of an escape letter: the value holds `\t` and `\n` as two characters each
           [] cls = "escbs"   -> <<WdQ("C:\\temp\\new", "C:\\temp\\new", "C:\\\\temp\\\\new"), Wd("z")>>
           [] cls = "tmpl"    -> <<Wd("{{"), Wd("$value"), Wd("}}"), Wd("ok")>>
           \* a label the base expr aggregates away: alerts/template reports it with a column range inside the value
           [] cls = "tmpll"   -> <<Wd("on"), Wd("{{"), Wd("$labels.instance"), Wd("}}"), Wd("gone")>>
           [] OTHER           -> <<Wd(key)>>)

-----------------------------------------------------------------------------
(* Scalars                                                                 *)
SingleStyles == {"plain", "sq", "dq"}
MultiStyles  == {"mplain", "msq", "mdq"}
BlockStyles  == {"lit", "fold"}
Shapes       == {"flat", "sp2", "brk1", "brkall", "blank1", "more1"}

ScDef == [cls |-> "one", style |-> "plain", shape |-> "flat", chomp |-> "clip", ind |-> FALSE,
          step |-> 2, lead |-> 0, hc |-> FALSE, tb |-> 0, own |-> FALSE,
          sepk |-> "sp",     \* separation after "key:" - one blank ("sp") or one tab ("tab")
          prop |-> ""]       \* node property in front of the value: "" | "tag" (`!!str`) | "anc" (`&<key>`)

\* classes a style can spell
StyleOK(style, cls) ==
  /\ cls \in {"escnl", "esctab"} => style \in {"dq", "mdq"}
  /\ cls = "tmpl" => style \notin {"plain", "mplain"}

ShapeOK(shape, n) == CASE shape = "flat" -> TRUE [] shape = "brkall" -> n >= 3 [] OTHER -> n >= 2

Gap(shape, i) == CASE shape = "sp2"    -> IF i = 1 THEN "sp2" ELSE "sp"
                   [] shape = "brk1"   -> IF i = 1 THEN "nl" ELSE "sp"
                   [] shape = "more1"  -> IF i = 1 THEN "nl" ELSE "sp"
                   [] shape = "blank1" -> IF i = 1 THEN "blank" ELSE "sp"
                   [] shape = "brkall" -> "nl"
                   [] OTHER            -> "sp"

\* the words spread over source lines: sequence of [t, x, b] (b = TRUE: an empty line)
RECURSIVE GLines(_, _, _, _, _)
GLines(ws, shape, q, i, cur) ==
  IF i > Len(ws) THEN <<cur @@ [b |-> FALSE]>>
  ELSE LET g == Gap(shape, i - 1)
           w == Src(ws[i], q) IN
       CASE g = "sp"  -> GLines(ws, shape, q, i + 1, Cat3(cur, F(" "), w))
         [] g = "sp2" -> GLines(ws, shape, q, i + 1, Cat3(cur, F("  "), w))
         [] g = "nl"  -> <<cur @@ [b |-> FALSE]>> \o GLines(ws, shape, q, i + 1, w)
         [] OTHER     -> <<cur @@ [b |-> FALSE], [t |-> "", x |-> 0, b |-> TRUE]>> \o GLines(ws, shape, q, i + 1, w)
Groups(ws, sc) == GLines(ws, sc.shape, QuoteOf(sc.style), 2, Src(ws[1], QuoteOf(sc.style)))

Digit(n) == CASE n = 0 -> "0" [] n = 1 -> "1" [] n = 2 -> "2" [] n = 3 -> "3" [] n = 4 -> "4" [] OTHER -> "9"
\* the comment repeats the first word of the value as TEXT ("%t" there is a literal tab byte even when the value spells it `\t`)
Cmt(ws)  == Cat(F(" # c "), FX(ws[1].t, IF ws[1].t = "x%ty" THEN -1 ELSE ws[1].x))

(* ScRender: the scalar `sc` with words `ws`, written after a prefix of `c0` bytes that ends with
   the ':' of its key (flow = FALSE) or directly at column c0+1 (flow = TRUE); `pi` is the
   indentation of the mapping the key belongs to.
     first : what follows the prefix on the key line
     rest  : the complete lines that follow
     allow : ExpectedSpan - per line (offset l from the key line) the columns value cells may use
     pos   : the exact cells (per line [l, f, t]; bl = cell of an empty line) for regular scalars
     reg   : the scalar is regular (no escapes, no header comment, no extra indentation, ...)
     lastc : offset of the last line holding value characters                                  *)
ScRender(sc, ws, c0, pi, flow, an) ==
  LET q     == QuoteOf(sc.style)
      ql    == IF q = "p" THEN 0 ELSE 1
      qs    == F(CASE q = "s" -> "'" [] q = "d" -> "\"" [] OTHER -> "")
      G     == Groups(ws, sc)
      nG    == Len(G)
      noesc == \A i \in 1..Len(ws) : ~Escaped(ws[i], q)
      \* what stands between "key:" and the token: the separation (blank or tab) and a node property
      lead0 == IF flow \/ sc.own THEN Empty
               ELSE Cat(IF sc.sepk = "tab" THEN FX("%t", -1) ELSE F(" "),
                        CASE sc.prop = "tag" -> F("!!str ") [] sc.prop = "anc" -> F("&" \o an \o " ") [] OTHER -> Empty)
      gap   == BL(lead0)
      c     == c0 + gap + 1                       \* column of the first byte of the token
  IN
  IF sc.style \in SingleStyles THEN
    LET body == [t |-> G[1].t, x |-> G[1].x]
        tok  == Cat3(qs, body, qs) IN
    [first |-> Cat3(lead0, tok, IF sc.hc THEN Cmt(ws) ELSE Empty),
     rest  |-> <<>>,
     allow |-> <<[l |-> 0, lo |-> c, hi |-> c + BL(tok) - 1]>>,
     pos   |-> <<[l |-> 0, f |-> c + ql, t |-> c + ql + BL(body) - 1, bl |-> FALSE]>>,
     reg   |-> noesc,
     lastc |-> 0]
  ELSE IF sc.style \in MultiStyles THEN
    LET ci      == pi + sc.step
        lastG   == nG
        \* text of content line k (1-based over G) without indentation
        txt(k)  == Cat3(IF k = 1 THEN qs ELSE Empty, [t |-> G[k].t, x |-> G[k].x], IF k = lastG THEN qs ELSE Empty)
        ext(k)  == IF sc.shape = "more1" /\ k = 2 THEN 2 ELSE 0
        full(k) == IF G[k].b THEN Empty ELSE Cat(FSp(ci + ext(k)), txt(k))
        \* relative line of group k and the column where its text starts
        rl(k)   == IF sc.own THEN k ELSE k - 1
        sc0(k)  == IF k = 1 /\ ~sc.own THEN c ELSE ci + ext(k) + 1
        len(k)  == IF k = 1 /\ ~sc.own THEN c - 1 + BL(txt(1)) ELSE BL(full(k))   \* length of the whole line
        vs(k)   == sc0(k) + (IF k = 1 THEN ql ELSE 0)                            \* first value byte
        ve(k)   == len(k) - (IF k = lastG THEN ql ELSE 0)                        \* last value byte
    IN
    [first |-> IF sc.own THEN Empty ELSE Cat(lead0, txt(1)),
     rest  |-> [k \in 1..(IF sc.own THEN nG ELSE nG - 1) |-> full(IF sc.own THEN k ELSE k + 1)],
     allow |-> [k \in 1..nG |-> [l |-> rl(k), lo |-> IF k = 1 /\ ~sc.own THEN c ELSE 1, hi |-> len(k) + 1]],
     pos   |-> [k \in 1..nG |-> IF G[k].b THEN [l |-> rl(k), f |-> 1, t |-> 1, bl |-> TRUE]
                                ELSE [l |-> rl(k), f |-> vs(k), t |-> IF k = lastG THEN ve(k) ELSE len(k) + 1, bl |-> FALSE]],
     reg   |-> noesc /\ sc.step >= 2 /\ sc.shape # "blank1",   \* folded blank line: which of the two breaks is the value's newline is not fixed
     lastc |-> rl(nG)]
  ELSE
    LET bi      == pi + sc.step
        hdr     == Cat3(F(IF sc.style = "lit" THEN "|" ELSE ">"),
                        F(IF sc.ind THEN Digit(sc.step) ELSE ""),
                        F(CASE sc.chomp = "strip" -> "-" [] sc.chomp = "keep" -> "+" [] OTHER -> ""))
        ext(k)  == (IF k = 1 THEN sc.lead ELSE 0) + (IF sc.shape = "more1" /\ k = 2 THEN 2 ELSE 0)
        full(k) == IF G[k].b THEN Empty ELSE Cat(FSp(bi + ext(k)), [t |-> G[k].t, x |-> G[k].x])
        h       == nG + sc.tb
    IN
    [first |-> Cat3(lead0, hdr, IF sc.hc THEN Cmt(ws) ELSE Empty),
     rest  |-> [k \in 1..h |-> IF k <= nG THEN full(k) ELSE Empty],
     allow |-> [k \in 1..h |-> [l |-> k, lo |-> 1, hi |-> (IF k <= nG THEN BL(full(k)) ELSE 0) + 1]],
     pos   |-> [k \in 1..nG |-> IF G[k].b THEN [l |-> k, f |-> 1, t |-> 1, bl |-> TRUE]
                                ELSE [l |-> k, f |-> bi + 1, t |-> BL(full(k)) + (IF k = nG THEN 0 ELSE 1), bl |-> FALSE]],
     \* `keep`: the number of trailing newline cells depends on the empty lines that follow the scalar
     reg   |-> sc.lead = 0 /\ sc.shape # "more1" /\ sc.tb = 0 /\ ~sc.hc /\ sc.step >= 2 /\ sc.chomp # "keep"
               /\ ~(sc.style = "fold" /\ sc.shape = "blank1"),
     lastc |-> nG]

\* what identifies a scalar in a finding signature
ScSig(sc) == sc.style \o ":" \o sc.cls \o ":" \o sc.shape \o ":" \o sc.chomp
             \o ":i" \o (IF sc.ind THEN "1" ELSE "0") \o ":s" \o Digit(sc.step) \o ":l" \o Digit(sc.lead)
             \o ":hc" \o (IF sc.hc THEN "1" ELSE "0") \o ":tb" \o Digit(sc.tb) \o ":own" \o (IF sc.own THEN "1" ELSE "0")
             \o ":k" \o sc.sepk \o ":p" \o sc.prop

-----------------------------------------------------------------------------
(* Items, rules, documents                                                 *)
ItDef == [k |-> "", kind |-> "scalar", sc |-> ScDef, flow |-> FALSE, mstep |-> 2, kvs |-> <<>>]
ScalarItem(k, sc)   == [ItDef EXCEPT !.k = k, !.sc = sc]
MapItem(k, fl, ms, kvs) == [ItDef EXCEPT !.k = k, !.kind = "map", !.flow = fl, !.mstep = ms, !.kvs = kvs]
AliasItem(k) == [ItDef EXCEPT !.k = k, !.kind = "aliasval"]   \* `k: *k` - the value is an alias of an anchored earlier scalar
CmtItem   == [ItDef EXCEPT !.kind = "cmt"]
BlankItem == [ItDef EXCEPT !.kind = "blank"]
KV(kn, ks, v) == [kn |-> kn, ks |-> ks, v |-> v]

Abs(rs, K) == [i \in DOMAIN rs |-> [rs[i] EXCEPT !.l = @ + K]]
MaxL(rs)   == IF rs = <<>> THEN 0 ELSE rs[Len(rs)].l
ValKind(mapkey) == IF mapkey = "annotations" THEN "atext" ELSE "text"
KeyField(mapkey, j, kv) == mapkey \o (IF kv = "k" THEN ".k" ELSE ".v") \o Digit(j)

Node(field, fk, r, K, sc) ==
  [field |-> field, fk |-> fk, allow |-> Abs(r.allow, K), pos |-> Abs(r.pos, K), reg |-> r.reg,
   sig |-> fk \o ":" \o ScSig(sc), lastc |-> K + r.lastc, blk |-> sc.style \in BlockStyles]

\* block mapping entries: one (or more) lines per entry, starting at absolute line K
RECURSIVE MapBlock(_, _, _, _, _, _)
MapBlock(mapkey, kvs, j, mi, K, acc) ==
  IF j > Len(kvs) THEN acc
  ELSE LET e   == kvs[j]
           kr  == ScRender(e.ks, <<Wd(e.kn)>>, mi, mi, TRUE, "")
           c0v == mi + BL(kr.first) + 1
           vr  == ScRender(e.v, Words(ValKind(mapkey), e.v.cls, e.kn), c0v, mi, FALSE, e.kn)
           ln  == Cat(Cat3(FSp(mi), kr.first, F(":")), vr.first)
           nk  == Node(KeyField(mapkey, j, "k"), "mkey", kr, K, e.ks)
           nv  == Node(KeyField(mapkey, j, "v"), IF mapkey = "annotations" THEN "aval" ELSE "lval", vr, K, e.v)
       IN MapBlock(mapkey, kvs, j + 1, mi, K + 1 + Len(vr.rest),
                   [lines |-> acc.lines \o <<ln>> \o vr.rest, nodes |-> acc.nodes \o <<nk, nv>>])

\* flow mapping entries on the key line; `cur` = the line so far
RECURSIVE MapFlow(_, _, _, _, _, _)
MapFlow(mapkey, kvs, j, K, cur, nodes) ==
  IF j > Len(kvs) THEN [line |-> Cat(cur, F("}")), nodes |-> nodes]
  ELSE LET e    == kvs[j]
           cur1 == IF j = 1 THEN cur ELSE Cat(cur, F(", "))
           kr   == ScRender(e.ks, <<Wd(e.kn)>>, BL(cur1), 0, TRUE, "")
           cur2 == Cat3(cur1, kr.first, F(": "))
           vr   == ScRender(e.v, Words(ValKind(mapkey), e.v.cls, e.kn), BL(cur2), 0, TRUE, "")
           nk   == Node(KeyField(mapkey, j, "k"), "mkey", kr, K, e.ks)
           nv   == Node(KeyField(mapkey, j, "v"), IF mapkey = "annotations" THEN "aval" ELSE "lval", vr, K, e.v)
       IN MapFlow(mapkey, kvs, j + 1, K, Cat(cur2, vr.first), nodes \o <<nk, nv>>)

\* one item of a rule written at list indentation ri, first line = absolute line K
RenderItem(it, ri, isFirst, K) ==
  LET pi     == ri + 2
      lead   == IF isFirst THEN Cat(FSp(ri), F("- ")) ELSE FSp(pi)
      prefix == Cat3(lead, F(it.k), F(":"))
      keyreg == <<[l |-> K, lo |-> pi + 1, hi |-> pi + Len(it.k)]>>
      keypos == <<[l |-> K, f |-> pi + 1, t |-> pi + Len(it.k), bl |-> FALSE]>>
      keynode == [field |-> it.k, fk |-> "mapkey", allow |-> keyreg, pos |-> keypos, reg |-> TRUE,
                  sig |-> "mapkey:" \o it.k, lastc |-> K, blk |-> FALSE]
  IN
  CASE it.kind = "cmt"   -> [lines |-> <<Cat(FSp(pi), F("# note"))>>, nodes |-> <<>>, lastc |-> 0]
    [] it.kind = "blank" -> [lines |-> <<Empty>>, nodes |-> <<>>, lastc |-> 0]
    \* the alias token `*k` is all the file holds at the use site: ExpectedSpan = the token, no exact cells
    [] it.kind = "aliasval" ->
         LET c == BL(prefix) + 2 IN
         [lines |-> <<Cat(prefix, F(" *" \o it.k))>>,
          nodes |-> <<[field |-> it.k, fk |-> it.k, allow |-> <<[l |-> K, lo |-> c, hi |-> c + Len(it.k)]>>, pos |-> <<>>,
                      reg |-> FALSE, sig |-> it.k \o ":aliasval", lastc |-> K, blk |-> FALSE]>>,
          lastc |-> K]
    [] it.kind = "scalar" ->
         LET r == ScRender(it.sc, Words(TextKind(it.k), it.sc.cls, it.k), BL(prefix), pi, FALSE, it.k) IN
         [lines |-> <<Cat(prefix, r.first)>> \o r.rest,
          nodes |-> <<Node(it.k, it.k, r, K, it.sc)>>,
          lastc |-> K + r.lastc]
    [] it.flow ->
         LET m == MapFlow(it.k, it.kvs, 1, K, Cat(prefix, F(" {")), <<>>) IN
         [lines |-> <<m.line>>, nodes |-> <<keynode>> \o m.nodes, lastc |-> K]
    [] OTHER ->
         LET m == MapBlock(it.k, it.kvs, 1, pi + it.mstep, K + 1, [lines |-> <<>>, nodes |-> <<>>]) IN
         [lines |-> <<prefix>> \o m.lines, nodes |-> <<keynode>> \o m.nodes,
          lastc |-> IF m.nodes = <<>> THEN K ELSE m.nodes[Len(m.nodes)].lastc]

Max(a, b) == IF a >= b THEN a ELSE b
Min(a, b) == IF a <= b THEN a ELSE b

RECURSIVE JoinT(_, _)
JoinT(ws, i) == IF i > Len(ws) THEN "" ELSE (IF i = 1 THEN "" ELSE " ") \o ws[i].t \o JoinT(ws, i + 1)

\* An empty line directly behind a block scalar belongs to that scalar (with `+` chomping its line break is a
\* character of the value): the span of the scalar is extended over it.
ExtendLast(nodes, K) ==
  IF nodes = <<>> THEN nodes
  ELSE LET nd == nodes[Len(nodes)] IN
       IF nd.blk /\ nd.allow[Len(nd.allow)].l = K - 1
       THEN [nodes EXCEPT ![Len(nodes)].allow = Append(@, [l |-> K, lo |-> 1, hi |-> 1]), ![Len(nodes)].reg = FALSE]
       ELSE nodes

\* dash: the first item carries the "- " of the list entry (FALSE when the entry starts with an anchor line)
RECURSIVE RenderItems(_, _, _, _, _, _)
RenderItems(items, i, ri, K, dash, acc) ==
  IF i > Len(items) THEN acc
  ELSE LET r == RenderItem(items[i], ri, i = 1 /\ dash, K)
           prev == IF items[i].kind = "blank" THEN ExtendLast(acc.nodes, K) ELSE acc.nodes IN
       RenderItems(items, i + 1, ri, K + Len(r.lines), dash,
                   [lines |-> acc.lines \o r.lines, nodes |-> prev \o r.nodes, last |-> Max(acc.last, r.lastc)])

NameItem(rule) == CHOOSE i \in 1..Len(rule.items) : rule.items[i].k \in {"alert", "record"}
RuleType(rule) == IF rule.items[NameItem(rule)].k = "alert" THEN "alerting" ELSE "recording"
RuleName(rule) == LET it == rule.items[NameItem(rule)] IN JoinT(Words(TextKind(it.k), it.sc.cls, it.k), 1)

(* A rule of the list is written in full (optionally behind an anchor line `- &r<i>`), or as an alias
   `- *r<k>` of an anchored earlier rule: unpackNodes / resolveMapAlias hand parseRule the nodes of
   the anchored mapping, so the alias yields the same rule again - same values, positions and Lines.
   ExpectedLines of a rule = what parseRule accumulates: from the line of the first key to the last
   line holding a character of any key or value.                                                   *)
RuleDef == [items |-> <<>>, anchor |-> FALSE, alias |-> 0, merge |-> 0]
Unreg(nodes) == [i \in DOMAIN nodes |-> [nodes[i] EXCEPT !.reg = FALSE]]
SelNodes(nodes, keep(_)) == LET RECURSIVE Sel(_)
                                Sel(i) == IF i > Len(nodes) THEN <<>>
                                          ELSE (IF keep(nodes[i]) THEN <<nodes[i]>> ELSE <<>>) \o Sel(i + 1)
                            IN Sel(1)
RECURSIVE RenderRules(_, _, _, _, _)
RenderRules(rules, i, ri, K, acc) ==
  IF i > Len(rules) THEN acc
  ELSE IF rules[i].alias > 0
  THEN RenderRules(rules, i + 1, ri, K + 1,
                   [lines |-> Append(acc.lines, Cat(FSp(ri), F("- *r" \o Digit(rules[i].alias)))),
                    rules |-> Append(acc.rules, [acc.rules[rules[i].alias] EXCEPT !.alias = TRUE])])
  ELSE IF rules[i].merge > 0
  \* `- <<: *r<k>` + own keys: unpackNodes / resolveMapAlias give parseRule the anchored rule's key/value nodes
  \* that the rule does not set itself, so those fields keep the positions (and lines) of the anchored rule
  THEN LET K1  == K + 1
           r   == RenderItems(rules[i].items, 1, ri, K1, FALSE, [lines |-> <<>>, nodes |-> <<>>, last |-> K1])
           src == acc.rules[rules[i].merge]
           \* (the own keys of a merging rule are scalar fields)
           inh == Unreg(SelNodes(src.nodes, LAMBDA n : \A j \in DOMAIN rules[i].items : n.field # rules[i].items[j].k))
           lo  == IF inh = <<>> THEN K1 ELSE Min(K1, src.first) IN
       RenderRules(rules, i + 1, ri, K1 + Len(r.lines),
                   [lines |-> acc.lines \o <<Cat(FSp(ri), F("- <<: *r" \o Digit(rules[i].merge)))>> \o r.lines,
                    rules |-> Append(acc.rules, [first |-> lo, last |-> Max(r.last, IF inh = <<>> THEN 0 ELSE src.last),
                                                 type |-> RuleType(rules[i]), name |-> RuleName(rules[i]),
                                                 nodes |-> inh \o Unreg(r.nodes), alias |-> TRUE])])
  ELSE LET a  == IF rules[i].anchor THEN <<Cat(FSp(ri), F("- &r" \o Digit(i)))>> ELSE <<>>
           K1 == K + Len(a)
           r  == RenderItems(rules[i].items, 1, ri, K1, ~rules[i].anchor, [lines |-> <<>>, nodes |-> <<>>, last |-> K1]) IN
       RenderRules(rules, i + 1, ri, K1 + Len(r.lines),
                   [lines |-> acc.lines \o a \o r.lines,
                    rules |-> Append(acc.rules, [first |-> K1, last |-> r.last, type |-> RuleType(rules[i]),
                                                 name |-> RuleName(rules[i]), nodes |-> r.nodes, alias |-> FALSE])])

Filler(kind) == IF kind = "cmt" THEN F("# note") ELSE Empty

\* the unwrapped document: a strict rule file ("doc") or a bare top-level rule list ("list")
RenderBase(lay) ==
  IF lay.base = "list"
  THEN RenderRules(lay.rules, 1, 0, 1, [lines |-> <<>>, rules |-> <<>>])
  ELSE LET pre == [i \in 1..Len(lay.pre) |-> Filler(lay.pre[i])]
           \* ghdr: further keys of the group (interval, limit, query_offset) between its name and its rules
           hdr == pre \o <<F("groups:"), Cat(FSp(lay.gi), F("- name: g1"))>>
                      \o [i \in 1..Len(lay.ghdr) |-> Cat(FSp(lay.gi + 2), F(lay.ghdr[i].t))]
                      \o <<Cat(FSp(lay.gi + 2), F("rules:"))>>
       IN RenderRules(lay.rules, 1, lay.gi + 2 + lay.rstep, Len(hdr) + 1, [lines |-> hdr, rules |-> <<>>])

-----------------------------------------------------------------------------
(* Wrappers: parent keys / sequence levels / siblings / documents / embedding                    *)
LvDef == [seq |-> FALSE, key |-> "spec", step |-> 2, sibB |-> FALSE, sibA |-> FALSE, sl |-> FALSE]
\* embed : the innermost key holds the document as a literal block scalar; embed2: so does the key above it
\*         (a document inside a block scalar inside a document inside a block scalar)
\* docE  : an EMPTY document in front of the document with the rules: "cmt" (`---`, comment, `---`), "bare" (`---`, `---`),
\*         "null" (`--- ~`, `---`)
\* mix   : the rule list gets one more item that is not a rule but holds a rule list of its own (`- mx:` + `- alert: SibM`)
WrNone == [levels |-> <<>>, embed |-> FALSE, embed2 |-> FALSE, docB |-> FALSE, docA |-> FALSE, docE |-> "none", mix |-> FALSE]

\* a sibling key at column c (0-based indentation): a scalar, or (sl) a bare rule list of its own with one rule
SibLines(c, dash, key, name, sl) ==
  LET p0 == Cat(FSp(IF dash THEN c - 2 ELSE c), F(IF dash THEN "- " ELSE "")) IN
  IF sl THEN <<Cat(p0, F(key \o ":")), Cat(FSp(c), F("- alert: " \o name)), Cat(FSp(c), F("  expr: up"))>>
  ELSE <<Cat(p0, F(key \o ": 1"))>>

RECURSIVE WrapAcc(_, _, _, _)
\* returns [before, after, ind, nB, nA]: the lines in front, the lines behind, the indentation of the body,
\* the number of sibling rule lists in front / behind
WrapAcc(w, i, ind, acc) ==
  IF i > Len(w.levels) THEN [acc EXCEPT !.ind = ind]
  ELSE LET lv     == w.levels[i]
           keycol == ind + (IF lv.seq THEN 2 ELSE 0)
           sb     == IF lv.sibB THEN SibLines(keycol, lv.seq, "sb", "SibB", lv.sl) ELSE <<>>
           kl     == Cat3(FSp(IF lv.seq /\ lv.sibB THEN keycol ELSE ind),
                          F(IF lv.seq /\ ~lv.sibB THEN "- " ELSE ""),
                          \* `|+`: the embedded text keeps its trailing empty lines, so it is the unwrapped file byte for byte
                          F(lv.key \o ":" \o (IF (w.embed /\ i = Len(w.levels)) \/ (w.embed2 /\ i = Len(w.levels) - 1) THEN " |+" ELSE "")))
           sa     == IF lv.sibA THEN SibLines(keycol, FALSE, "sa", "SibA", lv.sl) ELSE <<>>
       IN WrapAcc(w, i + 1, keycol + lv.step,
                  [before |-> acc.before \o sb \o <<kl>>, after |-> sa \o acc.after, ind |-> 0,
                   nB |-> acc.nB + (IF lv.sibB /\ lv.sl THEN 1 ELSE 0), nA |-> acc.nA + (IF lv.sibA /\ lv.sl THEN 1 ELSE 0)])

WrapParts(w) ==
  LET a == WrapAcc(w, 1, 0, [before |-> <<>>, after |-> <<>>, ind |-> 0, nB |-> 0, nA |-> 0]) IN
  [before |-> (IF w.docB THEN <<F("x: 1"), F("---")>> ELSE <<>>)
              \o (CASE w.docE = "cmt"  -> <<F("---"), F("# note"), F("---")>>
                    [] w.docE = "bare" -> <<F("---"), F("---")>>
                    [] w.docE = "null" -> <<F("--- ~"), F("---")>>
                    [] OTHER           -> <<>>)
              \o a.before,
   after  |-> a.after \o (IF w.docA THEN <<F("---"), F("y: 2")>> ELSE <<>>),
   ind    |-> a.ind, nB |-> a.nB, nA |-> a.nA]

ShiftRegs(rs, dL, dC, embed) ==
  [i \in DOMAIN rs |-> IF rs[i].lo = 1 /\ rs[i].hi = 1 /\ ~embed
                       THEN [rs[i] EXCEPT !.l = @ + dL]
                       ELSE [rs[i] EXCEPT !.l = @ + dL, !.hi = @ + dC,
                                          !.lo = IF @ = 1 THEN 1 ELSE @ + dC]]
ShiftPos(ps, dL, dC, embed) ==
  [i \in DOMAIN ps |-> IF ps[i].bl /\ ~embed
                       THEN [ps[i] EXCEPT !.l = @ + dL]
                       ELSE [ps[i] EXCEPT !.l = @ + dL, !.f = @ + dC, !.t = @ + dC]]
ShiftNode(n, dL, dC, embed) ==
  [n EXCEPT !.allow = ShiftRegs(@, dL, dC, embed), !.pos = ShiftPos(@, dL, dC, embed), !.lastc = @ + dL]
ShiftRule(r, dL, dC, embed) ==
  [r EXCEPT !.first = @ + dL, !.last = @ + dL,
            !.nodes = [i \in DOMAIN r.nodes |-> ShiftNode(r.nodes[i], dL, dC, embed)]]

(* CR LF line endings: pint keeps the CR in its lines, so the newline cell of a line is len+2 (the LF byte)
   and the cell of an empty line is column 2; cells of characters do not move. Regions that reach the
   newline cell are widened by one; the exact cells of multi-line scalars are not asserted.             *)
CrlfRegs(rs, lines) == [i \in DOMAIN rs |-> IF rs[i].hi = BL(lines[rs[i].l]) + 1 THEN [rs[i] EXCEPT !.hi = @ + 1] ELSE rs[i]]
CrlfNode(n, lines)  == [n EXCEPT !.allow = CrlfRegs(@, lines), !.reg = @ /\ Len(n.pos) = 1 /\ Len(n.allow) = 1]
CrlfRule(r, lines)  == [r EXCEPT !.nodes = [i \in DOMAIN r.nodes |-> CrlfNode(r.nodes[i], lines)]]

(* Render: the file as written, ExpectedSpan / ExpectedLines of every rule, and the displacement. *)
Render(lay) ==
  LET b  == RenderBase(lay)
      w  == WrapParts(lay.wrap)
      dL == Len(w.before)
      dC == w.ind
      body == [i \in DOMAIN b.lines |-> IF b.lines[i].t = "" /\ ~lay.wrap.embed THEN Empty
                                       ELSE Cat(FSp(dC), b.lines[i])]
      ri   == IF lay.base = "list" THEN 0 ELSE lay.gi + 2 + lay.rstep
      mixl == IF lay.wrap.mix
              THEN <<Cat(FSp(dC + ri), F("- mx:")), Cat(FSp(dC + ri), F("  - alert: SibM")), Cat(FSp(dC + ri), F("    expr: up"))>>
              ELSE <<>>
      all  == w.before \o body \o mixl \o w.after
      rs   == [i \in DOMAIN b.rules |-> ShiftRule(b.rules[i], dL, dC, lay.wrap.embed)]
  IN [lines |-> all,
      rules |-> IF lay.crlf THEN [i \in DOMAIN rs |-> CrlfRule(rs[i], all)] ELSE rs,
      dLine |-> dL, dCol |-> dC, nB |-> w.nB, nA |-> w.nA,
      baseLines |-> b.lines, baseRules |-> b.rules]

LineT(ls) == [i \in DOMAIN ls |-> ls[i].t]
LineB(ls) == [i \in DOMAIN ls |-> BL(ls[i])]
=============================================================================
