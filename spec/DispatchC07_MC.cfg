SPECIFICATION Spec
CONSTANTS
  NProms = {1, 2}
  LayoutIds = {1, 2, 3, 4}
  Eols = {"lf", "crlf"}
  Priors = {"none", "expired"}
  Extras = TRUE
  Rules = {2}
  Scopes = {"rule", "file"}
  OnlyBasePairs = FALSE
  Slim = FALSE
  AllPlacements = FALSE
INVARIANTS Inv_C07
VIEW MCView
CHECK_DEADLOCK FALSE
