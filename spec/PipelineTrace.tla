--------------------------- MODULE PipelineTrace ---------------------------
(***************************************************************************)
(* JUDGE for C02: the recorded runs of the real lint pipeline (in-process  *)
(* under recover, and the pint binary) are replayed through the Pipeline   *)
(* machine.  One record per stage; the promises of Pipeline are evaluated  *)
(* on the recorded values (VIOL), a record the machine has no action for   *)
(* at that point (Crash, Hang, a stage out of order) is a VIOL as well.    *)
(***************************************************************************)
EXTENDS Pipeline, Json

TraceLog == ndJsonDeserialize("c02_trace.ndjson")

VARIABLES l, cid, variant, feat, N, done
tvars == <<vars, l, cid, variant, feat, N, done>>

Rec == TraceLog[l]

TraceInit == Init /\ l = 1 /\ cid = 0 /\ variant = "" /\ feat = "" /\ N = 0 /\ done = FALSE

Viol(what, detail) == PrintT(<<"VIOL", cid, ToJson([what |-> what, variant |-> variant, feat |-> feat, detail |-> detail])>>)
Max(a, b) == IF a >= b THEN a ELSE b

\* a new file starts: whatever state the previous run ended in
TRead ==
  /\ l <= Len(TraceLog) /\ Rec.ev = "Read"
  /\ IF pc \in {"idle", "rendered", "crashed"} THEN TRUE
     ELSE PrintT(<<"VIOL", cid, ToJson([what |-> "unfinished", variant |-> variant, feat |-> feat, detail |-> pc])>>)
  /\ n' = Rec.n /\ pc' = "read"
  /\ entries' = <<>> /\ jobs' = <<>> /\ reports' = <<>> /\ outs' = <<>>
  \* a line is inside the file when it is inside it by LF count (pint, console reporter) or by YAML's own line breaks;
  \* after a final line break the empty line n+1 counts as well (end-of-input positions of the YAML scanner)
  /\ N' = Max(Rec.n, Rec.ny) + (IF Rec.trail THEN 1 ELSE 0)
  /\ cid' = Rec.id /\ variant' = Rec.v /\ feat' = Rec.feat
  /\ l' = l + 1 /\ UNCHANGED done

BadEntries(es) == {k \in 1..Len(es) : ~EntryOK(es[k])}

TParsed ==
  /\ l <= Len(TraceLog) /\ Rec.ev = "Parsed"
  /\ Parsed(Rec.entries)
  /\ IF BadEntries(Rec.entries) = {} THEN TRUE
     ELSE Viol("entry", {Rec.entries[k].kind : k \in BadEntries(Rec.entries)})
  /\ IF Rec.finderr = "" THEN TRUE ELSE PrintT(<<"DRIFT", cid, ToJson([what |-> "finder error", detail |-> Rec.finderr])>>)
  /\ l' = l + 1 /\ UNCHANGED <<cid, variant, feat, N, done>>

BadJobs(js) == {k \in 1..Len(js) : k > Len(entries) \/ js[k].entry # k \/ ~JobOK(entries[k], js[k].checks)}

TDispatched ==
  /\ l <= Len(TraceLog) /\ Rec.ev = "Dispatched"
  /\ Dispatched([k \in 1..Len(Rec.jobs) |-> Rec.jobs[k].checks])
  /\ IF Len(Rec.jobs) = Len(entries) /\ BadJobs(Rec.jobs) = {} THEN TRUE
     ELSE Viol("dispatch", {[entry |-> IF k <= Len(entries) THEN entries[k].kind ELSE "none", checks |-> Rec.jobs[k].checks] : k \in BadJobs(Rec.jobs)})
  /\ l' = l + 1 /\ UNCHANGED <<cid, variant, feat, N, done>>

BadLines(rs) == {i \in 1..Len(rs) : ~LinesOK(rs[i], N)}

TReported ==
  /\ l <= Len(TraceLog) /\ Rec.ev = "Reported"
  /\ Reported(Rec.reports)
  /\ IF BadLines(Rec.reports) = {} THEN TRUE
     ELSE Viol("lines", {[reporter |-> Rec.reports[i].reporter, first |-> Rec.reports[i].first, last |-> Rec.reports[i].last,
                            dlines |-> Rec.reports[i].dlines, n |-> N] : i \in BadLines(Rec.reports)})
  /\ IF ErrorsReported(entries, Rec.reports) THEN TRUE
     ELSE Viol("unreported", {k \in 1..Len(entries) : entries[k].err /\ ~\E i \in 1..Len(Rec.reports) : Rec.reports[i].entry = k})
  /\ l' = l + 1 /\ UNCHANGED <<cid, variant, feat, N, done>>

TRendered ==
  /\ l <= Len(TraceLog) /\ Rec.ev = "Rendered"
  /\ Rendered(Rec.outs)
  /\ IF RenderedOK(Rec.outs) THEN TRUE
     ELSE Viol("render", {[fmt |-> Rec.outs[i].fmt, err |-> Rec.outs[i].err, ok |-> Rec.outs[i].ok] : i \in {j \in 1..Len(Rec.outs) : ~(Rec.outs[j].ok /\ Rec.outs[j].wf)}})
  /\ l' = l + 1 /\ UNCHANGED <<cid, variant, feat, N, done>>

\* the pint binary: Pipeline!BinOK on the recorded run
TBin ==
  /\ l <= Len(TraceLog) /\ Rec.ev = "Bin"
  /\ IF BinOK(Rec) THEN TRUE
     ELSE PrintT(<<"VIOL", Rec.id, ToJson([what |-> IF Rec.timeout THEN "bin-hang"
                                                   ELSE IF Rec.panic \/ Rec.exit \notin {0, 1} THEN "bin-crash" ELSE "bin-output",
                                          variant |-> IF Rec.relaxed THEN "relaxed" ELSE "strict", feat |-> Rec.feat,
                                          detail |-> [exit |-> Rec.exit, sig |-> Rec.sig, flags |-> Rec.flags,
                                                      json |-> Rec.json, checkstyle |-> Rec.checkstyle, teamcity |-> Rec.teamcity]])>>)
  /\ l' = l + 1 /\ UNCHANGED <<vars, cid, variant, feat, N, done>>

\* anything the Pipeline machine has no action for here: Crash, Hang, or a stage out of order
Known == {"Read", "Parsed", "Dispatched", "Reported", "Rendered", "Bin"}
Expected == [read |-> "Parsed", parsed |-> "Dispatched", dispatched |-> "Reported", reported |-> "Rendered"]
TForeign ==
  /\ l <= Len(TraceLog)
  /\ \/ Rec.ev \notin Known
     \/ (Rec.ev \in {"Parsed", "Dispatched", "Reported", "Rendered"} /\ (pc \notin DOMAIN Expected \/ Expected[pc] # Rec.ev))
  /\ IF Rec.ev \in {"Crash", "Hang"}
     THEN Viol(IF Rec.ev = "Crash" THEN "crash" ELSE "hang", [stage |-> Rec.stage, sig |-> Rec.sig])
     ELSE Viol("out-of-order", [ev |-> Rec.ev, pc |-> pc])
  /\ pc' = "crashed"
  /\ l' = l + 1 /\ UNCHANGED <<n, entries, jobs, reports, outs, cid, variant, feat, N, done>>

TDone ==
  /\ l = Len(TraceLog) + 1 /\ ~done
  /\ done' = TRUE /\ PrintT(<<"DONE", l - 1>>)
  /\ UNCHANGED <<vars, l, cid, variant, feat, N>>

TraceNext == TRead \/ TParsed \/ TDispatched \/ TReported \/ TRendered \/ TBin \/ TForeign \/ TDone
TraceSpec == TraceInit /\ [][TraceNext]_tvars
=============================================================================
