SPECIFICATION Spec
CONSTANTS
  NProms = {1}
  LayoutIds = {2}
  Eols = {"lf", "crlf"}
  Priors = {"none", "expired"}
  Rules = {1, 2, 3, 4, 5, 6, 7, 8, 9, 10, 11}
  Scopes = {"rule", "file"}
  OnlyBasePairs = TRUE
  Slim = FALSE
  AllPlacements = FALSE
INVARIANTS EmitCase
CHECK_DEADLOCK FALSE
