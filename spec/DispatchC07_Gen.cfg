SPECIFICATION Spec
CONSTANTS
  NProms = {1}
  LayoutIds = {2}
  Eols = {"lf"}
  Priors = {"none"}
  Extras = TRUE
  Rules = {1, 2, 3, 4, 5, 6, 7, 8, 9, 10, 11}
  Scopes = {"rule", "file"}
  OnlyBasePairs = FALSE
  Slim = TRUE
  AllPlacements = FALSE
INVARIANTS EmitCase
CHECK_DEADLOCK FALSE
