\* Example MC configuration (the "join" slice of the quick tier). The driver lib/lflow.py generates the
\* configurations it runs (constants per slice, Fixes detected from the analysed tree).
SPECIFICATION Spec
CONSTANTS
  MaxDepth = 2
  MaxStack = 2
  MaxBinNest = 1
  MatcherKinds = {"none", "eq"}
  MatcherKindsB = {"none"}
  Leaves = {"sel"}
  UnFns = {"absent"}
  AggOps = {"sum"}
  AggLabelSets = {{"a"}}
  ArithOps = {"*"}
  CmpOps = {">="}
  SetOps = {"and", "or", "unless"}
  MatchSets = {{}, {"a"}}
  GroupIncs = {{}, {"b"}}
  IgnEmpty = FALSE
  DupLabels = FALSE
  Fixes = {}
  DBSeries = 1
  DBA = {"x", "y"}
  DBB = {"x"}
  DBC = {}
  DBVals = {1}
INVARIANTS Lead_C04 Lead_C12
CHECK_DEADLOCK FALSE
