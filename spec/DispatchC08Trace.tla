-------------------------- MODULE DispatchC08Trace --------------------------
(***************************************************************************)
(* JUDGE for C08. The trace (harness exec-c08) holds, per scenario, one    *)
(* `Base` record (pint run without any switch) followed by `Run` records   *)
(* (the same files and configuration with one mechanism applied), each     *)
(* with the problems of the real --json report as (reporter r, key k) and  *)
(* the check lists the real binary logged per rule class.                  *)
(*   verdict (VIOL): reports(Run) = {p \in reports(Base) : DocKeeps(p.r)}  *)
(*   binding (DRIFT): logged check lists = Strs(ImplChecks(...))           *)
(***************************************************************************)
EXTENDS DispatchC08

TraceLog == ndJsonDeserialize("c08_trace.ndjson")

VARIABLES l, base, done
tvars == <<vars, l, base, done>>

Rec == TraceLog[l]

TraceInit == Init /\ l = 1 /\ base = [reports |-> <<>>, scen |-> 0] /\ done = FALSE

\* binding of the impl-shaped side: what pint dispatched is what the spec says it dispatches
BindChecks(rec, c, fl) ==
  \A i \in DOMAIN rec.checks :
     rec.checks[i].list = Strs(ImplChecks(c, fl, rec.cmd, <<rec.checks[i].kind, rec.checks[i].state>>))
BindWhat(rec, c, fl) ==
  [observed |-> rec.checks,
   expected |-> [i \in DOMAIN rec.checks |-> Strs(ImplChecks(c, fl, rec.cmd, <<rec.checks[i].kind, rec.checks[i].state>>))]]

TBase ==
  /\ l <= Len(TraceLog) /\ Rec.ev = "Base"
  /\ base' = Rec
  /\ IF BindChecks(Rec, Rec.cfg, NoFlags) THEN TRUE
     ELSE PrintT(<<"DRIFT", 0, ToJson([scen |-> Rec.scen, mech |-> "base", what |-> BindWhat(Rec, Rec.cfg, NoFlags)])>>)
  /\ l' = l + 1 /\ UNCHANGED <<vars, done>>

RepSet(rec)  == Range(rec.reports)
Expected(rec) == {p \in RepSet(base) : DocKeeps(rec.mech, rec.args, p.r)}
\* reporters whose problems differ from the documented outcome
Lost(rec)    == {p.r : p \in Expected(rec) \ RepSet(rec)}      \* should be there, is not
Extra(rec)   == {p.r : p \in RepSet(rec) \ Expected(rec)}      \* should not be there, is

\* mechanisms whose documented outcome is part of the property statement (verdict) - the others
\* (rule{enable}, --offline with --enabled) are only bound to the model
Stated == DisableMechs \cup EnableMechs \cup {"offline"}

TRun ==
  /\ l <= Len(TraceLog) /\ Rec.ev = "Run" /\ Rec.scen = base.scen
  /\ IF RepSet(Rec) = Expected(Rec) THEN TRUE
     ELSE PrintT(<<IF Rec.mech \in Stated THEN "VIOL" ELSE "DRIFT", Rec.id,
                   ToJson([mech |-> Rec.mech, args |-> ArgNames(Rec.args), cmd |-> Rec.cmd,
                           lost |-> Lost(Rec), extra |-> Extra(Rec)])>>)
  /\ IF BindChecks(Rec, Rec.cfg, Rec.flags) THEN TRUE
     ELSE PrintT(<<"DRIFT", Rec.id, ToJson([scen |-> Rec.scen, mech |-> Rec.mech, args |-> ArgNames(Rec.args),
                                           what |-> BindWhat(Rec, Rec.cfg, Rec.flags)])>>)
  /\ l' = l + 1 /\ UNCHANGED <<vars, base, done>>

TDone ==
  /\ l = Len(TraceLog) + 1 /\ ~done
  /\ done' = TRUE /\ PrintT(<<"DONE", l - 1>>)
  /\ UNCHANGED <<vars, l, base>>

TraceNext == TBase \/ TRun \/ TDone
TraceSpec == TraceInit /\ [][TraceNext]_tvars
=============================================================================
