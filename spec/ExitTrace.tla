----------------------------- MODULE ExitTrace -----------------------------
(***************************************************************************)
(* JUDGE for C05: one record per execution of the real pint binary         *)
(* (harness exec-c05).                                                     *)
(*   Run  case    the abstract inputs (cmd, flags, requested problems)     *)
(*        exit    exit status of the process                               *)
(*        written / json   the binary's own --json report as (rule, sev)   *)
(*        shown   problem blocks printed by the console reporter           *)
(*        why / failCount / failSev   the error the process ended with     *)
(* Verdict (4a): exit # 0  <=>  some severity in the binary's own JSON     *)
(*   report reaches the documented threshold of --fail-on (Doc side of     *)
(*   Exit); an unusable --fail-on value must not yield a successful run.   *)
(*   Folding: if requested problems are missing from the JSON report while *)
(*   the same check reported on the same rule (they were merged away), the *)
(*   exit status must still be the one all produced problems demand.       *)
(* Binding: the JSON report lists exactly the requested problems           *)
(*   (otherwise the case was not realised: UNBOUND, machinery failure);    *)
(*   (4b) every recorded output equals Exit!ImplRun(case) (else DRIFT).    *)
(***************************************************************************)
EXTENDS Exit

TraceLog == ndJsonDeserialize("c05_trace.ndjson")

VARIABLES l, done
tvars == <<vars, l, done>>

Rec == TraceLog[l]

TraceInit ==
  /\ case = [cmd |-> "lint", failOn |-> "UNSET", minSev |-> "UNSET", showDup |-> FALSE, reports |-> <<>>]
  /\ pc = "Trace" /\ summary = <<>> /\ minSeverity = Warning /\ failOn = Bug /\ failed = FALSE /\ out = NoOut
  /\ l = 1 /\ done = FALSE

SeqSet(s) == {s[k] : k \in 1..Len(s)}
\* the case was realised: the binary reports exactly the requested problems with the requested severities
Bound(c, r) ==
  IF DocFlagValid(c.failOn)
  THEN r.written /\ Len(r.json) = Cardinality(DocProblemSet(c)) /\ SeqSet(r.json) = DocProblemSet(c) /\ ~r.panic
  ELSE ~r.panic

\* Some requested problems are missing from the report although the same check reported on the same rule:
\* they were folded away (Summary.Report / Dedup), not left undetected.
Folded(c, r) ==
  /\ DocFlagValid(c.failOn) /\ r.written /\ ~r.panic
  /\ SeqSet(r.json) \subseteq DocProblemSet(c) /\ SeqSet(r.json) # DocProblemSet(c)
  /\ \A e \in DocProblemSet(c) : \E x \in SeqSet(r.json) : x.rule = e.rule /\ x.reporter = e.reporter

\* "duplicate folding never changes the exit status": when problems were folded away the exit status must still
\* be the one the produced problems demand
Prop_C05_Folding(c, r) == Folded(c, r) => ((r.exit # 0) <=> DocFails(c.failOn, DocSevNames(c)))

\* C05 on the recorded real outputs
Prop_C05(c, r) ==
  IF DocFlagValid(c.failOn)
  THEN (r.exit # 0) <=> DocFails(c.failOn, {r.json[k].sev : k \in 1..Len(r.json)})
  ELSE r.exit # 0

\* the impl-shaped spec predicts everything that was recorded
Bind_Impl(c, r) ==
  LET e == ImplRun(c) IN
  /\ e.exit = r.exit /\ e.written = r.written /\ e.json = r.json /\ e.shown = r.shown /\ e.why = r.why
  \* extra observables: the hidden-problems message of lint and the texts of the rule/owner problems
  /\ (c.cmd = "lint" /\ e.written) => r.hidden = e.hidden
  /\ (c.cmd = "ci") => r.hidden = 0
  /\ e.written => r.ownerProblems = OwnerProblems(c)
  /\ (c.cmd = "lint" /\ e.why = "found problems") =>
        LET failP == ParseSeverity(FlagValue(c.failOn, "bug")) IN
        /\ r.failSev = SevString(failP.sev)
        /\ r.failCount = LintFailProblems(CountBySeverity(ReportAll(<<>>, AllReports(c), 1)), failP.sev)

Sig(c, r) == [cmd |-> c.cmd, failOn |-> c.failOn, minSev |-> c.minSev, showDup |-> c.showDup,
              reports |-> [k \in 1..Len(c.reports) |-> c.reports[k].kind \o ":" \o c.reports[k].sev \o ":" \o ToString(c.reports[k].c)],
              exit |-> r.exit, json |-> r.json, workers |-> r.workers, produced |-> DocProblemSet(c),
              folded |-> Folded(c, r)]

TRun ==
  /\ l <= Len(TraceLog) /\ Rec.ev = "Run"
  /\ LET c == Rec.case IN
     /\ IF Bound(c, Rec) THEN TRUE
        ELSE PrintT(<<"UNBOUND", Rec.id, ToJson([case |-> c, written |-> Rec.written, json |-> Rec.json,
                                                   exit |-> Rec.exit, panic |-> Rec.panic, why |-> Rec.why])>>)
     /\ IF Prop_C05(c, Rec) /\ Prop_C05_Folding(c, Rec) THEN TRUE
        ELSE PrintT(<<"VIOL", Rec.id, ToJson(Sig(c, Rec))>>)
     /\ IF Bind_Impl(c, Rec) THEN TRUE
        ELSE PrintT(<<"DRIFT", Rec.id, ToJson([case |-> c, expected |-> ImplRun(c),
                       observed |-> [exit |-> Rec.exit, written |-> Rec.written, json |-> Rec.json,
                                     shown |-> Rec.shown, why |-> Rec.why, failCount |-> Rec.failCount,
                                     failSev |-> Rec.failSev, hidden |-> Rec.hidden, ownerProblems |-> Rec.ownerProblems]])>>)
  /\ l' = l + 1 /\ UNCHANGED <<vars, done>>

TDone ==
  /\ l = Len(TraceLog) + 1 /\ ~done
  /\ done' = TRUE /\ PrintT(<<"DONE", l - 1>>)
  /\ UNCHANGED <<vars, l>>

TraceNext == TRun \/ TDone
TraceSpec == TraceInit /\ [][TraceNext]_tvars
=============================================================================
