#!/usr/bin/env python3
"""Rebuild MANIFEST.json from manifest.d/*.json (one checks[] entry per property); unclaimed properties go to not_applicable."""
import glob, json, os, subprocess
H = os.path.dirname(os.path.abspath(__file__))
props = [json.loads(l)["id"] for l in open(os.path.join(H, "properties.jsonl"))]
m = json.load(open(os.path.join(H, "MANIFEST.json")))
checks = {}
for f in sorted(glob.glob(os.path.join(H, "manifest.d", "C*.json"))):
    c = json.load(open(f)); checks[c["property_id"]] = c
na_reasons = {}
p = os.path.join(H, "manifest.d", "not_applicable.json")
if os.path.exists(p):
    na_reasons = json.load(open(p))
m["checks"] = [checks[i] for i in props if i in checks]
m["not_applicable"] = [{"property_id": i, "reason": na_reasons.get(i, "check not built yet (work in progress; planned in DESIGN.md §4)")} for i in props if i not in checks]
for e in m.get("engines", []):
    e["serves_properties"] = [i for i in props if i in checks]
hooks = subprocess.run(["git", "-C", "/repo", "log", "--format=%h %s"], capture_output=True, text=True).stdout.splitlines()
m["hooks"]["source_commits"] = [l.split()[0] for l in hooks if l.split(" ", 1)[1].startswith("verif:")]
json.dump(m, open(os.path.join(H, "MANIFEST.json"), "w"), indent=1)
print("claimed:", [c["property_id"] for c in m["checks"]], "hooks:", m["hooks"]["source_commits"])
