#!/bin/sh
# Build the framework from files on disk only (offline): syntax-check the specs and warm the Go build cache.
set -e
cd "$(dirname "$0")"
unset GOSUMDB GOTOOLCHAIN
export GOFLAGS=-mod=mod GOPROXY=off
tmp=$(mktemp -d)
trap 'rm -rf "$tmp"' EXIT
cp -r spec "$tmp/spec"
for f in "$tmp"/spec/*.tla; do
  (cd "$tmp/spec" && java -cp /opt/veriftools/tla/tla2tools.jar:/opt/veriftools/tla/CommunityModules-deps.jar tla2sany.SANY "$(basename "$f")" >"$tmp/sany.log" 2>&1) || { cat "$tmp/sany.log"; exit 1; }
done
cp -r harness "$tmp/harness"
cp "${VERIF_REPO:-/repo}/go.sum" "$tmp/harness/go.sum"
(cd "$tmp/harness" && go build -tags verif -o "$tmp/vh" ./cmd/vh)
(cd "${VERIF_REPO:-/repo}" && go build -tags verif -o "$tmp/pint" ./cmd/pint)
echo setup ok
