#!/bin/sh
# verify every seeded/*/patch.diff and mutants/*.patch still applies on /repo HEAD
for p in /verif/seeded/*/patch.diff /verif/mutants/*.patch; do
  git -C /repo apply --check "$p" 2>/dev/null || echo "DOES NOT APPLY: $p"
done
