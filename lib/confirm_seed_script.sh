#!/bin/sh
# usage: confirm_seed_script.sh <PID> <n>  — demo is demo/demo.sh <source-tree> (rc 0 = property holds)
PID=$1; N=$2; SRC=${SEED_SRC:-/tmp/seed-$PID-out/$N}; WT=/tmp/adopt-$PID-$N
unset GOSUMDB GOTOOLCHAIN; export GOFLAGS=-mod=mod GOPROXY=off
git -C /repo worktree remove --force $WT 2>/dev/null
git -C /repo worktree add -q --detach $WT HEAD || exit 2
git -C $WT apply $SRC/patch.diff || { echo "PATCH DOES NOT APPLY"; git -C /repo worktree remove --force $WT; exit 2; }
${SHELL_BIN:-sh} $SRC/demo/${DEMO:-demo.sh} $WT >/dev/null 2>&1; W=$?
git -C $WT apply -R $SRC/patch.diff
${SHELL_BIN:-sh} $SRC/demo/${DEMO:-demo.sh} $WT >/dev/null 2>&1; WO=$?
echo "$PID-$N: demo with change rc=$W (want 1), without rc=$WO (want 0)"
git -C /repo worktree remove --force $WT
[ $W = 1 ] && [ $WO = 0 ]
