"""Common machinery for the /verif checks (see DESIGN.md §2).

Roles:  MC (TLC model-checks Spec |= Property), GEN (TLC enumerates/simulates cases),
        EXEC (Go harness `vh` / the pint binary runs the cases on the real code),
        JUDGE (TLC evaluates property + binding predicates over the recorded trace).

Exit-code policy: 0 held, 1 VIOLATION (real-code evidence only), 2 machinery failure.
"""
import atexit
import json
import os
import re
import shutil
import subprocess
import sys
import tempfile
import time

VERIF = os.path.dirname(os.path.dirname(os.path.abspath(__file__)))
SPEC_DIR = os.path.join(VERIF, "spec")
HARNESS_DIR = os.path.join(VERIF, "harness")
EVIDENCE_DIR = os.path.join(VERIF, "evidence")
REPLAY_DIR = os.path.join(VERIF, "replays")
TLA_CP = "/opt/veriftools/tla/tla2tools.jar:/opt/veriftools/tla/CommunityModules-deps.jar"
NCPU = os.cpu_count() or 4


class MachineryError(Exception):
    """Anything that is not a statement about pint: exit 2."""


def log(*a):
    print(*a, file=sys.stderr, flush=True)


def go_env():
    env = dict(os.environ)
    # probed: the cached go1.24.0 toolchain switch works only with these two unset
    env.pop("GOSUMDB", None)
    env.pop("GOTOOLCHAIN", None)
    env["GOFLAGS"] = "-mod=mod"
    env["GOPROXY"] = "off"
    env.setdefault("GOCACHE", os.path.expanduser("~/.cache/go-build"))
    return env


class Ctx:
    def __init__(self, prop, tier="quick", seed=None, repo=None, purge_replays=True):
        self.prop = prop
        self.tier = tier
        self.seed = int(seed if seed is not None else os.environ.get("VERIF_SEED", "1") or 1)
        self.repo = os.path.abspath(repo or os.environ.get("VERIF_REPO", "/repo"))
        self.t0 = time.time()
        base = os.environ.get("VERIF_TMP") or tempfile.gettempdir()
        self.scratch = tempfile.mkdtemp(prefix="verif-%s-" % prop, dir=base)
        self.keep = bool(os.environ.get("VERIF_KEEP"))
        atexit.register(self.cleanup)
        if purge_replays and not os.environ.get("VERIF_NO_EVIDENCE"):
            import glob
            for old in glob.glob(os.path.join(REPLAY_DIR, prop + "-*.json")):
                os.unlink(old)       # replays of earlier runs of this property are stale
        self.tlc_stats = []      # one dict per TLC run
        self.notes = []
        self._vh = {}
        self._pint = {}

    @property
    def thorough(self):
        return self.tier == "thorough"

    def cleanup(self):
        if not self.keep:
            shutil.rmtree(self.scratch, ignore_errors=True)

    def path(self, *p):
        d = os.path.join(self.scratch, *p)
        os.makedirs(os.path.dirname(d), exist_ok=True)
        return d

    def mkdir(self, *p):
        d = os.path.join(self.scratch, *p)
        os.makedirs(d, exist_ok=True)
        return d

    def wall(self):
        return round(time.time() - self.t0, 2)

    # ---------------------------------------------------------------- builds
    def build_vh(self, race=False):
        """Build the Go harness against the current working tree of the repo (tag verif)."""
        key = bool(race)
        if key in self._vh:
            return self._vh[key]
        src = self.mkdir("harness-src")
        if not os.path.exists(os.path.join(src, "go.mod")):
            shutil.rmtree(src)
            shutil.copytree(HARNESS_DIR, src, ignore=shutil.ignore_patterns("bin", "*.test"))
            with open(os.path.join(src, "go.mod")) as f:
                gm = f.read()
            gm = re.sub(r"(replace github.com/cloudflare/pint => ).*", r"\1" + self.repo, gm)
            with open(os.path.join(src, "go.mod"), "w") as f:
                f.write(gm)
            shutil.copy(os.path.join(self.repo, "go.sum"), os.path.join(src, "go.sum"))
        out = self.path("bin", "vh-race" if race else "vh")
        cmd = ["go", "build", "-tags", "verif"] + (["-race"] if race else []) + ["-o", out, "./cmd/vh"]
        r = subprocess.run(cmd, cwd=src, env=go_env(), capture_output=True, text=True)
        if r.returncode != 0:
            raise MachineryError("harness build failed:\n" + r.stdout + r.stderr)
        self._vh[key] = out
        return out

    def build_pint(self, race=False):
        key = bool(race)
        if key in self._pint:
            return self._pint[key]
        out = self.path("bin", "pint-race" if race else "pint")
        cmd = ["go", "build", "-tags", "verif"] + (["-race"] if race else []) + ["-o", out, "./cmd/pint"]
        r = subprocess.run(cmd, cwd=self.repo, env=go_env(), capture_output=True, text=True)
        if r.returncode != 0:
            raise MachineryError("pint build failed:\n" + r.stdout + r.stderr)
        self._pint[key] = out
        return out

    def vh(self, sub, cases_path, trace_path, *args, race=False, timeout=3600, env=None):
        """EXEC: run harness sub-command  vh <sub> -in cases -out trace  [args]."""
        exe = self.build_vh(race)
        e = go_env()
        e["VERIF_SEED"] = str(self.seed)
        e["VERIF_TIER"] = self.tier
        e["VERIF_REPO"] = self.repo
        e["VERIF_DIR"] = VERIF
        if env:
            e.update(env)
        cmd = [exe, sub, "-in", cases_path, "-out", trace_path] + [str(a) for a in args]
        t = time.time()
        try:
            r = subprocess.run(cmd, env=e, capture_output=True, text=True, timeout=timeout, cwd=self.scratch)
        except subprocess.TimeoutExpired:
            raise MachineryError("harness %s timed out after %ss" % (sub, timeout))
        if r.returncode != 0:
            raise MachineryError("harness %s failed rc=%s:\n%s\n%s" % (sub, r.returncode, r.stdout[-4000:], r.stderr[-8000:]))
        log("[exec] vh %s: %.1fs %s" % (sub, time.time() - t, r.stderr.strip().splitlines()[-1] if r.stderr.strip() else ""))
        return r

    # ---------------------------------------------------------------- TLC
    def _spec_copy(self):
        d = os.path.join(self.scratch, "spec")
        if not os.path.isdir(d):
            shutil.copytree(SPEC_DIR, d)
        return d

    def tlc(self, module, cfg, *, workers=None, simulate=None, depth=None, coverage=False,
            timeout=1800, files=None, heap="6g", tag=None, deadlock=None, seed=None,
            dfs=False, allow_violation=False):
        """Run TLC on spec/<module>.tla with spec/<cfg>. Returns dict with counts and PrintT records.

        files: {name: path or text} copied/written next to the spec (e.g. the trace for JUDGE).
        """
        d = self._spec_copy()
        for name, src in (files or {}).items():
            dst = os.path.join(d, name)
            if os.path.exists(str(src)) and not "\n" in str(src):
                if os.path.abspath(src) != os.path.abspath(dst):
                    shutil.copy(src, dst)
            else:
                with open(dst, "w") as f:
                    f.write(src)
        meta = tempfile.mkdtemp(prefix="meta-", dir=self.scratch)
        w = workers if workers is not None else min(NCPU, 16)
        jopts = ["-XX:+UseParallelGC", "-Xmx" + heap, "-Xss64m"]
        if dfs:
            jopts.append("-Dtlc2.tool.queue.IStateQueue=StateDeque")
        cmd = ["java"] + jopts + ["-cp", TLA_CP, "tlc2.TLC", "-workers", str(w), "-metadir", meta,
                                  "-noGenerateSpecTE", "-checkpoint", "0", "-config", cfg]
        if coverage:
            cmd += ["-coverage", "1"]
        if simulate is not None:
            cmd += ["-simulate", "num=%d" % simulate]
            cmd += ["-seed", str(seed if seed is not None else self.seed)]
            if depth:
                cmd += ["-depth", str(depth)]
        if deadlock is False:
            cmd += ["-deadlock"]
        cmd += [module + ".tla"]
        t = time.time()
        try:
            r = subprocess.run(cmd, cwd=d, capture_output=True, text=True, timeout=timeout)
        except subprocess.TimeoutExpired:
            raise MachineryError("TLC %s/%s timed out after %ss" % (module, cfg, timeout))
        finally:
            shutil.rmtree(meta, ignore_errors=True)
        out = r.stdout + r.stderr
        res = parse_tlc(out)
        res.update(module=module, cfg=cfg, rc=r.returncode, wall_s=round(time.time() - t, 2), tag=tag or cfg)
        self.tlc_stats.append({k: res[k] for k in ("module", "cfg", "tag", "rc", "generated", "distinct", "wall_s", "depth")})
        log("[tlc] %s %s: rc=%d gen=%s distinct=%s prints=%d %.1fs" % (
            module, cfg, r.returncode, res["generated"], res["distinct"], len(res["prints"]), time.time() - t))
        if r.returncode != 0 and not (allow_violation and res["invariant_violated"]):
            tail = "\n".join(l for l in out.splitlines() if not l.startswith("<<"))[-6000:]
            raise MachineryError("TLC %s/%s failed rc=%d:\n%s" % (module, cfg, r.returncode, tail))
        res["out"] = out
        return res


_PRINT_RE = re.compile(r'^<<"([A-Z_]+)"(?:, (.*))?>>$')


def _untla(s):
    """Decode one TLA+-printed value of a PrintT tuple tail: strings (JSON inside) and ints."""
    s = s.strip()
    if s.startswith('"') and s.endswith('"'):
        inner = json.loads(s)            # TLA string escaping == JSON string escaping for \" and \\
        try:
            return json.loads(inner)
        except Exception:
            return inner
    try:
        return int(s)
    except ValueError:
        return s


def _split_top(s):
    """Split a TLA tuple body on top-level commas (strings may contain commas)."""
    out, cur, instr, esc, depth = [], [], False, False, 0
    for ch in s:
        if instr:
            cur.append(ch)
            if esc:
                esc = False
            elif ch == "\\":
                esc = True
            elif ch == '"':
                instr = False
            continue
        if ch == '"':
            instr = True
            cur.append(ch)
        elif ch in "<{[(":
            depth += 1
            cur.append(ch)
        elif ch in ">}])":
            depth -= 1
            cur.append(ch)
        elif ch == "," and depth == 0:
            out.append("".join(cur))
            cur = []
        else:
            cur.append(ch)
    if cur:
        out.append("".join(cur))
    return out


def parse_tlc(out):
    res = dict(generated=None, distinct=None, depth=None, prints=[], coverage={}, invariant_violated=None,
               errors=[])
    for line in out.splitlines():
        m = _PRINT_RE.match(line)
        if m:
            tail = m.group(2)
            vals = [_untla(x) for x in _split_top(tail)] if tail else []
            res["prints"].append((m.group(1), vals))
            continue
        m = re.match(r"^(\d+) states generated, (\d+) distinct states found", line)
        if m:
            res["generated"], res["distinct"] = int(m.group(1)), int(m.group(2))
        m = re.match(r"^The depth of the complete state graph search is (\d+)", line)
        if m:
            res["depth"] = int(m.group(1))
        m = re.match(r"^Error: Invariant (\S+) is violated", line)
        if m:
            res["invariant_violated"] = m.group(1)
        m = re.match(r"^Error: Action property (\S+) is violated", line)
        if m:
            res["invariant_violated"] = m.group(1)
        if line.startswith("Error:"):
            res["errors"].append(line)
        # coverage lines:  <Action line 12, col 1 to line 20, col 30 of module X>: 123:456
        m = re.match(r"^<(\w+) line \d+, col \d+ to line \d+, col \d+ of module (\w+)>: (\d+):(\d+)", line)
        if m:
            res["coverage"][m.group(1)] = (int(m.group(3)), int(m.group(4)))
    # simulation mode reports differently
    if res["generated"] is None:
        m = re.search(r"(\d+) states checked", out)
        if m:
            res["generated"] = int(m.group(1))
            res["distinct"] = res["distinct"] or 0
    return res


def prints(res, tag):
    return [v for (t, v) in res["prints"] if t == tag]


def write_ndjson(path, records):
    with open(path, "w") as f:
        for r in records:
            f.write(json.dumps(r, separators=(",", ":"), sort_keys=True))
            f.write("\n")
    return path


def read_ndjson(path):
    out = []
    with open(path) as f:
        for line in f:
            line = line.strip()
            if line:
                out.append(json.loads(line))
    return out


# -------------------------------------------------------------------- findings
def load_findings():
    p = os.path.join(VERIF, "known_findings.json")
    with open(p) as f:
        return json.load(f)


def partition_violations(prop, viols):
    """viols: list of dicts with at least 'sig' (normalised signature string) and 'what'.
    Returns (known, new). A signature matches an open finding when it equals one of the finding's
    `signatures` or matches one of its `signature_regex` entries (anchored)."""
    fnd = [f for f in load_findings().get("findings", []) if f.get("property") == prop and f.get("status") == "open"]
    known, new = [], []
    for v in viols:
        hit = None
        for f in fnd:
            if v["sig"] in f.get("signatures", []):
                hit = f
                break
            for rx in f.get("signature_regex", []):
                if re.fullmatch(rx, v["sig"]):
                    hit = f
                    break
            if hit:
                break
        if hit:
            known.append((hit, v))
        else:
            new.append(v)
    return known, new


# -------------------------------------------------------------------- evidence / verdict
def validate_evidence(path):
    schema = "/root/.vp/EVIDENCE.schema.json"
    if not (os.path.exists(schema) and shutil.which("python3-vt")):
        return
    code = ("import json,sys,jsonschema;"
            "jsonschema.validate(json.load(open(sys.argv[1])), json.load(open(sys.argv[2])))")
    r = subprocess.run(["python3-vt", "-c", code, path, schema], capture_output=True, text=True)
    if r.returncode != 0:
        raise MachineryError("evidence does not validate: " + r.stderr[-2000:])


def write_evidence(ctx, level, coverage, assumptions, violations=0, extra=None):
    os.makedirs(EVIDENCE_DIR, exist_ok=True)
    ev = {
        "property_id": ctx.prop,
        "tier": ctx.tier,
        "seed": ctx.seed,
        "level": level,
        "coverage": coverage,
        "assumptions": assumptions,
        "wall_s": ctx.wall(),
        "violations": violations,
        "repo": ctx.repo,
        "tlc_runs": ctx.tlc_stats,
    }
    if extra:
        ev.update(extra)
    if os.environ.get("VERIF_NO_EVIDENCE"):
        return None
    path = os.path.join(EVIDENCE_DIR, ctx.prop + ".json")
    tmp = path + ".tmp"
    with open(tmp, "w") as f:
        json.dump(ev, f, indent=1, sort_keys=True)
        f.write("\n")
    validate_evidence(tmp)
    os.replace(tmp, path)
    return path


def save_replay(ctx, name, payload):
    """Persist a violating case under /verif/replays (the only run-time write besides evidence)."""
    os.makedirs(REPLAY_DIR, exist_ok=True)
    p = os.path.join(REPLAY_DIR, "%s-%s.json" % (ctx.prop, re.sub(r"[^A-Za-z0-9_.-]+", "_", str(name))[:80]))
    with open(p, "w") as f:
        json.dump(payload, f, indent=1, sort_keys=True)
        f.write("\n")
    return p


def conclude(ctx, viols, level, coverage, assumptions, drift=None, extra=None):
    """viols: list of {'sig','what','case'}; prints KNOWN-FINDING / VIOLATION lines, writes evidence,
    returns the exit code."""
    known, new = partition_violations(ctx.prop, viols)
    seen = set()
    for f, v in known:
        if f["id"] in seen:
            continue
        seen.add(f["id"])
        n = sum(1 for (g, _) in known if g["id"] == f["id"])
        print("KNOWN-FINDING: property=%s %s [%s; %d case(s) in this run, e.g. %s]" % (
            ctx.prop, f["what"], f["id"], n, v["sig"]))
    for d in (drift or [])[:5]:
        print("SPEC-DRIFT property=%s %s" % (ctx.prop, d))
    cov = dict(coverage)
    cov["known_finding_cases"] = len(known)
    cov["spec_conformant"] = not drift
    write_evidence(ctx, level, cov, assumptions, violations=len(new), extra=extra)
    if new:
        shown = set()
        for v in new:
            if v["sig"] in shown:
                continue
            shown.add(v["sig"])
            if len(shown) > 10:
                break
            p = save_replay(ctx, v["sig"], v)
            print("VIOLATION property=%s replay=%s" % (ctx.prop, p))
            print("  what: %s" % v.get("what", v["sig"]))
        return 1
    print("OK property=%s tier=%s seed=%d wall=%.1fs known=%d" % (ctx.prop, ctx.tier, ctx.seed, ctx.wall(), len(known)))
    return 0
