#!/bin/sh
# usage: adopt_seed.sh <PID> <n> [--notest]   — confirm a seeded change from /tmp/seed-<PID>-out/<n> in a scratch worktree:
# applies on /repo HEAD, builds, runs pint's full test-suite with the change. Leaves the worktree at /tmp/adopt-<PID>-<n>
# (with the patch applied) for the demo step; remove it afterwards with: git -C /repo worktree remove --force <dir>
set -e
PID=$1; N=$2
SRC=/tmp/seed-$PID-out/$N
WT=/tmp/adopt-$PID-$N
unset GOSUMDB GOTOOLCHAIN; export GOFLAGS=-mod=mod GOPROXY=off
git -C /repo worktree remove --force $WT 2>/dev/null || true
git -C /repo worktree add -q --detach $WT HEAD
git -C $WT apply $SRC/patch.diff
(cd $WT && go build ./... && go vet ./... >/dev/null 2>&1 || true)
if [ "$3" != "--notest" ]; then
  (cd $WT && go test -count=1 ./... 2>&1 | grep -v "^ok\|no test files" | tail -20) || true
fi
echo "worktree ready: $WT"
