"""Shared driver for the LabelFlow family: C04 (non-existent label reports) and C12 (dead code reports).
spec: LabelFlow.tla / LabelFlowTrace.tla ; EXEC: vh exec-lflow (harness/lflow, harness/cmd/vh/exec_c04.go)."""
import json
import re
import vlib
from vlib import prints, write_ndjson, read_ndjson, MachineryError, log

TRACE_CFG = """SPECIFICATION TraceSpec
CONSTANTS
  MaxDepth = 0
  MaxStack = 0
  MaxBinNest = 0
  MatcherKinds = {}
  MatcherKindsB = {}
  Leaves = {}
  UnFns = {}
  AggOps = {}
  AggLabelSets = {}
  ArithOps = {}
  CmpOps = {}
  SetOps = {}
  MatchSets = {}
  GroupIncs = {}
  IgnEmpty = FALSE
  DupLabels = FALSE
  Fixes = %s
  DBSeries = 0
  DBA = {}
  DBB = {}
  DBC = {}
  DBVals = {}
CHECK_DEADLOCK FALSE
"""


def tla(v):
    if isinstance(v, bool):
        return "TRUE" if v else "FALSE"
    if isinstance(v, int):
        return str(v)
    if isinstance(v, str):
        return '"%s"' % v
    if isinstance(v, (set, frozenset, list, tuple)):
        return "{" + ", ".join(sorted(tla(x) for x in v)) + "}"
    raise TypeError(v)


def S(*xs):
    return frozenset(xs)


# ---- vocabularies (constants of LabelFlow.tla) -------------------------------------------------------
BASE = dict(
    MaxDepth=1, MaxStack=2, MaxBinNest=1,
    MatcherKinds=S("none", "eq"), MatcherKindsB=S("none"), Leaves=S("sel"), UnFns=S(), AggOps=S("sum"),
    AggLabelSets=S(S("a")), ArithOps=S("*"), CmpOps=S(), SetOps=S("and"),
    MatchSets=S(S(), S("a")), GroupIncs=S(), IgnEmpty=False, DupLabels=False, Fixes=S(),
    DBSeries=1, DBA=S("x", "y"), DBB=S("x"), DBC=S(), DBVals=S(1),
)


def cfg_text(consts, invariants, fixes=frozenset()):
    c = dict(BASE)
    c.update(consts)
    c["Fixes"] = fixes
    lines = ["SPECIFICATION Spec", "CONSTANTS"]
    for k in sorted(c):
        lines.append("  %s = %s" % (k, tla(c[k])))
    lines.append("INVARIANTS " + " ".join(invariants))
    lines.append("CHECK_DEADLOCK FALSE")
    return "\n".join(lines) + "\n"


ALL_MATCH = S("none", "eq", "neq", "re", "nre", "empty", "nonempty", "reany", "reopt", "eqy")
ALL_UN = S("abs", "neg", "scalar", "vecs", "absent", "rate", "lot", "lotsub", "absentot",
           "lrepc", "lrepa", "lrepcx", "lrepdel", "lrepdelx", "ljoin", "ljoine",
           "sort", "clampmax", "round", "timestamp", "maxot", "countot", "presentot", "hq")
# the unary constructors of phase 1 (depth-2 chains are exhaustive over these only)
UN_P1 = S("abs", "neg", "scalar", "vecs", "absent", "rate", "lot", "lotsub", "absentot",
          "lrepc", "lrepa", "lrepcx", "lrepdel", "lrepdelx", "ljoin", "ljoine")
ALL_AGG = S("sum", "count", "topk", "cv", "group", "max", "min")

ALL_CMP = S("==", "!=", ">", "<", ">=", "<=")
ALL_AGGSETS = S(S(), S("a"), S("b"), S("a", "b"), S("c"))

# exhaustive: vector matching over selectors / absent / one aggregation level (depth 2, no nested binary node)
MC_JOIN = dict(MaxDepth=2, MaxBinNest=1, MatcherKinds=S("none", "eq", "empty"), Leaves=S("sel"), UnFns=S("absent"),
               AggOps=S("sum"), AggLabelSets=S(S("a"), S("b")), ArithOps=S("*"), CmpOps=S(">="), SetOps=S("and", "or", "unless"),
               MatchSets=S(S(), S("a")), GroupIncs=S(S(), S("b")),
               DBSeries=1, DBA=S("x", "y"), DBB=S("x"), DBC=S(), DBVals=S(1))
# exhaustive: constant folding / always-returns reasoning (numbers, vector(), time(), scalar(), absent, count/sum, unary minus)
MC_STATIC = dict(MaxDepth=2, MaxBinNest=1, MatcherKinds=S("none"), Leaves=S("num", "vec", "time"),
                 UnFns=S("neg", "abs", "scalar", "vecs", "absent"), AggOps=S("sum", "count"), AggLabelSets=S(),
                 ArithOps=S("+", "-"), CmpOps=ALL_CMP, SetOps=S("and", "or", "unless"), MatchSets=S(S()), GroupIncs=S(),
                 DBSeries=1, DBA=S(), DBB=S(), DBC=S(), DBVals=S(1))
# exhaustive: every unary constructor over every leaf (depth 1), all matcher kinds, full single-series databases
MC_UNARY = dict(MaxDepth=1, MaxStack=1, DupLabels=True, MatcherKinds=ALL_MATCH, MatcherKindsB=S("none", "eq", "empty"), Leaves=S("sel", "seloff", "num", "time", "vec"), UnFns=ALL_UN,
                AggOps=ALL_AGG, AggLabelSets=ALL_AGGSETS, ArithOps=S(), CmpOps=S(), SetOps=S(),
                MatchSets=S(), GroupIncs=S(), DBSeries=1, DBA=S("x", "y"), DBB=S("x"), DBC=S("x"), DBVals=S(1, 2))
# exhaustive, depth 1: every binary operator and modifier over leaves (reduced matcher kinds)
MC_WIDE1 = dict(MaxDepth=1, MatcherKinds=S("none", "eq", "neq", "empty"), MatcherKindsB=S("none", "eq"), Leaves=S("sel", "num", "vec"), UnFns=S(),
                AggOps=S(), AggLabelSets=S(), ArithOps=S("+", "*"), CmpOps=S("==", ">"), SetOps=S("and", "or", "unless"),
                MatchSets=S(S(), S("a"), S("b"), S("a", "b")), GroupIncs=S(S(), S("b"), S("c")),
                DBSeries=1, DBA=S("x", "y"), DBB=S("x"), DBC=S("x"), DBVals=S(1, 2))
# exhaustive: absent() / aggregations over selectors incl. the empty matcher, joined with * / and / unless (depth 2)
MC_ABSENT = dict(MaxDepth=2, MaxBinNest=1, MatcherKinds=S("none", "eq", "empty"), MatcherKindsB=S("none"), Leaves=S("sel"),
                 UnFns=S("absent", "lrepdel"), AggOps=S("sum"), AggLabelSets=S(S("a")), ArithOps=S("*"), CmpOps=S(), SetOps=S("and", "unless"),
                 MatchSets=S(S("a")), GroupIncs=S(), DBSeries=1, DBA=S("x", "y"), DBB=S("x"), DBC=S(), DBVals=S(1))
# exhaustive: two nested aggregations on either side of a plain arithmetic join (depth 3)
MC_NEST = dict(MaxDepth=3, MaxBinNest=1, MatcherKinds=S("none"), MatcherKindsB=S("none", "eq"), Leaves=S("sel"), UnFns=S(),
               AggOps=S("sum"), AggLabelSets=S(S("a"), S("a", "b")), ArithOps=S("*"), CmpOps=S(), SetOps=S(), MatchSets=S(),
               GroupIncs=S(), DBSeries=1, DBA=S("x"), DBB=S("x", "y"), DBC=S(), DBVals=S(1))
# exhaustive: a binary node whose operands are binary nodes over selectors (depth 2)
MC_NESTBIN = dict(MaxDepth=2, MaxBinNest=2, MaxStack=3, MatcherKinds=S("none"), MatcherKindsB=S("none"), Leaves=S("sel"), UnFns=S(),
                  AggOps=S(), AggLabelSets=S(), ArithOps=S("*"), CmpOps=S(), SetOps=S("and", "unless"), MatchSets=S(S("a")),
                  GroupIncs=S(), DBSeries=1, DBA=S("x", "y"), DBB=S(), DBC=S(), DBVals=S(1))
# exhaustive: comparisons (conditional sources) under or / unless on() / and, over constants and one selector (depth 2)
MC_COND = dict(MaxDepth=2, MaxBinNest=2, MaxStack=2, MatcherKinds=S("none"), MatcherKindsB=S("none"), Leaves=S("sel", "num", "vec"), UnFns=S(),
               AggOps=S(), AggLabelSets=S(), ArithOps=S(), CmpOps=S(">"), SetOps=S("or", "unless", "and"), MatchSets=S(S()),
               GroupIncs=S(), DBSeries=1, DBA=S("x"), DBB=S(), DBC=S(), DBVals=S(1, 2))
# exhaustive: group_left / group_right with include lists over a nested join (depth 2, nested binary nodes)
MC_GRPNEST = dict(MaxDepth=2, MaxBinNest=2, MaxStack=3, MatcherKinds=S("none"), MatcherKindsB=S("none"), Leaves=S("sel"), UnFns=S(),
                  AggOps=S(), AggLabelSets=S(), ArithOps=S("*"), CmpOps=S(), SetOps=S(), MatchSets=S(S("a")), GroupIncs=S(S("b")),
                  DBSeries=1, DBA=S("x"), DBB=S("x"), DBC=S("x"), DBVals=S(1))
# exhaustive: chains of label_replace / label_join / aggregation over a selector (depth 3, unary only)
MC_LREPCHAIN = dict(MaxDepth=3, MaxStack=1, MatcherKinds=S("none", "eq"), MatcherKindsB=S("none"), Leaves=S("sel"),
                    UnFns=S("lrepc", "lrepa", "lrepcx", "lrepdel", "lrepdelx", "ljoin", "ljoine"), AggOps=S("sum"),
                    AggLabelSets=S(S("a"), S("c")), ArithOps=S(), CmpOps=S(), SetOps=S(), MatchSets=S(), GroupIncs=S(),
                    DBSeries=1, DBA=S("x", "y"), DBB=S("x"), DBC=S(), DBVals=S(1))
# exhaustive: label_replace with an empty replacement over selectors / sum(), joined with * / and (depth 3, one binary node)
MC_LREPJOIN = dict(MaxDepth=3, MaxBinNest=1, MatcherKinds=S("none", "eq"), MatcherKindsB=S("none"), Leaves=S("sel"), UnFns=S("lrepdel"),
                   AggOps=S("sum"), AggLabelSets=S(), ArithOps=S("*"), CmpOps=S(), SetOps=S("and"), MatchSets=S(S("a")), GroupIncs=S(),
                   DBSeries=1, DBA=S("x", "y"), DBB=S("x"), DBC=S(), DBVals=S(1))
# exhaustive: group_left / group_right copying back TWO labels that the "many" side removed together
# (without(a,b), {a="",b=""}), matched with on() / on(c) / ignoring(c) (depth 2, one binary node)
MC_GRP2 = dict(MaxDepth=2, MaxBinNest=1, MatcherKinds=S("none", "empty"), MatcherKindsB=S("none", "empty"), Leaves=S("sel"), UnFns=S(),
               AggOps=S("sum"), AggLabelSets=S(S("a", "b")), ArithOps=S("*"), CmpOps=S(), SetOps=S(), MatchSets=S(S(), S("c")),
               GroupIncs=S(S("a", "b")), DBSeries=1, DBA=S("x"), DBB=S("x"), DBC=S("x"), DBVals=S(1))
# simulation over the full vocabulary
SIM_FULL = dict(MaxDepth=3, MaxBinNest=2, MaxStack=3, MatcherKinds=ALL_MATCH, MatcherKindsB=S("none", "eq", "empty"), Leaves=S("sel", "seloff", "num", "time", "vec"),
                UnFns=ALL_UN, AggOps=ALL_AGG, AggLabelSets=ALL_AGGSETS, IgnEmpty=True, DupLabels=True,
                ArithOps=S("+", "-", "*"), CmpOps=ALL_CMP, SetOps=S("and", "or", "unless"),
                MatchSets=S(S(), S("a"), S("b"), S("a", "b")), GroupIncs=S(S(), S("b"), S("c"), S("a", "b")),
                DBSeries=1, DBA=S("x"), DBB=S(), DBC=S(), DBVals=S(1))


def _sel(m, ma="none", mb="none"):
    return {"k": "sel", "m": m, "ma": ma, "mb": mb, "off": False}


def _agg(op, mod, ls, e):
    return {"k": "agg", "op": op, "mod": mod, "ls": ls, "dup": False, "e": e}


def _bin(op, vm, ls, l, r, grp="none", inc=(), bool_=False):
    return {"k": "bin", "op": op, "bool": bool_, "vm": vm, "ls": list(ls), "grp": grp, "inc": list(inc), "l": l, "r": r}


PROBES = {
    # fixes/f6-canjoin-ignoring.patch: a label listed in ignoring() no longer makes a join impossible
    "F6": _bin("and", "ign", ["a"], _sel("m", "eq"), _agg("sum", "none", [], _sel("n"))),
    # fixes/f21-canjoin-on-forced-labels.patch: on(a) with `a` on neither side is a valid join
    "OnForced": _bin("and", "on", ["a"], _agg("sum", "none", [], _sel("m")), _agg("sum", "without", ["a"], _sel("m"))),
    # fixes/f22-empty-matcher-not-guaranteed.patch: absent(m{a=""}) does not guarantee label a
    # fixes/C12-static-value-tracking.patch: count() of a known value is not that value
    "StaticVal": _bin("==", "none", [], _agg("count", "none", [], {"k": "vec", "e": {"k": "num", "v": 2}}), {"k": "num", "v": 1}),
    # fixes/C12-label-replace-empty-replacement.patch: label_replace(e, "a", "", ...) does not guarantee a
    "LrepEmpty": _bin("and", "none", [], {"k": "fn", "f": "lrep", "e": _agg("sum", "none", [], _sel("m")), "dst": "a", "src": "b", "re": ".*", "repl": ""},
                      _agg("sum", "none", [], _sel("n"))),
    "EmptyEq": _bin("and", "none", [], {"k": "fn", "f": "absent", "e": _sel("m", "empty"), "dst": "", "src": "", "re": "", "repl": ""},
                {"k": "fn", "f": "absent", "e": _sel("n"), "dst": "", "src": "", "re": "", "repl": ""}),
}


def detect_fixes(ctx):
    """Which of the proposed repairs the analysed tree contains - decides which variant of the implementation-shaped
    side (constant Fixes of LabelFlow.tla) is model-checked and bound; verdicts never depend on it."""
    names = sorted(PROBES)
    cp = write_ndjson(ctx.path("lflow_probe.ndjson"), [{"e": PROBES[n], "dbs": []} for n in names])
    tp = ctx.path("lflow_probe_trace.ndjson")
    ctx.vh("exec-lflow", cp, tp, env={"LF_NDB": "1", "LF_NPREM": "1", "LF_NCONC": "0"})
    recs = read_ndjson(tp)
    return frozenset(n for n, r in zip(names, recs) if not r["flags"])


def shape_sig(v):
    """Signature string of one violation record printed by LabelFlowTrace (normalised abstract case)."""
    if v["p"] == "C04":
        via = "no-live-branch-fits"
        if v["viadead"]:
            via = "via-dead-branch{" + ";".join(sorted({c["kind"] + ":" + c["cause"] for c in v["causes"]})) + "}"
        return "C04:%s:%s:carries=%s:live=%d/%d:%s" % (
            v["form"], via, "".join(sorted(v["names"])) or "-", v["nlive"], v["nbranches"], v["shape"])
    mod = v["vm"] + "(" + ",".join(sorted(v["ls"])) + ")" if v["vm"] != "none" else "none"
    grp = v["grp"] + "(" + ",".join(sorted(v["inc"])) + ")" if v["grp"] != "none" else "none"
    return "C12:%s/%s:%s:label=%s:%s:%s:%s" % (v["kind"], v["side"], v["cause"], v["label"] or "-", mod, grp, v["shape"])


def what(v):
    if v["p"] == "C04" and v["form"] == "i":
        return ("alerts/template reports label %r as not present on the results of `%s` (single branch) but the engine returns a series "
                "carrying it on %s" % (v["label"], v["q"], json.dumps(v["wit"]["db"])))
    if v["p"] == "C04":
        return ("the engine returns a series with labels {%s} for `%s` which no live branch of pint's analysis can have (%d branches, %d live); data: %s"
                % (",".join(v["names"]), v["q"], v["nbranches"], v["nlive"], json.dumps(v["wit"]["db"])))
    return ("promql/impossible flags `%s` (%s) but the operation %s on data whose series carry every named label (%d of %d databases), e.g. %s"
            % (v["q"], v["msg"][:120], "returns series" if v["nonempty"] and v["kind"] != "or" and not (v["kind"] == "join" and v["op"] == "unless") else "differs from its left operand",
               v["differs"] if (v["kind"] == "or" or (v["kind"] == "join" and v["op"] == "unless")) else v["nonempty"], v["nprem"],
               json.dumps(v["wit"]["db"])))


def pshape(e):
    """Coarse shape of an abstract expression (used only to sample leads evenly)."""
    k = e["k"]
    if k in ("sel", "num", "time"):
        return k
    if k == "vec":
        return "vector(%s)" % pshape(e["e"])
    if k == "fn":
        return "%s(%s)" % (e["f"], pshape(e["e"]))
    if k == "agg":
        return "%s_%s(%s)" % (e["op"], e["mod"], pshape(e["e"]))
    return "(%s %s%s %s %s %s)" % (pshape(e["l"]), e["op"], "_bool" if e["bool"] else "", e["vm"], e["grp"], pshape(e["r"]))


def tiers(thorough):
    """[(name, constants, replay target)] of the exhaustive MC slices, simulation size, simulation replay cap."""
    if thorough:
        t_wide = dict(MC_WIDE1, MatcherKinds=S("none", "eq", "neq", "empty", "reopt"), MatcherKindsB=S("none", "empty"),
                      DBC=S(), DBVals=S(1))
        return [("join", MC_JOIN, 6000), ("static", MC_STATIC, 3000), ("unary", dict(MC_UNARY, DBVals=S(1)), 4000),
                ("unary2", dict(MC_UNARY, MaxDepth=2, DBVals=S(1), DBC=S(), DupLabels=False, UnFns=UN_P1, AggOps=S("sum", "count", "topk", "cv")), 5000),
                ("wide1", t_wide, 6000), ("nest", MC_NEST, 2000), ("nestbin", MC_NESTBIN, 2000),
                ("cond", dict(MC_COND, MaxStack=3), 3000), ("absent", MC_ABSENT, 2000),
                ("grpnest", dict(MC_GRPNEST, GroupIncs=S(S("b"), S("c")), DBA=S("x", "y")), 3000), ("lrepchain", MC_LREPCHAIN, 3000), ("lrepjoin", MC_LREPJOIN, 2000), ("grp2", MC_GRP2, 3000)], 250, 15000
    q_join = dict(MC_JOIN, MatcherKinds=S("none", "eq"), AggLabelSets=S(S("a")))
    q_wide = dict(MC_WIDE1, MatcherKinds=S("none", "eq", "empty", "reopt"), MatcherKindsB=S("none", "empty"), CmpOps=S(">="), ArithOps=S("*"),
                  MatchSets=S(S(), S("a")), GroupIncs=S(S(), S("b")), DBC=S(), DBVals=S(1))
    return [("join", q_join, 800), ("static", MC_STATIC, 800), ("unary", dict(MC_UNARY, DBVals=S(1)), 1200), ("wide1", q_wide, 1500),
            ("nest", MC_NEST, 1100), ("nestbin", MC_NESTBIN, 500), ("cond", MC_COND, 700), ("absent", MC_ABSENT, 500),
            ("grpnest", MC_GRPNEST, 500), ("lrepchain", MC_LREPCHAIN, 500), ("lrepjoin", MC_LREPJOIN, 500), ("grp2", MC_GRP2, 600)], 25, 1200


def skey(e, top=True):
    """Stratification key of an expression: everything but metric names; below the top node selectors lose their matchers."""
    k = e["k"]
    if k == "sel":
        return "sel{%s,%s%s}" % (e["ma"], e["mb"], ",off" if e["off"] else "") if top else "sel"
    if k in ("num", "time"):
        return k + (str(e["v"]) if k == "num" and top else "")
    if k == "vec":
        return "vector(%s)" % skey(e["e"], top)
    if k == "fn":
        return "%s[%s%s%s%s](%s)" % (e["f"], e["dst"], e["src"], e["re"], e["repl"], skey(e["e"], False))
    if k == "agg":
        return "%s_%s[%s%s](%s)" % (e["op"], e["mod"], "".join(sorted(e["ls"])), "+dup" if e.get("dup") else "", skey(e["e"], False))
    return "(%s %s%s %s[%s] %s[%s] %s)" % (skey(e["l"], False), e["op"], "_bool" if e["bool"] else "", e["vm"], "".join(sorted(e["ls"])),
                                           e["grp"], "".join(sorted(e["inc"])), skey(e["r"], False))


def stratified(cs, target, rnd):
    """About `target` cases: every stratum (skey) is represented, larger strata proportionally more."""
    cs = sorted(cs, key=lambda c: json.dumps(c, sort_keys=True))
    if len(cs) <= target:
        return cs
    groups = {}
    for c in cs:
        groups.setdefault(skey(c["e"]), []).append(c)
    keys = sorted(groups)
    for k in keys:
        rnd.shuffle(groups[k])
    if len(keys) >= target:              # more strata than budget: one case from a random choice of strata
        rnd.shuffle(keys)
        return [groups[k][0] for k in sorted(keys[:target])]
    out = [groups[k][0] for k in keys]   # one per stratum, the rest proportionally
    rest = [c for k in keys for c in groups[k][1:]]
    rnd.shuffle(rest)
    return out + rest[:target - len(out)]


def run(ctx, prop, cases_override=None):
    import os
    import random
    import tempfile
    thorough = ctx.thorough
    lead_inv = "Lead_" + prop
    workers = int(os.environ.get("LF_WORKERS", "0")) or None
    cases, leads = [], []
    mc_runs = []
    fixes = detect_fixes(ctx)
    log("[lflow] repairs present in the analysed tree: %s" % (sorted(fixes) or "none"))
    rnd = random.Random(ctx.seed)
    nlead_total = 0
    if cases_override is None:
        slices, nsim, ncap = tiers(thorough)
        # ---- MC: exhaustive slices; model-level counterexamples are leads, replayed below on the real code
        for name, consts, target in slices:
            r = ctx.tlc("LabelFlow", "lf_mc_%s.cfg" % name, files={"lf_mc_%s.cfg" % name: cfg_text(consts, [lead_inv, "EmitCase"], fixes)},
                        timeout=5000, workers=workers, tag="MC-" + name, heap="4g")
            mc_runs.append({"distinct": r["distinct"], "generated": r["generated"]})
            ls = [v[0] for v in prints(r, "LEAD")]
            cs = [v[0] for v in prints(r, "CASE")]
            r = None      # the raw TLC output of a large slice is hundreds of MB
            log("[lflow] MC %s: %d expressions checked against %s, %d leads" % (name, len(cs), lead_inv, len(ls)))
            nlead_total += len(ls)
            # replay a bounded, evenly spread sample of the leads (every shape is represented) ...
            groups = {}
            for x in sorted(ls, key=lambda x: json.dumps(x["e"], sort_keys=True)):
                groups.setdefault(pshape(x["e"]), []).append(x)
            per = 6 if thorough else 2
            for k in sorted(groups):
                g = groups[k]
                rnd.shuffle(g)
                leads += g[:per]
            # ... and a stratified sample of all expressions of the slice
            cases += stratified(cs, target, rnd)
        if len(leads) > (20000 if thorough else 800):
            rnd.shuffle(leads)
            leads = leads[:(20000 if thorough else 800)]
        # ---- GEN: simulation over the full vocabulary (deeper, nested binary nodes)
        g = ctx.tlc("LabelFlow", "lf_sim.cfg", files={"lf_sim.cfg": cfg_text(SIM_FULL, ["EmitCase"], fixes)}, simulate=nsim, depth=9,
                    timeout=3000, workers=1, tag="GEN-sim", heap="4g")
        sim = {json.dumps(v[0], sort_keys=True): v[0] for v in prints(g, "CASE")}
        sim = [sim[k] for k in sorted(sim)]
        rnd.shuffle(sim)
        cases += sim[:ncap]
    else:
        cases = cases_override
    # leads first (they carry a witness database), then the distinct generated expressions
    seen, uniq = set(), []
    lead_keys = set()
    for c in [{"e": x["e"], "dbs": x["dbs"]} for x in leads] + cases:
        k = json.dumps(c["e"], sort_keys=True)
        if k in seen:
            continue
        seen.add(k)
        uniq.append(c)
    for x in leads:
        lead_keys.add(json.dumps(x["e"], sort_keys=True))
    cpath = write_ndjson(ctx.path("lflow_cases.ndjson"), uniq)
    # ---- EXEC
    tpath = ctx.path("lflow_trace.ndjson")
    ndb = 300 if thorough else 60
    ctx.vh("exec-lflow", cpath, tpath, env={"LF_NDB": str(ndb), "LF_NPREM": str(ndb), "LF_NCONC": "4" if thorough else "2"}, timeout=7000)
    trace = read_ndjson(tpath)
    if len(trace) != len(uniq):
        raise MachineryError("EXEC returned %d records for %d cases" % (len(trace), len(uniq)))
    # ---- JUDGE: chunks of the trace are judged by independent single-worker TLC runs, a few at a time
    from concurrent.futures import ThreadPoolExecutor
    viols, drift, conc = [], [], []
    chunk = 2500
    offs = list(range(0, len(trace), chunk))

    def judge(off):
        part = trace[off:off + chunk]
        # a bare context with its own scratch copy of spec/ below the run's scratch directory (no replay housekeeping)
        sub = vlib.Ctx.__new__(vlib.Ctx)
        sub.prop, sub.tier, sub.seed, sub.repo, sub.t0, sub.keep = ctx.prop, ctx.tier, ctx.seed, ctx.repo, ctx.t0, ctx.keep
        sub.scratch = tempfile.mkdtemp(prefix="judge-", dir=ctx.scratch)
        sub.tlc_stats, sub.notes, sub._vh, sub._pint = [], [], {}, {}
        ppath = write_ndjson(sub.path("lflow_part.ndjson"), part)
        j = sub.tlc("LabelFlowTrace", "LabelFlowTrace.cfg", workers=1,
                    files={"lflow_trace.ndjson": ppath, "LabelFlowTrace.cfg": TRACE_CFG % tla(fixes)}, timeout=5000, heap="3g", tag="JUDGE")
        sub.cleanup()
        return off, len(part), j, sub.tlc_stats

    with ThreadPoolExecutor(max_workers=int(os.environ.get("LF_JUDGES", "6" if thorough else "4"))) as ex:
        results = list(ex.map(judge, offs))
    for off, n, j, stats in results:
        ctx.tlc_stats += stats
        done = prints(j, "DONE")
        if not done or done[0][0] != n:
            raise MachineryError("JUDGE did not consume all %d trace records of the chunk at %d" % (n, off))
        for cid, v in prints(j, "VIOL"):
            if v["p"] != prop:
                continue
            viols.append({"sig": shape_sig(v), "what": what(v), "case": uniq[cid - 1], "detail": v})
        drift += ["case %s: %s" % (cid, json.dumps(d)[:400]) for cid, d in prints(j, "DRIFT")]
        conc += [(cid, d) for cid, d in prints(j, "CONC")]
    if conc:
        qs = sorted({d["q"] for _, d in conc})
        raise MachineryError("the specification's PromQL semantics disagrees with the real engine on %d results (%d queries: %s), e.g. %s"
                             % (len(conc), len(qs), " ; ".join(qs[:8]), json.dumps(conc[0][1])[:1500]))
    # a model-level lead must reproduce on the real code, otherwise the specification is wrong
    vio_cases = {json.dumps(v["case"]["e"], sort_keys=True) for v in viols}
    lost = [k for k in lead_keys if k not in vio_cases]
    if lost and not drift:
        raise MachineryError("%d model-level counterexample(s) not reproduced on the real code (spec bug), e.g. %s" % (len(lost), lost[0][:600]))
    nontrivial = sum(1 for r in trace if (len(r["sets"]) > 0 and r["size"] > 1))
    flagged = len({c["q"] for r in trace for c in r["c12"] if c["flags"]})     # distinct flagged operations
    cov = {
        "states": sum(r["distinct"] or 0 for r in mc_runs),
        "transitions": sum(r["generated"] or 0 for r in mc_runs),
        "model_level_leads": nlead_total,
        "model_level_leads_replayed": len(lead_keys),
        "repairs_detected_in_tree": sorted(fixes),
        "traces_validated_against_impl": len(trace),
        "samples": [{"q": r["q"], "branches": r["branches"], "tmpl": r["tmpl"], "result_label_sets": [s["names"] for s in r["sets"]],
                     "flags": [f["msg"][:80] for f in r["flags"]]} for r in trace[len(trace) // 2: len(trace) // 2 + 3]],
        "evaluations": sum(r["ndb"] for r in trace) + sum(c["nprem"] for r in trace for c in r["c12"]),
        "distinct_nontrivial": nontrivial if prop == "C04" else flagged,
        "rule": ("distinct expressions (deduplicated AST) that are not a bare leaf and for which the engine returned at least one series"
                 if prop == "C04" else "distinct binary sub-expressions (by query text) carrying a new promql/impossible problem, each evaluated on premise databases"),
        "exhaustive": False,
        "expressions": len(trace),
        "engine_errors": sum(r["nerr"] for r in trace),
        "flagged_operations": flagged,
        "template_reports": sum(len(r["tmpl"]) for r in trace),
        "conc_bindings_checked": sum(len(r["conc"]) for r in trace),
    }
    return vlib.conclude(ctx, viols, "model_checking", cov, [
        "TLC checks the implementation-shaped transfer functions (Abs) against the specification's PromQL semantics (Conc) exhaustively in small vocabularies; every counterexample is replayed",
        "every generated expression: real utils.LabelsSource must equal Abs (binding), real engine results must equal Conc on sampled databases (binding, exit 2 otherwise)",
        "verdicts only from real alerts/template / promql/impossible output versus the real PromQL engine on in-memory databases (2 metrics, labels a,b,c, values x,y)",
        "sample values are constant over time; topk uses k larger than any group; histogram, @ and experimental functions are outside the fragment",
    ], drift=drift)


def replay(ctx, prop, path):
    v = json.load(open(path))
    return run(ctx, prop, cases_override=[v["case"]])
