#!/bin/sh
# usage: confirm_seed_testscript.sh <PID> <n>  — full confirmation of a seeded change whose demo is a testscript for cmd/pint/tests
set -e
PID=$1; N=$2; SRC=/tmp/seed-$PID-out/$N; WT=/tmp/adopt-$PID-$N
unset GOSUMDB GOTOOLCHAIN; export GOFLAGS=-mod=mod GOPROXY=off
/verif/lib/adopt_seed.sh $PID $N --notest >/dev/null
cd $WT
echo "== full suite with change"; go test -count=1 ./... 2>&1 | grep -v "no test files" | awk '{print $1, $2}' | sort | uniq -c | sort -rn | head -20
cp $SRC/demo/*.txt cmd/pint/tests/
name=$(basename $SRC/demo/*.txt .txt)
echo "== demo with change (expect FAIL)"; go test -count=1 -run "TestScripts/$name" ./cmd/pint 2>&1 | tail -3
git apply -R $SRC/patch.diff
echo "== demo without change (expect ok)"; go test -count=1 -run "TestScripts/$name" ./cmd/pint 2>&1 | tail -3
cd /; git -C /repo worktree remove --force $WT
