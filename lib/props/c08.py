"""C08 - every check is switched on and off by the name it reports under
(spec: Dispatch / DispatchC08 / DispatchC08Trace; EXEC: vh exec-c08 driving the real pint binary)."""
import json
import os
import vlib
from vlib import prints, write_ndjson, read_ndjson, MachineryError

# development aid: cap TLC workers on a shared machine (unset = vlib default, up to 16)
W = int(os.environ.get("VERIF_TLC_WORKERS", "0")) or None

CFG = """SPECIFICATION Spec
CONSTANTS
  MinProms = %d
  MaxProms = %d
  Layouts = {%s}
  PreIds = {%s}
  Pairs = %s
  Commands = {%s}
  Hists = {%s}
INVARIANTS %s
CHECK_DEADLOCK FALSE
"""


def cfg(minp, maxp, layouts, pre, pairs, cmds, inv, hists=("added",)):
    return CFG % (minp, maxp, ", ".join(map(str, layouts)), ", ".join(map(str, pre)), "TRUE" if pairs else "FALSE",
                  ", ".join('"%s"' % c for c in cmds), ", ".join('"%s"' % h for h in hists), inv)


MC_INV = "Inv_C08 Inv_OnlineList Inv_Registry"


def sig_of(v):
    return "C08:%s:%s:%s:lost=%s:extra=%s" % (v["cmd"], v["mech"], "+".join(v["args"]), ",".join(sorted(v["lost"])),
                                              ",".join(sorted(v["extra"])))


def what_of(v):
    how = {"cfgDisabled": "checks { disabled = %s }", "cliDisabled": "--disabled %s", "ruleDisable": "rule { disable = %s }",
           "cfgEnabled": "checks { enabled = %s }", "cliEnabled": "--enabled %s", "offline": "--offline%s"}[v["mech"]]
    arg = "" if v["mech"] == "offline" else json.dumps(v["args"])
    s = "pint %s with %s: " % (v["cmd"], how % arg)
    if v["lost"]:
        s += "problems of reporter(s) %s disappear although they are not switched off by that name; " % sorted(v["lost"])
    if v["extra"]:
        s += "problems of reporter(s) %s are still/additionally reported" % sorted(v["extra"])
    return s


def run(ctx, cases_override=None):
    th = ctx.thorough
    # ---- MC: DispatchC08 |= Inv_C08 (Doc = Impl for every name x mechanism x scenario)
    mcs = []
    if cases_override is None:   # a replay only re-executes the stored case
        if th:
            mc = ctx.tlc("DispatchC08", "c08_mc.cfg", files={"c08_mc.cfg": cfg(0, 2, range(5), [0, 1, 2], False, ["lint", "ci"], MC_INV)},
                         timeout=3000, allow_violation=True, workers=W)
            mcs = [mc, ctx.tlc("DispatchC08", "c08_mc2.cfg", files={"c08_mc2.cfg": cfg(1, 1, [1, 3], [0], True, ["lint"], MC_INV)},
                               timeout=3000, allow_violation=True, workers=W)]
        else:
            mcs = [ctx.tlc("DispatchC08", "c08_mc.cfg", files={"c08_mc.cfg": cfg(0, 2, [1, 3], [0, 1, 2], False, ["lint", "ci"], MC_INV)},
                           timeout=3000, allow_violation=True, workers=W)]
    leads = [m["invariant_violated"] for m in mcs if m["invariant_violated"]]
    # ---- GEN
    if cases_override is None:
        if th:
            gens = [cfg(0, 2, range(5), [0, 1, 2], False, ["lint", "ci"], "EmitCase"),
                    # `ci` on two more histories (rule file modified / renamed on the branch)
                    cfg(0, 2, [1, 3], [0, 1, 2], False, ["ci"], "EmitCase", hists=("modified", "moved")),
                    # pairs of names
                    cfg(1, 1, [1], [0], True, ["lint"], "EmitCase"),
                    cfg(1, 1, [1], [0], True, ["ci"], "EmitCase", hists=("modified",))]
        else:
            gens = [cfg(0, 1, [1], [0], False, ["lint", "ci"], "EmitCase"),
                    cfg(2, 2, [2, 3], [1], False, ["lint"], "EmitCase"),
                    cfg(1, 1, [4], [0], False, ["ci"], "EmitCase"),
                    cfg(1, 1, [1], [2], False, ["lint"], "EmitCase")]
        cases = []
        for n, g in enumerate(gens):
            r = ctx.tlc("DispatchC08", "c08_gen%d.cfg" % n, files={"c08_gen%d.cfg" % n: g}, timeout=3000, workers=W)
            cs = [v[0] for v in prints(r, "CASE")]
            if not cs:
                raise MachineryError("GEN %d produced no cases" % n)
            cases += cs
    else:
        cases = cases_override
    cases.sort(key=lambda c: json.dumps(c, sort_keys=True))
    cpath = write_ndjson(ctx.path("c08_cases.ndjson"), cases)
    # ---- EXEC: the real binary
    pint = ctx.build_pint()
    tpath = ctx.path("c08_trace.ndjson")
    ctx.vh("exec-c08", cpath, tpath, pint, timeout=3000)
    trace = read_ndjson(tpath)
    # ---- JUDGE
    j = ctx.tlc("DispatchC08Trace", "DispatchC08Trace.cfg", workers=1, files={"c08_trace.ndjson": tpath}, timeout=3000, heap="8g")
    done = prints(j, "DONE")
    if not done or done[0][0] != len(trace):
        raise MachineryError("JUDGE consumed %d of %d trace records" % ((j["distinct"] or 2) - 2, len(trace)))
    viols = []
    for cid, v in prints(j, "VIOL"):
        viols.append({"sig": sig_of(v), "what": what_of(v), "case": cases[cid - 1], "detail": v})
    drift = ["case %s: %s" % (cid, json.dumps(d)[:400]) for cid, d in prints(j, "DRIFT")]
    if leads and not viols and cases_override is None:
        raise MachineryError("model-level counterexample (%s) not reproduced on the real code: spec bug" % leads)
    runs = [r for r in trace if r["ev"] == "Run"]
    bases = [r for r in trace if r["ev"] == "Base"]
    reporters = sorted({p["r"] for b in bases for p in b["reports"]})
    changed = sum(1 for r in runs if {(p["r"], p["k"]) for p in r["reports"]} !=
                  {(p["r"], p["k"]) for p in bases[r["scen"] - 1]["reports"]})
    sample_i = len(runs) // 3
    # vacuity guard: without any violation, the relational predicate says nothing about a name that never reports in a base run
    if cases_override is None and not viols:   # a violation that was observed stands on its own
        import re
        with open(os.path.join(vlib.SPEC_DIR, "Dispatch.tla")) as f:
            m = re.search(r"CheckNames == <<(.*?)>>", f.read(), re.S)
        names = set(re.findall(r'"([^"]+)"', m.group(1)))
        silent = sorted(names - set(reporters))
        if len(names) != 27 or silent:
            raise MachineryError("vacuous: no base run of this tier reports a problem under %s (rule files / scenarios no longer "
                                 "trigger these checks on this tree)" % silent)
    cov = {
        "states": sum(m["distinct"] or 0 for m in mcs),
        "transitions": sum(m["generated"] or 0 for m in mcs),
        "model_level_leads": leads,
        "traces_validated_against_impl": len(runs),
        "samples": [{"case": {k: runs[sample_i][k] for k in ("cmd", "mech", "args", "flags")},
                     "reporters_left": sorted({p["r"] for p in runs[sample_i]["reports"]}),
                     "checks": runs[sample_i]["checks"][:2]}] if runs else [],
        "evaluations": sum(len(r["reports"]) for r in runs) + sum(len(b["reports"]) for b in bases),
        "distinct_nontrivial": changed,
        "rule": "GEN: every (scenario, mechanism, name) TLC enumerates; non-trivial = runs of the real binary whose report "
                "differs from the scenario's base run (a switch that actually removed or isolated problems)",
        "exhaustive": True,
        "scenarios": len(bases), "binary_runs": len(runs) + len(bases), "reporters_observed": reporters,
        "reporters_observed_n": len(reporters), "trace_records": len(trace),
        "check_lists_bound": sum(len(r["checks"]) for r in trace),
    }
    return vlib.conclude(ctx, viols, "model_checking", cov, [
        "TLC checks Doc = Impl on the registry table for every check name x mechanism x scenario within the constants",
        "verdict from --json reports of the real pint binary (lint and ci on a scratch git repository); "
        "problems compared as (path, reporter, problem, details, severity, lines)",
        "online checks are observed through a prometheus block nobody listens on (every online check reports under its own name)",
        "binding: check lists from pint's own debug log equal Strs(GetChecksForEntry) of the spec per (entry kind, state)",
        "documented list of online checks = checks whose docs page requires a Prometheus server, plus rule/link",
    ], drift=drift)


def replay(ctx, path):
    v = json.load(open(path))
    return run(ctx, cases_override=[v["case"]])
