"""C15 - failover on unavailability only; outages degrade to warnings (spec: Failover / FailoverTrace)."""
import json

import vlib
from vlib import prints, write_ndjson, read_ndjson, MachineryError

CFG = """SPECIFICATION Spec
CONSTANTS
  N = 3
  MaxFaults = %d
  TwoTimeouts = %s
INVARIANTS %s
CHECK_DEADLOCK FALSE
"""


def sig_of(v):
    return "C15:%s:%s:%s" % (v["kind"], v["ep"], v["culprit"] or "-")


def run(ctx, cases_override=None, confirm_pass=False):
    thorough = ctx.thorough
    leads = []
    mc_runs = []
    if cases_override is None:
        # ---- MC: the five loops + error classification |= Doc_C15, exhaustive over the whole table (11^3 x 5 x 2 cases)
        mc = ctx.tlc("Failover", "c15_mc.cfg", files={"c15_mc.cfg": CFG % (3, "TRUE", "Inv_C15 Inv_LoopAgrees Inv_Disabled")},
                     workers=8, timeout=1500, tag="mc", allow_violation=True)
        mc_runs = [mc]
        if mc["invariant_violated"]:
            leads.append("mc:" + mc["invariant_violated"])
        # ---- GEN
        gen = ctx.tlc("Failover", "c15_gen.cfg", workers=4, timeout=1500, tag="gen", files={
            "c15_gen.cfg": CFG % ((3, "TRUE", "EmitCase") if thorough else (2, "FALSE", "EmitCase"))})
        cases = [v[0] for v in prints(gen, "CASE")]
        if not cases:
            raise MachineryError("GEN produced no cases")
    else:
        cases = cases_override
    cases.sort(key=lambda c: json.dumps(c, sort_keys=True))
    for n, c in enumerate(cases):
        c["id"] = n + 1
    cpath = write_ndjson(ctx.path("c15_cases.ndjson"), cases)
    # ---- EXEC
    tpath = ctx.path("c15_trace.ndjson")
    ctx.vh("exec-c15", cpath, tpath, env={"C15_PAR": "64"}, timeout=3000)
    trace = read_ndjson(tpath)
    bad = [r for r in trace if r["b"]["cfgerr"]]
    if bad:
        raise MachineryError("phase B could not load its configuration: %s" % json.dumps(bad[0]["b"])[:500])
    # ---- JUDGE
    j = ctx.tlc("FailoverTrace", "FailoverTrace.cfg", workers=1, files={"c15_trace.ndjson": tpath}, timeout=3000, heap="6g", tag="judge")
    done = prints(j, "DONE")
    if not done or done[0][0] != len(trace):
        raise MachineryError("JUDGE consumed %s of %d trace records" % (done, len(trace)))
    by_id = {c["id"]: c for c in cases}
    viols = []
    for cid, v in prints(j, "VIOL"):
        kind = {"stopped-at": "the loop stopped at an upstream in mode %s although later upstreams should have been tried",
                "continued-after": "a later upstream was contacted after an upstream in mode %s whose result should have been returned as is",
                "result": "the result does not belong to the last contacted upstream (mode %s) / is not returned as is",
                "severity": "the online check's problems do not match the documented severity (last contacted upstream in mode %s)",
                "panic": "crash %s", "inconsistent": "request counts are not a prefix of the configured order %s"}[v["kind"]] % v["culprit"]
        viols.append({"sig": sig_of(v), "what": "%s: phase %s, endpoint %s, modes %s, required=%s; observed %s" % (
            kind, v["phase"], v["ep"], v["modes"], v["req"], json.dumps(v["obs"])[:300]), "case": by_id.get(cid), "detail": v})
    drift = ["case %s: %s" % (cid, json.dumps(d)[:400]) for cid, d in prints(j, "DRIFT")]
    # ---- confirmation: a violation that is not a known finding, and any drift, must reproduce when the case is
    # executed again (on a busy machine a request can die on a local socket or overrun the client deadline,
    # which looks like an unavailable upstream)
    ckey = lambda c: (tuple(c["modes"]), c["ep"], c["required"], c.get("inc", "none"), c.get("exc", "none"))
    dcases = {cid: by_id[cid] for cid, _ in prints(j, "DRIFT") if cid in by_id}
    obs = {(ckey(v["case"]), v["sig"]) for v in viols} | {(ckey(c), "drift") for c in dcases.values()}
    if confirm_pass:
        return obs
    transient = 0
    _, new = vlib.partition_violations(ctx.prop, viols)
    redo = {ckey(v["case"]): v["case"] for v in new}
    if len(dcases) <= 300:
        redo.update({ckey(c): c for c in dcases.values()})
    if redo:
        again = confirm(ctx, list(redo.values())[:400])
        keep = []
        for v in viols:
            if v in new and (ckey(v["case"]), v["sig"]) not in again:
                transient += 1
                continue
            keep.append(v)
        viols = keep
        if len(dcases) <= 300:
            kept = [cid for cid, c in dcases.items() if (ckey(c), "drift") in again]
            transient += len(dcases) - len(kept)
            drift = [d for d in drift if int(d.split()[1].rstrip(":")) in kept]
    nontrivial = [c for c in cases if any(m != "healthy" for m in c["modes"])]
    contacted2 = sum(1 for r in trace if sum(1 for n in r["a"]["counts"] if n > 0) >= 2 or r["a"]["at"] >= 2)
    cov = {
        "evaluations": 2 * len(trace),
        "distinct_nontrivial": len({(tuple(c["modes"]), c["ep"], c["required"]) for c in nontrivial}),
        "routing_cases": sum(1 for c in cases if (c.get("inc", "none"), c.get("exc", "none")) != ("none", "none")),
        "second_calls": sum(1 for r in trace if r["a"]["counts2"][0] >= 0),
        "disabled_check_records": sum(1 for r in trace if r["b"]["disabled"]),
        "rule": "TLC enumerates every assignment of the 11 fault modes to 3 upstreams x 5 endpoints x required "
                + ("(full table)" if thorough else "(at most two faulty upstreams, at most one timeout)")
                + "; each case is run twice on the real code (direct FailoverGroup call, online check through the lint pipeline); "
                  "non-trivial = at least one upstream is not healthy",
        "samples": [{"case": {k: r[k] for k in ("modes", "ep", "required", "inc", "exc")}, "a": r["a"], "b": {k: r["b"][k] for k in ("counts", "problems", "check", "disabled")}}
                    for r in trace[len(trace) // 3: len(trace) // 3 + 2]],
        "exhaustive": bool(thorough and cases_override is None),
        "cases": len(cases), "failed_over_cases": contacted2,
        "model_states": sum(r["distinct"] or 0 for r in mc_runs), "model_level_leads": leads,
        "drift_records": len(drift), "transient_unreproduced": transient,
    }
    return vlib.conclude(ctx, viols, "fault_enumeration", cov, [
        "TLC model-checks the impl-shaped failover loops and error classification against the documented contract for all 13 310 cases",
        "fake listeners: refused = bound, never listening port (its attempts cannot be counted), timeout = handler outlives the client deadline "
        "(timeout 900ms + 1s), truncated = hijacked connection closed mid-body",
        "truncated body and 500 with JSON errorType=execution are ambiguous in the statement: failing over and returning as is are both accepted",
        "404 on config/flags/metadata marks the API unsupported and moves on (named deviation UnsupportedFallsThrough): accepted",
        "mode json503un (503 with errorType=unavailable, what Prometheus answers while its TSDB is not ready) is a server (5xx) error "
        "in the sense of the statement although it is not in the quantifier's list",
    ], drift=drift)


def confirm(ctx, cases):
    return run(ctx, cases_override=[{k: c.get(k, "none") for k in ("modes", "ep", "required", "inc", "exc")} for c in cases], confirm_pass=True)


def replay(ctx, path):
    v = json.load(open(path))
    c = {k: v["case"].get(k, "none") for k in ("modes", "ep", "required", "inc", "exc")}
    return run(ctx, cases_override=[c])
