"""C14 - identical questions reach a server once; concurrency stays bounded
(spec: PromClient / PromClientMC / PromClientGen / PromClientTrace; hook H3)."""
import concurrent.futures
import glob
import json
import os
import random
import re
import shutil
import subprocess
import time

import vlib
from vlib import prints, write_ndjson, read_ndjson, MachineryError, log

MC_CFG = """SPECIFICATION %(spec)s
CONSTANTS
  Callers = {%(callers)s}
  Workers = {%(workers)s}
  Questions <- MCQuestions
  LockKeyOf <- MCLockKeyOf
  ReqsOf <- MCReqsOf
  Scenario = "%(scenario)s"
  QueueCap = %(cap)d
  MaxFail = %(fail)d
  MaxExpire = %(exp)d
  TTLOf <- MCTTLOf
  MaxStale <- MCMaxStale
  Advances <- MCAdvances
%(tail)s
"""
SAFETY = "SYMMETRY Symm\nINVARIANTS TypeOK NoTwin Bounded Once Agree LockExclusive QueueBounded"
LIVE = "PROPERTY Termination"

TRACE_CFG = """SPECIFICATION TraceSpec
CONSTANTS
  Callers <- TraceCallers
  Workers <- TraceWorkers
  Questions <- TraceQuestions
  LockKeyOf <- TraceLockKeyOf
  ReqsOf <- TraceReqsOf
  QueueCap = 1000000
  MaxFail = 1000000
  MaxExpire = 1000000
  TTLOf <- TraceTTLOf
  MaxStale = 3600
  Advances = {}
  TraceFile = "%s"
CHECK_DEADLOCK FALSE
"""


def _names(p, n):
    return ",".join("%s%d" % (p, i + 1) for i in range(n))


def mc_cfg(scenario, k, c, cap, fail, exp, live=False):
    return MC_CFG % dict(spec="LiveSpec" if live else "Spec", callers=_names("c", k), workers=_names("w", c),
                         scenario=scenario, cap=cap, fail=fail, exp=exp, tail=LIVE if live else SAFETY)


def run_mc(ctx):
    """MC: PromClient |= NoTwin, Bounded, Once, Agree for small constants, both variants of processJob.
    Returns (stats, leads) - leads are the model-level counterexamples of the pinned variant."""
    W = 4
    # (tag, scenario, K, C, cap, fail, exp)
    plan = [
        ("instant", "instant", 4, 2, 2, 2, 1),
        ("instant-cap1", "instant", 3, 2, 1, 1, 1),
        ("f10", "f10", 3, 2, 2, 1, 0),
        ("range1", "range1", 3, 2, 2, 1, 1),
    ]
    if ctx.thorough:
        plan += [
            ("f10-expiry", "f10", 3, 2, 2, 1, 1),
            ("instant-2adv", "instant", 3, 2, 2, 1, 2),
            ("instant-K5", "instant", 5, 2, 2, 1, 0),
            ("mixed", "mixed", 4, 2, 2, 1, 0),
        ]
    leads = []

    def one(p):
        tag, sc, k, c, cap, fail, exp = p
        name = "c14_%s.cfg" % tag
        return ctx.tlc("PromClientMC", name, files={name: mc_cfg(sc, k, c, cap, fail, exp)}, workers=W,
                       timeout=3000, tag=tag, allow_violation=True, heap="6g")

    def live(p):
        tag, sc, k, c = p
        name = "c14_%s.cfg" % tag
        return ctx.tlc("PromClientMC", name, files={name: mc_cfg(sc, k, c, 1, 1, 0, live=True)}, workers=W,
                       timeout=3000, tag=tag, heap="6g")

    # liveness (weak fairness on callers and workers): every caller returns
    lives = [("live-instant", "instant", 3, 2), ("live-f10", "f10", 2, 2)]
    with concurrent.futures.ThreadPoolExecutor(max_workers=4) as ex:
        fs = [ex.submit(one, p) for p in plan] + [ex.submit(live, p) for p in lives]
        runs = [f.result() for f in fs]
    for p, r in zip(plan, runs):
        if r["invariant_violated"]:
            leads.append("%s:%s" % (p[0], r["invariant_violated"]))
    return runs, leads


# ------------------------------------------------------------------ harness build / run (with tag h3 when the hook is there)
def has_hook(ctx):
    return os.path.exists(os.path.join(ctx.repo, "internal", "promapi", "hooks_verif.go"))


def has_state_hook(ctx):
    return os.path.exists(os.path.join(ctx.repo, "internal", "promapi", "hooks_verif_state.go"))


def build(ctx, h3):
    src = ctx.mkdir("harness-src")
    if not os.path.exists(os.path.join(src, "go.mod")):
        shutil.rmtree(src)
        shutil.copytree(vlib.HARNESS_DIR, src, ignore=shutil.ignore_patterns("bin", "*.test"))
        with open(os.path.join(src, "go.mod")) as f:
            gm = f.read()
        gm = re.sub(r"(replace github.com/cloudflare/pint => ).*", r"\1" + ctx.repo, gm)
        with open(os.path.join(src, "go.mod"), "w") as f:
            f.write(gm)
        shutil.copy(os.path.join(ctx.repo, "go.sum"), os.path.join(src, "go.sum"))
    out = ctx.path("bin", "vh-c14-race")
    tags = "verif h3" if h3 else "verif"
    if h3 and has_state_hook(ctx):
        tags += " h3b"
    t = time.time()
    r = subprocess.run(["go", "build", "-tags", tags, "-race", "-o", out, "./cmd/vh"], cwd=src, env=vlib.go_env(),
                       capture_output=True, text=True)
    if r.returncode != 0:
        raise MachineryError("harness build failed:\n" + r.stdout + r.stderr)
    log("[build] vh (-race, tags %s): %.1fs" % (tags, time.time() - t))
    return out


def exec_shard(ctx, exe, idx, cases, sub="exec-c14"):
    cpath = write_ndjson(ctx.path("c14", "%s-cases-%d.ndjson" % (sub, idx)), cases)
    tpath = ctx.path("c14", "%s-trace-%d.ndjson" % (sub, idx))
    racelog = ctx.path("c14", "%s-race-%d" % (sub, idx))
    env = vlib.go_env()
    env.update(VERIF_SEED=str(ctx.seed), GORACE="log_path=%s exitcode=0 history_size=3" % racelog)
    try:
        r = subprocess.run([exe, sub, "-in", cpath, "-out", tpath], env=env, capture_output=True, text=True,
                           timeout=1500, cwd=ctx.scratch)
    except subprocess.TimeoutExpired:
        raise MachineryError("%s shard %d timed out" % (sub, idx))
    crash = None
    if r.returncode != 0:
        m = re.search(r"fatal error: (concurrent map[^\n]*|all goroutines are asleep[^\n]*)", r.stderr)
        m2 = re.search(r"panic: ([^\n]*)", r.stderr)
        if (m or m2) and "internal/promapi" in r.stderr:
            crash = (m.group(1) if m else m2.group(1)).strip()
        else:
            raise MachineryError("%s shard %d failed rc=%s:\n%s" % (sub, idx, r.returncode, r.stderr[-6000:]))
    races = []
    for f in glob.glob(racelog + ".*"):
        txt = open(f).read()
        for rep in txt.split("==================")[1::2]:
            races.append(rep)
        os.remove(f)
    return tpath, races, crash, r.stderr[-3000:]


def race_sig(rep):
    """First pint function named in a race report (normalised), or None when pint is not involved."""
    fns = re.findall(r"github\.com/cloudflare/pint/internal/promapi\.([A-Za-z0-9_.()*]+)\(", rep)
    if not fns:
        return None
    return re.sub(r"[^A-Za-z0-9_.]", "", fns[0])


def sig_of(v):
    return "C14:%s:%s%s" % (v["inv"], v["kind"], ":shared-slice" if v.get("shared") else "")


def gen_cases(ctx, n_total, traced_share=0.85, clock_ok=True):
    gen = ctx.tlc("PromClientGen", "PromClientGen.cfg", workers=4, timeout=600, tag="gen")
    space = [v[0] for v in prints(gen, "CASE")]
    if len(space) != gen["distinct"]:
        raise MachineryError("GEN emitted %d cases for %s states" % (len(space), gen["distinct"]))
    space.sort(key=lambda c: json.dumps(c, sort_keys=True))
    rnd = random.Random(ctx.seed)
    by_mix = {}
    for c in space:
        by_mix.setdefault(c["mix"], []).append(c)
    cases = []
    mixes = sorted(by_mix)
    per = max(1, n_total // len(mixes))
    for m in mixes:
        pool = by_mix[m]
        # contention matters most: prefer latency and more callers than workers
        # the clock dimension: a third of the sample runs a second round after the cache clock advanced
        if not clock_ok:
            pool = [c for c in pool if c["clock"] == "none"]
        else:
            pool = [c for c in pool if c["clock"] == "none"][::3] + [c for c in pool if c["clock"] != "none"][::2]
        good = [c for c in pool if c["lat"] != "none" and c["k"] > c["c"]]
        pick = rnd.sample(good, min(len(good), per * 2 // 3)) + rnd.sample(pool, per - min(len(good), per * 2 // 3))
        cases += pick
    out = []
    for i, c in enumerate(cases):
        c = dict(c)
        c["id"] = i + 1
        c["perturb"] = ctx.seed * 100000 + i
        # rate limiter binding: a few workloads with many distinct questions run with a real rateLimit
        c["rl"] = 400 if (c["mix"] == "distinct" and c["k"] >= 32 and c["clock"] == "none" and i % 2 == 0) else 0
        # untraced runs (no hook callback at all) only where failures are exactly known to the server
        untraced_ok = c["mix"] in ("same", "two", "distinct", "endpoints")
        c["tracer"] = not (untraced_ok and rnd.random() > traced_share)
        out.append(c)
    return out, len(space)


SCHED_CFG = """SPECIFICATION SSpec
CONSTANTS
  Callers = {%s}
  Workers = {%s}
  Questions <- MCQuestions
  LockKeyOf <- MCLockKeyOf
  ReqsOf <- MCReqsOf
  Scenario = "%s"
  QueueCap = %d
  MaxFail = %d
  MaxExpire = 0
  TTLOf <- MCTTLOf
  MaxStale <- MCMaxStale
  Advances <- MCAdvances
INVARIANTS EmitBehaviour SchedInv
CHECK_DEADLOCK FALSE
"""


def gen_behaviours(ctx, n, ranges):
    """GEN for schedule replay: TLC simulates complete behaviours of small instances: instant questions, and (with hook
    h3b, which lets the controller see the queue) an instant question plus a range query of 2 or 3 slices whose failing
    slice cancels its siblings."""
    out, seen = [], set()
    shapes = [("instant", 3, 2, 2, 1), ("instant", 4, 2, 2, 1), ("instant", 3, 1, 1, 1), ("instant", 2, 2, 1, 2)]
    if ranges:
        shapes += [("replay2", 3, 2, 3, 1), ("replay3", 3, 2, 3, 1), ("replay2", 4, 2, 2, 2), ("replay3", 2, 1, 3, 2)]

    def one(a):
        i, (sc, k, c, cap, fail) = a
        name = "c14_sched_%d.cfg" % i
        return ctx.tlc("PromClientSched", name, workers=1, simulate=max(1, n // len(shapes)), depth=400, seed=ctx.seed * 10 + i, timeout=1500,
                       tag="gen-sched-%d" % i, heap="2g",
                       files={name: SCHED_CFG % (",".join(str(x + 1) for x in range(k)), ",".join(str(x + 1) for x in range(c)), sc, cap, fail)})

    with concurrent.futures.ThreadPoolExecutor(max_workers=4) as ex:
        rs = list(ex.map(one, enumerate(shapes)))
    for r in rs:
        for v in prints(r, "CASE"):
            key = json.dumps(v[0], sort_keys=True)
            if key not in seen:
                seen.add(key)
                out.append(v[0])
    for i, b in enumerate(out):
        b["id"] = 100001 + i
    return out


def run(ctx, cases_override=None, repeat=1, confirm_pass=False):
    thorough = ctx.thorough
    ctx._spec_copy()
    bg = concurrent.futures.ThreadPoolExecutor(max_workers=1)
    mc_future = bg.submit(run_mc, ctx) if cases_override is None else None
    h3 = has_hook(ctx)
    if not h3:
        ctx.notes.append("hook H3 is not present in %s: no trace validation, verdict from the fake server only" % ctx.repo)
        log("[c14] NOTE: hook H3 missing in the repo; running without trace validation")
    exe = build(ctx, h3)
    if cases_override is None:
        cases, space = gen_cases(ctx, 2400 if thorough else 240, clock_ok=h3 and has_state_hook(ctx))
    else:
        cases, space = [], 0
        for rep in range(repeat):
            for c in cases_override:
                c = dict(c)
                c["id"] = len(cases) + 1
                c["perturb"] = c.get("perturb", 0) + rep * 7919
                cases.append(c)
    # ---- EXEC in parallel shards (one process per shard: the tracer is process-global)
    nshards = min(12, max(1, len(cases) // 8))
    shards = [[] for _ in range(nshards)]
    order = sorted(range(len(cases)), key=lambda i: -cases[i]["k"])
    for n, i in enumerate(order):
        shards[n % nshards].append(cases[i])
    t = time.time()
    with concurrent.futures.ThreadPoolExecutor(max_workers=nshards) as ex:
        res = list(ex.map(lambda a: exec_shard(ctx, exe, a[0], a[1]), enumerate(shards)))
    log("[exec] exec-c14: %d cases in %d shards, %.1fs" % (len(cases), nshards, time.time() - t))
    # ---- schedule replay of TLC behaviours through the gate of hook H3 (small instance, instant questions)
    behaviours = []
    if h3 and cases_override is None:
        behaviours = gen_behaviours(ctx, 6000 if thorough else 320, has_state_hook(ctx))
        nb = 8
        bsh = [behaviours[i::nb] for i in range(nb)]
        t = time.time()
        with concurrent.futures.ThreadPoolExecutor(max_workers=nb) as ex:
            res += list(ex.map(lambda a: exec_shard(ctx, exe, a[0], a[1], "exec-c14r"), [(i, b) for i, b in enumerate(bsh) if b]))
        log("[exec] exec-c14r: %d behaviours replayed, %.1fs" % (len(behaviours), time.time() - t))
    trace, race_reps, crashes = [], [], []
    for tpath, races, crash, _ in res:
        trace += read_ndjson(tpath)
        race_reps += races
        if crash:
            crashes.append(crash)
    # race reports / crashes become trace records so that the verdict is still TLC's
    blank = {"ev": "Race", "id": 0, "h": "", "a": 0, "kind": "", "key": "", "ckey": "", "job": 0, "ok": False, "ans": "",
             "rid": 0, "path": "", "query": "", "start": 0, "end": 0, "step": 0, "outcome": "", "seq": 0}
    foreign = 0
    seen = set()
    for rep in race_reps:
        s = race_sig(rep)
        if s is None:
            foreign += 1
            continue
        if s in seen:
            continue
        seen.add(s)
        trace.append(dict(blank, key=s, ans=rep.strip()[:1500]))
    for c in crashes:
        trace.append(dict(blank, key="crash", ans=c))
    if foreign:
        raise MachineryError("race detector reported %d race(s) outside internal/promapi (harness bug):\n%s" % (
            foreign, [r for r in race_reps if race_sig(r) is None][0][:3000]))
    # ---- JUDGE (shards of whole cases, judged in parallel)
    nj = 1 if len(trace) < 4000 else 12
    parts = [[] for _ in range(nj)]
    sizes = [0] * nj
    cur = []
    groups = []
    for r in trace:
        if r["ev"] in ("Case", "Skipped", "Race") and cur:
            groups.append(cur)
            cur = []
        cur.append(r)
    if cur:
        groups.append(cur)
    for g in sorted(groups, key=len, reverse=True):
        i = sizes.index(min(sizes))
        parts[i] += g
        sizes[i] += len(g)

    def judge(i):
        name = "c14_trace_%d.ndjson" % i
        cfg = "c14_trace_%d.cfg" % i
        p = write_ndjson(ctx.path("c14", name), parts[i])
        j = ctx.tlc("PromClientTrace", cfg, workers=1, timeout=3000, heap="4g", tag="judge-%d" % i,
                    files={name: p, cfg: TRACE_CFG % name})
        done = prints(j, "DONE")
        if not done or done[0][0] != len(parts[i]):
            raise MachineryError("JUDGE consumed %s of %d trace records" % (done, len(parts[i])))
        return j

    with concurrent.futures.ThreadPoolExecutor(max_workers=nj) as ex:
        js = list(ex.map(judge, [i for i in range(nj) if parts[i]]))
    if mc_future is not None:
        mc_runs, leads = mc_future.result()
    else:
        mc_runs, leads = [], []
    j = {"prints": [p for x in js for p in x["prints"]]}
    by_id = {c["id"]: c for c in cases}
    viols = []
    for cid, v in prints(j, "VIOL"):
        what = {
            "NoTwin": "the server saw identical requests in flight at the same time (%s)" % v["detail"],
            "Once": "the server saw a question more often than 1 + failures (%s)" % v["detail"],
            "Agree": "callers of one question received %s different answers" % v["detail"],
            "Bounded": "the server saw %s requests in flight, concurrency is %s" % (v["detail"], v["c"]),
            "Hang": "callers did not return (reproducibly); %s returned" % v["detail"],
            "Race": "data race / crash in internal/promapi: %s" % str(v["detail"])[:300],
        }.get(v["inv"], v["inv"])
        viols.append({"sig": sig_of(v), "what": what + " [k=%s c=%s mix=%s fault=%s]" % (v["k"], v["c"], v["mix"], v["fault"]),
                      "case": by_id.get(cid, {}), "detail": v})
    drift = ["case %s: %s" % (cid, json.dumps(d)[:300]) for cid, d in prints(j, "DRIFT")]
    # ---- confirmation: a violation that is not a known finding must show again when its workload is run again
    # (8 more schedules); a request that dies on a local socket of a busy machine must not become a verdict
    if confirm_pass:
        return {v["sig"] for v in viols}
    transient = 0
    if cases_override is None:
        _, new = vlib.partition_violations(ctx.prop, viols)
        by_sig = {}
        for v in new:
            if v["case"]:
                by_sig.setdefault(v["sig"], v["case"])
        if by_sig:
            work = {json.dumps({k: c.get(k) for k in ("k", "c", "mix", "fault", "lat", "gc", "clock")}, sort_keys=True): c for c in by_sig.values()}
            again = run(ctx, cases_override=[dict(c, tracer=c.get("tracer", True)) for c in list(work.values())[:12]], repeat=8, confirm_pass=True)
            keep = []
            for v in viols:
                if v in new and v["case"] and v["sig"] not in again:
                    transient += 1
                    continue
                keep.append(v)
            viols = keep
    lead_cases = sorted({cid for cid, _ in prints(j, "LEAD")})
    ends = [r for r in trace if r["ev"] == "End" and r["id"] > 100000]
    unreplayable = [r for r in ends if r.get("replay") != "ok"]
    if unreplayable:
        drift.append("%d of %d TLC behaviours could not be replayed on the real code, e.g. behaviour %d: %s" % (
            len(unreplayable), len(ends), unreplayable[0]["id"], unreplayable[0].get("replay")))
    if cases_override is None and leads and not viols:
        raise MachineryError("model-level counterexample (%s) not reproduced on the real code: spec bug" % leads)
    hev = [r for r in trace if r["ev"] == "H"]
    traced_cases = {r["id"] for r in trace if r["ev"] == "Case" and r.get("traced")}
    contended = {r["id"] for r in trace if r["ev"] == "H" and r["h"] == "hit"}
    sample = None
    for c in cases:
        if c["id"] in traced_cases and c["k"] <= 3:
            sample = {"case": c, "trace": [{k: r[k] for k in ("ev", "h", "kind", "a", "key", "ckey", "job", "seq")}
                                           for r in trace if r["id"] == c["id"] and r["ev"] != "Case"][:14]}
            break
    cov = {
        "states": sum(r["distinct"] or 0 for r in mc_runs),
        "transitions": sum(r["generated"] or 0 for r in mc_runs),
        "mc_runs": [{"tag": r["tag"], "distinct": r["distinct"], "generated": r["generated"], "wall_s": r["wall_s"],
                     "violated": r["invariant_violated"]} for r in mc_runs],
        "model_level_leads": leads,
        "traces_validated_against_impl": len(traced_cases),   # perturbed runs + replayed behaviours
        "samples": [sample or {"case": cases[0] if cases else None}],
        "evaluations": len(cases),
        "distinct_nontrivial": len({(c["k"], c["c"], c["mix"], c["fault"], c["lat"], c["gc"], c.get("clock")) for c in cases if c["id"] in contended}) if h3
        else len({(c["k"], c["c"], c["mix"], c["fault"], c["lat"], c["gc"]) for c in cases if c["k"] > c["c"] or c["mix"] != "distinct"}),
        "rule": "workloads drawn (seeded, stratified by question mix) from the TLC-enumerated space k x c x mix x fault x latency x gc "
                "(%d workloads); each is run on the real client with a seeded schedule perturbation; non-trivial = distinct workload "
                "in which at least one caller was served from the cache while others were running (contention observed)" % space,
        "exhaustive": False,
        "workload_space": space, "trace_records": len(trace), "hook_events": len(hev),
        "server_requests": sum(1 for r in trace if r["ev"] == "S" and r["h"] == "start"),
        "behaviours_generated": len(behaviours), "range_behaviours": sum(1 for b in behaviours if any(a in ("r2", "r3") for a in b["ask"])), "behaviours_replayed": len(ends) - len(unreplayable), "unreplayable": len(unreplayable),
        "hook_h3": h3, "hook_h3b": h3 and has_state_hook(ctx),
        "clock_cases": sum(1 for c in cases if c.get("clock", "none") != "none"), "rate_limited_cases": sum(1 for c in cases if c.get("rl")), "evict_events": sum(1 for r in hev if r["h"] == "evict"), "model_lead_cases": len(lead_cases),
        "race_reports": len(race_reps), "untraced_cases": len(cases) - len({i for i in traced_cases if i <= 100000}), "transient_unreproduced": transient,
    }
    return vlib.conclude(ctx, viols, "model_checking", cov, [
        "TLC model-checks NoTwin, Bounded, Once, Agree (+ termination under weak fairness) of the impl-shaped client for small constants, "
        "(processJob serialised per cache key, as repaired for F10)",
        "TLC-simulated behaviours of the small instance are driven into the real goroutines through the hook's gate (the controller releases "
        "exactly the next action's actor; the fake server holds each request until the behaviour decides its outcome); "
        "every hook event (H3, build tag verif) of every traced run is validated as a step of PromClient by TLC; "
        "the channel send/receive order is taken from hooks next to the channel operations",
        "verdict only from what the fake server logged (request intervals lie inside the client's) and what callers received; "
        "harness built with -race",
        "cache lifetime on real code: hook h3b replaces the cache clock; a second round of callers runs after the clock advanced 30 s / 400 s / 2 h and gc ran; "
        "lifetimes are the implemented CacheTTL() values (query 5m, config 1m, flags/metadata 10m, range slice >= 10m), maxStale 1h",
    ] + ctx.notes, drift=drift)


def replay(ctx, path):
    v = json.load(open(path))
    if not v.get("case"):          # race report / crash: not tied to one workload
        return run(ctx)
    c = dict(v["case"])
    c["tracer"] = True
    return run(ctx, cases_override=[c], repeat=40)
