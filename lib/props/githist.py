"""Shared driver for the GitHistory family (C03 change classification, C20 removed-rule dependants).

MC   TLC checks spec/GitHistory.tla (impl-shaped fold + matcher + merge  |=  documented classification).
GEN  TLC enumerates (BFS) and simulates branch histories; one JSON case per history.
EXEC vh exec-githist: one REAL git repository per history, the REAL `pint --offline ci --json` under the marker config.
JUDGE spec/GitHistoryTrace.tla over the recorded trace: verdicts on real outputs, binding of git's name-status
      lines and of pint's outputs to the transcribed algorithms.
"""
import json
import vlib
from vlib import prints, write_ndjson, read_ndjson, MachineryError

ALL_OPS = ["ModifyExpr", "ModifyLabels", "RenameRule", "ChangeKind", "CommentOnlyEdit", "PlainCommentEdit",
           "WhitespaceEdit", "ModifyAlertFields", "AddRule", "DeleteRule", "SwapRules", "FileDisableEdit", "AddFile", "DeleteFile",
           "RenameFile", "RevertLast", "BaseAdvance"]
PHASE2_OPS = ["MultiOp", "BreakFile", "MergeBase"]

CFG = """SPECIFICATION Spec
CONSTANTS
  NPaths = {npaths}
  Kinds = {kinds}
  Names = {names}
  Bodies = {bodies}
  Labs = {labs}
  Cmts = {cmts}
  Pads = {pads}
  Exts = {exts}
  MaxRules = {maxrules}
  MaxForkRules = {maxfork}
  MaxCommits = {commits}
  MaxBaseAdv = {baseadv}
  MaxMerge = {merges}
  PairOps = {pairops}
  OpSet = {ops}
  ForkFdis = {forkfdis}
  TombRename = {tombrename}
  MatchMode = "{mode}"
INVARIANTS {inv}
{view}CHECK_DEADLOCK FALSE
"""


def tla_set(xs):
    return "{" + ", ".join(json.dumps(x) if isinstance(x, str) else str(x) for x in xs) + "}"


def cfg(inv, view=False, mode="greedy", **kw):
    d = dict(npaths=1, kinds=["rec"], names=["n1", "n2"], bodies=["v1", "v2"], labs=["l1", "l2"], cmts=["none"],
             pads=[0], exts=["x0"], maxrules=3, maxfork=2, commits=2, baseadv=0, merges=0, pairops=[], ops=ALL_OPS, forkfdis=False, tombrename=False)
    d.update(kw)
    return CFG.format(npaths=d["npaths"], kinds=tla_set(d["kinds"]), names=tla_set(d["names"]),
                      bodies=tla_set(d["bodies"]), labs=tla_set(d["labs"]), cmts=tla_set(d["cmts"]),
                      pads=tla_set(d["pads"]), exts=tla_set(d["exts"]), maxrules=d["maxrules"], maxfork=d["maxfork"], commits=d["commits"],
                      baseadv=d["baseadv"], merges=d["merges"], pairops=tla_set(d["pairops"]), ops=tla_set(d["ops"]), forkfdis="TRUE" if d["forkfdis"] else "FALSE",
                      tombrename="TRUE" if d["tombrename"] else "FALSE",
                      mode=mode, inv=inv, view="VIEW MCView\n" if view else "")


def case_key(c):
    """Two histories are the same case when fork tree and the (name-status, content) of every commit agree."""
    return json.dumps([c["fork"], [[o["ns"], o["file"], o.get("more"), o.get("tree")] for o in c["log"]]], sort_keys=True)


def gen(ctx, name, text, simulate=None, depth=None, seed=None, workers=None, timeout=3000, budget=None):
    r = ctx.tlc("GitHistory", name, files={name: text}, simulate=simulate, depth=depth, seed=seed,
                workers=workers, timeout=timeout, tag=name, heap="2g" if ctx.thorough else "1g")
    cases = [v[0] for v in prints(r, "CASE")]
    # the raw TLC output and the decoded prints of a big GEN run are large: keep only the cases
    r["out"] = ""
    r["prints"] = []
    if budget is not None:
        n = len(cases)
        d = dedupe(cases)
        r["gen_emitted"], r["gen_distinct"] = n, len(d)
        cases = stratify(d, budget, ctx.seed)
    return cases, r


def dedupe(cases):
    seen, out = set(), []
    for c in cases:
        k = case_key(c)
        if k not in seen:
            seen.add(k)
            out.append(c)
    out.sort(key=case_key)
    return out


def stratify(cases, budget, seed):
    """Deterministic sub-sample: buckets by (last op, number of commits, GEN hints), round-robin over the buckets."""
    import hashlib
    if len(cases) <= budget:
        return cases
    buckets = {}
    for c in cases:
        h = c.get("hint", {})
        k = (c["log"][-1]["op"], len(c["log"]), min(h.get("warn", 0), 2), bool(h.get("dup")), bool(h.get("moved")),
             bool(h.get("stale")), bool(h.get("unparsed")), bool(h.get("merged")), bool(h.get("basetouch")),
             ",".join(sorted(h.get("acc", []))))
        buckets.setdefault(k, []).append(c)
    for k in buckets:
        buckets[k].sort(key=lambda c: hashlib.sha1((str(seed) + case_key(c)).encode()).hexdigest())
    out, i = [], 0
    keys = sorted(buckets)
    while len(out) < budget:
        progressed = False
        for k in keys:
            if i < len(buckets[k]) and len(out) < budget:
                out.append(buckets[k][i])
                progressed = True
        i += 1
        if not progressed:
            break
    return out


def execute(ctx, cases, tag):
    cpath = write_ndjson(ctx.path(tag + "_cases.ndjson"), cases)
    tpath = ctx.path(tag + "_trace.ndjson")
    pint = ctx.build_pint()
    ctx.vh("exec-githist", cpath, tpath, env={"VH_PINT": pint}, timeout=3000)
    return tpath, read_ndjson(tpath)


def judge(ctx, tpath, trace, chunk=4000):
    """Run the trace spec over the recorded trace (in chunks of cases to bound TLC memory); returns the PrintT records."""
    # split on Reset boundaries
    chunks, cur, ncase = [], [], 0
    for r in trace:
        if r["ev"] == "Reset":
            if ncase and ncase % chunk == 0:
                chunks.append(cur)
                cur = []
            ncase += 1
        cur.append(r)
    if cur:
        chunks.append(cur)
    out = []
    for i, ch in enumerate(chunks):
        p = write_ndjson(ctx.path("judge", "githist_trace_%d.ndjson" % i), ch)
        j = ctx.tlc("GitHistoryTrace", "GitHistoryTrace.cfg", workers=1, files={"githist_trace.ndjson": p},
                    timeout=3000, heap="8g", tag="judge-%d" % i)
        done = prints(j, "DONE")
        if not done or done[0][0] != len(ch):
            raise MachineryError("JUDGE consumed %s of %d trace records (chunk %d)" % (done[0][0] if done else "?", len(ch), i))
        out += j["prints"]
    return out


def _rule(lab):
    return {"kind": "rec", "name": "n1", "body": "v1", "lab": lab, "cmt": "none", "pad": 0, "ext": "x0"}


def probe_mode(ctx):
    """Which matchEntries variant does the tree under test implement? One hand-built history (the F5 shape) is run
    through EXEC; the answer only selects the spec variant used for MC and binding, never a verdict."""
    absent = {"present": False, "fdis": False, "broken": False, "rules": []}
    f0 = {"present": True, "fdis": False, "broken": False, "rules": [_rule("l1")]}
    f1 = {"present": True, "fdis": False, "broken": False, "rules": [_rule("l2"), _rule("l1")]}
    case = {"fork": {"a.yml": f0, "b.yml": absent, "c.yml": absent, "drafts/d.yml": absent},
            "log": [{"op": "AddRule", "ns": {"status": "M", "src": "a.yml", "dst": "a.yml"}, "file": f1, "more": []}]}
    _, trace = execute(ctx, [case], "probe")
    fin = [r for r in trace if r["ev"] == "Finish"]
    if not fin:
        return "greedy"
    st = {(m["first"], m["state"]) for m in fin[0]["markers"]}
    return "twopass" if st == {(4, "added"), (8, "noop")} else "greedy"


def run_parallel(jobs, width=6):
    """jobs: list of zero-argument callables (TLC runs); returns their results in order, re-raising the first failure."""
    from concurrent.futures import ThreadPoolExecutor
    with ThreadPoolExecutor(max_workers=width) as ex:
        futs = [ex.submit(j) for j in jobs]
        return [f.result() for f in futs]


def letters(xs):
    return "".join(chr(ord("A") + x - 1) for x in xs)


def states(xs):
    return "+".join(sorted(xs)) or "none"


def c03_sig(v, mode="twopass"):
    s = v["sig"]
    impl = v["idfirst"] if mode == "twopass" else v["greedy"]
    return "C03:base=%s:head=%s:rule=%d:moved=%d:fresh=%d:acc=%s:obs=%s:greedy=%s:idfirst=%s:impl=%s:merged=%d:misaligned=%d" % (
        letters(s["base"]) or "-", letters(s["head"]), s["rule"], int(s["moved"]), int(s["fresh"]), states(s["acc"]),
        states(s["obs"]), states(v["greedy"]), states(v["idfirst"]), "same" if sorted(impl) == sorted(s["obs"]) else "diff",
        int(s.get("merged", False)), int(s.get("stale", False)))
