"""C17 - pull-request commenting converges and is idempotent (spec: CommentSync / CommentSyncTrace).

MC    : CommentSync.tla, stepwise machine (one action per loop iteration of updateDestination) and the
        run-at-once machine (RunFold) against the Doc-side predicates.
GEN   : TLC simulation of GenSpec: platform, budget, seeded comments, sequence of run inputs.
EXEC  : vh exec-c17  (real pipeline -> real reporter.Submit -> in-memory platform using the real
        IsEqual/CanCreate/CanDelete);  vh exec-c17http (real GitLabReporter / GithubReporter over fake REST).
JUDGE : CommentSyncTrace.tla: Doc-side predicates on the recorded observations (verdict) and
        MakeComments / RunFold agreement (binding).
"""
import json
import os
import threading

import vlib
from vlib import prints, write_ndjson, read_ndjson, MachineryError

MC_CFG = """SPECIFICATION %(spec)s
CONSTANTS
  MaxRuns = %(runs)d
  MaxSeeds = %(seeds)d
  Budgets = {%(budgets)s}
  Platforms = {"gitlab", "github"}
  Strips = {%(strips)s}
  Shifts = {%(shifts)s}
  Mods = {"all", "first"}
  Probs = {%(probs)s}
  Pads = {0}
  Padfs = {0}
  Showdups = {%(showdups)s}
  FaultOps = {%(faultops)s}
  FaultKs = {%(faultks)s}
%(check)s
CHECK_DEADLOCK FALSE
"""
INVS = "Inv_ErrReported Inv_Covered Inv_KeepsCovered Inv_NoTwin Inv_StaleGone Inv_Foreign Inv_Idempotent Inv_Converges Inv_Accounting Inv_FoldAgrees"
ALLP = '"P1", "P2", "P3", "P4"'
FAULTOPS = '"list", "create", "delete", "summary"'


def cfg(spec, runs, seeds, budgets, shifts, probs, check, strips="FALSE", showdups="FALSE", faultops="", faultks=""):
    return MC_CFG % dict(spec=spec, runs=runs, seeds=seeds, budgets=budgets, shifts=shifts, probs=probs,
                         check=check, strips=strips, showdups=showdups, faultops=faultops, faultks=faultks)


def sig_of(v):
    return "C17:%s:max=%s:%s:%s%s" % (v["plat"], v["max"], "+".join(sorted(v["fails"])), v.get("via", "mem"),
                                     (":pad=%s" % v["pad"] if v.get("pad") else "") + (":padf=%s" % v["padf"] if v.get("padf") else "")
                                     + (":anchor-before" if "P7" in v.get("reports", []) else "") + (":fault" if v.get("hit") else ""))


def judge(ctx, trace_path, shards, tag):
    """Run CommentSyncTrace over the trace, split on case boundaries into `shards` TLC processes."""
    recs = read_ndjson(trace_path)
    if not recs:
        return [], [], 0
    # split at Case records
    starts = [k for k, r in enumerate(recs) if r["ev"] == "Case"]
    # a JVM start costs ~3 s; the machine is shared: at most 3 (quick) / 6 (thorough) JUDGE processes at a time
    cap = int(os.environ.get("VERIF_JUDGE_SHARDS") or (6 if ctx.thorough else 3))
    shards = max(1, min(shards, cap, len(starts), (len(recs) + 1499) // 1500))
    per = (len(starts) + shards - 1) // shards
    cuts = [starts[k] for k in range(0, len(starts), per)] + [len(recs)]
    base = open(os.path.join(vlib.SPEC_DIR, "CommentSyncTrace.tla")).read()
    ctx._spec_copy()
    out = [None] * (len(cuts) - 1)
    errs = []

    def one(k):
        try:
            part = recs[cuts[k]:cuts[k + 1]]
            mod = "CommentSyncTrace_%s%d" % (tag, k)
            tf = "c17_trace_%s%d.ndjson" % (tag, k)
            p = write_ndjson(ctx.path("judge", tf), part)
            text = base.replace("MODULE CommentSyncTrace", "MODULE " + mod).replace("c17_trace.ndjson", tf)
            j = ctx.tlc(mod, "CommentSyncTrace.cfg", workers=1, files={tf: p, mod + ".tla": text}, timeout=3000, heap="3g",
                        tag="judge-%s%d" % (tag, k))
            done = prints(j, "DONE")
            if not done or done[0][0] != len(part):
                raise MachineryError("JUDGE %s consumed %s of %d trace records" % (mod, done, len(part)))
            out[k] = j
        except Exception as e:  # noqa
            errs.append(e)

    ths = [threading.Thread(target=one, args=(k,)) for k in range(len(out))]
    for t in ths:
        t.start()
    for t in ths:
        t.join()
    if errs:
        raise errs[0] if isinstance(errs[0], MachineryError) else MachineryError(repr(errs[0]))
    viol, drift = [], []
    for j in out:
        viol += prints(j, "VIOL")
        drift += prints(j, "DRIFT")
    return viol, drift, len(recs)


def case_of(trace, cid):
    return [r for r in trace if r.get("id") == cid]


def run(ctx, cases_override=None):
    th = ctx.thorough
    nw = min(vlib.NCPU, 16)
    # ---------------------------------------------------------------- MC
    leads = []
    mcs = []
    if cases_override is None:
        if th:
            plan = [
                ("micro", cfg("Spec", 2, 1, "0, 1, 2, 3", "0, 1", ALLP, "VIEW view\nINVARIANTS " + INVS)),
                ("macro3", cfg("MacroSpec", 3, 0, "0, 1, 2, 3", "0", ALLP, "VIEW view\nPROPERTIES Prop_C17")),
                ("macro2", cfg("MacroSpec", 2, 1, "0, 1, 2, 3", "0, 1", ALLP, "VIEW view\nPROPERTIES Prop_C17")),
                ("micro-showdup", cfg("Spec", 2, 1, "0, 1, 2", "0, 1", '"P3", "P5", "P6"', "VIEW view\nINVARIANTS " + INVS, showdups="TRUE")),
                ("micro-before", cfg("Spec", 2, 1, "0, 1, 2", "0, 1", '"P1", "P4", "P7"', "VIEW view\nINVARIANTS " + INVS)),
                ("micro-faults", cfg("Spec", 2, 1, "0, 1, 2", "0", '"P1", "P2", "P4"', "VIEW view\nINVARIANTS " + INVS,
                                     faultops=FAULTOPS, faultks="1, 2").replace('Mods = {"all", "first"}', 'Mods = {"all"}')),
                ("macro3-faults", cfg("MacroSpec", 3, 1, "1, 2", "0", '"P1", "P2", "P4"', "VIEW view\nPROPERTIES Prop_C17",
                                      faultops=FAULTOPS, faultks="1").replace('Mods = {"all", "first"}', 'Mods = {"all"}')),
                ("macro-bitbucket", cfg("MacroSpec", 3, 1, "0, 1, 2, 3", "0", ALLP, "VIEW view\nPROPERTIES Prop_C17")
                 .replace('Platforms = {"gitlab", "github"}', 'Platforms = {"bitbucket"}')),
            ]
        else:
            plan = [
                ("micro", cfg("Spec", 2, 1, "0, 1, 2", "0", '"P1", "P2", "P4"', "VIEW view\nINVARIANTS " + INVS)),
                ("macro2", cfg("MacroSpec", 2, 0, "0, 1, 2", "0", ALLP, "VIEW view\nPROPERTIES Prop_C17")),
                ("micro-showdup", cfg("Spec", 2, 0, "0, 1, 2", "0", '"P3", "P5", "P6"', "VIEW view\nINVARIANTS " + INVS, showdups="TRUE")),
                ("micro-before", cfg("Spec", 2, 0, "0, 1, 2", "0", '"P4", "P7"', "VIEW view\nINVARIANTS " + INVS)),
                ("micro-faults", cfg("Spec", 2, 1, "0, 1, 2", "0", '"P1", "P4"', "VIEW view\nINVARIANTS " + INVS,
                                     faultops=FAULTOPS, faultks="1").replace('Mods = {"all", "first"}', 'Mods = {"all"}')),
                ("macro-bitbucket", cfg("MacroSpec", 2, 0, "0, 1, 2", "0", ALLP, "VIEW view\nPROPERTIES Prop_C17")
                 .replace('Platforms = {"gitlab", "github"}', 'Platforms = {"bitbucket"}')),
            ]
        for name, text in plan:
            m = ctx.tlc("CommentSync", "c17_%s.cfg" % name, files={"c17_%s.cfg" % name: text}, workers=nw,
                        timeout=3000, allow_violation=True, tag="mc-" + name)
            mcs.append(m)
            if m["invariant_violated"]:
                leads.append("%s:%s" % (name, m["invariant_violated"]))
        # vacuity: the antecedents of Idempotent / Converges are reachable (these "invariants" must be violated)
        for inv in (("Never_IdempotentFires", "Never_ConvergesLate", "Never_DeleteFails", "Never_CreateFails") if th
                    else ("Never_IdempotentFires", "Never_DeleteFails", "Never_CreateFails")):
            text = cfg("Spec", 3, 0, "1", "0", ALLP, "VIEW view\nINVARIANTS " + inv)
            if inv in ("Never_DeleteFails", "Never_CreateFails"):
                text = cfg("Spec", 2, 1, "1", "0", '"P1", "P4"', "VIEW view\nINVARIANTS " + inv, faultops=FAULTOPS, faultks="1")
            m = ctx.tlc("CommentSync", "c17_vac.cfg", files={"c17_vac.cfg": text}, workers=nw, timeout=3000,
                        allow_violation=True, tag="vacuity-" + inv, dfs=False)
            if m["invariant_violated"] != inv:
                raise MachineryError("vacuity guard: %s is never reached in the model" % inv)
    # ---------------------------------------------------------------- GEN
    if cases_override is None:
        per_worker = (2500 if th else 130)
        gen = ctx.tlc("CommentSync", "CommentSync_Gen.cfg", workers=nw, simulate=per_worker, depth=40, deadlock=False,
                      timeout=3000, tag="gen")
        cases = [v[0] for v in prints(gen, "CASE")]
        if len(cases) < per_worker:
            raise MachineryError("GEN produced only %d cases" % len(cases))
        seen, uniq = set(), []
        for c in cases:
            k = json.dumps(c, sort_keys=True)
            if k not in seen:
                seen.add(k)
                uniq.append(c)
        cases = sorted(uniq, key=lambda c: json.dumps(c, sort_keys=True))
    else:
        cases = cases_override
    all_cases = cases
    bb_cases = [c for c in all_cases if c["plat"] == "bitbucket"]
    cases = [c for c in all_cases if c["plat"] != "bitbucket"]
    cpath = write_ndjson(ctx.path("c17_cases.ndjson"), cases)
    # ---------------------------------------------------------------- EXEC + JUDGE (in-memory platform)
    tpath = ctx.path("c17_trace.ndjson")
    ctx.vh("exec-c17", cpath, tpath, timeout=3000)
    viol, drift, nrec = judge(ctx, tpath, nw, "m")
    trace = read_ndjson(tpath)
    viols = []
    for cid, v in viol:
        v["via"] = "mem"
        viols.append({"sig": sig_of(v), "what": "run %s of a %s reporter (maxComments=%s) breaks %s: reports=%s variant=%s, %d created, deleted=%s" % (
            v["run"], v["plat"], v["max"], "/".join(v["fails"]), v["reports"], v["var"], v["ncreates"], v["deleted"]),
            "case": cases[cid - 1], "via": "mem", "detail": v, "trace": case_of(trace, cid)})
    drifts = ["case %s: %s" % (cid, json.dumps(d)[:400]) for cid, d in drift]
    # ---------------------------------------------------------------- EXEC + JUDGE (real reporters over fake REST)
    http_cases, http_rec = [], 0
    if cases_override is None or any(c.get("_via") == "http" for c in cases):
        n_http = 2000 if th else 150
        if cases_override is None:
            step = max(1, len(cases) // n_http)
            http_cases = cases[::step][:n_http]
        else:
            http_cases = cases
        hpath = write_ndjson(ctx.path("c17_http_cases.ndjson"), http_cases)
        htrace = ctx.path("c17_http_trace.ndjson")
        ctx.vh("exec-c17http", hpath, htrace, timeout=3000)
        hviol, hdrift, http_rec = judge(ctx, htrace, nw, "h")
        htr = read_ndjson(htrace)
        for cid, v in hviol:
            v["via"] = "http"
            c = dict(http_cases[cid - 1])
            c["_via"] = "http"
            viols.append({"sig": sig_of(v), "what": "run %s of the real %s reporter over REST (maxComments=%s) breaks %s: reports=%s variant=%s, %d created, deleted=%s" % (
                v["run"], v["plat"], v["max"], "/".join(v["fails"]), v["reports"], v["var"], v["ncreates"], v["deleted"]),
                "case": c, "via": "http", "detail": v, "trace": case_of(htr, cid)})
        drifts += ["http case %s: %s" % (cid, json.dumps(d)[:400]) for cid, d in hdrift]
    # ---------------------------------------------------------------- EXEC + JUDGE (real BitBucketReporter over fake REST)
    bb_rec = 0
    if bb_cases:
        bpath = write_ndjson(ctx.path("c17_bb_cases.ndjson"), bb_cases)
        btrace = ctx.path("c17_bb_trace.ndjson")
        try:
            ctx.vh("exec-c17bb", bpath, btrace, timeout=3000)
            bviol, bdrift, bb_rec = judge(ctx, btrace, nw, "b")
            btr = read_ndjson(btrace)
        except vlib.MachineryError as e:
            # The BitBucket stage derives its seed comments from the real makeComments output; a tree whose grouping is
            # already shown broken by the stages above can make that derivation impossible. Real-code violations found so
            # far stand on their own; without any, the failure is a machinery failure as usual.
            if not viols:
                raise
            print("NOTE property=C17 BitBucket stage skipped: %s" % str(e).strip().splitlines()[-1][:200])
            bviol, bdrift, bb_rec, btr = [], [], 0, []
        for cid, v in bviol:
            v["via"] = "bb"
            viols.append({"sig": sig_of(v), "what": "run %s of the real BitBucket reporter over REST (maxComments=%s) breaks %s: reports=%s variant=%s, %d created, deleted=%s" % (
                v["run"], v["max"], "/".join(v["fails"]), v["reports"], v["var"], v["ncreates"], v["deleted"]),
                "case": bb_cases[cid - 1], "via": "bb", "detail": v, "trace": case_of(btr, cid)})
        drifts += ["bitbucket case %s: %s" % (cid, json.dumps(d)[:400]) for cid, d in bdrift]
    if leads and not viols and cases_override is None:
        raise MachineryError("model-level counterexample (%s) not reproduced on the real code: spec bug" % leads)
    # ---------------------------------------------------------------- evidence
    runs = [r for r in trace if r["ev"] == "Run"]
    nontrivial = {json.dumps([r["id"], r["run"]]) for r in runs if r["creates"] or r["deleted"] or any(c["b"] == 0 for c in r["calls"] if c["op"] == "cancreate")}
    repeated = sum(1 for c in cases for a, b in zip(c["runs"], c["runs"][1:]) if a == b)
    sample_id = len(cases) // 2 + 1 if cases else 0
    cov = {
        "states": sum(m["distinct"] or 0 for m in mcs),
        "transitions": sum(m["generated"] or 0 for m in mcs),
        "model_level_leads": leads,
        "traces_validated_against_impl": len(cases) + len(http_cases) + len(bb_cases),
        "bitbucket_cases": len(bb_cases), "bitbucket_records": bb_rec,
        "samples": [{"case": cases[sample_id - 1], "trace": case_of(trace, sample_id)[:3]}] if cases else [],
        "evaluations": len(runs) + max(0, http_rec - len(http_cases)) + max(0, bb_rec - len(bb_cases)),
        "distinct_nontrivial": len(nontrivial),
        "rule": "GEN: TLC simulation of GenSpec (platform x maxComments 0..3 x body stripping x <=3 seeded comments "
                "(matching, stale, foreign, twins) x REST padding x show-duplicates x 4 runs over subsets of 4 (6 with show-duplicates) problems x 4 line variants, every second run "
                "repeats its predecessor, every third with one failing platform call); evaluations = reporting runs judged; non-trivial = runs in which Submit created, "
                "deleted or deferred at least one comment",
        "exhaustive": False,
        "gen_cases": len(all_cases), "http_cases": len(http_cases), "trace_records": nrec + http_rec + bb_rec,
        "runs_in_memory": len(runs), "runs_repeating_previous_input": repeated,
        "mc_runs": [{"tag": m["tag"], "states": m["distinct"], "transitions": m["generated"], "wall_s": m["wall_s"]} for m in mcs],
    }
    return vlib.conclude(ctx, viols, "model_checking", cov, [
        "TLC model-checks the stepwise transcription of updateDestination/makeComments/dedupReports and the platform hooks "
        "against the Doc-side predicates within the stated bounds; larger bounds use the run-at-once machine shown equal by Inv_FoldAgrees",
        "real reports come from the in-process lint pipeline on two generated rule files; real reporter.Submit runs against an "
        "in-memory platform whose IsEqual/CanCreate/CanDelete are the real GitLabReporter/GithubReporter methods (hook H1)",
        "a sample of the cases is repeated with the real GitLabReporter and GithubReporter talking REST to a fake server keeping the same store",
        "BitBucket: a second reconciliation machine (limit to maxComments, prune, add; budget per pull request) model-checked run-at-once and bound to the real BitBucketReporter.Submit over a fake BitBucket Server REST API that stores and returns comments as posted; its pending comments are observed by a dry run against an empty server; no removed-rule problem, no platform failures, no replies there",
        "a comment 'carries' a problem when its body contains the problem's summary line; comment bodies are compared modulo surrounding newlines",
        "files are part of the pull request diff; one problem is about a rule the pull request removes (AnchorBefore), for it only file and text of the comment are judged, not the line",
        "platform failures: the k-th List/Create/Delete/Summary call of a run fails (in memory: error value; REST: HTTP 403 on the k-th listing/POST/DELETE); runs in which a call failed only owe NoTwin, ForeignUntouched, KeepsCovered, Accounting, the budget bound and a reported error",
        "the line a problem is commented on is taken to be: last line of its range modified by the pull request, else the last line of the range; on GitHub the first modified line of the file when that line is not part of the diff",
    ], drift=drifts)


def replay(ctx, path):
    os.environ["VERIF_NO_EVIDENCE"] = "1"     # a replay runs no model checking: it must not replace the evidence of a full run
    v = json.load(open(path))
    return run(ctx, cases_override=[v["case"]])
