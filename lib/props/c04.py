"""C04 - a 'non-existent label' template report is never a false positive (spec: LabelFlow / LabelFlowTrace)."""
import lflow


def run(ctx):
    return lflow.run(ctx, "C04")


def replay(ctx, path):
    return lflow.replay(ctx, "C04", path)
