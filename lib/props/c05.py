"""C05 - exit status is non-zero exactly when a problem reaches --fail-on (spec: Exit / ExitTrace)."""
import json
import random
import vlib
from vlib import prints, write_ndjson, read_ndjson, MachineryError

CFG = """SPECIFICATION Spec
CONSTANTS
  MaxReports = %d
  GenOnly = %s
INVARIANTS %s
CHECK_DEADLOCK FALSE
"""
MC_INVS = "Inv_C05 Inv_FoldAgrees Inv_JsonComplete Inv_Display"


def sig_of(v):
    return "C05:%s:failOn=%s:minSev=%s:dups=%s:[%s]:exit=%s" % (
        v["cmd"], v["failOn"], v["minSev"], "shown" if v["showDup"] else "folded", ",".join(v["reports"]), v["exit"])


def key(c):
    return json.dumps(c, sort_keys=True)


WCFG = """SPECIFICATION WSpec
CONSTANTS
  MaxReports = 3
  GenOnly = TRUE
  MaxSteps = 3
INVARIANTS %s
CHECK_DEADLOCK FALSE
"""


def watch_stage(ctx, pint, scenarios_override=None):
    """Watch-mode growth of the Exit family (spec/Watch.tla): MC of the daemon model, TLC-generated scenarios run
    with the real `pint watch` daemon, TLC validation of the recorded iteration traces. Not part of C05's verdict:
    failures are reported as SPEC-DRIFT."""
    mc = ctx.tlc("Watch", "c05_wmc.cfg", files={"c05_wmc.cfg": WCFG % "Inv_W1 Inv_W2 Inv_W3 EmitWCase"}, timeout=1200, workers=6)
    if scenarios_override is None:
        gen = mc
        scen = sorted((v[0] for v in prints(gen, "WCASE")), key=key)
        rnd = random.Random(ctx.seed * 104729 + 7)
        rnd.shuffle(scen)
        n_all = len(scen)
        scen = scen[:1500 if ctx.thorough else 128]
    else:
        scen, n_all = scenarios_override, 0
    cpath = write_ndjson(ctx.path("c05_watch_cases.ndjson"), scen)
    tpath = ctx.path("c05_watch_trace.ndjson")
    ctx.vh("exec-c05-watch", cpath, tpath, pint, timeout=3000)
    trace = read_ndjson(tpath)
    j = ctx.tlc("WatchTrace", "WatchTrace.cfg", workers=1, files={"c05_watch_trace.ndjson": tpath}, timeout=1200, heap="4g")
    done = prints(j, "DONE")
    if not done or done[0][0] != len(trace):
        raise MachineryError("watch JUDGE consumed %s of %d trace records" % (done[0][0] if done else "?", len(trace)))
    drift = ["watch scenario %s: %s" % (cid, json.dumps(d)[:400]) for cid, d in prints(j, "DRIFT")]
    drift += ["watch-mode documented behaviour (W1-W3) broken, scenario %s: %s" % (cid, json.dumps(d)[:400])
              for cid, d in prints(j, "WVIOL")]
    steps = [r for r in trace if r["ev"] == "WStep"]
    ran = sum(1 for r in trace if r["ev"] == "WStart")
    if ran < len(scen):
        print("NOTE property=C05 watch-mode stage: %d of %d scenarios could not be timed reliably on this machine and were left out"
              % (len(scen) - ran, len(scen)))
    cov = {
        "watch_states": mc["distinct"], "watch_scenarios_generated": n_all, "watch_scenarios_run": ran, "watch_scenarios_left_out": len(scen) - ran,
        "watch_iterations_validated": len(steps),
        "watch_failing_iterations": sum(1 for c in scen for x in c["scenario"]["steps"] if x == 0),
        "watch_capped_scrapes": sum(1 for r in steps if r["present"] and len(r["exported"]) < r["problems"]),
        "watch_sample": {"scenario": [r for r in trace if r["ev"] == "WStart"][0]["scenario"],
                         "trace": [r for r in trace if r["id"] == trace[0]["id"]][1:]} if trace else {},
    }
    return drift, cov


def run(ctx, cases_override=None):
    thorough = ctx.thorough
    # ---- MC: Exit |= C05 (+ fold agreement, JSON completeness, display), every case within the bound,
    #      every arrival order of the reports
    mc_n = 3 if thorough else 2
    # heap: 10^7 states need well under 3g (fingerprints + disk-backed queue); a small heap keeps TLC off the OOM killer's list
    mc = ctx.tlc("Exit", "c05_mc.cfg", files={"c05_mc.cfg": CFG % (mc_n, "FALSE", MC_INVS)},
                 timeout=5400, allow_violation=True, heap="3g")
    leads = [mc["invariant_violated"]] if mc["invariant_violated"] else []
    # ---- GEN
    if cases_override is None:
        gen_n = 3 if thorough else 2
        gen = ctx.tlc("Exit", "c05_gen.cfg", files={"c05_gen.cfg": CFG % (gen_n, "TRUE", "EmitCase")}, timeout=3000, heap="3g")
        cases = {key(v[0]): v[0] for v in prints(gen, "CASE")}
        n_exh = len(cases)
        rnd = random.Random(ctx.seed * 7919 + 1)
        if not thorough:
            # executed in quick: every case with <= 1 rule, a seeded 35% of the 2-rule cases, and 3-rule cases
            # from a seeded TLC simulation of the growth actions (MC above covers all <= 2-rule cases)
            keep = {k: c for k, c in cases.items() if len(c["reports"]) <= 1 or rnd.random() < 0.35}
            sim = ctx.tlc("Exit", "c05_sim.cfg", files={"c05_sim.cfg": CFG % (3, "TRUE", "EmitCase")},
                          simulate=600, depth=6, timeout=600, workers=4)
            for v in prints(sim, "CASE"):
                if len(v[0]["reports"]) == 3:
                    keep.setdefault(key(v[0]), v[0])
            cases = keep
        cases = [cases[k] for k in sorted(cases)]
        if thorough:
            # every case with <= 2 rules, a seeded fifth of those with 3 (MC above covers all of them)
            cases = [c for c in cases if len(c["reports"]) <= 2 or rnd.random() < 0.2]
    else:
        cases, n_exh = cases_override, 0
    cpath = write_ndjson(ctx.path("c05_cases.ndjson"), cases)
    # ---- EXEC: the real binary; thorough also with 1 and 64 scan workers on a seeded third of the cases
    pint = ctx.build_pint()
    tpath = ctx.path("c05_trace.ndjson")
    ctx.vh("exec-c05", cpath, tpath, pint, "0", timeout=7000)
    trace = read_ndjson(tpath)
    if thorough and cases_override is None:
        rnd = random.Random(ctx.seed)
        sub = [c for c in cases if len(c["reports"]) <= 2 or rnd.random() < 0.1]
        c2 = write_ndjson(ctx.path("c05_cases_w.ndjson"), sub)
        t2 = ctx.path("c05_trace_w.ndjson")
        ctx.vh("exec-c05", c2, t2, pint, "1,64", timeout=7000)
        extra = read_ndjson(t2)
        for r in extra:
            r["id"] += len(cases)
        cases = cases + sub
        trace += extra
    if cases_override is not None:
        t2 = ctx.path("c05_trace_w.ndjson")
        ctx.vh("exec-c05", cpath, t2, pint, "1,64", timeout=7000)
        trace += read_ndjson(t2)
    trace.sort(key=lambda r: (r["id"], r["workers"]))
    write_ndjson(tpath, trace)
    # ---- JUDGE
    j = ctx.tlc("ExitTrace", "ExitTrace.cfg", workers=1, files={"c05_trace.ndjson": tpath}, timeout=3000, heap="8g")
    done = prints(j, "DONE")
    if not done or done[0][0] != len(trace):
        raise MachineryError("JUDGE consumed %s of %d trace records" % (done[0][0] if done else "?", len(trace)))
    unbound = prints(j, "UNBOUND")
    viols = []
    for cid, v in prints(j, "VIOL"):
        what = "pint %s --fail-on=%s on problems %s exits %s but its own JSON report lists %s" % (
            v["cmd"], v["failOn"], v["reports"], v["exit"], [x["sev"] for x in v["json"]])
        if v.get("folded"):
            what += " - the checks produced %s: problems were merged away and the exit status followed" % (
                sorted("%s@r%s" % (x["sev"], x["rule"]) for x in v["produced"]))
        viols.append({"sig": sig_of(v), "case": cases[cid - 1], "detail": v, "what": what})
    if unbound and not viols:
        raise MachineryError("%d case(s) not realised by the binary (JSON report differs from the requested problems), e.g. %s"
                             % (len(unbound), json.dumps(unbound[0][1])[:600]))
    drift = ["case %s: %s" % (cid, json.dumps(d)[:400]) for cid, d in prints(j, "DRIFT")]
    wdrift, wcov = ([], {}) if cases_override is not None else watch_stage(ctx, pint)
    drift += wdrift
    if leads and not viols and cases_override is None:
        raise MachineryError("model-level counterexample (%s) not reproduced on the real code: spec bug" % leads)
    nontriv = {key(r["case"]) for r in trace if r["case"]["reports"]}
    mixed = {key(r["case"]) for r in trace if len({x["sev"] for x in r["json"]}) >= 2}
    k = len(trace) // 3
    cov = {
        "states": mc["distinct"], "transitions": mc["generated"], "model_level_leads": leads,
        "traces_validated_against_impl": len(trace),
        "samples": [{"case": trace[k]["case"], "observed": {f: trace[k][f] for f in ("exit", "json", "shown", "why")}}] if trace else [],
        "evaluations": len(trace),
        "distinct_nontrivial": len(nontriv),
        "rule": "GEN: every (cmd, --fail-on, --min-severity, --show-duplicates, list of <=N problems by kind/severity/duplicate "
                "structure) within the bound (TLC exhaustive); executed: quick = all cases with <=1 rule, a seeded 35% of the 2-rule "
                "cases and 3-rule cases from a seeded TLC simulation; thorough = all cases with <=2 rules and a seeded fifth of the "
                "3-rule cases; non-trivial = distinct executed cases with at least one reported problem",
        "exhaustive": True, "exhaustive_note": "MC and GEN enumerate the bounded space completely; EXEC runs the subset described in rule",
        "mc_max_reports": mc_n, "gen_cases_exhaustive": n_exh, "cases": len(cases),
        "twin_cases": sum(1 for c in cases if any(x["kind"] == "twin" for x in c["reports"])),
        "cases_with_mixed_severities": len(mixed),
        "pint_processes": len(trace),
        "nonzero_exits": sum(1 for r in trace if r["exit"] != 0),
        "ci_runs": sum(1 for r in trace if r["case"]["cmd"] == "ci"),
        "unbound": len(unbound),
    }
    cov.update(wcov)
    return vlib.conclude(ctx, viols, "model_checking", cov, [
        "TLC model-checks the staged transcription of actionLint/actionCI (every arrival order of the reports) against the documented rule",
        "every generated case is run with the real pint binary (lint in a scratch directory, ci in a scratch git repository with real git)",
        "the verdict compares the exit status with the severities in the binary's own --json report; the JSON report must list exactly "
        "the requested problems or the run counts as machinery failure",
        "problems are provoked by rule/report, rule/label with a custom severity, unparsable expressions (Fatal), "
        "--require-owner on rules without an owner (Bug) and twin label blocks (two problems on one rule differing in severity only)",
        "second verdict predicate (folding): when requested problems are missing from the JSON report while the same check reported "
        "on the same rule, the exit status must be the one all produced problems demand",
        "invalid --fail-on values are represented by 'error' and 'Bug'; --min-severity takes valid values only",
        "watch mode (spec/Watch.tla, not part of the verdict): the real `pint watch glob` daemon is run for 3 iterations per scenario "
        "(1.5 s interval), the rule file is rewritten or removed between iterations, /metrics and /health are scraped after each",
    ], drift=drift)


def replay(ctx, path):
    v = json.load(open(path))
    return run(ctx, cases_override=[v["case"]])
