"""C09 - rule{} match/ignore blocks select rules by their documented boolean meaning
(spec: Dispatch / DispatchC09 / DispatchC09Trace; EXEC: vh exec-c09, in-process dispatch + pint binary sample)."""
import json
import os
import vlib
from vlib import prints, write_ndjson, read_ndjson, MachineryError

# development aid: cap TLC workers on a shared machine (unset = vlib default, up to 16)
W = int(os.environ.get("VERIF_TLC_WORKERS", "0")) or None

CFG = """SPECIFICATION Spec
CONSTANTS
  MaxBlocks = %d
  MaxMatch = %d
  MaxIgnore = %d
  MaxMatchConds = %d
  MaxIgnoreConds = %d
  WithAlt = %s
  Reduced = %s
  Shared = %s
INVARIANTS %s
CHECK_DEADLOCK FALSE
"""


def cfg(blocks, nm, ni, cm, ci, alt, inv, reduced=False, shared=False):
    return CFG % (blocks, nm, ni, cm, ci, "TRUE" if alt else "FALSE", "TRUE" if reduced else "FALSE", "TRUE" if shared else "FALSE", inv)


MC_INV = "Inv_C09 Inv_Shortcut"


def conds(m):
    out = []
    for k in ("path", "name"):
        if m[k]["form"] != "none":
            out.append("%s~%s(%s%s)" % (k, m[k]["form"], m[k]["a"], "|" + m[k]["b"] if m[k]["b"] else ""))
    if m["kind"]:
        out.append("kind=" + m["kind"])
    for k in ("label", "annotation"):
        if m[k]["set"]:
            out.append("%s~%s(%s)=~%s(%s)" % (k, m[k]["key"]["form"], m[k]["key"]["a"], m[k]["value"]["form"], m[k]["value"]["a"]))
    for k in ("for", "kff"):
        if m[k]["op"] != "none":
            out.append("%s%s%ds" % (k, m[k]["op"], m[k]["dur"]))
    if m["command"]:
        out.append("command=" + m["command"])
    if m["state"]:
        out.append("state=" + "+".join(m["state"]))
    return "{" + ",".join(out) + "}"


def lbl(ls):
    return "[" + ",".join("%s=%s" % (x["k"], x["v"]) for x in ls) + "]"


def sig_of(f):
    r = f["rule"]
    return "C09:%smatch=%s:ignore=%s:%s/%s:applied=%s:rule=%s/%s/%s/r=%s/g=%s/a=%s/for=%s/kff=%s" % (
        ("shared-check:block%s/%s:" % (f["block"], f["nblocks"])) if f.get("shared") else "",
        "".join(conds(m) for m in f["match"]), "".join(conds(m) for m in f["ignore"]), f["cmd"], f["state"],
        int(bool(f["observed"])), r["rkind"], r["name"], r["path"], lbl(r["labels"]), lbl(r["glabels"]), lbl(r["annotations"]),
        r["for"], r["kff"])


def what_of(f, n):
    r = f["rule"]
    return (("the SAME check is defined in %d blocks; " % f["nblocks"] if f.get("shared") else "") + "rule{} block with match %s ignore %s is %s to %s rule %s (%s, labels %s, group labels %s, annotations %s, for %s, "
            "keep_firing_for %s) under `pint %s`, state %s [%s] - the documented meaning says the opposite (%d such points "
            "in this configuration)") % (
        "".join(conds(m) for m in f["match"]) or "{}", "".join(conds(m) for m in f["ignore"]) or "-",
        "APPLIED" if f["observed"] else "NOT applied", r["rkind"], r["name"], r["path"], lbl(r["labels"]), lbl(r["glabels"]),
        lbl(r["annotations"]), r["for"], r["kff"], f["cmd"], f["state"], f["src"], n)


def run(ctx, cases_override=None):
    th = ctx.thorough
    # ---- MC: Impl (IsMatchBlock & co) = Doc for every configuration within the bounds x corpus x command x state
    mcs = []
    if cases_override is None:   # a replay only re-executes the stored case
        mcs = []
        if th:
            # every block with <=1 match condition and <=1 ignore condition; every match-only block with <=3 conditions
            mcs.append(ctx.tlc("DispatchC09", "c09_mc.cfg", files={"c09_mc.cfg": cfg(1, 1, 1, 1, 1, True, MC_INV)},
                               timeout=7200, allow_violation=True, workers=W))
            mcs.append(ctx.tlc("DispatchC09", "c09_mc2.cfg", files={"c09_mc2.cfg": cfg(1, 1, 0, 3, 0, False, "Inv_C09")},
                               timeout=7200, allow_violation=True, workers=W))
            # reduced alphabet (4 interacting conditions), canonical lists: every block with 2+2 sub-blocks; every pair of
            # blocks with <=2 match and <=1 ignore sub-blocks
            mcs.append(ctx.tlc("DispatchC09", "c09_mc4.cfg", files={"c09_mc4.cfg": cfg(1, 2, 2, 1, 1, False, MC_INV, reduced=True)},
                               timeout=7200, allow_violation=True, workers=W))
            mcs.append(ctx.tlc("DispatchC09", "c09_mc5.cfg", files={"c09_mc5.cfg": cfg(2, 2, 1, 1, 1, False, "Inv_C09", reduced=True)},
                               timeout=7200, allow_violation=True, workers=W))
            # every block with <=2 match conditions and one ignore condition (vocabulary without top-level alternations)
            mcs.append(ctx.tlc("DispatchC09", "c09_mc3.cfg", files={"c09_mc3.cfg": cfg(1, 1, 1, 2, 1, False, "Inv_C09")},
                               timeout=7200, allow_violation=True, workers=W))
        else:
            # every match-only block with <=2 conditions; every block with one ignore condition and no / an empty match
            mcs.append(ctx.tlc("DispatchC09", "c09_mc.cfg", files={"c09_mc.cfg": cfg(1, 1, 0, 2, 0, True, MC_INV)},
                               timeout=3000, allow_violation=True, workers=W))
            mcs.append(ctx.tlc("DispatchC09", "c09_mc2.cfg", files={"c09_mc2.cfg": cfg(1, 1, 1, 0, 1, True, MC_INV)},
                               timeout=3000, allow_violation=True, workers=W))
        # two blocks carrying the IDENTICAL marker check (reduced alphabet): the check applies iff some block selects the rule;
        # Inv_Shortcut runs the full GetChecksForEntry path incl. the de-duplication by String()
        mcs.append(ctx.tlc("DispatchC09", "c09_mcs.cfg", files={"c09_mcs.cfg": cfg(2, 1, 1 if th else 0, 1, 1 if th else 0, False, MC_INV, reduced=True, shared=True)},
                           timeout=3000, allow_violation=True, workers=W))
    leads = [m["invariant_violated"] for m in mcs if m["invariant_violated"]]
    # ---- GEN
    head = None
    if cases_override is None:
        cases = []

        def gen(name, text, **kw):
            nonlocal head
            # simulation: TLC's num is per worker, so the worker count is fixed to keep the case set a function of the seed
            r = ctx.tlc("DispatchC09", name, files={name: text}, timeout=3000, workers=(4 if "simulate" in kw else W), **kw)
            cs = [v[0] for v in prints(r, "CASE")]
            if not cs:
                raise MachineryError("GEN %s produced no cases" % name)
            if head is None:
                head = prints(r, "CORPUS")[0][0]
            return cs
        if th:
            cases += gen("c09_gen0.cfg", cfg(1, 1, 1, 1, 1, True, "EmitCase"))             # every (<=1 cond, <=1 cond) block
            cases += gen("c09_gen1.cfg", cfg(1, 1, 0, 2, 0, True, "EmitCase"))             # every match-only pair
            red = gen("c09_gen4.cfg", cfg(1, 2, 2, 1, 1, False, "EmitCase", reduced=True))     # every 2+2 block, reduced alphabet
            for c in red:
                c["full"] = True                                                                # at all 12 (command, state) points
            cases += red
            # every pair of blocks with <=2 match sub-blocks (6 points); pairs with an ignore sub-block are model-checked (mc5)
            # and replayed through the shared-marker sets below
            cases += gen("c09_gen5.cfg", cfg(2, 2, 0, 1, 0, False, "EmitCase", reduced=True))
            sim = gen("c09_gen3.cfg", cfg(3, 2, 2, 3, 3, True, "EmitCase"), simulate=600, depth=80)
            for c in sim:
                c["full"] = True          # simulated multi-block configurations: all 12 (command, state) points
            cases += sim
        else:
            cases += gen("c09_gen0.cfg", cfg(1, 1, 0, 1, 0, True, "EmitCase"))             # single match condition (all atoms)
            cases += gen("c09_gen1.cfg", cfg(1, 0, 1, 0, 1, True, "EmitCase"))             # single ignore condition
            cases += gen("c09_gen2.cfg", cfg(3, 2, 2, 3, 3, True, "EmitCase"), simulate=60, depth=80)
        # the same check in two blocks, every combination of (one match sub-block | none) per block, and of one ignore sub-block
        # per block: earlier-not-selecting / later-selecting and the reverse are among them
        cases += gen("c09_gens1.cfg", cfg(2, 1, 0, 1, 0, False, "EmitCase", reduced=True, shared=True))
        cases += gen("c09_gens2.cfg", cfg(2, 0, 1, 0, 1, False, "EmitCase", reduced=True, shared=True))
        if th:
            cases += gen("c09_gens3.cfg", cfg(2, 1, 1, 1, 1, False, "EmitCase", reduced=True, shared=True))
            cases += gen("c09_gens4.cfg", cfg(3, 1, 0, 1, 0, False, "EmitCase", reduced=True, shared=True))
        seen, uniq = set(), []
        for c in cases:
            k = json.dumps(c, sort_keys=True)
            if k not in seen:
                seen.add(k)
                uniq.append(c)
        cases = sorted(uniq, key=lambda c: json.dumps(c, sort_keys=True))
    else:
        cases = cases_override
        r = ctx.tlc("DispatchC09", "c09_gen0.cfg", files={"c09_gen0.cfg": cfg(0, 0, 0, 0, 0, False, "EmitCase")}, timeout=3000)
        head = prints(r, "CORPUS")[0][0]
    hrec = {"corpus": head["corpus"], "combos": head["full"] if cases_override is not None else head["quick"], "full": head["full"]}
    cpath = write_ndjson(ctx.path("c09_cases.ndjson"), [hrec] + cases)
    # ---- EXEC
    pint = ctx.build_pint()
    tpath = ctx.path("c09_trace.ndjson")
    ctx.vh("exec-c09", cpath, tpath, pint, 1 if cases_override is not None else (15 if th else 10), timeout=3000)
    trace = read_ndjson(tpath)
    # ---- JUDGE (records are independent: every record is an initial state, judged in parallel)
    j = ctx.tlc("DispatchC09Trace", "DispatchC09Trace.cfg", files={"c09_trace.ndjson": tpath}, timeout=5400, heap="8g", workers=W)
    if j["distinct"] != 2 * len(trace):
        raise MachineryError("JUDGE accepted %s states for %d trace records (expected %d)" % (j["distinct"], len(trace), 2 * len(trace)))
    viols = []
    for cid, v in prints(j, "VIOL"):
        viols.append({"sig": sig_of(v["first"]), "what": what_of(v["first"], v["n"]), "case": cases[cid - 1], "detail": v})
    drift = ["case %s: %s" % (cid, sig_of(d["first"])) for cid, d in prints(j, "DRIFT")]
    if leads and not viols and cases_override is None:
        raise MachineryError("model-level counterexample (%s) not reproduced on the real code: spec bug" % leads)
    ncorp = len(head["corpus"])
    points = sum(len(r["obs"]) * len(r["blocks"]) * ncorp for r in trace)
    discr = 0
    for r in trace:
        if r["src"] == "inproc" and any(("0" in row and "1" in row) for k in r["obs"] for row in k):
            discr += 1
    inproc = [r for r in trace if r["src"] == "inproc"]
    cov = {
        "states": sum(m["distinct"] or 0 for m in mcs),
        "transitions": sum(m["generated"] or 0 for m in mcs),
        "model_level_leads": leads,
        "traces_validated_against_impl": len(trace),
        "samples": [{"blocks": [{"match": [conds(m) for m in b["match"]], "ignore": [conds(m) for m in b["ignore"]]} for b in inproc[len(inproc) // 2]["blocks"]],
                     "combo": inproc[len(inproc) // 2]["combos"][0], "applied_to_corpus": inproc[len(inproc) // 2]["obs"][0]}] if inproc else [],
        "evaluations": points,
        "distinct_nontrivial": discr,
        "rule": "cases = distinct configurations (TLC: exhaustive small blocks + simulated multi-block ones); an evaluation = one "
                "(configuration, block, command, state, corpus rule) decision of the real code judged against the documented "
                "formula; non-trivial = configurations with a block that applies to some corpus rules and not to others",
        "exhaustive": True,
        "configurations": len(cases), "binary_runs": sum(1 for r in trace if r["src"] == "binary"),
        "corpus_rules": ncorp, "combos": sorted({len(r["combos"]) for r in trace}), "trace_records": len(trace),
    }
    return vlib.conclude(ctx, viols, "model_checking", cov, [
        "TLC checks Impl (transcribed isMatch/IsMatch/defaultRuleMatch/stateMatches) = Doc for every block within the MC bounds over a "
        "60-rule corpus x 3 commands x 5 states",
        "verdict from the real code: config.Load of generated HCL + config.GetChecksForEntry + the marker check's own problem "
        "(in-process, entries parsed by the real parser from rendered files), plus `pint lint --json` of the real binary for a sample",
        "entry states other than noop are injected in-process (Entry.State), removed entries and invalid rules are outside the vocabulary",
        "the command-dependent state default is a default of `match:state` only: an `ignore` sub-block is satisfied by the conditions "
        "defined on it (docs/configuration.md: 'matching all conditions defined on ignore')",
        "documented deviation (not judged): the code's ci default state list also contains `removed`",
    ], drift=drift)


def replay(ctx, path):
    v = json.load(open(path))
    return run(ctx, cases_override=[v["case"]])
