"""C03 - `pint ci` classifies every rule's change state correctly for any branch history
(spec: GitHistory / GitHistoryTrace)."""
import json
import vlib
from vlib import prints, MachineryError
from props import githist as gh


FILE_OPS = ["ModifyLabels", "AddRule", "DeleteRule", "AddFile", "DeleteFile", "RenameFile", "RevertLast"]
DUP_OPS = ["ModifyLabels", "AddRule", "DeleteRule", "SwapRules"]


def gen_jobs(ctx):
    """GEN runs: (cfg name, cfg text, replay budget, tlc kwargs)."""
    th = ctx.thorough
    wide = dict(npaths=4 if th else 3, kinds=["rec", "alr"], names=["n1", "n2"], bodies=["v1", "v2"], labs=["l1", "l2", "l3"],
                cmts=["none", "c1"], pads=[0, 1, 2], exts=["x0", "x1", "x2"], maxrules=3, maxfork=3, commits=4 if not th else 5,
                baseadv=2, merges=1, forkfdis=True, tombrename=True,
                ops=gh.ALL_OPS + gh.PHASE2_OPS, pairops=["DeleteFile", "RenameFile", "BreakFile"])
    pair = ["ModifyLabels", "AddFile", "DeleteFile", "RenameFile", "DeleteRule"]
    return [
        # (1) exhaustive: every history of one file whose rules share one name (the F5 neighbourhood)
        ("c03_gen_dup.cfg", gh.cfg("EmitCase", npaths=1, names=["n1"], bodies=["v1"], labs=["l1", "l2", "l3"],
                                    maxrules=3, maxfork=2, commits=2, ops=DUP_OPS), 250 if not th else 2000, dict(workers=2)),
        # (2) exhaustive: every file-level history over two paths (add / delete / re-add / rename / rename back / revert)
        ("c03_gen_files.cfg", gh.cfg("EmitCase", npaths=2, names=["n1"], bodies=["v1"], labs=["l1", "l2"],
                                      maxrules=2, maxfork=2, commits=2 if not th else 3, ops=FILE_OPS, tombrename=True),
         250 if not th else 5000, dict(workers=2 if not th else 4)),
        # (3) exhaustive: files entering the linted set from an excluded directory, label removal (l3 -> l1)
        ("c03_gen_excl.cfg", gh.cfg("EmitCase", npaths=4, names=["n1"], bodies=["v1"], labs=["l1", "l3"], maxrules=1,
                                     maxfork=2, commits=2, ops=["RenameFile", "ModifyLabels", "DeleteFile", "RevertLast"]),
         150 if not th else 3000, dict(workers=2)),
        # (5) exhaustive: two file-level changes in one commit (edit + add, rename + edit, delete + add elsewhere ...)
        ("c03_gen_multi.cfg", gh.cfg("EmitCase", npaths=2 if not th else 3, names=["n1"], bodies=["v1"], labs=["l1", "l2"], maxrules=1,
                                      maxfork=2, commits=2, ops=pair + ["MultiOp"], pairops=pair),
         150 if not th else 3000, dict(workers=2 if not th else 4)),
        # (6) exhaustive: commits that leave a file unparsable / repair it (no HEAD rules there; removals suppressed)
        ("c03_gen_broken.cfg", gh.cfg("EmitCase", npaths=2, names=["n1", "n2"], bodies=["v1"], labs=["l1"], pads=[0, 1], maxrules=2,
                                       maxfork=2, commits=2 if not th else 3, forkfdis=True,
                                       ops=["BreakFile", "DeleteRule", "ModifyLabels", "RenameFile", "DeleteFile", "WhitespaceEdit"]),
         120 if not th else 2500, dict(workers=2 if not th else 4)),
        # (7) exhaustive: the base branch inserts rules (top / end of a file) and is merged into the branch
        ("c03_gen_merge.cfg", gh.cfg("EmitCase", npaths=1, names=["n1", "n2"], bodies=["v1"], labs=["l1", "l2"], maxrules=2,
                                      maxfork=2, commits=2, baseadv=1 if not th else 2, merges=1,
                                      ops=["ModifyLabels", "DeleteRule", "AddRule", "RenameFile", "DeleteFile", "BaseAdvance", "MergeBase"]),
         150 if not th else 3000, dict(workers=2 if not th else 6)),
        # (8) exhaustive: the base branch edits (labels/expression) or extends a file the branch also changes, never merged -
        #     incl. the same edit on both sides; the tip of the base branch must stay invisible
        ("c03_gen_basetouch.cfg", gh.cfg("EmitCase", npaths=1, names=["n1"], bodies=["v1"], labs=["l1", "l2"], maxrules=2,
                                          maxfork=2, commits=2, baseadv=1 if not th else 2,
                                          ops=["ModifyLabels", "AddRule", "DeleteRule", "BaseAdvance"]),
         150 if not th else 2000, dict(workers=2)),
        # (9) exhaustive: alert-only fields (for / annotations) and label edits of one alerting rule
        ("c03_gen_alertfields.cfg", gh.cfg("EmitCase", npaths=1, kinds=["alr"], names=["n1"], bodies=["v1"], labs=["l1", "l2"],
                                            exts=["x0", "x1", "x2"], maxrules=2, maxfork=1, commits=1 if not th else 2,
                                            ops=["ModifyAlertFields", "ModifyLabels", "AddRule"]),
         40 if not th else 300, dict(workers=1)),
        # (4) simulation over the wide vocabulary: random prefixes, every successor of every visited history
        ("c03_sim_wide.cfg", gh.cfg("EmitCase", **wide), 400 if not th else 8000,
         dict(simulate=5 if not th else 50, depth=12 if not th else 14, workers=1)),
    ]


def mc_jobs(ctx, mode):
    """MC: the impl-shaped fold + matcher + merge against the documented classification, exhaustively."""
    th = ctx.thorough
    inv = "Inv_C03_modMerge"   # = Inv_C03 where no merge happened and MatchMode is "twopass"
    w = 3 if not th else 5
    runs = [
        ("c03_mc_dup.cfg", dict(npaths=1, names=["n1", "n2"], bodies=["v1"], labs=["l1", "l2"], maxrules=3,
                                maxfork=2 if not th else 3, commits=2 if not th else 4, ops=DUP_OPS + ["RenameRule"])),
        ("c03_mc_files.cfg", dict(npaths=2, names=["n1"], bodies=["v1"], labs=["l1", "l2"], maxrules=2, maxfork=2,
                                  commits=3 if not th else 5, ops=FILE_OPS)),
        ("c03_mc_excl.cfg", dict(npaths=4, names=["n1"], bodies=["v1"], labs=["l1", "l3"], maxrules=1, maxfork=2,
                                 commits=2 if not th else 4, ops=["RenameFile", "ModifyLabels", "DeleteFile", "RevertLast", "AddFile"])),
    ]
    pair = ["ModifyLabels", "AddFile", "DeleteFile", "RenameFile", "DeleteRule"]
    runs += [
        ("c03_mc_multi.cfg", dict(npaths=2 if not th else 3, names=["n1"], bodies=["v1"], labs=["l1", "l2"], maxrules=1, maxfork=2,
                                  commits=2, ops=pair + ["MultiOp"], pairops=pair)),
        ("c03_mc_broken.cfg", dict(npaths=2, names=["n1", "n2"], bodies=["v1"], labs=["l1"], maxrules=2, maxfork=2,
                                   commits=2 if not th else 3, ops=["BreakFile", "DeleteRule", "ModifyLabels", "RenameFile", "DeleteFile"])),
        ("c03_mc_merge.cfg", dict(npaths=1 if not th else 2, names=["n1", "n2"], bodies=["v1"], labs=["l1", "l2"], maxrules=2, maxfork=2,
                                  commits=2, baseadv=1 if not th else 2, merges=1,
                                  ops=["ModifyLabels", "DeleteRule", "AddRule", "RenameFile", "DeleteFile", "BaseAdvance", "MergeBase"])),
    ]
    runs.append(("c03_mc_basetouch.cfg", dict(npaths=1, names=["n1"], bodies=["v1"], labs=["l1", "l2"], maxrules=2, maxfork=2,
                                              commits=2, baseadv=1 if not th else 2,
                                              ops=["ModifyLabels", "AddRule", "DeleteRule", "BaseAdvance"])))
    if th:
        runs.append(("c03_mc_fields.cfg", dict(npaths=2, kinds=["rec", "alr"], names=["n1", "n2"], bodies=["v1", "v2"],
                                               labs=["l1"], cmts=["none", "c1"], pads=[0, 1], exts=["x0", "x1", "x2"], maxrules=2,
                                               maxfork=2, commits=2, forkfdis=True,
                                               ops=["ModifyExpr", "RenameRule", "ChangeKind", "CommentOnlyEdit", "WhitespaceEdit", "ModifyAlertFields",
                                                    "FileDisableEdit", "DeleteRule", "RenameFile", "DeleteFile", "RevertLast"])))
    return [(name, gh.cfg(inv, view=True, mode=mode, **kw), w) for name, kw in runs]


def model_and_cases(ctx, mode):
    """Runs the GEN and MC TLC jobs side by side; returns (cases, gen stats, mc results)."""
    ctx._spec_copy()
    gj, mj = gen_jobs(ctx), mc_jobs(ctx, mode)
    jobs = [(lambda j=j: gh.gen(ctx, j[0], j[1], budget=j[2], **j[3])) for j in gj]
    jobs += [(lambda j=j: ctx.tlc("GitHistory", j[0], files={j[0]: j[1]}, allow_violation=True, timeout=3000,
                                  workers=j[2], heap="3g" if ctx.thorough else "1g")) for j in mj]
    res = gh.run_parallel(jobs, width=3)
    parts, stats = [], []
    for j, (cs, r) in zip(gj, res[:len(gj)]):
        parts.extend(cs)   # already de-duplicated and sub-sampled inside gh.gen (memory)
        stats.append({"cfg": j[0], "emitted": r.get("gen_emitted"), "distinct": r.get("gen_distinct"), "replayed": len(cs),
                      "states": r["distinct"], "generated": r["generated"]})
    return gh.dedupe(parts), stats, res[len(gj):]


def run(ctx, cases_override=None):
    mode0 = gh.probe_mode(ctx)
    if cases_override is None:
        cases, gstats, mc_stats = model_and_cases(ctx, mode0)
    else:
        cases, gstats, mc_stats = cases_override, [], []
    if not cases:
        raise MachineryError("GEN produced no cases")
    tpath, trace = gh.execute(ctx, cases, "c03")
    out = gh.judge(ctx, tpath, trace)
    tags = {}
    for t, v in out:
        tags.setdefault(t, []).append(v)
    viols = []
    import re
    for cid, f in tags.pop("FAILED", []):
        # pint itself gave up on a valid history (reproducibly, see exec-githist): nothing was classified.
        # Anything that does not carry pint's own error message stays a machinery failure.
        m = re.search(r'level=ERROR msg="Execution completed with error\(s\)" err="([^"]*)"', f["stderr"]) or \
            re.search(r"(panic: [^\n]*)", f["stderr"])
        if not m:
            raise MachineryError("pint produced no report in case %s: %s\ncase: %s" % (cid, json.dumps(f)[:1500], json.dumps(cases[cid - 1])[:3000]))
        msg = re.sub(r"[A-Za-z0-9_/.-]+\.yml", "<file>", m.group(1))
        viols.append({"sig": "C03:failed:" + msg[:120],
                      "what": "pint ci fails on a valid history (ops %s) and classifies nothing: %s" % (",".join(f["ops"]), m.group(1)[:300]),
                      "case": cases[cid - 1], "detail": f})
    for bad in ("GITDRIFT", "LAYOUTDRIFT", "OTHER"):
        if tags.get(bad):
            cid = tags[bad][0][0]
            raise MachineryError("%s in case %s: %s\ncase: %s" % (bad, cid, json.dumps(tags[bad][0][1:])[:1500],
                                                                 json.dumps(cases[cid - 1])[:3000]))
    for cid, prop, v in tags.get("VIOL", []):
        if prop != "C03":
            continue
        s = v["sig"]
        if "phantom" in v:
            m = v["phantom"]
            impl = v["idfirst"] if mode0 == "twopass" else v["greedy"]
            viols.append({"sig": "C03:phantom:obs=%s:greedy=%s:idfirst=%s:impl=%s:merged=%d:misaligned=%d" % (
                              m["state"], gh.states(v["greedy"]), gh.states(v["idfirst"]), "same" if m["state"] in impl else "diff",
                              int(v.get("merged", False)), int(v.get("stale", False))),
                          "what": "pint lints %s:%d-%d as %s (ops %s) but no rule is there at HEAD" % (
                              m["path"], m["first"], m["last"], m["state"], ",".join(v["ops"])),
                          "case": cases[cid - 1], "detail": v})
            continue
        viols.append({"sig": gh.c03_sig(v, mode0),
                      "what": "rule %d of %s (ops %s): pint marks it %s, the direct comparison of fork-point and HEAD versions accepts %s" % (
                          s["k"], s["path"], ",".join(v["ops"]), gh.states(s["obs"]), gh.states(s["acc"])),
                      "case": cases[cid - 1], "detail": v})
    modes = tags.get("MODE", [])
    n_g = sum(1 for m in modes if m[1] == 1)
    n_t = sum(1 for m in modes if m[2] == 1)
    mode = mode0
    drift = []
    for m in modes:
        if (m[1] if mode == "greedy" else m[2]) != 1:
            drift.append("case %s: markers differ from the %s transcription of matchEntries (ops %s)" % (
                m[0], mode, ",".join(o["op"] for o in cases[m[0] - 1]["log"])))
    # ---- MC ran with the matcher variant the probe bound the tree under test to
    leads = []
    if cases_override is None:
        leads = [m["invariant_violated"] for m in mc_stats if m["invariant_violated"]]
        if leads and not viols:
            raise MachineryError("model-level counterexample (%s) not reproduced on the real code: spec bug" % leads)
    ncommit = [sum(1 for o in c["log"] if o["ns"]["status"] != "B") for c in cases]
    nontrivial = sum(1 for c in cases if any(o["op"] in ("RenameFile", "RevertLast", "DeleteFile", "AddFile") for o in c["log"])
                     or len(c["log"]) >= 2)
    cov = {
        "states": sum(m["distinct"] or 0 for m in mc_stats),
        "transitions": sum(m["generated"] or 0 for m in mc_stats),
        "model_level_leads": leads,
        "matcher_variant_bound": mode,
        "traces_validated_against_impl": len(cases),
        "samples": [{"case": cases[len(cases) // 2], "trace": [r for r in trace if r.get("id") == len(cases) // 2 + 1][-1:]}],
        "evaluations": sum(len(r["markers"]) for r in trace if r["ev"] == "Finish"),
        "distinct_nontrivial": nontrivial,
        "rule": "distinct = fork tree + (name-status, content) of every commit; non-trivial = >=2 commits or a file-level add/delete/rename/revert",
        "bound_only_histories": sum(1 for x in tags.get("NDEPS", []) if x[3] == 1),
        "histories_with_unparsable_head_file": sum(1 for x in tags.get("NDEPS", []) if x[4] == 1),
        "histories_where_base_branch_touches_a_file_the_branch_changes": sum(1 for c in cases if c.get("hint", {}).get("basetouch")),
        "histories_with_merge_of_base": sum(1 for c in cases if any(o["op"] == "MergeBase" for o in c["log"])),
        "histories_with_multi_file_commit": sum(1 for c in cases if any(o.get("more") for o in c["log"])),
        "ops_histogram": {k: sum(1 for c in cases for o in c["log"] if o["op"] == k) for k in sorted({o["op"] for c in cases for o in c["log"]})},
        "gen": gstats, "commits_max": max(ncommit), "trace_records": len(trace),
        "git_commits_bound": sum(1 for r in trace if r["ev"] == "Commit"),
    }
    return vlib.conclude(ctx, viols, "model_checking", cov, [
        "one or two file-level operations per commit; renames are pure moves and an added and a deleted file of one commit are dissimilar by construction (every name-status line git prints is validated against the model)",
        "a HEAD file that does not parse holds no rules (its yaml/parse problem is bound); merges of the base branch use the model's merged tree as resolution; no symlinks; histories renaming a file onto a path deleted earlier on the branch carry no verdict (binding only)",
        "observed state = severity of the single rule/report marker matching the rule's (path, first line, last line)",
        "reference: fork-point version vs HEAD version of the file identity (followed through renames; delete + re-add continues the file)",
    ], drift=drift)


def replay(ctx, path):
    v = json.load(open(path))
    return run(ctx, cases_override=[v["case"]])
