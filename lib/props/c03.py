"""C03 - `pint ci` classifies every rule's change state correctly for any branch history
(spec: GitHistory / GitHistoryTrace)."""
import json
import vlib
from vlib import prints, MachineryError
from props import githist as gh


FILE_OPS = ["ModifyLabels", "AddRule", "DeleteRule", "AddFile", "DeleteFile", "RenameFile", "RevertLast"]
DUP_OPS = ["ModifyLabels", "AddRule", "DeleteRule", "SwapRules"]


def gen_cases(ctx):
    th = ctx.thorough
    cases, stats, parts = [], [], []

    def add(name, text, budget, **kw):
        cs, r = gh.gen(ctx, name, text, **kw)
        d = gh.dedupe(cs)
        pick = gh.stratify(d, budget, ctx.seed)
        parts.extend(pick)
        stats.append({"cfg": name, "emitted": len(cs), "distinct": len(d), "replayed": len(pick),
                      "states": r["distinct"], "generated": r["generated"]})

    # (1) exhaustive: every history of one file whose rules share one name (the F5 neighbourhood)
    add("c03_gen_dup.cfg", gh.cfg("EmitCase", npaths=1, names=["n1"], bodies=["v1"], labs=["l1", "l2", "l3"],
                                   maxrules=3, maxfork=2, commits=2, ops=DUP_OPS), 400 if not th else 2000)
    # (2) exhaustive: every file-level history over two paths (add / delete / re-add / rename / rename back / revert)
    add("c03_gen_files.cfg", gh.cfg("EmitCase", npaths=2, names=["n1"], bodies=["v1"], labs=["l1", "l2"],
                                     maxrules=2, maxfork=2, commits=2 if not th else 3, ops=FILE_OPS),
        400 if not th else 5000)
    # (3) simulation over the wide vocabulary: random prefixes, every successor of every visited history
    wide = dict(npaths=3 if th else 2, kinds=["rec", "alr"], names=["n1", "n2"], bodies=["v1", "v2"], labs=["l1", "l2"],
                cmts=["none", "c1"], pads=[0, 1, 2], maxrules=3, maxfork=3, commits=4 if not th else 5, baseadv=1, forkfdis=True)
    add("c03_sim_wide.cfg", gh.cfg("EmitCase", **wide), 500 if not th else 8000,
        simulate=10 if not th else 60, depth=12 if not th else 14, workers=1)
    return gh.dedupe(parts), stats


def mc_runs(ctx, mode):
    """MC: the impl-shaped fold + matcher + merge against the documented classification, exhaustively."""
    th = ctx.thorough
    inv = "Inv_C03" if mode == "twopass" else "Inv_C03_known"
    w = 6 if not th else 12
    runs = [
        ("c03_mc_dup.cfg", dict(npaths=1, names=["n1", "n2"], bodies=["v1"], labs=["l1", "l2"], maxrules=3, maxfork=2,
                                commits=2 if not th else 3, ops=DUP_OPS + ["RenameRule"])),
        ("c03_mc_files.cfg", dict(npaths=2, names=["n1"], bodies=["v1"], labs=["l1", "l2"], maxrules=2, maxfork=2,
                                  commits=3 if not th else 4, ops=FILE_OPS)),
    ]
    if th:
        runs.append(("c03_mc_fields.cfg", dict(npaths=2, kinds=["rec", "alr"], names=["n1", "n2"], bodies=["v1", "v2"],
                                               labs=["l1"], cmts=["none", "c1"], pads=[0, 1], maxrules=2, maxfork=2, commits=2,
                                               forkfdis=True,
                                               ops=["ModifyExpr", "RenameRule", "ChangeKind", "CommentOnlyEdit", "WhitespaceEdit",
                                                    "FileDisableEdit", "DeleteRule", "RenameFile", "DeleteFile", "RevertLast"])))
    out = []
    for name, kw in runs:
        out.append(ctx.tlc("GitHistory", name, files={name: gh.cfg(inv, view=True, mode=mode, **kw)},
                           allow_violation=True, timeout=3000, workers=w, heap="6g" if th else "4g"))
    return out


def run(ctx, cases_override=None):
    if cases_override is None:
        cases, gstats = gen_cases(ctx)
    else:
        cases, gstats = cases_override, []
    if not cases:
        raise MachineryError("GEN produced no cases")
    tpath, trace = gh.execute(ctx, cases, "c03")
    out = gh.judge(ctx, tpath, trace)
    tags = {}
    for t, v in out:
        tags.setdefault(t, []).append(v)
    for bad in ("GITDRIFT", "UNMAPPED", "FAILED", "OTHER"):
        if tags.get(bad):
            cid = tags[bad][0][0]
            raise MachineryError("%s in case %s: %s\ncase: %s" % (bad, cid, json.dumps(tags[bad][0][1:])[:1500],
                                                                 json.dumps(cases[cid - 1])[:3000]))
    viols = []
    for cid, prop, v in tags.get("VIOL", []):
        if prop != "C03":
            continue
        s = v["sig"]
        viols.append({"sig": gh.c03_sig(v),
                      "what": "rule %d of %s (ops %s): pint marks it %s, the direct comparison of fork-point and HEAD versions accepts %s" % (
                          s["k"], s["path"], ",".join(v["ops"]), gh.states(s["obs"]), gh.states(s["acc"])),
                      "case": cases[cid - 1], "detail": v})
    modes = tags.get("MODE", [])
    n_g = sum(1 for m in modes if m[1] == 1)
    n_t = sum(1 for m in modes if m[2] == 1)
    mode = "twopass" if n_t == len(modes) and n_g < len(modes) else "greedy"
    drift = []
    for m in modes:
        if (m[1] if mode == "greedy" else m[2]) != 1:
            drift.append("case %s: markers differ from the %s transcription of matchEntries (ops %s)" % (
                m[0], mode, ",".join(o["op"] for o in cases[m[0] - 1]["log"])))
    # ---- MC with the matcher variant the tree under test was bound to
    mc_stats = []
    leads = []
    if cases_override is None:
        mc_stats = mc_runs(ctx, mode)
        leads = [m["invariant_violated"] for m in mc_stats if m["invariant_violated"]]
        if leads and not viols:
            raise MachineryError("model-level counterexample (%s) not reproduced on the real code: spec bug" % leads)
    ncommit = [sum(1 for o in c["log"] if o["ns"]["status"] != "B") for c in cases]
    nontrivial = sum(1 for c in cases if any(o["op"] in ("RenameFile", "RevertLast", "DeleteFile", "AddFile") for o in c["log"])
                     or len(c["log"]) >= 2)
    cov = {
        "states": sum(m["distinct"] or 0 for m in mc_stats),
        "transitions": sum(m["generated"] or 0 for m in mc_stats),
        "model_level_leads": leads,
        "matcher_variant_bound": mode,
        "traces_validated_against_impl": len(cases),
        "samples": [{"case": cases[len(cases) // 2], "trace": [r for r in trace if r.get("id") == len(cases) // 2 + 1][-1:]}],
        "evaluations": sum(len(r["markers"]) for r in trace if r["ev"] == "Finish"),
        "distinct_nontrivial": nontrivial,
        "rule": "distinct = fork tree + (name-status, content) of every commit; non-trivial = >=2 commits or a file-level add/delete/rename/revert",
        "gen": gstats, "commits_max": max(ncommit), "trace_records": len(trace),
        "git_commits_bound": sum(1 for r in trace if r["ev"] == "Commit"),
    }
    return vlib.conclude(ctx, viols, "model_checking", cov, [
        "one file-level operation per commit; renames are pure moves (git prints R100, validated per commit against the model)",
        "HEAD files always parse; no symlinks; a file is never renamed onto a path deleted earlier on the branch",
        "observed state = severity of the single rule/report marker matching the rule's (path, first line, last line)",
        "reference: fork-point version vs HEAD version of the file identity (followed through renames; delete + re-add continues the file)",
    ], drift=drift)


def replay(ctx, path):
    v = json.load(open(path))
    return run(ctx, cases_override=[v["case"]])
