"""PINT - end-to-end composition Masker -> parse -> Dispatch -> Scan -> Exit (spec/Pint.tla, spec/PintTrace.tla;
EXEC: vh exec-pint driving the real pint binary). Not a property of its own (nothing in MANIFEST, no evidence file):
an extra stage binding the C10 / C07 / C08 / C11 / C05 modules to each other and to the shipped binary.
    ./check PINT [--tier quick|thorough]      exit 0 held, 1 VIOLATION (real outputs), 2 machinery"""
import json
import os
import vlib
from vlib import prints, write_ndjson, read_ndjson, MachineryError

W = int(os.environ.get("VERIF_TLC_WORKERS", "0")) or None
CFG = """SPECIFICATION Spec
CONSTANTS
  MaxBody = %d
  PWs = {1, 2}
  MaxScanJobs = %d
INVARIANTS %s
%sCHECK_DEADLOCK FALSE
"""
MC_INV = "Inv_ProblemIffLiveDispatched Inv_MaskedCommentsInert Inv_WorkersCommute Inv_Scan"


def run(ctx, cases_override=None):
    th = ctx.thorough
    leads, mc = [], None
    if cases_override is None:
        # MC: every input with <= MaxBody generated lines x flags x every schedule of 1 and 2 workers (<= 4 jobs for 2 workers)
        mc = ctx.tlc("Pint", "pint_mc.cfg", files={"pint_mc.cfg": CFG % (2 if th else 1, 4, MC_INV, "")}, timeout=3000,
                     allow_violation=True, workers=W)
        if mc["invariant_violated"]:
            leads.append(mc["invariant_violated"])
        g = ctx.tlc("Pint", "pint_gen.cfg", files={"pint_gen.cfg": CFG % (2, 4, "EmitCase", "CONSTRAINT GenConstraint\n")}, timeout=3000, workers=W)
        cases = sorted((v[0] for v in prints(g, "CASE")), key=lambda c: json.dumps(c, sort_keys=True))
        if not th:
            cases = cases[ctx.seed % 4::4]          # a quarter of the inputs, chosen by the seed
    else:
        cases = cases_override
    cpath = write_ndjson(ctx.path("pint_cases.ndjson"), cases)
    tpath = ctx.path("pint_trace.ndjson")
    ctx.vh("exec-pint", cpath, tpath, ctx.build_pint(), timeout=3000)
    trace = read_ndjson(tpath)
    j = ctx.tlc("PintTrace", "PintTrace.cfg", files={"pint_trace.ndjson": tpath}, timeout=3000, heap="8g", workers=W)
    if j["distinct"] != 2 * len(trace):
        raise MachineryError("JUDGE accepted %s states for %d records" % (j["distinct"], len(trace)))
    viols = prints(j, "VIOL")
    drift = prints(j, "DRIFT")
    if leads and not viols and cases_override is None:
        raise MachineryError("model-level counterexample (%s) not reproduced on the real code: spec bug" % leads)
    for cid, d in drift[:5]:
        print("SPEC-DRIFT property=PINT case %s: %s" % (cid, json.dumps(d)[:400]))
    if viols:
        seen = set()
        for cid, v in viols:
            sig = "PINT:%s:%s:%s:w=%s" % ("".join("%s/%s," % (l["cls"], l["text"]) for l in v["body"]), int(v["two"]),
                                          json.dumps(v["opts"], sort_keys=True), v["w"])
            if sig in seen or len(seen) >= 10:
                continue
            seen.add(sig)
            p = vlib.save_replay(ctx, sig, {"sig": sig, "case": cases[cid - 1], "detail": v})
            print("VIOLATION property=PINT replay=%s" % p)
            print("  what: end-to-end: reports %s exit %s differ from the documented composition (exit %s)" % (
                v["reports"], v["exit"], v["docexit"]))
        return 1
    print("OK property=PINT tier=%s seed=%d wall=%.1fs mc_states=%s inputs=%d binary_runs=%d drift=%d" % (
        ctx.tier, ctx.seed, ctx.wall(), mc["distinct"] if mc else 0, len(cases), len(trace), len(drift)))
    return 0


def replay(ctx, path):
    return run(ctx, cases_override=[json.load(open(path))["case"]])
