"""C07 - control comments suppress exactly the targeted check on the targeted rules
(spec: Dispatch / DispatchC07 / DispatchC07Trace; EXEC: vh exec-c07-probe + exec-c07, in-process lint pipeline,
a sample re-run through the pint binary)."""
import json
import os
import random
import vlib
from vlib import prints, write_ndjson, read_ndjson, MachineryError

# development aid: cap TLC workers on a shared machine (unset = vlib default, up to 16)
W = int(os.environ.get("VERIF_TLC_WORKERS", "0")) or None

CFG = """SPECIFICATION Spec
CONSTANTS
  NProms = {%s}
  LayoutIds = {%s}
  Eols = {%s}
  Priors = {%s}
  Extras = %s
  Rules = {%s}
  Scopes = {%s}
  OnlyBasePairs = %s
  AllPlacements = %s
  Slim = %s
INVARIANTS %s
%sCHECK_DEADLOCK FALSE
"""
ALL_RULES = list(range(1, 12))


def B(x):
    return "TRUE" if x else "FALSE"


def cfg(nproms, layouts, rules, scopes, only_base, all_places, slim, inv, view=False, eols=("lf",), priors=("none",), extras=False):
    return CFG % (", ".join(map(str, nproms)), ", ".join(map(str, layouts)), ", ".join('"%s"' % s for s in eols),
                  ", ".join('"%s"' % s for s in priors), B(extras), ", ".join(map(str, rules)),
                  ", ".join('"%s"' % s for s in scopes), B(only_base), B(all_places), B(slim), inv, "VIEW MCView\n" if view else "")


def tla_str(s):
    return '"' + s.replace("\\", "\\\\").replace('"', '\\"') + '"'


def base_module(bases):
    """C07Base.tla text from the probe's Base records."""
    arms = []
    for b in bases:
        np, layout = b["_nproms"], b["_layout"]
        pairs = sorted({(p["e"], p["c"]) for p in b["reports"] if p["e"] > 0})
        body = ", ".join("<<%d, %s>>" % (e, tla_str(c)) for e, c in pairs)
        arms.append("np = %d /\\ layout = %d -> {%s}" % (np, layout, body))
    text = "------------------------------ MODULE C07Base ------------------------------\n"
    text += "\\* generated at run time from `vh exec-c07-probe` (reports of the tree under test)\n"
    text += "BasePairsOf(np, layout) ==\n  CASE " + "\n    [] ".join(arms + ["OTHER -> {}"]) + "\n"
    text += "=============================================================================\n"
    return text


def sig_of(v):
    c = v["cmt"]
    return "C07:%s:%s:%s:%s:%s@%s:rule=%s:proms=%s:locked=%s:missing=%s:unexpected=%s" % (
        c["scope"], c["type"], c["when"], c["tfmt"], c["match"], v["place"]["at"], v["rule"], v["nproms"],
        "".join("1" if x else "0" for x in v["locked"]),
        ";".join(sorted("%s/%s" % (e, s) for e, s in v["missing"])), ";".join(sorted("%s/%s" % (e, s) for e, s in v["unexpected"])))


def what_of(v):
    s = "comment `%s` written %s (line %s%s): " % (v["text"], v["place"]["at"], v["place"]["line"],
                                                 ", rule %s" % v["rule"] if v["rule"] else "")
    if v["missing"]:
        s += "problems that must stay are gone or changed (rule/check): %s; " % sorted(map(tuple, v["missing"]))[:6]
    if v["unexpected"]:
        s += "problems that must disappear (or new ones) are reported: %s" % sorted(map(tuple, v["unexpected"]))[:6]
    return s


def run(ctx, cases_override=None):
    th = ctx.thorough
    # ---- MC: Impl (isDisabledForRule / isEnabled / locked / file comments) vs DocSuppresses
    mcs = []
    if cases_override is None:   # a replay only re-executes the stored case
        if th:
            mcs = [ctx.tlc("DispatchC07", "c07_mc.cfg", files={"c07_mc.cfg": cfg([1, 2], [1, 2, 3, 4], [2], ["rule", "file"], False, False, False, "Inv_C07", True,
                                                                                 priors=("none", "expired", "filefuture"), extras=True)},
                           timeout=5400, allow_violation=True, workers=W, dfs=True)]
        else:
            mcs = [ctx.tlc("DispatchC07", "c07_mc.cfg", files={"c07_mc.cfg": cfg([1], [2, 4], [2], ["rule", "file"], False, False, False, "Inv_C07", True,
                                                                                 priors=("none", "expired", "filefuture"), extras=True)},
                           timeout=3000, allow_violation=True, workers=W, dfs=True)]
    leads = [m["invariant_violated"] for m in mcs if m["invariant_violated"]]
    # ---- probe: reports of the unmodified file per scenario -> C07Base (which (rule, check) pairs have problems)
    sc = ctx.tlc("DispatchC07", "c07_scen.cfg", files={"c07_scen.cfg": cfg([1, 2], [1, 2, 3, 4], [1], ["rule"], False, False, True, "EmitScen")},
                 timeout=3000, workers=1, dfs=True)
    scens = [v[0] for v in prints(sc, "SCEN")]
    if len(scens) != 8:
        raise MachineryError("expected 8 scenarios, got %d" % len(scens))
    spath = write_ndjson(ctx.path("c07_scen.ndjson"), scens)
    ppath = ctx.path("c07_probe.ndjson")
    ctx.vh("exec-c07-probe", spath, ppath)
    probe = read_ndjson(ppath)
    for b in probe:
        s = next(x for x in scens if x["cfg"] == b["cfg"])
        b["_nproms"], b["_layout"] = s["nproms"], s["layout"]
    base_text = base_module(probe)
    reporters = sorted({p["r"] for b in probe for p in b["reports"]})
    # ---- GEN
    if cases_override is None:
        cases = []

        def gen(name, text, cap=0, **kw):
            # dfs=True = in-memory state queue: TLC's disk queue cannot serialise the shared instance sets of this spec
            r = ctx.tlc("DispatchC07", name, files={name: text, "C07Base.tla": base_text}, timeout=3000,
                        workers=(4 if "simulate" in kw else W), dfs=("simulate" not in kw), **kw)
            cs = [v[0] for v in prints(r, "CASE")]
            if not cs:
                raise MachineryError("GEN %s produced no cases" % name)
            if "simulate" in kw:
                # TLC's trace count is not a hard bound: keep a seed-determined sample of the distinct cases
                cs = sorted({json.dumps(c, sort_keys=True) for c in cs})
                random.Random(ctx.seed).shuffle(cs)
                cs = [json.loads(c) for c in cs[:cap]]
            return cs
        BOTH, PR = ("lf", "crlf"), ("none", "expired", "filefuture")
        if th:
            # every (rule, check) pair with a problem x every comment form x spelling x every placement (1 server, locked layout)
            cases += gen("c07_gen0.cfg", cfg([1], [2], ALL_RULES, ["rule", "file"], True, True, False, "EmitCase"))
            cases += gen("c07_gen1.cfg", cfg([2], [1, 3, 4], ALL_RULES, ["rule", "file"], True, False, True, "EmitCase", eols=BOTH))
            # binding-only growth: owner / rule/set comments and the column-0 placement, file/snooze interplay (one scenario)
            cases += gen("c07_gen3.cfg", cfg([1], [1], ALL_RULES, ["rule", "file"], True, False, False, "EmitCase", priors=PR, extras=True))
            cases += gen("c07_gen2.cfg", cfg([1, 2], [1, 2, 3, 4], ALL_RULES, ["rule", "file"], False, True, False, "EmitCase", eols=BOTH, priors=PR, extras=True),
                         cap=6000, simulate=400, depth=7)
        else:
            # every (rule, check) pair with a problem: `# pint disable <name>` above the rule, file/disable on top
            cases += gen("c07_gen0.cfg", cfg([1], [2], ALL_RULES, ["rule", "file"], True, False, True, "EmitCase"))
            cases += gen("c07_gen1.cfg", cfg([1, 2], [1, 2, 3, 4], ALL_RULES, ["rule", "file"], True, True, False, "EmitCase", eols=BOTH, priors=PR, extras=True),
                         cap=500, simulate=40, depth=7)
        seen, uniq = set(), []
        for c in cases:
            k = json.dumps(c, sort_keys=True)
            if k not in seen:
                seen.add(k)
                uniq.append(c)
        cases = sorted(uniq, key=lambda c: json.dumps(c, sort_keys=True))
    else:
        cases = cases_override
    cpath = write_ndjson(ctx.path("c07_cases.ndjson"), cases)
    # ---- EXEC
    pint = ctx.build_pint()
    tpath = ctx.path("c07_trace.ndjson")
    ctx.vh("exec-c07", cpath, tpath, pint, 1 if cases_override is not None else 25, timeout=5400)
    trace = read_ndjson(tpath)
    # ---- JUDGE (Run records are independent given their Base record: judged in parallel, in chunks that bound TLC's heap;
    #      the Base records are part of every chunk)
    base_recs = [r for r in trace if r["ev"] == "Base"]
    run_recs = [r for r in trace if r["ev"] == "Run"]
    CH = 2500
    jprints = {"VIOL": [], "DRIFT": [], "BINARY": []}
    for n, lo in enumerate(range(0, max(len(run_recs), 1), CH)):
        part = base_recs + run_recs[lo:lo + CH]
        ppath = write_ndjson(ctx.path("c07_trace_part.ndjson"), part)
        j = ctx.tlc("DispatchC07Trace", "DispatchC07Trace.cfg", files={"c07_trace.ndjson": ppath, "C07Base.tla": base_text},
                    timeout=5400, heap="8g", workers=W, dfs=True, tag="judge%d" % n)
        if j["distinct"] != 2 * len(part):
            raise MachineryError("JUDGE accepted %s states for %d trace records (expected %d)" % (j["distinct"], len(part), 2 * len(part)))
        for k in jprints:
            jprints[k] += prints(j, k)
    if jprints["BINARY"]:
        raise MachineryError("the in-process pipeline and the pint binary disagree on %d sampled case(s), e.g. %s" % (
            len(jprints["BINARY"]), jprints["BINARY"][0]))
    viols = []
    for cid, v in jprints["VIOL"]:
        viols.append({"sig": sig_of(v), "what": what_of(v), "case": cases[cid - 1], "detail": v})
    drift = ["case %s: %s" % (cid, json.dumps(d)[:400]) for cid, d in jprints["DRIFT"]]
    if leads and not viols and cases_override is None:
        raise MachineryError("model-level counterexample (%s) not reproduced on the real code: spec bug" % leads)
    runs = [r for r in trace if r["ev"] == "Run"]
    bases = {r["scen"]: r for r in trace if r["ev"] == "Base"}

    def key(reps):
        return {(p["e"], p["c"], p["k"]) for p in reps}
    removing = sum(1 for r in runs if key(r["reports"]) != key(bases[r["scen"]]["reports"]))
    mid = runs[len(runs) // 2] if runs else None
    cov = {
        "states": sum(m["distinct"] or 0 for m in mcs),
        "transitions": sum(m["generated"] or 0 for m in mcs),
        "model_level_leads": leads,
        "traces_validated_against_impl": len(runs),
        "samples": [{"comment": mid["text"], "place": mid["place"], "rule": mid["rule"],
                     "reports_base": len(bases[mid["scen"]]["reports"]), "reports_with_comment": len(mid["reports"])}] if mid else [],
        "evaluations": sum(len(r["reports"]) for r in runs),
        "distinct_nontrivial": removing,
        "rule": "cases = (scenario, comment form, spelling, rule, placement) generated by TLC from the (rule, check) pairs that have "
                "problems in the probed base report; an evaluation = one report of a run with a comment compared with the shifted base "
                "report; non-trivial = runs in which the comment actually removed something",
        "exhaustive": True,
        "scenarios": len(bases), "binary_reruns": sum(1 for r in runs if r["bin"]), "reporters_in_base": reporters,
        "pairs_with_problems": sum(len({(p["e"], p["c"]) for p in b["reports"]}) for b in probe), "trace_records": len(trace),
    }
    return vlib.conclude(ctx, viols, "model_checking", cov, [
        "TLC checks Impl (isDisabledForRule, isEnabled, locked, file comments -> Entry.DisabledChecks) = DocSuppresses for every "
        "instance x comment form x spelling within the constants",
        "verdict from the real in-process lint pipeline (real parser and comment attachment, discovery, dispatch, checks; Prometheus "
        "servers nobody listens on) on the file with and without the one comment; reports compared as (rule, check String(), reporter, "
        "texts, columns, line numbers) with file:line references inside texts masked",
        "placements: line above the rule (indented like the list item), own line between two top-level fields, trailing on a rule line; "
        "file comments on the first / after the last line. Comments less indented than the list item (F11) are outside the vocabulary: "
        "the documentation only shows comments indented like the rule they touch",
        "spellings: check name, name(server) where String() is exactly that, name(+tag), the per-instance forms the check pages document; "
        "file/disable of a check from a locked block and query/cost(server) for a block with maxSeries are ambiguous in the docs and not generated",
        "snooze times are 2099 (future) and 2001 (past), RFC3339 and YYYY-MM-DD",
        "a sample of the files is re-linted by the pint binary and must give the same (path, reporter, problem, details, severity, lines) set",
    ], drift=drift)


def replay(ctx, path):
    v = json.load(open(path))
    return run(ctx, cases_override=[v["case"]])
