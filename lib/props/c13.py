"""C13 - slicing a range query is invisible in its result (spec: RangeSlice / RangeSliceTrace).

MC    TLC checks Inv_C13 / Inv_Grid / Inv_Shape on the impl-shaped model, exhaustively in bounds:
      (orders) every arrival permutation x every presence pattern; (align) every lattice alignment of
      start and end x every presence pattern, in-order and reversed arrival; (two) two series;
      (session) a follow-up query through the query cache.
GEN   the same state machine emits finished sessions as cases: BFS (small bounds, sampled by seed)
      and simulation (wide vocabulary: 5 m .. 4 h steps, half-step presence cells, 2 series, <= 7 slices,
      follow-up queries).
EXEC  real promapi.FailoverGroup.RangeQuery (client + query cache as pint builds them) against
      harness/promfake (presence mode, responses released in the case's arrival order).
JUDGE RangeSliceTrace: verdict = returned ranges equal ONE unsliced evaluation of the recorded window.
"""
import json
import os
import random

import vlib
from vlib import prints, write_ndjson, read_ndjson, MachineryError, NCPU, log

CFG = """SPECIFICATION %(spec)s
CONSTANTS
  Steps = {%(steps)s}
  NSeries = %(ns)d
  CellDiv = %(celldiv)d
  MaxWin = %(maxwin)d
  MaxSlices = %(maxslices)d
  MaxCells = %(maxcells)d
  StartMode = "%(startmode)s"
  Quantum = "%(quantum)s"
  OrderMode = "%(order)s"
  PresMode = "%(presmode)s"
  RunLens = {%(runlens)s}
  Deltas = {%(deltas)s}
  Mirror = %(mirror)s
%(inv)s
%(view)s
CHECK_DEADLOCK FALSE
"""

STEPS_MC = [2400, 2700, 3000, 3600, 4200, 6000, 7200]          # 40m 45m 50m 60m 70m 100m 2h
STEPS_SIM = [300, 420, 780, 1200, 2400, 2700, 3000, 3600, 4200, 4800, 5400, 6000, 7200, 14400]
INV = "Inv_C13 Inv_Grid Inv_Shape"


def tlc_workers():
    return int(os.environ.get("VERIF_TLC_WORKERS") or min(NCPU, 16))


HEAP = os.environ.get("VERIF_TLC_HEAP") or "8g"


def cfg(mirror, **kw):
    d = dict(spec="Spec", steps=STEPS_MC, ns=1, celldiv=1, maxwin=18000, maxslices=4, maxcells=10, startmode="few",
             quantum="step", order="all", presmode="subset", runlens=[1], deltas=[], inv=INV, view="VIEW MCView")
    d.update(kw)
    d["steps"] = ", ".join(str(s) for s in d["steps"])
    d["deltas"] = ", ".join(str(s) for s in d["deltas"])
    d["runlens"] = ", ".join(str(s) for s in d["runlens"])
    d["mirror"] = "TRUE" if mirror else "FALSE"
    d["inv"] = ("INVARIANTS " + d["inv"]) if d["inv"] else ""
    return CFG % d


def mc_configs(thorough, mirror):
    if thorough:
        return [
            ("orders", cfg(mirror, maxwin=21600, maxslices=5, maxcells=10)),
            ("align", cfg(mirror, maxwin=18000, maxslices=4, maxcells=9, startmode="lattice", quantum="half", order="fwdrev")),
            ("two", cfg(mirror, steps=[3000, 3600, 6000, 7200], ns=2, maxwin=14400, maxslices=4, maxcells=5)),
            ("halfcell", cfg(mirror, steps=[3000, 3600, 7200], celldiv=2, maxwin=10800, maxslices=3, maxcells=10,
                             startmode="lattice", quantum="half", order="fwdrev")),
            ("session", cfg(mirror, steps=[2400, 3000, 3600, 7200], maxwin=10800, maxslices=4, maxcells=8, deltas=[0, 2, 3, 4, 6])),
        ]
    return [
        ("orders", cfg(mirror, maxwin=18000, maxslices=4, maxcells=9)),
        ("align", cfg(mirror, maxwin=14400, maxslices=4, maxcells=8, startmode="lattice", quantum="half", order="fwdrev")),
        ("two", cfg(mirror, steps=[3600, 6000], ns=2, maxwin=10800, maxslices=3, maxcells=5)),
        ("session", cfg(mirror, steps=[2400, 3000], maxwin=10800, maxslices=3, maxcells=7, deltas=[0, 2, 3, 4])),
    ]


def sig_of(c):
    """normalised abstract case: the whole session up to the violating query"""
    pres = ";".join(",".join(str(x) for x in sorted(p)) for p in c["pres"])
    qs = "|".join("%s-%s/%s" % (q["start"], q["end"], ",".join(str(k) for k in q["order"])) for q in c["queries"])
    return "C13:step=%s:unit=%s:pres=%s:queries=%s" % (c["step"], c["unit"], pres, qs)


def nontrivial(c):
    """>= 2 slices in some query and a series present on both sides of one of its slice boundaries"""
    u = c["unit"]
    for q in c["queries"]:
        for b in [s["s"] for s in q["slices"][1:]]:
            for p in c["pres"]:
                cells = set(p)
                if (b // u) in cells and ((b - c["step"]) // u) in cells:
                    return True
    return False


def probe_mirror(ctx):
    """ask the real promapi.Overlaps which variant of the model applies to this tree"""
    p = ctx.path("c13_probe_in.ndjson")
    open(p, "w").close()
    t = ctx.path("c13_probe_out.ndjson")
    ctx.vh("exec-c13", p, t)
    recs = [r for r in read_ndjson(t) if r["ev"] == "Probe"]
    if not recs:
        raise MachineryError("exec-c13 wrote no Probe record")
    return bool(recs[0]["mirror"])


def generate(ctx, mirror):
    thorough = ctx.thorough
    rnd = random.Random(ctx.seed)
    cases, seen = [], set()

    def add(cs):
        for c in cs:
            k = json.dumps(c, sort_keys=True)
            if k not in seen:
                seen.add(k)
                cases.append(c)

    def sample(xs, n):
        xs.sort(key=lambda c: json.dumps(c, sort_keys=True))
        return xs if len(xs) <= n else rnd.sample(xs, n)

    w = tlc_workers()
    # BFS: every behaviour inside small bounds, sampled down to the budget by seed
    bfs = ctx.tlc("RangeSlice", "c13_gen_bfs.cfg", tag="gen-bfs", timeout=3000, workers=w, heap=HEAP, files={
        "c13_gen_bfs.cfg": cfg(mirror, maxwin=18000 if thorough else 14400, maxslices=4 if thorough else 3,
                               maxcells=10 if thorough else 7, inv="EmitCase", view="")})
    all_bfs = [v[0] for v in prints(bfs, "CASE")]
    add(sample(all_bfs, 60000 if thorough else 2000))
    # BFS: sessions with a follow-up query through the cache; ends on / next to slice boundaries only
    # (quantum "slice"), where a cached last slice and the slices of the follow-up query interact
    bfs2 = ctx.tlc("RangeSlice", "c13_gen_sess.cfg", tag="gen-sess", timeout=3000, workers=w, heap=HEAP, files={
        "c13_gen_sess.cfg": cfg(mirror, steps=[2400, 3000, 3600] if thorough else [2400, 3000],
                                maxwin=10800, maxslices=3, maxcells=7,
                                quantum="slice", order="all" if thorough else "fwdrev",
                                deltas=[0, 2, 3, 4, 6] if thorough else [0, 2, 3, 4], inv="EmitCase", view="")})
    all_sess = [v[0] for v in prints(bfs2, "CASE") if len(v[0]["queries"]) > 1]
    add(sample(all_sess, 30000 if thorough else 3000))
    # BFS: two series, one sample per slice, every arrival order (the merge fix-point runs per series)
    bfs3 = ctx.tlc("RangeSlice", "c13_gen_two.cfg", tag="gen-two", timeout=3000, workers=w, heap=HEAP, files={
        "c13_gen_two.cfg": cfg(mirror, steps=[7200], ns=2, maxwin=21600, maxslices=4, maxcells=5 if thorough else 4,
                               quantum="slice", inv="EmitCase", view="")})
    all_two = [v[0] for v in prints(bfs3, "CASE")]
    add(sample(all_two, 20000 if thorough else 1200))
    # simulation: wide vocabulary
    per_worker = max(1, (20000 if thorough else 1600) // w)
    sim = ctx.tlc("RangeSlice", "c13_gen_sim.cfg", tag="gen-sim", timeout=3000, simulate=per_worker, depth=400,
                  workers=w, heap=HEAP, files={
                      "c13_gen_sim.cfg": cfg(mirror, steps=STEPS_SIM, ns=2, celldiv=2, maxwin=28800, maxslices=7,
                                             maxcells=100000, startmode="lattice", quantum="step", presmode="runs",
                                             runlens=[1, 2, 3, 5, 8, 13, 21, 34, 55], deltas=[0, 2, 3, 5, 8, 13], inv="EmitCase", view="")})
    sim_cases = [v[0] for v in prints(sim, "CASE")]
    sim_cases.sort(key=lambda c: json.dumps(c, sort_keys=True))
    add(sim_cases)
    return cases, dict(gen_bfs_total=len(all_bfs), gen_session_total=len(all_sess), gen_two_series_total=len(all_two),
                       gen_sim_total=len(sim_cases))


def judge(ctx, trace, mirror, chunk_cases=10000):
    """Run RangeSliceTrace over the trace in chunks of whole cases. Returns (viols, drifts)."""
    chunks, cur, n, last = [], [], 0, None
    for r in trace:
        if r["ev"] == "Query" and r["id"] != last:
            if n >= chunk_cases:
                chunks.append(cur)
                cur, n = [], 0
            n += 1
            last = r["id"]
        cur.append(r)
    if cur:
        chunks.append(cur)
    jcfg = cfg(mirror, spec="TraceSpec", steps=[], ns=3, maxwin=0, maxslices=100, maxcells=0, inv="", view="")
    viols, drifts = [], []
    for i, ch in enumerate(chunks):
        p = write_ndjson(ctx.path("c13_trace_%d.ndjson" % i), ch)
        j = ctx.tlc("RangeSliceTrace", "c13_judge.cfg", workers=1, files={"c13_trace.ndjson": p, "c13_judge.cfg": jcfg},
                    timeout=3000, heap=HEAP, tag="judge-%d" % i)
        done = prints(j, "DONE")
        if not done or done[0][0] != len(ch):
            raise MachineryError("JUDGE consumed %s of %d trace records (chunk %d): a record no action accepts (Hang?)" % (
                (j["distinct"] or 2) - 2, len(ch), i))
        viols += prints(j, "VIOL")
        drifts += prints(j, "DRIFT")
    return viols, drifts


def run(ctx, cases_override=None):
    thorough = ctx.thorough
    w = tlc_workers()
    mirror = probe_mirror(ctx)
    log("[c13] real promapi.Overlaps has the mirror cases: %s" % mirror)
    # ---- MC
    mcs, leads = [], []
    if cases_override is None:
        for name, text in mc_configs(thorough, mirror):
            m = ctx.tlc("RangeSlice", "c13_mc_%s.cfg" % name, tag="mc-" + name, files={"c13_mc_%s.cfg" % name: text},
                        timeout=3000, workers=w, heap=HEAP, allow_violation=True)
            mcs.append(m)
            if m["invariant_violated"]:
                leads.append("%s:%s" % (name, m["invariant_violated"]))
    # ---- GEN
    if cases_override is None:
        cases, gstats = generate(ctx, mirror)
    else:
        cases, gstats = cases_override, {}
    cpath = write_ndjson(ctx.path("c13_cases.ndjson"), cases)
    # ---- EXEC
    tpath = ctx.path("c13_trace_all.ndjson")
    ctx.vh("exec-c13", cpath, tpath, timeout=3000)
    trace = [r for r in read_ndjson(tpath) if r["ev"] != "Probe"]
    # ---- JUDGE
    jv, jd = judge(ctx, trace, mirror)
    viols = []
    for cid, v in jv:
        c = dict(cases[cid - 1])
        c["queries"] = c["queries"][:v["q"]]
        viols.append({"sig": sig_of(c), "case": cases[cid - 1], "detail": v,
                      "what": "query %d of the session (step=%ss, window %s..%s, slice results collected in order %s) returned %s; "
                              "one unsliced evaluation of the same window yields %s%s" % (
                                  v["q"], v["step"], v["start"], v["end"], v["order"], json.dumps(v["got"]), json.dumps(v["want"]),
                                  (" (error: %s)" % v["err"]) if v["err"] else "")})
    drift = ["case %s: %s" % (cid, json.dumps(d)[:300]) for cid, d in jd]
    # Without the mirror cases (probed on the real Overlaps) the session model has a known counterexample:
    # a cached slice that includes the next slice's first sample, collected after that slice (finding F13).
    # It needs a cache hit to arrive after a server response, which the harness cannot force.
    f13_lead = bool(leads) and not mirror and all(x.startswith("session:") for x in leads)
    if leads and not viols and not f13_lead and cases_override is None:
        raise MachineryError("model-level counterexample (%s) not reproduced on the real code: spec bug" % leads)
    ids = {r["id"] for r in trace if r["ev"] == "Query"}
    if len(ids) != len(cases):
        raise MachineryError("EXEC recorded %d of %d cases" % (len(ids), len(cases)))
    nq = sum(len(c["queries"]) for c in cases)
    multi = sum(1 for c in cases for q in c["queries"] if len(q["slices"]) > 1)
    sess = sum(1 for c in cases if len(c["queries"]) > 1)
    hits = sum(1 for c in cases for q in c["queries"] if len(q["miss"]) < len(q["slices"]))
    perms = {(c["step"], q["start"], q["end"], tuple(q["order"])) for c in cases for q in c["queries"] if len(q["order"]) > 1}
    nt = [c for c in cases if nontrivial(c)]
    sample_i = len(cases) // 3
    cov = {
        "states": sum(m["distinct"] or 0 for m in mcs),
        "transitions": sum(m["generated"] or 0 for m in mcs),
        "model_level_leads": leads,
        "model_level_lead_is_finding_F13": f13_lead,
        "traces_validated_against_impl": len(cases),
        "samples": [{"case": cases[sample_i], "trace": [r for r in trace if r.get("id") == sample_i + 1][:8]}] if cases else [],
        "evaluations": nq,
        "distinct_nontrivial": len({json.dumps(c, sort_keys=True) for c in nt}),
        "rule": "cases are distinct sessions (step, presence cells per series, 1-2 queries with window and arrival order) generated "
                "by TLC (BFS samples + simulation); evaluations = range queries run on the real client; non-trivial = some query "
                "has >= 2 slices and a series present on both sides of one of its slice boundaries (a cross-slice merge is needed)",
        "exhaustive": False,
        "mc_exhaustive_in_bounds": True,
        "model_variant_mirror_cases": mirror,
        "queries_multi_slice": multi,
        "sessions_with_followup": sess,
        "queries_with_cache_hits": hits,
        "distinct_window_order_pairs": len(perms),
        "trace_records": len(trace),
        "respond_events": sum(1 for r in trace if r["ev"] == "Respond"),
    }
    cov.update(gstats)
    return vlib.conclude(ctx, viols, "model_checking", cov, [
        "TLC model-checks Inv_C13 on the impl-shaped RangeSlice model exhaustively within the bounds of the MC configurations "
        "(steps 40m..2h, windows <= %s, every presence pattern, every arrival permutation / every lattice alignment, "
        "follow-up queries through the cache)" % ("6h" if thorough else "5h"),
        "the verdict is computed by TLC from recorded outputs of the real promapi.FailoverGroup.RangeQuery only (Doc-side operators "
        "UnslicedOf / GapIffAbsent over the recorded window); every recorded step is also validated against the model (binding)",
        "server = harness/promfake presence model: a series has a sample at evaluation time t iff t's cell is present; "
        "time is whole seconds; base instant aligned to the slice size; server data does not change during a session",
        "arrival order is enforced by holding responses; between releases the harness waits for the client's in-flight gauge "
        "to drop (best effort; cache hits cannot be held) - the verdict never depends on the order actually reached",
        "follow-up queries are >= 1 step later than the first (the cache key of the moving last slice rounds its end to the step: "
        "reuse within half a step is staleness by design, on which C13 is silent)",
        "steps > 4h make the slice size 0 and are outside the vocabulary (RangeQuery does not terminate there; reported separately)",
    ], drift=drift)


def replay(ctx, path):
    """Re-run one recorded case for its verdict line. A replay is not a tier run: it writes no evidence (the counts of a
    one-case run would not describe an exploration, and the evidence file keeps describing the last quick/thorough run)."""
    v = json.load(open(path))
    os.environ["VERIF_NO_EVIDENCE"] = "1"
    return run(ctx, cases_override=[v["case"]])
