"""C13 - slicing a range query is invisible in its result (spec: RangeSlice / RangeSliceTrace).

MC    TLC checks Inv_C13 / Inv_Grid / Inv_Shape on the impl-shaped model, exhaustively in bounds:
      (orders) every arrival permutation x every presence pattern; (align) every lattice alignment of
      start and end x every presence pattern, in-order and reversed arrival; (two) two series;
      (session) a follow-up query through the query cache.
GEN   the same state machine emits finished sessions as cases: BFS (small bounds, sampled by seed)
      and simulation (wide vocabulary: 5 m .. 4 h steps, half-step presence cells, 2 series, <= 7 slices,
      follow-up queries).
EXEC  real promapi.FailoverGroup.RangeQuery (client + query cache as pint builds them) against
      harness/promfake (presence mode, responses released in the case's arrival order).
JUDGE RangeSliceTrace: verdict = returned ranges equal ONE unsliced evaluation of the recorded window.
"""
import json
import os
import random
import re
import shutil
import subprocess

import vlib
from vlib import prints, write_ndjson, read_ndjson, MachineryError, NCPU, log

CFG = """SPECIFICATION %(spec)s
CONSTANTS
  Steps = {%(steps)s}
  NSeries = %(ns)d
  CellDiv = %(celldiv)d
  MaxWin = %(maxwin)d
  MaxSlices = %(maxslices)d
  MaxCells = %(maxcells)d
  StartMode = "%(startmode)s"
  Quantum = "%(quantum)s"
  OrderMode = "%(order)s"
  PresMode = "%(presmode)s"
  RunLens = {%(runlens)s}
  Deltas = {%(deltas)s}
  Mirror = %(mirror)s
  StepGuard = %(guard)s
  Skews = {%(skews)s}
%(inv)s
%(view)s
CHECK_DEADLOCK FALSE
"""

STEPS_MC = [2400, 2700, 3000, 3600, 4200, 6000, 7200]          # 40m 45m 50m 60m 70m 100m 2h
STEPS_SIM = [300, 420, 780, 1200, 2400, 2700, 3000, 3600, 4200, 4800, 5400, 6000, 7200, 14400]
INV = "Inv_C13 Inv_Grid Inv_Shape"


def tlc_workers():
    return int(os.environ.get("VERIF_TLC_WORKERS") or min(NCPU, 16))


HEAP = os.environ.get("VERIF_TLC_HEAP") or "3g"
GUARD = {"on": False}     # RangeQuery keeps the slice size >= step (probed on the real code by probe_bigstep)
STEPS_BIG = [18000, 21600]                                       # 5h 6h: only with the guard


def cfg(mirror, **kw):
    d = dict(spec="Spec", steps=STEPS_MC, ns=1, celldiv=1, maxwin=18000, maxslices=4, maxcells=10, startmode="few",
             quantum="step", order="all", presmode="subset", runlens=[1], deltas=[], skews=[0], inv=INV, view="VIEW MCView")
    d.update(kw)
    d["steps"] = ", ".join(str(s) for s in d["steps"])
    d["deltas"] = ", ".join(str(s) for s in d["deltas"])
    d["runlens"] = ", ".join(str(s) for s in d["runlens"])
    d["skews"] = ", ".join(str(s) for s in d["skews"])
    d["guard"] = "TRUE" if GUARD["on"] else "FALSE"
    d["mirror"] = "TRUE" if mirror else "FALSE"
    d["inv"] = ("INVARIANTS " + d["inv"]) if d["inv"] else ""
    return CFG % d


def bigstep_cfg(mirror, **kw):
    """steps above 4h (one evaluation point per slice); only meaningful when the tree has the slice-size guard"""
    return cfg(mirror, steps=STEPS_BIG, maxwin=86400, maxslices=4, maxcells=5, quantum="slice", skews=[0, 1], **kw)


def mc_configs(thorough, mirror):
    big = [("bigstep", bigstep_cfg(mirror))] if GUARD["on"] else []
    if thorough:
        return big + [
            ("orders", cfg(mirror, maxwin=21600, maxslices=5, maxcells=10)),
            ("align", cfg(mirror, maxwin=18000, maxslices=4, maxcells=9, startmode="lattice", quantum="half", order="fwdrev",
                          skews=[0, 1])),
            ("two", cfg(mirror, steps=[3000, 3600, 6000, 7200], ns=2, maxwin=14400, maxslices=4, maxcells=5)),
            ("halfcell", cfg(mirror, steps=[3000, 3600, 7200], celldiv=2, maxwin=10800, maxslices=3, maxcells=10,
                             startmode="lattice", quantum="half", order="fwdrev")),
            ("session", cfg(mirror, steps=[2400, 3000, 3600, 7200], maxwin=10800, maxslices=4, maxcells=8, deltas=[0, 2, 3, 4, 6])),
        ]
    return big + [
        ("orders", cfg(mirror, maxwin=18000, maxslices=4, maxcells=9)),
        ("align", cfg(mirror, maxwin=14400, maxslices=4, maxcells=7, startmode="lattice", quantum="half", order="fwdrev",
                      skews=[0, 1])),
        ("two", cfg(mirror, steps=[3600, 6000], ns=2, maxwin=10800, maxslices=3, maxcells=5)),
        ("session", cfg(mirror, steps=[2400, 3000], maxwin=10800, maxslices=3, maxcells=7, deltas=[0, 2, 3, 4])),
    ]


def sig_of(c):
    """normalised abstract case: the whole session up to the violating query"""
    pres = ";".join(",".join(str(x) for x in sorted(p)) for p in c["pres"])
    qs = "|".join("%s-%s%s/%s" % (q["start"], q["end"],
                                  ("~%d" % (q["end"] - q["start"] - q["dur"])) if q.get("dur", q["end"] - q["start"]) != q["end"] - q["start"] else "",
                                  ",".join(str(k) for k in q["order"])) for q in c["queries"])
    return "C13:step=%s:unit=%s:pres=%s:queries=%s" % (c["step"], c["unit"], pres, qs)


def nontrivial(c):
    """>= 2 slices in some query and a series present on both sides of one of its slice boundaries"""
    u = c["unit"]
    for q in c["queries"]:
        for b in [s["s"] for s in q["slices"][1:]]:
            for p in c["pres"]:
                cells = set(p)
                if (b // u) in cells and ((b - c["step"]) // u) in cells:
                    return True
    return False


def build_harness(ctx):
    """Build vh with the extra tag h3 when the tree carries hook H3 (internal/promapi/hooks_verif.go): exec-c13 then
    enforces arrival orders exactly at the client's "got" gate. Without the hook the plain build is used (best effort)."""
    if not os.path.exists(os.path.join(ctx.repo, "internal", "promapi", "hooks_verif.go")):
        ctx.build_vh()
        return False
    src = ctx.mkdir("harness-src")
    if not os.path.exists(os.path.join(src, "go.mod")):
        shutil.rmtree(src)
        shutil.copytree(vlib.HARNESS_DIR, src, ignore=shutil.ignore_patterns("bin", "*.test"))
        with open(os.path.join(src, "go.mod")) as f:
            gm = f.read()
        gm = re.sub(r"(replace github.com/cloudflare/pint => ).*", r"\1" + ctx.repo, gm)
        with open(os.path.join(src, "go.mod"), "w") as f:
            f.write(gm)
        shutil.copy(os.path.join(ctx.repo, "go.sum"), os.path.join(src, "go.sum"))
    out = ctx.path("bin", "vh")
    r = subprocess.run(["go", "build", "-tags", "verif h3", "-o", out, "./cmd/vh"], cwd=src, env=vlib.go_env(),
                       capture_output=True, text=True)
    if r.returncode != 0:
        raise MachineryError("harness build (tags verif h3) failed:\n" + r.stdout + r.stderr)
    ctx._vh[False] = out          # ctx.vh() picks the binary up from the build cache of the context
    return True


def probe_mirror(ctx):
    """ask the real promapi.Overlaps which variant of the model applies to this tree"""
    p = ctx.path("c13_probe_in.ndjson")
    open(p, "w").close()
    t = ctx.path("c13_probe_out.ndjson")
    ctx.vh("exec-c13", p, t)
    recs = [r for r in read_ndjson(t) if r["ev"] == "Probe"]
    if not recs:
        raise MachineryError("exec-c13 wrote no Probe record")
    return bool(recs[0]["mirror"]), bool(recs[0].get("gate"))


def probe_bigstep(ctx):
    """Does the real RangeQuery return for a step above 4h (slice-size guard present)? Without the guard it loops
    forever and eats memory, so the probe runs in a child process under an address-space limit and a timeout."""
    import resource
    exe = ctx.build_vh()
    outp = ctx.path("c13_bigstep.ndjson")

    def limit():
        resource.setrlimit(resource.RLIMIT_AS, (3 << 30, 3 << 30))
    try:
        r = subprocess.run([exe, "probe-c13-bigstep", "-out", outp], env=vlib.go_env(), cwd=ctx.scratch, preexec_fn=limit,
                           stdout=subprocess.DEVNULL, stderr=subprocess.DEVNULL, timeout=60)
    except subprocess.TimeoutExpired:
        return False
    return r.returncode == 0 and os.path.exists(outp) and any(x.get("returned") for x in read_ndjson(outp))


def generate(ctx, mirror):
    thorough = ctx.thorough
    rnd = random.Random(ctx.seed)
    cases, seen = [], set()

    def add(cs):
        for c in cs:
            k = json.dumps(c, sort_keys=True)
            if k not in seen:
                seen.add(k)
                cases.append(c)

    def sample(xs, n):
        xs.sort(key=lambda c: json.dumps(c, sort_keys=True))
        return xs if len(xs) <= n else rnd.sample(xs, n)

    w = tlc_workers()
    # BFS: every behaviour inside small bounds, sampled down to the budget by seed
    bfs = ctx.tlc("RangeSlice", "c13_gen_bfs.cfg", tag="gen-bfs", timeout=3000, workers=w, heap=HEAP, files={
        "c13_gen_bfs.cfg": cfg(mirror, maxwin=18000 if thorough else 14400, maxslices=4 if thorough else 3,
                               maxcells=10 if thorough else 7, inv="EmitCase", view="")})
    all_bfs = [v[0] for v in prints(bfs, "CASE")]
    add(sample(all_bfs, 60000 if thorough else 2000))
    # BFS: sessions with a follow-up query through the cache; ends on / next to slice boundaries only
    # (quantum "slice"), where a cached last slice and the slices of the follow-up query interact
    bfs2 = ctx.tlc("RangeSlice", "c13_gen_sess.cfg", tag="gen-sess", timeout=3000, workers=w, heap=HEAP, files={
        "c13_gen_sess.cfg": cfg(mirror, steps=[2400, 3000, 3600] if thorough else [2400, 3000],
                                maxwin=10800, maxslices=3, maxcells=7,
                                quantum="slice", order="all" if thorough else "fwdrev",
                                deltas=[0, 2, 3, 4, 6] if thorough else [0, 2, 3, 4], skews=[0, 1], inv="EmitCase", view="")})
    all_sess = [v[0] for v in prints(bfs2, "CASE") if len(v[0]["queries"]) > 1]
    add(sample(all_sess, 30000 if thorough else 3000))
    # BFS: two series, one sample per slice, every arrival order (the merge fix-point runs per series)
    bfs3 = ctx.tlc("RangeSlice", "c13_gen_two.cfg", tag="gen-two", timeout=3000, workers=w, heap=HEAP, files={
        "c13_gen_two.cfg": cfg(mirror, steps=[7200], ns=2, maxwin=21600, maxslices=4, maxcells=5 if thorough else 4,
                               quantum="slice", inv="EmitCase", view="")})
    all_two = [v[0] for v in prints(bfs3, "CASE")]
    add(sample(all_two, 20000 if thorough else 1200))
    n_big = 0
    if GUARD["on"]:
        bfs4 = ctx.tlc("RangeSlice", "c13_gen_big.cfg", tag="gen-bigstep", timeout=3000, workers=w, heap=HEAP, files={
            "c13_gen_big.cfg": bigstep_cfg(mirror, inv="EmitCase", view="")})
        all_big = [v[0] for v in prints(bfs4, "CASE")]
        n_big = len(all_big)
        add(sample(all_big, 10000 if thorough else 600))
    # simulation: wide vocabulary
    per_worker = max(1, (20000 if thorough else 1600) // w)
    sim = ctx.tlc("RangeSlice", "c13_gen_sim.cfg", tag="gen-sim", timeout=3000, simulate=per_worker, depth=400,
                  workers=w, heap=HEAP, files={
                      "c13_gen_sim.cfg": cfg(mirror, steps=STEPS_SIM + (STEPS_BIG if GUARD["on"] else []), ns=2, celldiv=2, maxwin=28800, maxslices=7,
                                             maxcells=100000, startmode="lattice", quantum="step", presmode="runs",
                                             runlens=[1, 2, 3, 5, 8, 13, 21, 34, 55], deltas=[0, 2, 3, 5, 8, 13], skews=[0, 1, 2],
                                             inv="EmitCase", view="")})
    sim_cases = [v[0] for v in prints(sim, "CASE")]
    sim_cases.sort(key=lambda c: json.dumps(c, sort_keys=True))
    add(sim_cases)
    return cases, dict(gen_bfs_total=len(all_bfs), gen_session_total=len(all_sess), gen_two_series_total=len(all_two),
                       gen_sim_total=len(sim_cases), gen_bigstep_total=n_big)


def judge(ctx, trace, mirror, chunk_cases=10000):
    """Run RangeSliceTrace over the trace in chunks of whole cases. Returns (viols, drifts)."""
    chunks, cur, n, last = [], [], 0, None
    for r in trace:
        if r["ev"] == "Query" and r["id"] != last:
            if n >= chunk_cases:
                chunks.append(cur)
                cur, n = [], 0
            n += 1
            last = r["id"]
        cur.append(r)
    if cur:
        chunks.append(cur)
    jcfg = cfg(mirror, spec="TraceSpec", steps=[], ns=3, maxwin=0, maxslices=100, maxcells=0, inv="", view="")
    viols, drifts = [], []
    for i, ch in enumerate(chunks):
        p = write_ndjson(ctx.path("c13_trace_%d.ndjson" % i), ch)
        j = ctx.tlc("RangeSliceTrace", "c13_judge.cfg", workers=1, files={"c13_trace.ndjson": p, "c13_judge.cfg": jcfg},
                    timeout=3000, heap=HEAP, tag="judge-%d" % i)
        done = prints(j, "DONE")
        if not done or done[0][0] != len(ch):
            raise MachineryError("JUDGE consumed %s of %d trace records (chunk %d): a record no action accepts (Hang?)" % (
                (j["distinct"] or 2) - 2, len(ch), i))
        viols += prints(j, "VIOL")
        drifts += prints(j, "DRIFT")
        tr = prints(j, "TRUTH")
        if tr:
            raise MachineryError("an environment assumption of RangeSlice (E3 Go time rounding / E4 server evaluation grid) does "
                                 "not hold for the real thing: %s" % json.dumps(tr[0])[:400])
    return viols, drifts


def run(ctx, cases_override=None):
    thorough = ctx.thorough
    w = tlc_workers()
    hooked = build_harness(ctx)
    mirror, gate = probe_mirror(ctx)
    if os.environ.get("C13_NO_GATE"):
        hooked = False            # development switch: exercise the fallback on a tree that has the hook
    if hooked != gate:
        raise MachineryError("hook H3 present=%s but exec-c13 reports gate=%s" % (hooked, gate))
    GUARD["on"] = probe_bigstep(ctx)
    log("[c13] real promapi.Overlaps has the mirror cases: %s; arrival orders enforced through hook H3: %s; "
        "slice size >= step guard: %s" % (mirror, gate, GUARD["on"]))
    # ---- MC
    mcs, leads = [], []
    if cases_override is None:
        for name, text in mc_configs(thorough, mirror):
            m = ctx.tlc("RangeSlice", "c13_mc_%s.cfg" % name, tag="mc-" + name, files={"c13_mc_%s.cfg" % name: text},
                        timeout=3000, workers=w, heap=HEAP, allow_violation=True)
            mcs.append(m)
            if m["invariant_violated"]:
                leads.append("%s:%s" % (name, m["invariant_violated"]))
    # ---- GEN
    if cases_override is None:
        cases, gstats = generate(ctx, mirror)
    else:
        cases, gstats = cases_override, {}
    cpath = write_ndjson(ctx.path("c13_cases.ndjson"), cases)
    # ---- EXEC
    tpath = ctx.path("c13_trace_all.ndjson")
    ctx.vh("exec-c13", cpath, tpath, timeout=3000)
    trace = [r for r in read_ndjson(tpath) if r["ev"] != "Probe"]      # EnvProbe stays: JUDGE checks E3 / E4 on it
    # ---- JUDGE
    jv, jd = judge(ctx, trace, mirror)
    viols = []
    for cid, v in jv:
        c = dict(cases[cid - 1])
        c["queries"] = c["queries"][:v["q"]]
        viols.append({"sig": sig_of(c), "case": cases[cid - 1], "detail": v,
                      "what": "query %d of the session (step=%ss, window %s..%s, slice results collected in order %s) returned %s; "
                              "one unsliced evaluation of the same window yields %s%s" % (
                                  v["q"], v["step"], v["start"], v["end"], v["order"], json.dumps(v["got"]), json.dumps(v["want"]),
                                  (" (error: %s)" % v["err"]) if v["err"] else "")})
    drift = ["case %s: %s" % (cid, json.dumps(d)[:300]) for cid, d in jd]
    # Without the mirror cases (probed on the real Overlaps) the session model has a known counterexample:
    # a cached slice that includes the next slice's first sample, collected after that slice (finding F13).
    # It needs a cache hit to arrive after a server response, which the harness cannot force.
    f13_lead = bool(leads) and not mirror and all(x.startswith("session:") for x in leads)
    if leads and not viols and not f13_lead and cases_override is None:
        raise MachineryError("model-level counterexample (%s) not reproduced on the real code: spec bug" % leads)
    ids = {r["id"] for r in trace if r["ev"] == "Query"}
    if len(ids) != len(cases):
        raise MachineryError("EXEC recorded %d of %d cases" % (len(ids), len(cases)))
    nq = sum(len(c["queries"]) for c in cases)
    multi = sum(1 for c in cases for q in c["queries"] if len(q["slices"]) > 1)
    sess = sum(1 for c in cases if len(c["queries"]) > 1)
    hits = sum(1 for c in cases for q in c["queries"] if len(q["miss"]) < len(q["slices"]))
    perms = {(c["step"], q["start"], q["end"], tuple(q["order"])) for c in cases for q in c["queries"] if len(q["order"]) > 1}
    nt = [c for c in cases if nontrivial(c)]
    sample_i = len(cases) // 3
    cov = {
        "states": sum(m["distinct"] or 0 for m in mcs),
        "transitions": sum(m["generated"] or 0 for m in mcs),
        "model_level_leads": leads,
        "model_level_lead_is_finding_F13": f13_lead,
        "traces_validated_against_impl": len(cases),
        "samples": [{"case": cases[sample_i], "trace": [r for r in trace if r.get("id") == sample_i + 1][:8]}] if cases else [],
        "evaluations": nq,
        "distinct_nontrivial": len({json.dumps(c, sort_keys=True) for c in nt}),
        "rule": "cases are distinct sessions (step, presence cells per series, 1-2 queries with window and arrival order) generated "
                "by TLC (BFS samples + simulation); evaluations = range queries run on the real client; non-trivial = some query "
                "has >= 2 slices and a series present on both sides of one of its slice boundaries (a cross-slice merge is needed)",
        "exhaustive": False,
        "mc_exhaustive_in_bounds": True,
        "model_variant_mirror_cases": mirror,
        "arrival_order_exact_via_hook_h3": gate,
        "slice_size_guard_present": GUARD["on"],
        "queries_multi_slice": multi,
        "sessions_with_followup": sess,
        "queries_with_cache_hits": hits,
        "distinct_window_order_pairs": len(perms),
        "trace_records": len(trace),
        "respond_events": sum(1 for r in trace if r["ev"] == "Respond"),
    }
    cov.update(gstats)
    return vlib.conclude(ctx, viols, "model_checking", cov, [
        "TLC model-checks Inv_C13 on the impl-shaped RangeSlice model exhaustively within the bounds of the MC configurations "
        "(steps 40m..2h, windows <= %s, every presence pattern, every arrival permutation / every lattice alignment, "
        "follow-up queries through the cache)" % ("6h" if thorough else "5h"),
        "the verdict is computed by TLC from recorded outputs of the real promapi.FailoverGroup.RangeQuery only (Doc-side operators "
        "UnslicedOf / GapIffAbsent over the recorded window); every recorded step is also validated against the model (binding)",
        "server = harness/promfake presence model: a series has a sample at evaluation time t iff t's cell is present; "
        "time is whole seconds; base instant aligned to the slice size; server data does not change during a session",
        ("arrival order is exact: every slice result, cache hits included, waits at the client's \"got\" gate (hook H3, tag verif) "
         "and is let through in the order of the TLC behaviour" if gate else
         "no hook H3 in this tree: arrival order is enforced by holding responses at the server (best effort; cache hits cannot "
         "be held) - the verdict never depends on the order actually reached"),
        "follow-up queries are >= 1 step later than the first (the cache key of the moving last slice rounds its end to the step: "
        "reuse within half a step is staleness by design, on which C13 is silent)",
        ("steps above 4h (5h, 6h) are in the vocabulary: the tree keeps the slice size >= step" if GUARD["on"] else
         "steps > 4h make the slice size 0 and are outside the vocabulary (RangeQuery does not terminate there; "
         "fixes/C13-slice-size-at-least-step.patch)"),
        "RangeQueryTimes: Dur() = End() - Start() - skew with skew in {0,1,2} s (absolute and now-based windows); Go's "
        "Time.Round / Duration.Round and the engine's evaluation grid are probed in every run and checked by JUDGE (E3, E4)",
    ], drift=drift)


def replay(ctx, path):
    """Re-run one recorded case for its verdict line. A replay is not a tier run: it writes no evidence (the counts of a
    one-case run would not describe an exploration, and the evidence file keeps describing the last quick/thorough run)."""
    v = json.load(open(path))
    os.environ["VERIF_NO_EVIDENCE"] = "1"
    return run(ctx, cases_override=[v["case"]])
