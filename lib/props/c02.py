"""C02 - linting any input terminates with a renderable verdict, never a crash (spec: Pipeline / PipelineTrace).

This check is EXPLORATION with a TLA+ trace oracle (not model checking of pint): inputs are the concretised
StrictSchema documents (TLC-generated), the repository's YAML fixtures and seeded byte/line/token mutations of both;
every input is linted by the real pipeline (in-process under recover: strict/relaxed, Prometheus/Thanos schema,
default and "every configurable offline check" configuration) and rendered by the real reporters; a slice goes
through the real binary. TLC replays the recorded stage events through the Pipeline machine and evaluates the
promises (entries valid xor erroneous, error entries get the error check only, every line inside the file, every
format rendered, no Crash/Hang).
"""
import base64
import json
import re

import vlib
from vlib import prints, write_ndjson, read_ndjson, MachineryError
from props import schema_corpus
from props import c01 as c01mod

MC_CFG = """SPECIFICATION Spec
CONSTANTS
  MaxLines = %d
  MaxEntries = %d
INVARIANTS Inv_Entries Inv_Dispatch Inv_Lines Inv_Reported Inv_Rendered Inv_Order
CHECK_DEADLOCK FALSE
"""

GEN_CFG = """SPECIFICATION Spec
CONSTANTS
  MaxDev = %d
  NamesSet = {"utf8"}
  CoreOnly = FALSE
  Gaps = {}
INVARIANTS EmitCase
CHECK_DEADLOCK FALSE
"""

# hand-written seeds: valid documents using syntax the fixtures and the StrictSchema vocabulary do not reach
SEED_DOCS = [
    ("seed:utf8-quoted-label-regexp", 'groups:\n- name: g\n  rules:\n  - record: foo\n    expr: sum(up{"foo(bar"=~"a"})\n'),
    ("seed:utf8-quoted-names", 'groups:\n- name: g\n  rules:\n  - alert: "my alert"\n    expr: \'{"my.metric", "a b"="c"} > 0\'\n    labels:\n      "a.b": c\n'),
    ("seed:anchors", 'groups:\n- name: g\n  rules:\n  - &r\n    alert: A\n    expr: up == 0\n    labels: &l\n      team: a\n  - <<: *r\n    alert: B\n    annotations: *l\n'),
    ("seed:group-labels-only", 'groups:\n- name: g\n  labels:\n    team: a\n  rules:\n  - record: foo\n    expr: up\n  - alert: A\n    expr: up == 0\n'),
    ("seed:block-scalars", 'groups:\n- name: g\n  rules:\n  - alert: A\n    expr: |\n      up\n        == 0\n    annotations:\n      summary: >-\n        {{ $labels.job }}\n        is down\n'),
]

JUDGE_CHUNK = 60000
NVAR = 4          # variants per input (harness: c02Variants)


def sig_of(v):
    """Signature of a violation: which promise, parser mode, normalised detail class, byte-level traits of the input."""
    what, variant, d, feat = v["what"], v.get("variant", ""), v.get("detail"), v.get("feat", "")
    mode = "strict" if variant.startswith("strict") else "relaxed"
    if what in ("crash", "hang"):
        return "C02:%s:%s:%s:%s" % (what, d.get("stage", ""), d.get("sig", ""), feat)
    if what in ("bin-crash", "bin-hang"):
        return "C02:%s:exit=%s:%s:%s" % (what, d.get("exit"), d.get("sig", ""), feat)
    if what == "lines":
        cls = set()
        for r in d:
            n = r["n"]
            allv = [r["first"], r["last"]] + list(r["dlines"])
            if min(allv) < 1:
                cls.add("%s=below-1" % r["reporter"])
            if max(allv) > n:
                cls.add("%s=beyond-end" % r["reporter"])
            if r["first"] > r["last"]:
                cls.add("%s=first>last" % r["reporter"])
        return "C02:lines:%s:%s:%s" % (mode, ",".join(sorted(cls)), feat)
    if what == "entry":
        return "C02:entry:%s:%s:%s" % (mode, ",".join(sorted(d)), feat)
    if what == "dispatch":
        return "C02:dispatch:%s:%s:%s" % (mode, ",".join(sorted({x["entry"] for x in d})), feat)
    if what == "render":
        return "C02:render:%s:%s" % (",".join(sorted({x["fmt"] for x in d})), feat)
    return "C02:%s:%s:%s" % (what, mode, feat)


def judge(ctx, trace, tag):
    viol, drift = [], []
    # chunks are cut at Read boundaries so that every run is judged whole
    start = 0
    n = len(trace)
    while start < n:
        end = min(n, start + JUDGE_CHUNK)
        while end < n and trace[end]["ev"] not in ("Read", "Bin"):
            end += 1
        chunk = trace[start:end]
        tpath = write_ndjson(ctx.path("c02_trace_%s_%d.ndjson" % (tag, start)), chunk)
        j = ctx.tlc("PipelineTrace", "PipelineTrace.cfg", workers=1, timeout=3000, heap="8g", tag="judge-%s-%d" % (tag, start),
                    files={"c02_trace.ndjson": tpath})
        done = prints(j, "DONE")
        if not done or done[0][0] != len(chunk):
            raise MachineryError("JUDGE consumed %s of %d trace records (%s)" % (done[0][0] if done else "?", len(chunk), tag))
        viol += prints(j, "VIOL")
        drift += prints(j, "DRIFT")
        start = end
    return viol, drift


def gen_docs(ctx, maxdev):
    gen = ctx.tlc("StrictSchema", "c02_gen.cfg", timeout=1800, tag="gen-docs", files={"c02_gen.cfg": GEN_CFG % maxdev})
    cases = [v[0] for v in prints(gen, "CASE")]
    if len(cases) != gen["distinct"]:
        raise MachineryError("GEN emitted %d cases for %d states" % (len(cases), gen["distinct"]))
    cases.sort(key=lambda c: json.dumps(c, sort_keys=True))
    return cases


def run(ctx, replay_case=None):
    thorough = ctx.thorough
    viols = []
    if replay_case is not None:
        bases = [{"name": "replay", "yaml_b64": replay_case["yaml_b64"]}]
        ninputs, nbin = 1, 1
        mc = None
    else:
        # ---- MC: shape of the Pipeline machine (small; the module is mainly a trace specification)
        mc = ctx.tlc("Pipeline", "c02_mc.cfg", timeout=1800, tag="mc-shape",
                     files={"c02_mc.cfg": MC_CFG % ((3, 2) if thorough else (2, 2))})
        if mc["invariant_violated"]:
            raise MachineryError("Pipeline machine violates its own promises: %s" % mc["invariant_violated"])
        # ---- GEN: structure-aware documents from StrictSchema (rendered by the harness)
        docs = gen_docs(ctx, 2 if thorough else 1)
        if thorough:
            docs = [d for i, d in enumerate(docs) if len(c01mod.devs_of(d)) <= 1 or i % 9 == ctx.seed % 9]
        dpath = write_ndjson(ctx.path("c02_docs.ndjson"), docs)
        rpath = ctx.path("c02_rendered.ndjson")
        ctx.vh("exec-c02-render", dpath, rpath)
        bases = read_ndjson(rpath)
        ndocs = len(bases)
        fixtures = schema_corpus.collect(ctx.repo)
        for name, b in fixtures:
            bases.append({"name": name, "yaml_b64": base64.b64encode(b).decode()})
        for name, text in SEED_DOCS:
            bases.append({"name": name, "yaml_b64": base64.b64encode(text.encode()).decode()})
        ninputs = len(bases) + (200000 if thorough else 5000)
        nbin = 5000 if thorough else 400
    bpath = write_ndjson(ctx.path("c02_bases.ndjson"), bases)
    # ---- EXEC in-process
    tpath, spath = ctx.path("c02_exec.ndjson"), ctx.path("c02_side.ndjson")
    ctx.vh("exec-c02", bpath, tpath, ninputs, spath, timeout=3300)
    trace = read_ndjson(tpath)
    reads = [r for r in trace if r["ev"] == "Read"]
    if len(reads) != ninputs * NVAR:
        raise MachineryError("EXEC ran %d of %d (input, variant) pairs" % (len(reads), ninputs * NVAR))
    herr = [r for r in trace if r["ev"] == "HarnessError"]
    if herr:
        raise MachineryError("harness error: %s" % herr[0]["msg"])
    side = {r["input"]: r["yaml_b64"] for r in read_ndjson(spath)}
    # ---- EXEC binary slice
    pint = ctx.build_pint()
    btpath = ctx.path("c02_bin.ndjson")
    stride = max(1, ninputs // nbin)
    ctx.vh("exec-c02-bin", bpath, btpath, min(nbin, ninputs), pint, stride, timeout=3300)
    btrace = read_ndjson(btpath)
    # ---- JUDGE
    v, dr = judge(ctx, trace, "lint")
    vb, _ = judge(ctx, btrace, "bin")
    input_of = {}
    for r in reads:
        input_of[r["id"]] = ((r["id"] - 1) // NVAR, r["input"], r["v"])
    # the bytes of an input are re-derived deterministically for replay: (bases, index, seed) -> exec-c02-input
    need = sorted({input_of[cid][0] for cid, _ in v if (input_of[cid][0] not in side)})
    if need:
        ipath = ctx.path("c02_need.ndjson")
        ctx.vh("exec-c02-input", bpath, ipath, *need)
        for r in read_ndjson(ipath):
            side[r["input"]] = r["yaml_b64"]
    for cid, d in v:
        ino, iname, variant = input_of[cid]
        b64 = side.get(ino, "")
        viols.append({"sig": sig_of(d), "what": "%s in %s on input %s: %s" % (d["what"], variant, iname, json.dumps(d["detail"])[:300]),
                      "yaml_b64": b64, "yaml": base64.b64decode(b64).decode("utf-8", "replace")[:4000], "variant": variant})
    for cid, d in vb:
        rec = btrace[cid - 1]
        viols.append({"sig": sig_of(d), "what": "pint binary %s (exit %s) on input %s: %s" % (d["what"], rec["exit"], rec["input"], rec["msg"][:300]),
                      "yaml_b64": rec["yaml_b64"], "yaml": base64.b64decode(rec["yaml_b64"]).decode("utf-8", "replace")[:4000],
                      "variant": "binary-" + ("relaxed" if rec["relaxed"] else "strict")})
    drift = ["%s" % json.dumps(d)[:300] for _, d in dr]
    if replay_case is not None:
        cov = {"evaluations": len(reads) + len(btrace), "distinct_nontrivial": 1, "rule": "replay of one stored input", "samples": trace[:5]}
        return vlib.conclude(ctx, viols, "exploration", cov, ["replay"], drift=drift)
    # ---- evidence
    def shape(i):
        evs = [r for r in trace if r.get("id") == reads[i]["id"]]
        return evs
    nentries = sum(len(r["entries"]) for r in trace if r["ev"] == "Parsed")
    nreports = sum(len(r["reports"]) for r in trace if r["ev"] == "Reported")
    distinct_outcomes = set()
    cur = None
    for r in trace:
        if r["ev"] == "Read":
            cur = [r["v"]]
        elif r["ev"] == "Parsed":
            cur.append(tuple(sorted(e["kind"] for e in r["entries"])))
        elif r["ev"] == "Reported":
            cur.append(tuple(sorted({(x["reporter"], x["sev"]) for x in r["reports"]})))
            distinct_outcomes.add(tuple(cur))
    ops_seen = sorted({o for r in reads if "|" in r["input"] for o in r["input"].split("|", 1)[1].split("+")})
    cov = {
        "evaluations": len(reads) + len(btrace),
        "distinct_nontrivial": len(distinct_outcomes),
        "rule": "one evaluation = one (input, variant) lint+render run or one binary run; inputs = rendered StrictSchema documents, "
                "repository fixtures, seeded mutations of both; distinct non-trivial = distinct (variant, entry kinds, (reporter, severity) set) "
                "outcomes among runs that produced at least the Reported stage",
        "samples": [{"input": reads[i]["input"], "events": shape(i)} for i in (0, len(reads) // 2) if i < len(reads)],
        "inputs": ninputs, "variants_per_input": NVAR,
        "structured_docs": ndocs, "fixture_docs": len(fixtures), "mutated_inputs": ninputs - len(bases),
        "binary_runs": len(btrace),
        "binary_exit_codes": sorted({r["exit"] for r in btrace}),
        "entries_seen": nentries, "reports_rendered": nreports,
        "trace_records_judged": len(trace) + len(btrace),
        "mutation_operators_seen": ops_seen,
        "pipeline_machine_states": mc["distinct"],
        "crash_events": sum(1 for r in trace if r["ev"] == "Crash"),
        "hang_events": sum(1 for r in trace if r["ev"] == "Hang"),
    }
    return vlib.conclude(ctx, viols, "exploration", cov, [
        "exploration, not model checking: no claim beyond the inputs executed; TLA+ supplies the structured inputs (StrictSchema) and the oracle (Pipeline trace machine)",
        "in-process pipeline (discovery -> GetChecksForEntry -> Check -> real reporters) under recover mirrors cmd/pint lint sequentially; "
        "a slice of the inputs goes through the real binary (worker goroutines, exit status) with a 10 s deadline",
        "a line is 'inside the file' when it is <= the larger of the LF line count and the YAML line-break count",
        "online checks are off (--offline); configuration 'full' enables aggregate, annotation, label, for, keep_firing_for, reject, name, report",
    ], drift=drift)


def replay(ctx, path):
    return run(ctx, replay_case=json.load(open(path)))
