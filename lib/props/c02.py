"""C02 - linting any input terminates with a renderable verdict, never a crash (spec: Pipeline / PipelineTrace).

This check is EXPLORATION with a TLA+ trace oracle (not model checking of pint): inputs are the concretised
StrictSchema documents (TLC-generated), the repository's YAML fixtures and seeded byte/line/token mutations of both;
every input is linted by the real pipeline (in-process under recover: strict/relaxed, Prometheus/Thanos schema,
default and "every configurable offline check" configuration) and rendered by the real reporters; a slice goes
through the real binary. TLC replays the recorded stage events through the Pipeline machine and evaluates the
promises (entries valid xor erroneous, error entries get the error check only, every line inside the file, every
format rendered, no Crash/Hang).
"""
import base64
import json
import os
import re

import vlib
from vlib import prints, write_ndjson, read_ndjson, MachineryError
from props import schema_corpus
from props import c01 as c01mod

MC_CFG = """SPECIFICATION Spec
CONSTANTS
  MaxLines = %d
  MaxEntries = %d
INVARIANTS Inv_Entries Inv_Dispatch Inv_Lines Inv_Reported Inv_Rendered Inv_Order
CHECK_DEADLOCK FALSE
"""

GEN_CFG = """SPECIFICATION Spec
CONSTANTS
  MaxDev = %d
  NamesSet = {"utf8"}
  SchemaSet = {"prometheus"}
  CoreOnly = FALSE
  Gaps = {}
INVARIANTS EmitCase
CHECK_DEADLOCK FALSE
"""

# hand-written seeds: valid documents using syntax the fixtures and the StrictSchema vocabulary do not reach
SEED_DOCS = [
    ("seed:utf8-quoted-label-regexp", 'groups:\n- name: g\n  rules:\n  - record: foo\n    expr: sum(up{"foo(bar"=~"a"})\n'),
    ("seed:utf8-quoted-names", 'groups:\n- name: g\n  rules:\n  - alert: "my alert"\n    expr: \'{"my.metric", "a b"="c"} > 0\'\n    labels:\n      "a.b": c\n'),
    ("seed:anchors", 'groups:\n- name: g\n  rules:\n  - &r\n    alert: A\n    expr: up == 0\n    labels: &l\n      team: a\n  - <<: *r\n    alert: B\n    annotations: *l\n'),
    ("seed:group-labels-only", 'groups:\n- name: g\n  labels:\n    team: a\n  rules:\n  - record: foo\n    expr: up\n  - alert: A\n    expr: up == 0\n'),
    ("seed:escaped-newlines-on-last-line", '- record: foo\n  expr: "up\\n\\n"'),
    ("seed:escaped-newlines-on-last-line-nl", 'groups:\n- name: g\n  rules:\n  - alert: A\n    expr: up == 0\n    annotations:\n      summary: "a\\n\\nb\\n"\n'),
    ("seed:merge-after-own-keys", 'groups:\n- name: g\n  rules:\n  - &defaults\n    alert: A\n    expr: up == 0\n    for: 5m\n    labels:\n      team: a\n  - alert: B\n    expr: up == 1\n    <<: *defaults\n'),
    ("seed:merge-after-own-keys-relaxed", 'defaults: &defaults\n  for: 5m\n  labels:\n    team: a\n\nrules:\n- alert: B\n  expr: up == 1\n  <<: *defaults\n'),
    ("seed:block-scalar-short-blank-lines", 'groups:\n- name: g\n  rules:\n  - alert: A\n    expr: |\n      up\n \n      == 0\n    annotations:\n      summary: |\n        line one\n  \n        line two\n\n'),
    ("seed:values-file-trailing-quoted-scalar", '# values file\nrules:\n- alert: TargetDown\n  expr: up\ndescription: "line one\\nline two\\nline three"\n'),
    ("seed:configmap-yaml-in-yaml", 'kind: ConfigMap\ndata:\n  rules.yml: |\n    groups:\n    - name: g\n      rules:\n      - alert: A\n        expr: up == 0\n        for: 1x\n  other: "a\\n\\nb"'),
    ("seed:paren-string-arguments", 'groups:\n- name: g\n  rules:\n  - record: a\n    expr: count_values(("x"), up)\n  - record: b\n    expr: label_join(up, ("foo"), "", "a")\n  - record: c\n    expr: label_replace(up, ("foo"), "x", "a", "(.*)")\n'),
    ("seed:group-label-template-above-rules", 'groups:\n- name: g\n  labels:\n    tier: "{{ $value }}"\n    team: "{{ $nope }}"\n  rules:\n  - alert: A\n    expr: up == 0\n  - record: foo\n    expr: up\n'),
    ("seed:group-label-template-below-rules", 'groups:\n- name: g\n  rules:\n  - alert: A\n    expr: up == 0\n  labels:\n    tier: "{{ $value }}"\n    team: "{{ $nope }}"\n'),
    ("seed:block-scalars", 'groups:\n- name: g\n  rules:\n  - alert: A\n    expr: |\n      up\n        == 0\n    annotations:\n      summary: >-\n        {{ $labels.job }}\n        is down\n'),
]

# inputs that only the binary may see: they kill the whole process (fatal error: stack overflow cannot be recovered in-process)
BIN_ONLY_SEEDS = [
    ("binseed:template-alias-cycle", 'groups:\n- name: g\n  rules:\n  - alert: A\n    expr: up == 0\n    annotations:\n      summary: "{{ $a := .Labels }}{{ $b := $a }}{{ $a := $b }}{{ $a.job }}"\n'),
    ("binseed:require-owner-invalid-rule", 'groups:\n- name: g\n  rules:\n  - record: foo\n    expr: up\n    for: 5m\n'),
    ("binseed:require-owner-valid-rules", 'groups:\n- name: g\n  rules:\n  - record: foo\n    expr: up\n  - alert: A\n    expr: up == 0\n'),
    ("binseed:recursive-anchor", 'x: &a\n  - *a\n'),
    ("binseed:recursive-anchor-in-rules", 'groups:\n- name: g\n  rules: &r\n  - alert: A\n    expr: up == 0\n    labels: &l\n      team: *l\n  - *r\n'),
    ("binseed:owner-comments", '# pint file/owner team-a\ngroups:\n- name: g\n  rules:\n  # pint rule/owner team-b\n  - record: foo\n    expr: up\n  - alert: "quote\'s"\n    expr: up == 0\n    for: 1x\n'),
]

JUDGE_CHUNK = 60000
NVAR = 4          # variants per input (harness: c02Variants)


def sig_of(v):
    """Signature of a violation: which promise, parser mode, normalised detail class, byte-level traits of the input."""
    what, variant, d, feat = v["what"], v.get("variant", ""), v.get("detail"), v.get("feat", "")
    mode = "strict" if variant.startswith("strict") else "relaxed"
    if what in ("crash", "hang"):
        return "C02:%s:%s:%s:%s" % (what, d.get("stage", ""), d.get("sig", ""), feat)
    if what in ("bin-crash", "bin-hang"):
        return "C02:%s:exit=%s:%s:%s" % (what, d.get("exit"), d.get("sig", ""), feat)
    if what == "bin-output":
        bad = [k for k in ("json", "checkstyle") if d[k]["written"] and not d[k]["wf"]] + (["teamcity"] if d["teamcity"]["used"] and not d["teamcity"]["wf"] else [])
        return "C02:bin-output:%s:%s:%s" % (",".join(bad), d.get("flags", ""), feat)
    if what == "lines":
        cls = set()
        for r in d:
            n = r["n"]
            allv = [r["first"], r["last"]] + list(r["dlines"])
            if min(allv) < 1:
                cls.add("%s=below-1" % r["reporter"])
            if max(allv) > n:
                cls.add("%s=beyond-end" % r["reporter"])
            if r["first"] > r["last"]:
                cls.add("%s=first>last" % r["reporter"])
        return "C02:lines:%s:%s:%s" % (mode, ",".join(sorted(cls)), feat)
    if what == "entry":
        return "C02:entry:%s:%s:%s" % (mode, ",".join(sorted(d)), feat)
    if what == "dispatch":
        return "C02:dispatch:%s:%s:%s" % (mode, ",".join(sorted({x["entry"] for x in d})), feat)
    if what == "render":
        return "C02:render:%s:%s" % (",".join(sorted({x["fmt"] for x in d})), feat)
    return "C02:%s:%s:%s" % (what, mode, feat)


def judge_file(ctx, path, tag, on_record=None):
    """Stream the recorded trace through PipelineTrace in chunks cut at Read/Bin boundaries (every run is judged whole).
    on_record(rec) is called for every record (light-weight accounting by the caller)."""
    viol, drift = [], []
    total = 0

    def flush(lines, k):
        if not lines:
            return
        tpath = ctx.path("c02_trace_%s_%d.ndjson" % (tag, k))
        with open(tpath, "w") as f:
            f.writelines(lines)
        j = ctx.tlc("PipelineTrace", "PipelineTrace.cfg", workers=1, timeout=3000, heap="8g", tag="judge-%s-%d" % (tag, k),
                    files={"c02_trace.ndjson": tpath})
        done = prints(j, "DONE")
        if not done or done[0][0] != len(lines):
            raise MachineryError("JUDGE consumed %s of %d trace records (%s)" % (done[0][0] if done else "?", len(lines), tag))
        viol.extend(prints(j, "VIOL"))
        drift.extend(prints(j, "DRIFT"))
        os.remove(tpath)

    buf, k = [], 0
    with open(path) as f:
        for line in f:
            if not line.strip():
                continue
            rec = json.loads(line)
            if on_record:
                on_record(rec)
            if len(buf) >= JUDGE_CHUNK and rec["ev"] in ("Read", "Bin"):
                flush(buf, k)
                buf, k = [], k + 1
            buf.append(line if line.endswith("\n") else line + "\n")
            total += 1
    flush(buf, k)
    return viol, drift, total


def gen_docs(ctx, maxdev):
    gen = ctx.tlc("StrictSchema", "c02_gen.cfg", timeout=1800, tag="gen-docs", files={"c02_gen.cfg": GEN_CFG % maxdev})
    cases = [v[0] for v in prints(gen, "CASE")]
    if len(cases) != gen["distinct"]:
        raise MachineryError("GEN emitted %d cases for %d states" % (len(cases), gen["distinct"]))
    cases.sort(key=lambda c: json.dumps(c, sort_keys=True))
    return cases


def run(ctx, replay_case=None):
    thorough = ctx.thorough
    viols = []
    if replay_case is not None:
        bases = [{"name": "replay", "yaml_b64": replay_case["yaml_b64"]}]
        ninputs, nbin = 1, 1
        mc = None
    else:
        # ---- MC: shape of the Pipeline machine (small; the module is mainly a trace specification)
        mc = ctx.tlc("Pipeline", "c02_mc.cfg", timeout=1800, tag="mc-shape",
                     files={"c02_mc.cfg": MC_CFG % ((3, 2) if thorough else (2, 2))})
        if mc["invariant_violated"]:
            raise MachineryError("Pipeline machine violates its own promises: %s" % mc["invariant_violated"])
        # ---- GEN: structure-aware documents from StrictSchema (rendered by the harness). The schema is not part of the bytes:
        # every document (incl. the partial_response_strategy statuses) is linted in strict+relaxed x Prometheus+Thanos variants
        docs = gen_docs(ctx, 2 if thorough else 1)
        if thorough:
            docs = [d for i, d in enumerate(docs) if len(c01mod.devs_of(d)) <= 1 or i % 9 == ctx.seed % 9]
        dpath = write_ndjson(ctx.path("c02_docs.ndjson"), docs)
        rpath = ctx.path("c02_rendered.ndjson")
        ctx.vh("exec-c02-render", dpath, rpath)
        bases = read_ndjson(rpath)
        ndocs = len(bases)
        fixtures = schema_corpus.collect(ctx.repo)
        for name, b in fixtures:
            bases.append({"name": name, "yaml_b64": base64.b64encode(b).decode()})
        for name, text in SEED_DOCS:
            bases.append({"name": name, "yaml_b64": base64.b64encode(text.encode()).decode()})
        ninputs = len(bases) + (80000 if thorough else 5000)
        nbin = 5000 if thorough else 400
    bpath = write_ndjson(ctx.path("c02_bases.ndjson"), bases)
    # ---- EXEC in-process
    tpath, spath = ctx.path("c02_exec.ndjson"), ctx.path("c02_side.ndjson")
    ctx.vh("exec-c02", bpath, tpath, ninputs, spath, timeout=3300)
    side = {r["input"]: r["yaml_b64"] for r in read_ndjson(spath)}
    # ---- EXEC binary slice
    pint = ctx.build_pint()
    btpath = ctx.path("c02_bin.ndjson")
    stride = max(1, ninputs // nbin)
    ctx.vh("exec-c02-bin", bpath, btpath, min(nbin, ninputs), pint, stride, timeout=3300)
    btrace = read_ndjson(btpath)
    if replay_case is None:
        # binary-only seeds, each under 60 flag combinations of the slice (the run index k picks the flags)
        for si, (n_, t_) in enumerate(BIN_ONLY_SEEDS):
            sbpath = write_ndjson(ctx.path("c02_binseed_%d.ndjson" % si), [{"name": n_, "yaml_b64": base64.b64encode(t_.encode()).decode()}])
            sbt = ctx.path("c02_binseed_trace_%d.ndjson" % si)
            ctx.vh("exec-c02-bin", sbpath, sbt, 60, pint, 0, 4, timeout=3300)   # 4 at a time: a crashing run may grow a 1 GB stack      # stride 0: the same input, k = 0..59 picks the flags
            more = read_ndjson(sbt)
            for r in more:
                r["id"] += len(btrace)
            btrace += more
        write_ndjson(btpath, btrace)
    # ---- JUDGE (streaming) + accounting
    st = {"reads": 0, "herr": None, "entries": 0, "reports": 0, "crash": 0, "hang": 0, "cur": None, "ops": set()}
    input_of, outcomes = {}, set()
    sample_ids, sample_events = {1, 2 * ninputs + 1}, {}

    def account(r):
        ev = r["ev"]
        if ev == "Read":
            st["reads"] += 1
            st["cur"] = [r["v"]]
            input_of[r["id"]] = ((r["id"] - 1) // NVAR, r["input"], r["v"])
            if "|" in r["input"]:
                st["ops"].update(r["input"].split("|", 1)[1].split("+"))
        elif ev == "HarnessError":
            st["herr"] = r["msg"]
        elif ev == "Parsed":
            st["entries"] += len(r["entries"])
            st["cur"].append(tuple(sorted(e["kind"] for e in r["entries"])))
        elif ev == "Reported":
            st["reports"] += len(r["reports"])
            st["cur"].append(tuple(sorted({(x["reporter"], x["sev"]) for x in r["reports"]})))
            outcomes.add(tuple(st["cur"]))
        elif ev == "Crash":
            st["crash"] += 1
        elif ev == "Hang":
            st["hang"] += 1
        if r.get("id") in sample_ids:
            sample_events.setdefault(r["id"], []).append(r)

    v, dr, ntrace = judge_file(ctx, tpath, "lint", account)
    samples = [{"input": evs[0].get("input", ""), "events": evs} for _, evs in sorted(sample_events.items())]
    if st["reads"] != ninputs * NVAR:
        raise MachineryError("EXEC ran %d of %d (input, variant) pairs" % (st["reads"], ninputs * NVAR))
    if st["herr"]:
        raise MachineryError("harness error: %s" % st["herr"])
    vb, _, _ = judge_file(ctx, btpath, "bin")
    # the bytes of an input are re-derived deterministically for replay: (bases, index, seed) -> exec-c02-input
    need = sorted({input_of[cid][0] for cid, _ in v if (input_of[cid][0] not in side)})
    if need:
        ipath = ctx.path("c02_need.ndjson")
        for off in range(0, len(need), 2000):
            ctx.vh("exec-c02-input", bpath, ipath, *need[off:off + 2000])
            for r in read_ndjson(ipath):
                side[r["input"]] = r["yaml_b64"]
    for cid, d in v:
        ino, iname, variant = input_of[cid]
        b64 = side.get(ino, "")
        viols.append({"sig": sig_of(d), "what": "%s in %s on input %s: %s" % (d["what"], variant, iname, json.dumps(d["detail"])[:300]),
                      "yaml_b64": b64, "yaml": base64.b64decode(b64).decode("utf-8", "replace")[:4000], "variant": variant})
    for cid, d in vb:
        rec = btrace[cid - 1]
        viols.append({"sig": sig_of(d), "what": "pint binary %s (exit %s) on input %s: %s" % (d["what"], rec["exit"], rec["input"], rec["msg"][:300]),
                      "yaml_b64": rec["yaml_b64"], "yaml": base64.b64decode(rec["yaml_b64"]).decode("utf-8", "replace")[:4000],
                      "variant": "binary-" + ("relaxed" if rec["relaxed"] else "strict")})
    drift = ["%s" % json.dumps(d)[:300] for _, d in dr]
    if replay_case is not None:
        cov = {"evaluations": st["reads"] + len(btrace), "distinct_nontrivial": 1, "rule": "replay of one stored input", "samples": samples[:1]}
        return vlib.conclude(ctx, viols, "exploration", cov, ["replay"], drift=drift)
    # ---- evidence
    cov = {
        "evaluations": st["reads"] + len(btrace),
        "distinct_nontrivial": len(outcomes),
        "rule": "one evaluation = one (input, variant) lint+render run or one binary run; inputs = rendered StrictSchema documents, "
                "repository fixtures, hand-written seeds, seeded mutations of all; distinct non-trivial = distinct (variant, entry kinds, "
                "(reporter, severity) set) outcomes among runs that reached the Reported stage",
        "samples": samples,
        "inputs": ninputs, "variants_per_input": NVAR,
        "structured_docs": ndocs, "fixture_docs": len(fixtures), "mutated_inputs": ninputs - len(bases),
        "binary_runs": len(btrace),
        "binary_exit_codes": sorted({r["exit"] for r in btrace}),
        "entries_seen": st["entries"], "reports_rendered": st["reports"],
        "trace_records_judged": ntrace + len(btrace),
        "mutation_operators_seen": sorted(st["ops"]),
        "pipeline_machine_states": mc["distinct"],
        "crash_events": st["crash"],
        "hang_events": st["hang"],
    }
    return vlib.conclude(ctx, viols, "exploration", cov, ["replay"], drift=drift)
    # ---- evidence
    def shape(i):
        evs = [r for r in trace if r.get("id") == reads[i]["id"]]
        return evs
    nentries = sum(len(r["entries"]) for r in trace if r["ev"] == "Parsed")
    nreports = sum(len(r["reports"]) for r in trace if r["ev"] == "Reported")
    distinct_outcomes = set()
    cur = None
    for r in trace:
        if r["ev"] == "Read":
            cur = [r["v"]]
        elif r["ev"] == "Parsed":
            cur.append(tuple(sorted(e["kind"] for e in r["entries"])))
        elif r["ev"] == "Reported":
            cur.append(tuple(sorted({(x["reporter"], x["sev"]) for x in r["reports"]})))
            distinct_outcomes.add(tuple(cur))
    ops_seen = sorted({o for r in reads if "|" in r["input"] for o in r["input"].split("|", 1)[1].split("+")})
    cov = {
        "evaluations": len(reads) + len(btrace),
        "distinct_nontrivial": len(distinct_outcomes),
        "rule": "one evaluation = one (input, variant) lint+render run or one binary run; inputs = rendered StrictSchema documents, "
                "repository fixtures, seeded mutations of both; distinct non-trivial = distinct (variant, entry kinds, (reporter, severity) set) "
                "outcomes among runs that produced at least the Reported stage",
        "samples": [{"input": reads[i]["input"], "events": shape(i)} for i in (0, len(reads) // 2) if i < len(reads)],
        "inputs": ninputs, "variants_per_input": NVAR,
        "structured_docs": ndocs, "fixture_docs": len(fixtures), "mutated_inputs": ninputs - len(bases),
        "binary_runs": len(btrace),
        "binary_exit_codes": sorted({r["exit"] for r in btrace}),
        "entries_seen": nentries, "reports_rendered": nreports,
        "trace_records_judged": len(trace) + len(btrace),
        "mutation_operators_seen": ops_seen,
        "pipeline_machine_states": mc["distinct"],
        "crash_events": sum(1 for r in trace if r["ev"] == "Crash"),
        "hang_events": sum(1 for r in trace if r["ev"] == "Hang"),
    }
    return vlib.conclude(ctx, viols, "exploration", cov, [
        "exploration, not model checking: no claim beyond the inputs executed; TLA+ supplies the structured inputs (StrictSchema) and the oracle (Pipeline trace machine)",
        "in-process pipeline (discovery -> GetChecksForEntry -> Check -> real reporters) under recover mirrors cmd/pint lint sequentially; "
        "a slice of the inputs goes through the real binary (worker goroutines, exit status) with a 10 s deadline",
        "a line is 'inside the file' when it is <= the larger of the LF line count and the YAML line-break count",
        "online checks are off (--offline); configuration 'full' enables aggregate, annotation, label, for, keep_firing_for, reject, name, report",
    ], drift=drift)


def replay(ctx, path):
    return run(ctx, replay_case=json.load(open(path)))
