"""C20 - removing a rule that other rules depend on is reported, and only then
(spec: GitHistory / GitHistoryTrace; same repositories and the same `pint ci` runs as C03)."""
import json
import vlib
from vlib import prints, MachineryError
from props import githist as gh

C20_OPS = ["ModifyExpr", "RenameRule", "ChangeKind", "AddRule", "DeleteRule", "SwapRules", "AddFile", "DeleteFile",
           "RenameFile", "RevertLast", "WhitespaceEdit", "BreakFile", "MultiOp", "BaseAdvance", "MergeBase"]


def gen_jobs(ctx):
    th = ctx.thorough
    wide = dict(npaths=3, kinds=["rec", "alr"], names=["n1", "n2"],
                bodies=["v1", "m:n1", "m:n2", "A:n1", "S:n1", "A:n2", "m:n1+m:n2", "m:n2+A:n1", "S:n2+A:n1", "A:n2+S:n1"],
                labs=["l1"], cmts=["none"], pads=[0, 1], maxrules=3, maxfork=5, commits=3 if not th else 4, baseadv=1, merges=1,
                ops=C20_OPS, pairops=["DeleteFile", "RenameFile", "BreakFile"])
    return [
        # (1) exhaustive: one provider name, recording and alerting, every reference kind, two files
        ("c20_gen_small.cfg", gh.cfg("EmitCase", npaths=2, kinds=["rec", "alr"], names=["n1"], bodies=["v1", "m:n1", "A:n1"],
                                      labs=["l1"], maxrules=2, maxfork=2, commits=1 if not th else 2,
                                      ops=["ModifyExpr", "ChangeKind", "AddRule", "DeleteRule", "DeleteFile", "RenameFile"]),
         400 if not th else 6000, dict(workers=2 if not th else 6)),
        # (1b) exhaustive: two names, a dependant next to its provider in one file, ALERTS selectors for two alertnames
        ("c20_gen_pair.cfg", gh.cfg("EmitCase", npaths=1, kinds=["rec", "alr"], names=["n1", "n2"], bodies=["v1", "m:n1", "A:n2+A:n1"],
                                     labs=["l1"], maxrules=3, maxfork=3, commits=1,
                                     ops=["ChangeKind", "DeleteRule", "RenameRule", "SwapRules"]),
         300 if not th else 3000, dict(workers=2 if not th else 6)),
        # (1d) exhaustive: an alert whose only dependants select ALERTS_FOR_STATE
        ("c20_gen_afs.cfg", gh.cfg("EmitCase", npaths=1, kinds=["rec", "alr"], names=["n1"], bodies=["v1", "S:n1"], labs=["l1"],
                                    maxrules=2, maxfork=2, commits=1, ops=["DeleteRule", "ChangeKind", "ModifyExpr"]),
         100 if not th else 400, dict(workers=1)),
        # (1c) exhaustive: the base branch inserts rules and is merged; files left unparsable (removals suppressed: binding only)
        ("c20_gen_merge.cfg", gh.cfg("EmitCase", npaths=1 if not th else 2, kinds=["rec"], names=["n1", "n2"], bodies=["v1", "m:n1"], labs=["l1"],
                                      maxrules=2, maxfork=2, commits=2, baseadv=1, merges=1,
                                      ops=["DeleteRule", "DeleteFile", "RenameFile", "BreakFile", "BaseAdvance", "MergeBase"]),
         200 if not th else 3000, dict(workers=2 if not th else 6)),
        # (2) simulation: three files, duplicate providers, two-selector expressions, replacements
        ("c20_sim_wide.cfg", gh.cfg("EmitCase", **wide), 500 if not th else 9000,
         dict(simulate=6 if not th else 40, depth=12 if not th else 14, workers=1)),
    ]


def mc_jobs(ctx, mode):
    th = ctx.thorough
    runs = [
        ("c20_mc.cfg", dict(npaths=2, kinds=["rec", "alr"], names=["n1"], bodies=["v1", "m:n1", "A:n1"], labs=["l1"],
                            maxrules=2, maxfork=2, commits=2 if not th else 3,
                            ops=["ModifyExpr", "RenameRule", "ChangeKind", "AddRule", "DeleteRule", "DeleteFile", "RenameFile"])),
        # duplicate providers over three files: removal subsets of a fixed rule population
        ("c20_mc_dups.cfg", dict(npaths=3, kinds=["rec"], names=["n1", "n2"], bodies=["v1", "m:n1", "m:n1+m:n2"], labs=["l1"],
                                 maxrules=2, maxfork=3 if not th else 4, commits=2,
                                 ops=["DeleteRule", "DeleteFile", "RenameFile"])),
    ]
    runs.append(("c20_mc_merge.cfg", dict(npaths=1 if not th else 2, kinds=["rec"], names=["n1", "n2"], bodies=["v1", "m:n1"], labs=["l1"], maxrules=2,
                                          maxfork=2 if not th else 3, commits=2, baseadv=1, merges=1,
                                          ops=["DeleteRule", "DeleteFile", "RenameFile", "BreakFile", "BaseAdvance", "MergeBase"])))
    return [(name, gh.cfg("Inv_C20", view=True, mode=mode, **kw), 4 if not th else 6) for name, kw in runs]


def model_and_cases(ctx, mode):
    ctx._spec_copy()
    gj, mj = gen_jobs(ctx), mc_jobs(ctx, mode)
    jobs = [(lambda j=j: gh.gen(ctx, j[0], j[1], budget=j[2], **j[3])) for j in gj]
    jobs += [(lambda j=j: ctx.tlc("GitHistory", j[0], files={j[0]: j[1]}, allow_violation=True, timeout=3000,
                                  workers=j[2], heap="3g" if ctx.thorough else "1g")) for j in mj]
    res = gh.run_parallel(jobs, width=3)
    parts, stats = [], []
    for j, (cs, r) in zip(gj, res[:len(gj)]):
        parts.extend(cs)   # already de-duplicated and sub-sampled inside gh.gen (memory)
        stats.append({"cfg": j[0], "emitted": r.get("gen_emitted"), "distinct": r.get("gen_distinct"), "replayed": len(cs),
                      "states": r["distinct"], "generated": r["generated"]})
    return gh.dedupe(parts), stats, res[len(gj):]


def c20_sig(v):
    return "C20:%s:kind=%s:ndoc=%d:nobs=%d:merged=%d:misaligned=%d:impl=%s" % (
        v["what"], v["kind"], v["ndoc"], v["nobs"], int(v.get("merged", False)), int(v.get("stale", False)),
        "same" if v.get("implsame") else "diff")


def run(ctx, cases_override=None):
    mode = gh.probe_mode(ctx)
    if cases_override is None:
        cases, gstats, mc_stats = model_and_cases(ctx, mode)
    else:
        cases, gstats, mc_stats = cases_override, [], []
    if not cases:
        raise MachineryError("GEN produced no cases")
    tpath, trace = gh.execute(ctx, cases, "c20")
    out = gh.judge(ctx, tpath, trace)
    tags = {}
    for t, v in out:
        tags.setdefault(t, []).append(v)
    for bad in ("GITDRIFT", "LAYOUTDRIFT", "FAILED", "OTHER"):
        if tags.get(bad):
            cid = tags[bad][0][0]
            raise MachineryError("%s in case %s: %s\ncase: %s" % (bad, cid, json.dumps(tags[bad][0][1:])[:1500],
                                                                 json.dumps(cases[cid - 1])[:3000]))
    viols = []
    for cid, prop, v in tags.get("VIOL", []):
        if prop != "C20":
            continue
        loc = v["loc"]
        viols.append({"sig": c20_sig(v),
                      "what": "%s rule/dependency warning on the %s rule removed from %s:%d-%d (ops %s): documented dependants %s, reported %s" % (
                          v["what"], v["kind"], loc["path"], loc["first"], loc["last"], ",".join(v["ops"]),
                          json.dumps([w["deps"] for w in v["doc"]]), json.dumps([w["deps"] for w in v["observed"]])),
                      "case": cases[cid - 1], "detail": v})
    drift = ["case %s: rule/dependency problems differ from the transcription of RuleDependencyCheck (ops %s): %s" % (
        cid, ",".join(d["ops"]), json.dumps(d["observed"])[:300]) for cid, prop, d in tags.get("DRIFT", []) if prop == "C20"]
    leads = []
    if cases_override is None:
        leads = [m["invariant_violated"] for m in mc_stats if m["invariant_violated"]]
        if leads and not viols:
            raise MachineryError("model-level counterexample (%s) not reproduced on the real code: spec bug" % leads)
    nd = tags.get("NDEPS", [])
    with_warning = sum(1 for x in nd if x[2] > 0)
    removing = sum(1 for c in cases if any(o["op"] in ("DeleteRule", "DeleteFile", "RenameRule", "ChangeKind") for o in c["log"]))
    fin = [r for r in trace if r["ev"] == "Finish"]
    sample = next((r for r in fin if r["deps"]), fin[0])
    cov = {
        "states": sum(m["distinct"] or 0 for m in mc_stats),
        "transitions": sum(m["generated"] or 0 for m in mc_stats),
        "model_level_leads": leads,
        "traces_validated_against_impl": len(cases),
        "samples": [{"case": cases[sample["id"] - 1], "observed": sample["deps"]}],
        "evaluations": len(fin),
        "distinct_nontrivial": with_warning,
        "rule": "distinct = fork tree + (name-status, content) of every commit; non-trivial = histories for which the documentation demands at least one warning",
        "histories_removing_a_rule": removing,
        "histories_with_unparsable_head_file": sum(1 for x in nd if x[4] == 1),
        "histories_with_merge_of_base": sum(1 for c in cases if any(o["op"] == "MergeBase" for o in c["log"])),
        "warnings_reported": sum(x[1] for x in nd), "warnings_documented": sum(x[2] for x in nd),
        "ops_histogram": {k: sum(1 for c in cases for o in c["log"] if o["op"] == k) for k in sorted({o["op"] for c in cases for o in c["log"]})},
        "gen": gstats, "trace_records": len(trace),
    }
    return vlib.conclude(ctx, viols, "model_checking", cov, [
        "one file-level operation per commit; renames are pure moves (validated against real git per commit)",
        "histories whose HEAD holds an unparsable file carry no verdict (binding only); after a merge of the base branch a removed rule may be located by its fork-point or its merge-base lines; selectors name metrics plainly; alertname matchers are equalities; no symlinks",
        "expressions are or-joined selectors over the reference alphabet (recording names, ALERTS{alertname=}, ALERTS_FOR_STATE{alertname=})",
        "dependants compared as sets of (name, path, line); the order of the details list is part of the binding only",
    ], drift=drift)


def replay(ctx, path):
    v = json.load(open(path))
    return run(ctx, cases_override=[v["case"]])
