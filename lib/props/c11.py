"""C11 - results do not depend on worker count or scheduling (spec: Scan / ScanMC / ScanInput / ScanTrace).

MC    : Scan.tla part B (channel machine of checkRules/scanWorker: deadlock freedom, termination, nothing lost,
        arrival orders = order-preserving interleavings) and part C (bags of tie-rich reports: premise => every
        interleaving renders like the canonical order).
GEN   : ScanInput.tla (inputs that make reports tie), then Scan.tla part B again for the job shapes the real
        pipeline produced: every reachable arrival order of small shapes, simulated schedules of large ones.
EXEC  : vh exec-c11-shapes / exec-c11-replay (real Summary.Report -> SortReports -> Dedup -> console/JSON reporters),
        vh exec-c11-bin (real `pint` built with -race -tags verif: --workers x GOMAXPROCS x PINT_VERIF_JITTER).
JUDGE : ScanTrace.tla.
"""
import json
import math
import os
import threading

import vlib
from vlib import prints, write_ndjson, read_ndjson, MachineryError

KINDS = '"clean", "bare", "tmpl", "regexp", "agg", "broken", "both", "ovr", "smelly"'
INPUT_CFG = """SPECIFICATION Spec
CONSTANTS
  MaxRules = %d
  Kinds = {%s}
  Cfgs = {%s}
  Twos = {FALSE, TRUE}
  Grps = {FALSE, TRUE}
  Syms = {%s}
INVARIANTS EmitCase
CHECK_DEADLOCK FALSE
"""
CFGS = '"none", "same", "mixed"'
MCC_CFG = """SPECIFICATION SpecC
CONSTANTS
  Shapes = {}
  Ws = {1}
  MaxJobs = %d
  MaxPerJob = 2
  MaxReports = %d
INVARIANTS %s
CHECK_DEADLOCK FALSE
"""
GEN_MOD = """---- MODULE %(name)s ----
EXTENDS Scan
GenShapes == {%(shapes)s}
NonEmpty(s) == Cardinality({k \\in 1..Len(s) : s[k] > 0})
GenInit == InitB /\\ W = (IF %(wexpr)s)
GenSpec == GenInit /\\ [][NextB]_vars
====
"""
GEN_CFG = """SPECIFICATION GenSpec
CONSTANTS
  Shapes <- GenShapes
  Ws = {%s}
  MaxJobs = 0
  MaxPerJob = 0
  MaxReports = 0
INVARIANTS EmitOrder Inv_NoSendOnClosed
CHECK_DEADLOCK FALSE
"""


def tla_seq(t):
    return "<<" + ", ".join(str(x) for x in t) + ">>"


def n_interleavings(shape):
    n = math.factorial(sum(shape))
    for k in shape:
        n //= math.factorial(k)
    return n


def sig_of(v):
    kinds = sorted(v.get("kinds") or [])
    what = v["what"]
    if isinstance(what, dict) and what.get("race"):
        return "C11:race"
    if isinstance(what, dict) and what.get("exec"):
        return "C11:check-execution-order:cfg=%s:grp=%s" % (v["cfg"], v.get("grp"))
    if not kinds:
        return "C11:order:unexplained:cfg=%s:rules=%s" % (v["cfg"], ",".join(sorted(set(v["rules"]))))
    return "C11:order:" + "+".join(kinds)


def judge(ctx, recs, shards, tag):
    """ScanTrace over `recs`, split at File/BinFile records into parallel TLC processes."""
    if not recs:
        return [], [], [], 0
    starts = [k for k, r in enumerate(recs) if r["ev"] in ("File", "BinFile")]
    # the machine is shared: at most 3 (quick) / 6 (thorough) JUDGE processes at a time (VERIF_JUDGE_SHARDS overrides)
    cap = int(os.environ.get("VERIF_JUDGE_SHARDS") or (6 if ctx.thorough else 3))
    shards = max(1, min(shards, cap, len(starts), (len(recs) + 799) // 800))
    # inputs are dealt round-robin: costly ones (many reports) sit next to each other in the sorted input list
    bounds = starts + [len(recs)]
    parts = [[] for _ in range(shards)]
    for n in range(len(starts)):
        parts[n % shards].extend(recs[bounds[n]:bounds[n + 1]])
    base = open(os.path.join(vlib.SPEC_DIR, "ScanTrace.tla")).read()
    ctx._spec_copy()
    out = [None] * shards
    errs = []

    def one(k):
        try:
            part = parts[k]
            mod = "ScanTrace_%s%d" % (tag, k)
            tf = "c11_trace_%s%d.ndjson" % (tag, k)
            p = write_ndjson(ctx.path("judge", tf), part)
            text = base.replace("MODULE ScanTrace", "MODULE " + mod).replace("c11_trace.ndjson", tf)
            j = ctx.tlc(mod, "ScanTrace.cfg", workers=1, files={tf: p, mod + ".tla": text}, timeout=3000, heap="3g",
                        tag="judge-%s%d" % (tag, k))
            done = prints(j, "DONE")
            if not done or done[0][0] != len(part):
                raise MachineryError("JUDGE %s consumed %s of %d trace records" % (mod, done, len(part)))
            out[k] = j
        except Exception as e:  # noqa
            errs.append(e)

    ths = [threading.Thread(target=one, args=(k,)) for k in range(len(out))]
    for t in ths:
        t.start()
    for t in ths:
        t.join()
    if errs:
        raise errs[0] if isinstance(errs[0], MachineryError) else MachineryError(repr(errs[0]))
    viol, drift, prem = [], [], []
    for j in out:
        viol += prints(j, "VIOL")
        drift += prints(j, "DRIFT")
        prem += prints(j, "PREMISE")
    return viol, drift, prem, len(recs)


def gen_orders(ctx, shapes, thorough, nw):
    """Arrival orders per shape from the channel machine of Scan.tla."""
    small = sorted(s for s in shapes if sum(s) >= 2 and len(s) >= 2 and n_interleavings(s) <= (360 if thorough else 60))
    big = sorted(s for s in shapes if sum(s) >= 2 and len(s) >= 2 and s not in small)
    orders = {s: [] for s in shapes}
    stats = []
    if small:
        text = GEN_MOD % dict(name="ScanGenS", shapes=", ".join(tla_seq(s) for s in small),
                              wexpr="NonEmpty(shape) < 5 THEN NonEmpty(shape) ELSE 5")
        g = ctx.tlc("ScanGenS", "c11_gens.cfg", files={"ScanGenS.tla": text, "c11_gens.cfg": GEN_CFG % "1, 2, 3, 4, 5"},
                    workers=nw, timeout=3000, tag="gen-orders-exhaustive")
        stats.append(g)
        for (c,) in prints(g, "CASE"):
            orders[tuple(c["shape"])].append(c["order"])
        for s in small:
            got = {json.dumps(o) for o in orders[s]}
            # with as many workers as jobs (<= 5) every interleaving is reachable
            if len([k for k in s if k > 0]) <= 5 and len(got) != n_interleavings(s):
                raise MachineryError("GEN: shape %s gave %d arrival orders, %d interleavings exist" % (s, len(got), n_interleavings(s)))
    if big:
        text = GEN_MOD % dict(name="ScanGenB", shapes=", ".join(tla_seq(s) for s in big),
                              wexpr="TRUE THEN W ELSE W")
        per_worker = max(1, ((25 if thorough else 12) * len(big)) // nw + 1)
        g = ctx.tlc("ScanGenB", "c11_genb.cfg", files={"ScanGenB.tla": text, "c11_genb.cfg": GEN_CFG % "2, 3, 8"},
                    workers=nw, simulate=per_worker, depth=400, deadlock=False, timeout=3000, tag="gen-orders-simulated")
        stats.append(g)
        for (c,) in prints(g, "CASE"):
            orders[tuple(c["shape"])].append(c["order"])
    for s in orders:
        seen, uniq = set(), []
        for o in orders[s]:
            k = json.dumps(o)
            if k not in seen:
                seen.add(k)
                uniq.append(o)
        uniq.sort(key=json.dumps)
        orders[s] = uniq
    return orders, small, big, stats


def run(ctx, cases_override=None):
    th = ctx.thorough
    nw = min(vlib.NCPU, 16)
    mcs, leads = [], []
    # ---------------------------------------------------------------- MC
    if cases_override is None:
        for cfgname, tag in (("Scan_MCB.cfg", "mc-channels"), ("Scan_Live.cfg", "mc-termination")):
            m = ctx.tlc("ScanMC", cfgname, workers=nw, timeout=3000, allow_violation=True, tag=tag)
            mcs.append(m)
            if m["invariant_violated"] or m["rc"] != 0:
                leads.append("%s:%s" % (tag, m["invariant_violated"]))
        m = ctx.tlc("Scan", "c11_mcc.cfg", files={"c11_mcc.cfg": MCC_CFG % (3, 4 if th else 3, "Inv_C11 Inv_LazyAgrees")}, workers=nw,
                    timeout=3000, allow_violation=True, tag="mc-bags")
        mcs.append(m)
        if m["invariant_violated"]:
            leads.append("mc-bags:%s" % m["invariant_violated"])
        for inv in ("Never_PremiseWithTies", "Never_C11Fails"):
            v = ctx.tlc("Scan", "c11_vac.cfg", files={"c11_vac.cfg": MCC_CFG % (3, 3, inv)}, workers=1, timeout=3000,
                        allow_violation=True, tag="vacuity-" + inv)
            if v["invariant_violated"] != inv:
                raise MachineryError("vacuity guard %s: not reachable in the model" % inv)
    # ---------------------------------------------------------------- GEN 1: inputs
    if cases_override is None:
        if th:
            g = ctx.tlc("ScanInput", "c11_in.cfg", files={"c11_in.cfg": INPUT_CFG % (3, KINDS, CFGS, "FALSE")}, workers=4, timeout=3000, tag="gen-inputs")
            inputs = [v[0] for v in prints(g, "CASE")]
        else:
            # quick: one/two files without group labels, and one file with group labels (not two files with group labels)
            base = INPUT_CFG % (2, KINDS, CFGS, "FALSE")
            g = ctx.tlc("ScanInput", "c11_in.cfg", files={"c11_in.cfg": base.replace("Grps = {FALSE, TRUE}", "Grps = {FALSE}")}, workers=4, timeout=3000, tag="gen-inputs")
            ga = ctx.tlc("ScanInput", "c11_ina.cfg", files={"c11_ina.cfg": base.replace("Grps = {FALSE, TRUE}", "Grps = {TRUE}").replace("Twos = {FALSE, TRUE}", "Twos = {FALSE}")},
                         workers=4, timeout=3000, tag="gen-inputs-grouplabels")
            inputs = [v[0] for v in prints(g, "CASE")] + [v[0] for v in prints(ga, "CASE")]
        g2 = ctx.tlc("ScanInput", "c11_in2.cfg", files={"c11_in2.cfg": INPUT_CFG % (6, KINDS, CFGS, "FALSE")}, workers=4, simulate=(50 if th else 4),
                     depth=7, deadlock=False, timeout=3000, tag="gen-inputs-long")
        longer = [v[0] for v in prints(g2, "CASE") if len(v[0]["rules"]) > (3 if th else 2)]
        # two unreachable Prometheus servers: every online check is two jobs per rule (same reporter, same lines)
        g3 = ctx.tlc("ScanInput", "c11_in3.cfg", files={"c11_in3.cfg": INPUT_CFG % (2 if th else 1, KINDS, '"prom2"', "FALSE")}, workers=4, timeout=3000, tag="gen-inputs-prom2")
        longer += [v[0] for v in prints(g3, "CASE")]
        # a symlink to the first rule file is linted as well: the same problems under two names with one target
        g4 = ctx.tlc("ScanInput", "c11_in4.cfg", files={"c11_in4.cfg": (INPUT_CFG % (2 if th else 1, KINDS, '"same", "mixed"', "TRUE")).replace("Twos = {FALSE, TRUE}", "Twos = {TRUE}")},
                     workers=4, timeout=3000, tag="gen-inputs-symlink")
        longer += [v[0] for v in prints(g4, "CASE")]
        seen, uniq = set(), []
        for c in inputs + longer:
            k = json.dumps(c, sort_keys=True)
            if k not in seen:
                seen.add(k)
                uniq.append(c)
        inputs = sorted(uniq, key=lambda c: json.dumps(c, sort_keys=True))
    else:
        inputs = [dict(c) for c in cases_override]
    for c in inputs:
        c.setdefault("sym", False)
        c.setdefault("grp", False)
    # ---------------------------------------------------------------- EXEC: shapes
    ipath = write_ndjson(ctx.path("c11_inputs.ndjson"), [{k: c[k] for k in ("cfg", "rules", "two", "grp", "sym")} for c in inputs])
    spath = ctx.path("c11_shapes.ndjson")
    ctx.vh("exec-c11-shapes", ipath, spath, timeout=3000)
    shapes_of = [tuple(r["shape"]) for r in read_ndjson(spath)]
    # ---------------------------------------------------------------- GEN 2: arrival orders
    gen_stats = []
    if cases_override is None or not all("orders" in c for c in inputs):
        orders, small, big, gen_stats = gen_orders(ctx, set(shapes_of), th, nw)
        for c, s in zip(inputs, shapes_of):
            c["orders"] = orders.get(s, [])
    else:
        small, big = [], []
    # ---------------------------------------------------------------- EXEC: replay + JUDGE
    rpath = write_ndjson(ctx.path("c11_replay.ndjson"), [{k: c[k] for k in ("cfg", "rules", "two", "grp", "sym", "orders")} for c in inputs])
    tpath = ctx.path("c11_trace.ndjson")
    ctx.vh("exec-c11-replay", rpath, tpath, timeout=3000)
    trace = read_ndjson(tpath)
    viol, drift, prem, nrec = judge(ctx, trace, nw, "r")
    kinds_of = {fid: k for fid, k in prem}
    viols = []
    for fid, v in viol:
        c = inputs[fid - 1]
        if v["what"].get("exec"):
            msg = "input cfg=%s rules=%s two=%s grp=%s: executing the check jobs in %s order changes what the jobs report" % (
                v["cfg"], v["rules"], v["two"], v.get("grp"), v["what"]["exec"])
        else:
            msg = "input cfg=%s rules=%s two=%s grp=%s: arrival order %s renders differently from the --workers 1 order (outputs %s differ); unseparated pairs: %s" % (
                v["cfg"], v["rules"], v["two"], v.get("grp"), v["what"].get("order"), v["what"].get("outputs"), v["kinds"])
        viols.append({"sig": sig_of(v), "what": msg,
            "case": {"cfg": c["cfg"], "rules": c["rules"], "two": c["two"], "grp": c["grp"], "sym": c.get("sym", False), "orders": [o for k, o in enumerate(c["orders"]) if k + 1 == v["what"].get("oid")]},
            "detail": v})
    drifts = ["input %s: %s" % (fid, json.dumps(d)[:400]) for fid, d in drift]
    # ---------------------------------------------------------------- EXEC: the real binary
    bin_recs = []
    if cases_override is None or any(c.get("_bin") for c in inputs):
        pint = ctx.build_pint(race=True)
        if cases_override is None:
            cand = [k for k, s in enumerate(shapes_of) if len(s) >= 2]
            cand.sort(key=lambda k: (-len(shapes_of[k]), k))
            nsel = 120 if th else 12
            # the inputs with most jobs plus an even sample of the rest
            sel = cand[:nsel // 2] + cand[nsel // 2::max(1, len(cand) // (nsel // 2))][:nsel // 2]
            # ... and inputs with several rules that make promql/regexp consult its (shared) settings
            smelly = [k for k, c in enumerate(inputs) if c["cfg"] != "none" and c["rules"].count("smelly") >= 2][:(6 if th else 2)]
            sym = [k for k, c in enumerate(inputs) if c.get("sym") and len(shapes_of[k]) >= 2][:(6 if th else 1)]
            sel = sorted(set(sel + smelly + sym))
        else:
            sel = list(range(len(inputs)))
        workers = [2, 3, 10, 64]
        procs = [1, 2, 4, 16]
        bin_inputs = []
        for n, k in enumerate(sel):
            combos = []
            if cases_override is not None and inputs[k].get("combos"):
                combos = inputs[k]["combos"]
            elif th:
                for a, w in enumerate(workers):
                    for b, p in enumerate(procs):
                        combos.append([w, p, 0 if (a + b) % 4 == 0 else ctx.seed * 1000 + n * 16 + a * 4 + b + 1])
                combos += [[2, 2, ctx.seed * 7 + 1], [3, 4, ctx.seed * 7 + 2], [2, 16, ctx.seed * 7 + 3], [64, 16, ctx.seed * 7 + 4]]
            else:
                combos = [[2, 2, ctx.seed * 100 + n + 1], [3, 4, ctx.seed * 100 + n + 11], [10, 16, 0], [64, 16, ctx.seed * 100 + n + 21], [2, 1, ctx.seed * 100 + n + 31]]
            # plain lint keeps the weight it had (only there `[+N duplicates]` and the lint.go call order are visible)
            mode = inputs[k].get("mode") or ["lint", "lint", "ci", "lint", "lint-dups", "lint", "lint", "lint-minsev", "lint", "lint", "ci", "lint"][n % 12]
            bin_inputs.append({"cfg": inputs[k]["cfg"], "rules": inputs[k]["rules"], "two": inputs[k]["two"], "grp": inputs[k]["grp"], "sym": inputs[k].get("sym", False),
                               "combos": combos, "mode": mode})
        bpath = write_ndjson(ctx.path("c11_bin_inputs.ndjson"), bin_inputs)
        btrace = ctx.path("c11_bin_trace.ndjson")
        ctx.vh("exec-c11-bin", bpath, btrace, pint, timeout=3000)
        bin_recs = read_ndjson(btrace)
        bviol, _, _, _ = judge(ctx, bin_recs, 2, "b")
        for fid, v in bviol:
            k = sel[fid - 1]
            v["kinds"] = kinds_of.get(k + 1, [])
            w = v["what"]
            c = dict(bin_inputs[fid - 1])
            c["_bin"] = True
            c["mode"] = bin_inputs[fid - 1]["mode"]
            c["combos"] = [[w["workers"], w["procs"], w["seed"]]] * 20
            viols.append({"sig": sig_of(v), "what": "real binary (%s), cfg=%s rules=%s two=%s: --workers %s GOMAXPROCS=%s jitter=%s %s" % (
                bin_inputs[fid - 1]["mode"], v["cfg"], v["rules"], v["two"], w["workers"], w["procs"], w["seed"],
                "reports a DATA RACE" if w["race"] else "differs from --workers 1 in %s (1=stderr 2=json 3=exit)" % w["outputs"]),
                "case": c, "detail": v})
    if leads and not viols and cases_override is None:
        raise MachineryError("model-level counterexample (%s) not reproduced on the real code: spec bug" % leads)
    # ---------------------------------------------------------------- evidence
    orders_rec = [r for r in trace if r["ev"] == "Order"]
    files_rec = [r for r in trace if r["ev"] == "File"]
    nontrivial = sum(1 for r in files_rec if len(r["shape"]) >= 2)
    bins = [r for r in bin_recs if r["ev"] == "Bin"]
    sample = next((r for r in files_rec if len(r["shape"]) >= 3), files_rec[0] if files_rec else None)
    cov = {
        "states": sum(m["distinct"] or 0 for m in mcs),
        "transitions": sum(m["generated"] or 0 for m in mcs),
        "model_level_leads": leads,
        "traces_validated_against_impl": len(orders_rec) + len(bins),
        "samples": [{"input": {k: sample[k] for k in ("cfg", "rules", "two", "shape")},
                     "orders": [{k: r[k] for k in ("order", "final", "h")} for r in orders_rec if r["id"] == sample["id"]][:3]}] if sample else [],
        "evaluations": len(orders_rec) + len(bins),
        "distinct_nontrivial": nontrivial,
        "rule": "inputs: every sequence of <=%d rule kinds (7 kinds) x 3 configurations x one/two files (TLC, exhaustive) plus simulated longer ones; "
                "non-trivial = inputs whose real pipeline run has >=2 jobs with reports; per input every reachable arrival order when the shape has "
                "<=%d interleavings (TLC, exhaustive over the channel machine with as many workers as jobs), else simulated schedules with 2/3/8 workers; "
                "evaluations = arrival orders replayed into the real code + runs of the real -race binary" % (3 if th else 2, 360 if th else 60),
        "exhaustive": False,
        "inputs": len(inputs), "inputs_with_cross_job_ties": len(kinds_of),
        "shapes": len(set(shapes_of)), "shapes_exhaustive": len(small), "shapes_simulated": len(big),
        "orders_replayed": len(orders_rec), "binary_runs": len(bins), "binary_inputs": len([r for r in bin_recs if r["ev"] == "BinFile"]),
        "race_reports": sum(1 for r in bins if r["race"]),
        "mc_runs": [{"tag": m["tag"], "states": m["distinct"], "transitions": m["generated"], "wall_s": m["wall_s"]} for m in mcs + gen_stats],
    }
    return vlib.conclude(ctx, viols, "model_checking", cov, [
        "TLC model-checks the channel machine of checkRules/scanWorker (1-3 workers, channel capacity 5W reached) for deadlock freedom, "
        "termination, loss-free collection and: arrival orders are exactly the order-preserving interleavings of the per-job report sequences",
        "TLC model-checks Report/SortReports/Dedup/renderers on every bag of <=%d tie-rich reports in <=3 jobs: under the stated premise every interleaving renders like the canonical order" % (4 if th else 3),
        "real reports come per job from the in-process pipeline; only order-preserving interleavings (never permutations inside a job) are replayed into the real Summary.Report/SortReports/Dedup/console/JSON code",
        "the real binary is built with -race -tags verif and run with --offline on the same inputs; the jitter hook H4 only yields/sleeps",
        "the Go stable sort is transcribed for <=20 reports (one insertion-sort block); for longer inputs symMerge is not transcribed: the fold is recomputed with the insertion sort only when the comparison is a strict weak order on the input (then every stable sort gives the same sequence), else outputs only",
        "cfg prom2: two Prometheus servers nobody listens on (127.0.0.1:1/2), checks run online; binary modes: lint, lint --show-duplicates, lint --min-severity=bug, ci on a scratch git repository; watch is not run",
    ], drift=drifts)


def replay(ctx, path):
    os.environ["VERIF_NO_EVIDENCE"] = "1"     # a replay runs no model checking: it must not replace the evidence of a full run
    v = json.load(open(path))
    return run(ctx, cases_override=[v["case"]])
