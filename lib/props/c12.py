"""C12 - a 'dead code' report is never a false positive (spec: LabelFlow / LabelFlowTrace)."""
import lflow


def run(ctx):
    return lflow.run(ctx, "C12")


def replay(ctx, path):
    return lflow.replay(ctx, "C12", path)
