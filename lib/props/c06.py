"""C06 - reported positions spell the text they point at (spec: Layout / LayoutGen / LayoutTrace).

MC+GEN  TLC grows layouts from a base document by edit actions (spec/LayoutGen.tla), checks the
        line/column arithmetic of every layout for internal consistency and prints one CASE per layout:
        (a) exhaustively every scalar style x value class x shape x chomping x indicators x indentation
            step for one field at a time (BFS, one edit), (b) random edit sequences (simulation) mixing
            restyling of several fields, list indentation, comment/blank lines, field order, flow
            mappings, extra fields and - nested/embedded - wrappers.
EXEC    vh exec-c06: the real parser (strict + relaxed) and the real lint pipeline on the rendered file;
        characters at every YamlNode.Pos and at every diagnostic's readRange(First, Last, Pos) read back.
JUDGE   spec/LayoutTrace.tla re-renders every layout and evaluates the verdict predicates on the
        recorded real outputs.
"""
import concurrent.futures as cf
import json
import os
import shutil
import subprocess

import vlib
from vlib import prints, write_ndjson, read_ndjson, MachineryError

ALL_FOCUS = ["alert", "record", "expr", "for", "keep_firing_for", "labels.k", "labels.v", "annotations.k", "annotations.v"]


def tla_set(xs):
    return "{" + ", ".join(json.dumps(x) if isinstance(x, str) else str(x) for x in xs) + "}"


def gen_cfg(steps=(2,), leads=(0,), tbs=(0,), ginds=(0,), rsteps=(0,), edits=1, acts=("scalar",), focus=("expr",), sim=False, clean=False, gi0=0, rs0=0, var=0, replay="", seps=("sp",), props=("",), crlf0=False, core=False, wrap0=0):
    return """SPECIFICATION Spec
CONSTANTS
  Steps = %s
  Leads = %s
  TBs = %s
  Seps = %s
  Props = %s
  GInds = %s
  RSteps = %s
  GI0 = %d
  RS0 = %d
  CRLF0 = %s
  Core = %s
  Wrap0 = %d
  BaseVar = %d
  MaxEdits = %d
  Acts = %s
  Focus = %s
  Sim = %s
  Clean = %s
  ReplayFile = "%s"
INVARIANTS Inv_Consistent
CHECK_DEADLOCK FALSE
""" % (tla_set(steps), tla_set(leads), tla_set(tbs), tla_set(seps), tla_set(props), tla_set(ginds), tla_set(rsteps), gi0, rs0, "TRUE" if crlf0 else "FALSE", "TRUE" if core else "FALSE", wrap0, var, edits, tla_set(acts),
       tla_set(focus), "TRUE" if sim else "FALSE", "TRUE" if clean else "FALSE", replay)


def build_vh_overlay(ctx):
    """Harness build with `-overlay`: compiles harness/overlay/diags_export.go.txt into pint's internal/diags
    (nothing is written under the repository) so EXEC calls the real, unexported diags.readRange."""
    if False in ctx._vh and getattr(ctx, "_layout_ovl", False):
        return ctx._vh[False]
    src = ctx.mkdir("harness-src")
    if not os.path.exists(os.path.join(src, "go.mod")):
        ctx._vh.pop(False, None)
        try:
            ctx.build_vh()          # prepares harness-src (copy, replace directive, go.sum) and checks the plain build
        except MachineryError:
            raise
    ovl = os.path.join(src, "overlay.json")
    with open(ovl, "w") as f:
        json.dump({"Replace": {os.path.join(ctx.repo, "internal/diags/zz_verif_layout.go"):
                               os.path.join(src, "overlay", "diags_export.go.txt")}}, f)
    out = ctx.path("bin", "vh")
    cmd = ["go", "build", "-tags", "verif,layoutovl", "-overlay", ovl, "-o", out, "./cmd/vh"]
    r = subprocess.run(cmd, cwd=src, env=vlib.go_env(), capture_output=True, text=True)
    if r.returncode != 0:
        raise MachineryError("harness overlay build failed:\n" + r.stdout + r.stderr)
    ctx._vh[False] = out
    ctx._layout_ovl = True
    return out


def run_gen(ctx, jobs, par=3):
    """jobs: list of dict(tag, cfg, simulate, depth, seed). Returns (cases, stats)."""
    ctx._spec_copy()

    def one(j):
        name = "layout_%s.cfg" % j["tag"]
        return j, ctx.tlc("LayoutGen", name, files={name: j["cfg"]}, workers=j.get("workers", 1 if j.get("simulate") else 4), simulate=j.get("simulate"),
                          depth=j.get("depth"), seed=j.get("seed"), timeout=3000, heap="2g", tag=j["tag"])
    cases, seen, stats = [], set(), []
    with cf.ThreadPoolExecutor(max_workers=par) as ex:
        for j, res in ex.map(one, jobs):
            got = [v[0] for v in prints(res, "CASE")]
            if not got:
                raise MachineryError("GEN %s produced no cases" % j["tag"])
            if not j.get("simulate") and res["distinct"] != len(got):
                raise MachineryError("GEN %s emitted %d cases for %d states" % (j["tag"], len(got), res["distinct"]))
            new = 0
            for c in got:
                k = json.dumps(c["lay"], sort_keys=True)
                if k in seen:
                    continue
                seen.add(k)
                c["part"] = j["tag"]
                cases.append(c)
                new += 1
            stats.append({"tag": j["tag"], "exhaustive": not j.get("simulate"), "states": res["distinct"] if not j.get("simulate") else len(got),
                          "printed": len(got), "new_cases": new})
    return cases, stats


def run_judge(ctx, module, trace_path, prefix, slices=8):
    """Split the trace into slices and judge them with parallel single-worker TLC runs."""
    recs = open(trace_path).read().splitlines()
    n = len(recs)
    slices = max(1, min(slices, (n + 199) // 200), (n + 7999) // 8000)   # at most ~8000 records per TLC run
    per = (n + slices - 1) // slices
    ctx._spec_copy()
    jobs = []
    for k in range(slices):
        part = recs[k * per:(k + 1) * per]
        if not part:
            continue
        fn = "%s_trace_%d.ndjson" % (prefix, k)
        p = ctx.path("judge", fn)
        with open(p, "w") as f:
            f.write("\n".join(part) + "\n")
        cfg = "SPECIFICATION TraceSpec\nCONSTANTS\n  TraceFile = \"%s\"\nCHECK_DEADLOCK FALSE\n" % fn
        jobs.append((k, fn, p, cfg, len(part)))

    def one(j):
        k, fn, p, cfg, cnt = j
        name = "%s_judge_%d.cfg" % (prefix, k)
        res = ctx.tlc(module, name, workers=1, files={fn: p, name: cfg}, timeout=3000, heap="2g", tag="judge-%d" % k)
        done = prints(res, "DONE")
        if not done or done[0][0] != cnt:
            raise MachineryError("JUDGE slice %d consumed %s of %d trace records" % (k, done, cnt))
        return res
    out = {"VIOL": [], "DRIFT": [], "UNEXP": []}
    with cf.ThreadPoolExecutor(max_workers=3) as ex:
        for res in ex.map(one, jobs):
            for t in out:
                out[t] += prints(res, t)
    return out


def sig_of(v):
    return "C06:%s:%s:%s" % (v["kind"], v["wrap"], v["sig"])


WHAT = {
    "readback": "characters at Pos of %(field)s (%(mode)s) spell %(rb)r, the value is %(val)r",
    "span": "Pos of %(field)s (%(mode)s) leaves the scalar's span: %(rb)s (value %(val)r)",
    "lines": "Rule.Lines (%(mode)s) %(rb)s does not enclose the rule's fields %(val)s / leaves the file",
    "diag": "%(mode)s diagnostic on %(field)s: column range reads %(rb)r, value[First..Last] is %(val)r",
    "caret": "%(mode)s diagnostic on %(field)s: carets are printed under %(rb)r instead of %(val)r",
}


def jobs_for(ctx):
    s = ctx.seed
    full = dict(steps=(1, 2, 4), leads=(0, 2), tbs=(0, 1))
    simacts = ("scalar", "indent", "filler", "swap", "add", "crlf")
    newdims = dict(seps=("sp", "tab"), props=("", "tag", "anc"))
    wrapacts = simacts + ("base", "wrap")
    jobs = []
    if not ctx.thorough:
        # exhaustive, one edit: every scalar of the full space for expr (one TLC process per indentation step);
        # the text fields (other value classes, escapes) at the common indentation step
        jobs.append(dict(tag="x-expr-s2", cfg=gen_cfg(focus=("expr",), steps=(2,), leads=(0, 2), tbs=(0, 1))))
        for st in (1, 4):
            jobs.append(dict(tag="x-expr-s%d" % st, cfg=gen_cfg(focus=("expr",), steps=(st,), leads=(0, 2), tbs=(0,))))
        for f in ("alert", "annotations.v", "labels.v"):
            jobs.append(dict(tag="x-" + f.replace(".", ""), cfg=gen_cfg(focus=(f,), steps=(2,), leads=(0,), tbs=(0,))))
        jobs.append(dict(tag="x-small", cfg=gen_cfg(focus=("record", "for", "labels.k", "annotations.k"), steps=(2,), leads=(0,), tbs=(0,))))
        # phase 2, one new dimension at a time (exhaustive): tab after "key:", node properties (!!str, &anchor), CR LF
        jobs.append(dict(tag="x-tabsep", cfg=gen_cfg(focus=("expr",), steps=(2,), leads=(0,), tbs=(0,), seps=("tab",))))
        jobs.append(dict(tag="x-props", cfg=gen_cfg(focus=("expr", "alert"), steps=(2,), leads=(0,), tbs=(0,), props=("tag", "anc"))))
        jobs.append(dict(tag="x-crlf", cfg=gen_cfg(focus=("expr",), steps=(2,), leads=(0,), tbs=(0, 1), crlf0=True)))
        # phase 3: every single wrapper edit around a document that is already embedded under two parent keys
        # (embedding depth 2, empty documents in front, ...)
        jobs.append(dict(tag="x-embed2", cfg=gen_cfg(edits=1, acts=("wrap",), focus=ALL_FOCUS, wrap0=1)))
        # the same with `for` / `expr` (variant 1) and `keep_firing_for` (variant 2) as the LAST key of their rule
        jobs.append(dict(tag="x-last1", cfg=gen_cfg(focus=("for", "expr"), steps=(2,), leads=(0,), tbs=(0,), var=1)))
        jobs.append(dict(tag="x-last2", cfg=gen_cfg(focus=("keep_firing_for",), steps=(2,), leads=(0,), tbs=(0,), var=2)))
        for k in range(3):
            jobs.append(dict(tag="sim%d" % k, simulate=30, depth=7, seed=s * 100 + k,
                             cfg=gen_cfg(ginds=(0, 2, 4), rsteps=(0, 2), edits=6, acts=simacts, focus=ALL_FOCUS, sim=True, **newdims, **full)))
        jobs.append(dict(tag="wrap", simulate=100, depth=4, seed=s * 100 + 40,
                         cfg=gen_cfg(edits=3, acts=("wrap", "base"), focus=ALL_FOCUS, sim=True)))
        for k in range(2):
            jobs.append(dict(tag="wsim%d" % k, simulate=30, depth=7, seed=s * 100 + 50 + k,
                             cfg=gen_cfg(ginds=(0, 2), rsteps=(0, 2), edits=6, acts=wrapacts, focus=ALL_FOCUS, sim=True, **newdims, **full)))
    else:
        # exhaustive, one edit, full space: expr at every list indentation, the text fields at two of them
        for f, gs in (("expr", ((0, 0), (2, 0), (4, 2))), ("alert", ((0, 0), (2, 2))), ("annotations.v", ((0, 0), (4, 0))), ("labels.v", ((0, 0),))):
            for g, r in gs:
                jobs.append(dict(tag="x-%s-g%d%d" % (f.replace(".", ""), g, r), cfg=gen_cfg(focus=(f,), gi0=g, rs0=r, **full)))
        jobs.append(dict(tag="x-small", cfg=gen_cfg(focus=("record", "for", "labels.k", "annotations.k"), **full)))
        jobs.append(dict(tag="x-last1", cfg=gen_cfg(focus=("for", "expr"), var=1, **full)))
        jobs.append(dict(tag="x-last2", cfg=gen_cfg(focus=("keep_firing_for",), var=2, **full)))
        jobs.append(dict(tag="x-embed2", cfg=gen_cfg(edits=2, acts=("wrap",), focus=ALL_FOCUS, wrap0=1), workers=2))
        jobs.append(dict(tag="x-tabsep", cfg=gen_cfg(focus=("expr", "alert", "annotations.v", "labels.v"), seps=("tab",), **full)))
        jobs.append(dict(tag="x-props-expr", cfg=gen_cfg(focus=("expr",), props=("tag", "anc"), **full)))
        jobs.append(dict(tag="x-props-text", cfg=gen_cfg(focus=("alert", "annotations.v"), steps=(2, 4), leads=(0,), tbs=(0, 1), props=("tag", "anc"))))
        jobs.append(dict(tag="x-crlf", cfg=gen_cfg(focus=("expr", "alert", "annotations.v"), crlf0=True, **full)))
        jobs.append(dict(tag="x-pairs1", cfg=gen_cfg(focus=("alert", "expr", "for"), steps=(2, 4), leads=(0,), tbs=(0, 1), edits=2, core=True), workers=4))
        jobs.append(dict(tag="x-pairs2", cfg=gen_cfg(focus=("for", "labels.v", "annotations.v"), steps=(2, 4), leads=(0,), tbs=(0, 1), edits=2, core=True), workers=4))
        for k in range(10):
            jobs.append(dict(tag="sim%d" % k, simulate=110, depth=8, seed=s * 100 + k,
                             cfg=gen_cfg(ginds=(0, 2, 4), rsteps=(0, 2), edits=7, acts=simacts, focus=ALL_FOCUS, sim=True, **newdims, **full)))
        jobs.append(dict(tag="wrap", simulate=800, depth=5, seed=s * 100 + 40,
                         cfg=gen_cfg(edits=4, acts=("wrap", "base"), focus=ALL_FOCUS, sim=True)))
        for k in range(6):
            jobs.append(dict(tag="wsim%d" % k, simulate=90, depth=8, seed=s * 100 + 50 + k,
                             cfg=gen_cfg(ginds=(0, 2), rsteps=(0, 2), edits=7, acts=wrapacts, focus=ALL_FOCUS, sim=True, **newdims, **full)))
    return jobs


def c06_usable(c):
    # C06 judges positions of the fields pint finds; layouts whose wrapper has a sequence level belong to C19
    # (sequence levels, sibling keys holding rule lists of their own)
    return not (c["lay"]["wrap"]["mix"] or any(lv["seq"] or lv["sl"] for lv in c["lay"]["wrap"]["levels"]))


def run(ctx, cases_override=None):
    build_vh_overlay(ctx)
    if cases_override is None:
        cases, gstats = run_gen(ctx, jobs_for(ctx), par=3)
        cases = [c for c in cases if c06_usable(c)]
    else:
        cases, gstats = cases_override, []
    cases.sort(key=lambda c: json.dumps(c["lay"], sort_keys=True))
    for i, c in enumerate(cases):
        c["id"] = i + 1
    cpath = write_ndjson(ctx.path("c06_cases.ndjson"), cases)
    sample = dict(cases[len(cases) // 3])
    for c in cases:                     # the rendered text stays on disk only (memory: thorough runs hold >10^5 cases)
        c.pop("base", None)
        if cases_override is None:
            c.pop("lines", None)
    tpath = ctx.path("c06_trace.ndjson")
    ctx.vh("exec-c06", cpath, tpath)
    head = json.loads(open(tpath).readline())
    if head.get("readrange") != "real":
        raise MachineryError("harness was not built with the readRange overlay")
    j = run_judge(ctx, "LayoutTrace", tpath, "c06", slices=6 if not ctx.thorough else 14)
    viols = []
    for cid, v in j["VIOL"]:
        c = cases[cid - 1]
        viols.append({"sig": sig_of(v), "what": WHAT[v["kind"]] % v, "case": {"lay": c["lay"]},
                      "detail": v})
    # binding failures make the run unusable (exit 2) - unless real violations were found as well: those stand
    if j["UNEXP"] and not vlib.partition_violations(ctx.prop, viols)[1]:
        cid, u = j["UNEXP"][0]
        raise MachineryError("%d record(s) where pint did not find the rules the layout wrote (rendering bug or parser change): "
                             "case %s %s\n%s" % (len(j["UNEXP"]), cid, json.dumps(u), json.dumps(cases[cid - 1]["lay"])[:3000]))
    if os.environ.get("C06_DUMP"):
        write_ndjson(os.environ["C06_DUMP"], [dict(v, id=cid) for cid, v in j["VIOL"]] + [dict(d, id=cid, drift=True) for cid, d in j["DRIFT"]])
    drift = ["case %s: %s" % (cid, json.dumps(d)[:300]) for cid, d in j["DRIFT"]]
    trace_n = sum(1 for _ in open(tpath))
    nodes = diags = 0
    styles = set()
    for line in open(tpath):
        r = json.loads(line)
        for m in ("strict", "relaxed"):
            nodes += sum(len(ru["nodes"]) for ru in r[m]["rules"])
        diags += len(r["diags"])
    for c in cases:
        for ru in c["lay"]["rules"]:
            for it in ru["items"]:
                if it["kind"] == "scalar":
                    styles.add((it["k"], it["sc"]["style"], it["sc"]["cls"], it["sc"]["shape"]))
    nontrivial = sum(1 for c in cases if c["lay"] != cases[0]["lay"])
    cov = {
        "evaluations": nodes + diags,
        "distinct_nontrivial": nontrivial,
        "rule": "one case = one distinct layout (TLC state of spec/LayoutGen.tla, de-duplicated on the abstract layout); all of them "
                "differ from the base document by at least one edit; evaluations = YamlNode positions (strict+relaxed) plus "
                "diagnostics read back and judged",
        "samples": [{"lay": sample["lay"], "lines": sample["lines"]}],
        "exhaustive": False,
        "exhaustive_parts": [g for g in gstats if g["exhaustive"]],
        "simulated_parts": [g for g in gstats if not g["exhaustive"]],
        "layouts": len(cases), "trace_records": trace_n, "yamlnodes_judged": nodes, "diagnostics_judged": diags,
        "distinct_field_style_class_shape": len(styles),
        "states": sum(g["states"] or 0 for g in gstats),
        "explanation": "exploration over a TLA+-generated layout grammar with a TLA+-evaluated oracle; no system state machine is "
                       "model-checked. The x-* parts are exhaustive for one field at a time (every style x value class x shape x "
                       "chomping x indentation indicator x step x header comment x trailing blank of the vocabulary); the sim parts "
                       "are random edit sequences.",
    }
    return vlib.conclude(ctx, viols, "exploration", cov, [
        "layout vocabulary of spec/Layout.tla (8 styles, value classes per field kind, 6 shapes); YAML outside it (tags, anchors, complex keys) is not explored",
        "positions compared after collapsing whitespace runs; ExpectedSpan includes quote delimiters",
        "TLC renders the documents and evaluates the oracle; the Go harness only reads characters back and collapses whitespace",
        "diags.readRange is reached through a go build -overlay export (no file under the repository is written)",
    ], drift=drift)


def render_replay(ctx, path):
    """Replay: TLC renders the stored layout again (the stored lines may predate a change of the rendering)."""
    v = json.load(open(path))
    ctx._spec_copy()
    name = "layout_replay.cfg"
    res = ctx.tlc("LayoutGen", name, workers=1, timeout=600, heap="2g", tag="replay",
                  files={name: gen_cfg(edits=0, acts=(), focus=(), replay="replay_lay.json"), "replay_lay.json": json.dumps(v["case"]["lay"])})
    got = [x[0] for x in prints(res, "CASE")]
    if len(got) != 1:
        raise MachineryError("replay: TLC rendered %d cases" % len(got))
    return got


def replay(ctx, path):
    return run(ctx, cases_override=render_replay(ctx, path))
